import Driver.Util
import MlModel.Model.Rebatch
import MlModel.Model.RebatchGen
open Lean MlModel MlModel.Rebatch
namespace Driver.Rebatch

def kindOf : String → Except String Kind
  | "list" => .ok .list | "tuple" => .ok .tuple | "array" => .ok .array | "other" => .ok .other
  | s => .error s!"bad kind {s}"

def kindStr : Kind → String
  | .list => "list" | .tuple => "tuple" | .array => "array" | .other => "other"

def parseCol (j : Json) : Except String (Col Int) := do
  let k ← kindOf (← Driver.getStr j "k")
  let r ← (← Driver.getArr j "r").toList.mapM (·.getInt?)
  return { kind := k, rows := r }

def parseBatch (j : Json) : Except String (Batch Int) := do
  (← j.getArr?).toList.mapM parseCol

def colJson (c : Col Int) : Json :=
  Json.mkObj [("k", kindStr c.kind), ("r", toJson c.rows)]

def outJson (r : Run Int) : List (String × Json) := [
    ("out", Json.arr (r.out.map fun b => Json.arr (b.map colJson).toArray).toArray),
    ("err", Driver.optErrJson r.err)]

/-- the library of row functions shared with `harness/props/c19.py` (`ROW_FNS`): every input row
yields a list of output rows (exactly one for the row-preserving functions) -/
def rowFn : String → Except String (List Int → List (List Int))
  | "id" => .ok fun r => [r]
  | "sum" => .ok fun r => [[r.sum]]
  | "rev" => .ok fun r => [r.reverse]
  | "dup" => .ok fun r => [r ++ r]
  | "affine" => .ok fun r => [r.map fun x => 2 * x + 1]
  | "first" => .ok fun r => [[r.headD 0]]
  -- row-count-changing functions
  | "twice" => .ok fun r => [r, r]                                        -- every row twice
  | "keep_even" => .ok fun r => if r.headD 0 % 2 = 0 then [r] else []    -- filter
  | "explode" => .ok fun r => List.replicate ((r.headD 0 % 3).toNat) r    -- 0, 1 or 2 copies
  | "none" => .ok fun _ => []                                             -- drops everything
  | s => .error s!"bad row function {s}"

/-- `{"model":"rebatch","target":t,"ncols":n,"pad":p|null,"batches":[[{"k":kind,"r":[..]},..],..]}`
→ `run`, plus `pulls`.  With `"op":"treefn"` and `"fn_batch","nout_kinds","g"` (+ `"skip"`, `"poison"`) →
`treeFnGen` (the iterator-level model of `TreeFn._iterate`; `= treeFn` when nothing fails: `C19_treefn_gen_total`). -/
def handle (j : Json) : Except String Json := do
  let target ← Driver.getNat j "target"
  let ncols ← Driver.getNat j "ncols"
  let bs ← (← Driver.getArr j "batches").toList.mapM parseBatch
  match j.getObjValAs? String "op" with
  | .ok "treefn" =>
    let fb ← Driver.getNat j "fn_batch"
    let kinds ← (← Driver.getArr j "nout_kinds").toList.mapM fun k => do kindOf (← k.getStr?)
    let gname ← Driver.getStr j "g"
    -- `callno`: the one function WITH STATE of the library (a call counter, failing calls counted): the k-th call
    -- adds 1000·k to every element of its rows
    let g ← if gname == "callno" then pure (fun r => [r]) else rowFn gname
    -- `Select` has no function at all (`_identity_fn`): the batch passes through untouched
    let ident := (j.getObjValAs? Bool "ident").toOption.getD false
    -- failing calls: the function raises for a group that holds a poisoned row id in its first column;
    -- `skip` = the runner's `ignore_error`
    let skip := (j.getObjValAs? Bool "skip").toOption.getD false
    let poison ← match j.getObjVal? "poison" with
      | .ok (.arr a) => a.toList.mapM (·.getInt?)
      | _ => pure []
    let bad : Batch Int → Bool := fun b => (b.headD default).rows.any (poison.contains ·)
    let r := if ident then treeFnGen skip fb target ncols ncols (fun b => .ok b) bs
             else if gname == "callno" then
               treeFnGenS skip fb target ncols kinds.length
                 (countingOn bad (fun k r => [r.map (· + 1000 * (k : Int))]) kinds) 0 bs
             else treeFnGen skip fb target ncols kinds.length (failingOn bad g kinds) bs
    return Json.mkObj (outJson r)
  | .ok op => throw s!"bad op {op}"
  | .error _ =>
    let pad ← Driver.getOptInt j "pad"
    let r := run target ncols pad bs
    return Json.mkObj (outJson r ++ [("pulls", toJson (pulls target ncols pad bs))])

end Driver.Rebatch
