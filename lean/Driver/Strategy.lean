import Driver.Util
import MlModel.Model.Strategy
open Lean MlModel MlModel.Strategy MlModel.Shard
namespace Driver.Strategy

/-! The operator library shared with `harness/lib_c03.py` (`APPLY`, `ASSIGN`, `FILTER`).
A row is the list of its columns; `x` = column 0, `y` = column 1 (0 when absent). -/

def rx (r : Row) : Int := r.headD 0
def ry (r : Row) : Int := (r.drop 1).headD 0

/-- `apply(fn, input_keys=cols, output_keys=cols)`: the row keeps `width` columns -/
def applyFn (width : Nat) : String → Except String (Row → Row)
  | "dbl" => .ok fun r => [2 * rx r, ry r].take width
  | "inc" => .ok fun r => [rx r + 1, ry r].take width
  | "sq" => .ok fun r => [rx r * rx r, ry r].take width
  | "neg" => .ok fun r => [- rx r, ry r].take width
  | "swap" => .ok fun r => [ry r, rx r].take width
  | "addxy" => .ok fun r => [rx r + ry r, ry r].take width
  | "yinc" => .ok fun r => [rx r, ry r + 1].take width
  | s => .error s!"bad apply fn {s}"

/-- `assign(new_key, fn, input_keys=...)`: one more column -/
def assignFn : String → Except String (Row → Int)
  | "sumxy" => .ok fun r => rx r + ry r
  | "x2" => .ok fun r => 2 * rx r
  | "one" => .ok fun _ => 1
  | s => .error s!"bad assign fn {s}"

/-- `filter(fn, input_keys='x')`: a predicate on the element (the `x` column of the batch) -/
def filterFn : String → Except String (Bat → Bool)
  | "sum_even" => .ok fun b => (col0 b).sum % 2 == 0
  | "first_pos" => .ok fun b => decide ((col0 b).headD 0 > 0)
  | "len_ge2" => .ok fun b => decide (b.length ≥ 2)
  | "small" => .ok fun b => (col0 b).all fun x => decide (x < 6)
  | "always" => .ok fun _ => true
  | "never" => .ok fun _ => false
  | s => .error s!"bad filter fn {s}"

def parseOp (width : Nat) (j : Json) : Except String (Op Bat) := do
  let k ← Driver.getStr j "op"
  match k with
  | "apply" => do
    let g ← applyFn width (← Driver.getStr j "fn")
    return .row fun b => [b.map g]
  | "assign" => do
    let h ← assignFn (← Driver.getStr j "fn")
    return .row fun b => [b.map fun r => r ++ [h r]]
  | "filter" => do
    let p ← filterFn (← Driver.getStr j "fn")
    return .row fun b => if p b then [b] else []
  | "rebatch" => do
    -- `select(cols, batch_size=n)` / `.batch(n)`: keeps the `width` data columns and re-batches
    let n ← Driver.getNat j "n"
    return .rebatch fun bs => rebatchRows n (bs.map fun b => b.map (·.take width))
  | _ => throw s!"bad op {k}"

inductive AggKind where | moments | collect

def parseAgg (j : Json) : Except String AggKind := do
  match (← Driver.getStr j "kind") with
  | "moments" => return .moments
  | "collect" => return .collect
  | s => throw s!"bad agg {s}"

def AggKind.agg : AggKind → Agg Bat
  | .moments => momentsAgg
  | .collect => collectAgg

/-- the aggregate's result on the stream it is fed -/
def AggKind.resultJson : AggKind → List Bat → Json
  | .moments, out => let r := momentsM.result (momentsM.feed (out.map col0)); toJson [Int.ofNat r.1, r.2.1, r.2.2]
  | .collect, out => toJson (collectM.result (collectM.feed (out.map col0)))

/-- the result after `merge_states` over per-part states (in part order) -/
def AggKind.shardedJson : AggKind → List (List Bat) → Json
  | .moments, outs =>
    let r := momentsM.result (momentsM.mergeStates (outs.map fun o => momentsM.feed (o.map col0)))
    toJson [Int.ofNat r.1, r.2.1, r.2.2]
  | .collect, outs =>
    toJson (collectM.result (collectM.mergeStates (outs.map fun o => collectM.feed (o.map col0))))

/-- one item of the program: an operator, or an aggregate (with its kind for the JSON answer) -/
inductive PItem where
  | op (o : Op Bat)
  | agg (k : AggKind)

def PItem.item : PItem → Item Bat
  | .op o => .op o
  | .agg k => .agg k.agg

def parseItem (width : Nat) (j : Json) : Except String PItem :=
  match j.getObjVal? "agg" with
  | .ok _ => do
    match (← Driver.getStr j "agg") with
    | "moments" => return .agg .moments
    | "collect" => return .agg .collect
    | s => throw s!"bad agg {s}"
  | .error _ => do return .op (← parseOp width j)

structure PTransform where
  attach : Attach
  items : List PItem

def parseTransform (width : Nat) (j : Json) : Except String PTransform := do
  let a ← match (← Driver.getStr j "attach") with
    | "chain" => pure Attach.chain
    | "fuse" => pure Attach.fuse
    | s => throw s!"bad attach {s}"
  let its ← (← Driver.getArr j "items").toList.mapM (parseItem width)
  return { attach := a, items := its }

def outJson (o : List Bat) : Json := Json.arr (o.map (toJson ·)).toArray

/-- round-robin parts of `ShardedIterable`: part `j` = the elements at the positions `≡ j (mod k)` -/
def rrParts {α : Type} (k : Nat) (xs : List α) : List (List α) :=
  (List.range k).map fun j => (xs.zipIdx.filter fun p => p.2 % k == j).map (·.1)

/-- the kinds of all aggregates in program order (same order as `aggFeeds`) -/
def kindsOf (ts : List PTransform) : List AggKind :=
  ts.flatMap fun t => t.items.filterMap fun | .agg k => some k | .op _ => none

/-- aggregate results of the sequential run, in program order -/
def aggsJson (kinds : List AggKind) (p : List (Stage Bat)) (data : List Bat) : Json :=
  Json.arr ((kinds.zip (aggFeeds p data)).map fun (k, af) => k.resultJson af.2).toArray

/-- per-part sequential chained runs, then `merge_states` per aggregate in part order -/
def shardedJson (kinds : List AggKind) (p : List (Stage Bat)) (parts : List (List Bat)) : Json :=
  let feeds : List (List (List Bat)) := parts.map fun part => (aggFeeds p part).map (·.2)
  Json.mkObj [
    ("parts", Json.arr (parts.map outJson).toArray),
    ("out", outJson ((parts.map (output p)).flatten)),
    ("aggs", Json.arr (kinds.zipIdx.map fun (k, i) =>
        k.shardedJson (feeds.map fun f => (f[i]?).getD [])).toArray)]

/-- request `{"model":"strategy","width":w,"data":[batch..],
"transforms":[{"attach":"chain"|"fuse","items":[op|{"agg":kind}..]}..],"shards":[k..],"rr":[k..]}` →
`err` if the assembly is refused, else the sequential output, every stage's output, every aggregate's
result (program order), and the same for the per-shard runs + `merge_states` for every requested
shard count (contiguous `SequenceDataSource` shards, round-robin `ShardedIterable` shards). -/
def handle (j : Json) : Except String Json := do
  let width ← Driver.getNat j "width"
  let data : List Bat ← (← Driver.getArr j "data").toList.mapM fun b => do
    (← b.getArr?).toList.mapM fun r => do (← r.getArr?).toList.mapM (·.getInt?)
  let ts ← (← Driver.getArr j "transforms").toList.mapM (parseTransform width)
  let ks ← match j.getObjVal? "shards" with
    | .ok v => do (← v.getArr?).toList.mapM (·.getNat?)
    | .error _ => pure []
  let rr ← match j.getObjVal? "rr" with
    | .ok v => do (← v.getArr?).toList.mapM (·.getNat?)
    | .error _ => pure []
  let kinds := kindsOf ts
  match assemble (ts.map fun t => (t.attach, t.items.map PItem.item)) with
  | .error e => return Json.mkObj [("err", Driver.errJson e)]
  | .ok p =>
    return Json.mkObj [
      ("err", Json.null),
      ("nstages", toJson p.length),
      ("out", outJson (output p data)),
      ("stage_outs", Json.arr ((stageOuts p data).map outJson).toArray),
      ("aggs", aggsJson kinds p data),
      ("shards", Json.arr (ks.map fun k =>
          Json.mkObj [("k", toJson k), ("r", shardedJson kinds p (shardParts (DS.root data.length) k data))]).toArray),
      ("rr", Json.arr (rr.map fun k =>
          Json.mkObj [("k", toJson k), ("r", shardedJson kinds p (rrParts k data))]).toArray)]

end Driver.Strategy
