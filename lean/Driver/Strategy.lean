import Driver.Util
import MlModel.Model.Strategy
open Lean MlModel MlModel.Strategy MlModel.Shard
namespace Driver.Strategy

/-! The operator library shared with `harness/lib_c03.py` (`APPLY`, `ASSIGN`, `FILTER`).
A row is the list of its columns; `x` = column 0, `y` = column 1 (0 when absent). -/

def rx (r : Row) : Int := r.headD 0
def ry (r : Row) : Int := (r.drop 1).headD 0

/-- `apply(fn, input_keys=cols, output_keys=cols)`: the row keeps `width` columns -/
def applyFn (width : Nat) : String → Except String (Row → Row)
  | "dbl" => .ok fun r => [2 * rx r, ry r].take width
  | "inc" => .ok fun r => [rx r + 1, ry r].take width
  | "sq" => .ok fun r => [rx r * rx r, ry r].take width
  | "neg" => .ok fun r => [- rx r, ry r].take width
  | "swap" => .ok fun r => [ry r, rx r].take width
  | "addxy" => .ok fun r => [rx r + ry r, ry r].take width
  | "yinc" => .ok fun r => [rx r, ry r + 1].take width
  | s => .error s!"bad apply fn {s}"

/-- `assign(new_key, fn, input_keys=...)`: one more column -/
def assignFn : String → Except String (Row → Int)
  | "sumxy" => .ok fun r => rx r + ry r
  | "x2" => .ok fun r => 2 * rx r
  | "one" => .ok fun _ => 1
  | s => .error s!"bad assign fn {s}"

/-- `filter(fn, input_keys='x')`: a predicate on the element (the `x` column of the batch) -/
def filterFn : String → Except String (Bat → Bool)
  | "sum_even" => .ok fun b => (col0 b).sum % 2 == 0
  | "first_pos" => .ok fun b => decide ((col0 b).headD 0 > 0)
  | "len_ge2" => .ok fun b => decide (b.length ≥ 2)
  | "small" => .ok fun b => (col0 b).all fun x => decide (x < 6)
  | "always" => .ok fun _ => true
  | "never" => .ok fun _ => false
  | s => .error s!"bad filter fn {s}"

def parseOp (width : Nat) (j : Json) : Except String (Op Bat) := do
  let k ← Driver.getStr j "op"
  match k with
  | "apply" => do
    let g ← applyFn width (← Driver.getStr j "fn")
    return .row fun b => [b.map g]
  | "assign" => do
    let h ← assignFn (← Driver.getStr j "fn")
    return .row fun b => [b.map fun r => r ++ [h r]]
  | "filter" => do
    let p ← filterFn (← Driver.getStr j "fn")
    return .row fun b => if p b then [b] else []
  | "rebatch" => do
    -- `select(cols, batch_size=n)` / `.batch(n)`: keeps the `width` data columns and re-batches
    let n ← Driver.getNat j "n"
    return .rebatch fun bs => rebatchRows n (bs.map fun b => b.map (·.take width))
  | _ => throw s!"bad op {k}"

inductive AggKind where | moments | collect

def parseAgg (j : Json) : Except String AggKind := do
  match (← Driver.getStr j "kind") with
  | "moments" => return .moments
  | "collect" => return .collect
  | s => throw s!"bad agg {s}"

def AggKind.agg : AggKind → Agg Bat
  | .moments => momentsAgg
  | .collect => collectAgg

/-- the aggregate's result on the stream it is fed -/
def AggKind.resultJson : AggKind → List Bat → Json
  | .moments, out => let r := momentsM.result (momentsM.feed (out.map col0)); toJson [Int.ofNat r.1, r.2.1, r.2.2]
  | .collect, out => toJson (collectM.result (collectM.feed (out.map col0)))

/-- the result after `merge_states` over per-part states (in part order) -/
def AggKind.shardedJson : AggKind → List (List Bat) → Json
  | .moments, outs =>
    let r := momentsM.result (momentsM.mergeStates (outs.map fun o => momentsM.feed (o.map col0)))
    toJson [Int.ofNat r.1, r.2.1, r.2.2]
  | .collect, outs =>
    toJson (collectM.result (collectM.mergeStates (outs.map fun o => collectM.feed (o.map col0))))

structure PStage where
  ops : List (Op Bat)
  kinds : List AggKind

def PStage.st (s : PStage) : Stage Bat := { ops := s.ops, aggs := s.kinds.map AggKind.agg }

def parseStage (width : Nat) (j : Json) : Except String PStage := do
  let ops ← (← Driver.getArr j "ops").toList.mapM (parseOp width)
  let kinds ← (← Driver.getArr j "aggs").toList.mapM parseAgg
  return { ops := ops, kinds := kinds }

def batJson (b : Bat) : Json := toJson b
def outJson (o : List Bat) : Json := Json.arr (o.map batJson).toArray

/-- round-robin parts of `ShardedIterable`: part `j` = the elements at the positions `≡ j (mod k)` -/
def rrParts {α : Type} (k : Nat) (xs : List α) : List (List α) :=
  (List.range k).map fun j => (xs.zipIdx.filter fun p => p.2 % k == j).map (·.1)

/-- per-part sequential chained runs: for every stage, the per-part output streams -/
def partRuns (p : List (Stage Bat)) (parts : List (List Bat)) : List (List (List Bat)) :=
  (List.range p.length).map fun i => parts.map fun part => ((stageOuts p part)[i]?).getD []

def shardedJson (ps : List PStage) (parts : List (List Bat)) : Json :=
  let p := ps.map (·.st)
  let runs := partRuns p parts
  Json.mkObj [
    ("parts", Json.arr (parts.map outJson).toArray),
    -- what the shard runs emit, shard after shard (final stage)
    ("out", outJson ((parts.map (output p)).flatten)),
    ("aggs", Json.arr ((ps.zip runs).map fun (s, outs) =>
        Json.arr (s.kinds.map fun k => k.shardedJson outs).toArray).toArray)]

/-- request `{"model":"strategy","width":w,"data":[batch..],"stages":[{"ops":[..],"aggs":[..]}..],
"shards":[k..],"rr":[k..],"fuse":[i..]}` →
sequential stage outputs and aggregate results, the per-shard-count answers, and for every `i` in
`fuse` whether stage `i` may be fused with stage `i+1` (`fuse?`) and, if so, that the regrouped
pipeline has the same answers (computed, not assumed). -/
def handle (j : Json) : Except String Json := do
  let width ← Driver.getNat j "width"
  let data : List Bat ← (← Driver.getArr j "data").toList.mapM fun b => do
    (← b.getArr?).toList.mapM fun r => do (← r.getArr?).toList.mapM (·.getInt?)
  let ps ← (← Driver.getArr j "stages").toList.mapM (parseStage width)
  let p := ps.map (·.st)
  let outs := stageOuts p data
  let ks ← match j.getObjVal? "shards" with
    | .ok v => do (← v.getArr?).toList.mapM (·.getNat?)
    | .error _ => pure []
  let rr ← match j.getObjVal? "rr" with
    | .ok v => do (← v.getArr?).toList.mapM (·.getNat?)
    | .error _ => pure []
  let fz ← match j.getObjVal? "fuse" with
    | .ok v => do (← v.getArr?).toList.mapM (·.getNat?)
    | .error _ => pure []
  let fuseJson (i : Nat) : Json :=
    match ps[i]?, ps[i+1]? with
    | some a, some b =>
      match a.st.fuse? b.st with
      | .error e => Json.mkObj [("i", toJson i), ("err", Driver.errJson e)]
      | .ok s =>
        let q := p.take i ++ s :: p.drop (i + 2)
        let kq : List PStage := ps.take i ++ { ops := s.ops, kinds := a.kinds ++ b.kinds } :: ps.drop (i + 2)
        Json.mkObj [("i", toJson i), ("err", Json.null),
          ("out", outJson (output q data)),
          ("aggs", Json.arr ((kq.zip (stageOuts q data)).flatMap fun (s, o) =>
              s.kinds.map fun k => k.resultJson o).toArray)]
    | _, _ => Json.mkObj [("i", toJson i), ("err", Json.str "no such stage")]
  return Json.mkObj [
    ("out", outJson (output p data)),
    ("stage_outs", Json.arr (outs.map outJson).toArray),
    ("aggs", Json.arr ((ps.zip outs).map fun (s, o) =>
        Json.arr (s.kinds.map fun k => k.resultJson o).toArray).toArray),
    ("shards", Json.arr (ks.map fun k =>
        Json.mkObj [("k", toJson k), ("r", shardedJson ps (shardParts (DS.root data.length) k data))]).toArray),
    ("rr", Json.arr (rr.map fun k =>
        Json.mkObj [("k", toJson k), ("r", shardedJson ps (rrParts k data))]).toArray),
    ("fuse", Json.arr (fz.map fuseJson).toArray)]

end Driver.Strategy
