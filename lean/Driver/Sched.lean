import Driver.Util
import MlModel.Model.Sched
import MlModel.Model.MergeMulti
import Std.Data.HashSet
/-!
JSON handler of the `Sched` model (C06 / C16).

ops
* `ac_explore` / `it_explore`: exhaustive exploration of the LTS for one fault plan: the set of
  terminal observations over **all** schedules (+ whether a state without any enabled step is
  reachable = the run can hang, and whether the state cap was hit).
* `ac_run` / `it_run`: run an explicit label sequence (witness replays).
* `merge`: `merge_states(states, strict_states_cnt)` of both runner variants on integer states.
-/
open Lean MlModel MlModel.Sched
namespace Driver.Sched

def parseFate (s : String) : Except String Fate :=
  match s with
  | "ok" => .ok .ok
  | "deadline" => .ok .deadline
  | "deadline_after" => .ok .deadline
  | "die" => .ok .die
  | "restart" => .ok .restart
  | "app_error" => .ok .appError
  | _ => .error s!"unknown fate {s}"

def parsePlans (j : Json) : Except String Env := do
  let rows ← Driver.getArr j "plans"
  let plans ← rows.toList.mapM fun r => do
    let a ← r.getArr?
    a.toList.mapM fun x => do parseFate (← x.getStr?)
  return fun w i => ((plans[w]?.getD [])[i]?).getD .ok

def outcomeJson : Option Outcome → Json
  | none => Json.null
  | some .returned => "returned"
  | some .raisedTimeout => "TimeoutError"
  | some .raisedRuntime => "RuntimeError"
  | some .raisedTask => "TaskError"
  | some .closed => "closed"

def sortNat (l : List Nat) : List Nat := (l.toArray.qsort (· < ·)).toList

def pairLt (a b : Nat × Nat) : Bool := a.1 < b.1 || (a.1 == b.1 && a.2 < b.2)
def sortPairs (l : List (Nat × Nat)) : List (Nat × Nat) := (l.toArray.qsort pairLt).toList
def dedupPairs (l : List (Nat × Nat)) : List (Nat × Nat) := (sortPairs l).eraseDups

/-! ### as_completed -/

/-- Exploration uses the macro step "acquire w; submit w" and leaves out the steps that only
toggle `acquired` (`acquire` alone, `releaseMid`): they influence nothing but the `acquired` flags,
which every terminal step clears (theorem `C06_released`). -/
def acSucc (c : ACfg) (s : AC) : List AC :=
  let ws := List.range s.ws.length
  let rs := List.range s.running.length
  ws.filterMap (fun w => (acStep c s (.acquire w)).bind fun s1 => acStep c s1 (.submit w))
    ++ (rs.map ALabel.complete ++ rs.map ALabel.check ++ ws.map ALabel.crash ++ ws.map ALabel.rejoin
        ++ [ALabel.exit, ALabel.noWorkers]).filterMap (acStep c s)

def acObs (s : AC) : Json :=
  Json.mkObj [("outcome", outcomeJson s.outcome), ("yielded", toJson (sortNat s.yielded)),
    ("failed", toJson (sortNat s.failed)),
    ("acquired", toJson (s.ws.filter (·.acquired)).length)]

structure Explored (σ : Type) where
  terminals : List σ := []
  stuck : Bool := false
  truncated : Bool := false
  states : Nat := 0

partial def exploreLoop {σ : Type} [BEq σ] [Hashable σ] (succ : σ → List σ) (isTerminal : σ → Bool)
    (cap : Nat) (todo : List σ) (seen : Std.HashSet σ) (acc : Explored σ) : Explored σ :=
  match todo with
  | [] => { acc with states := seen.size }
  | s :: rest =>
    if isTerminal s then exploreLoop succ isTerminal cap rest seen { acc with terminals := s :: acc.terminals }
    else if seen.size > cap then { acc with truncated := true, states := seen.size }
    else
      let nexts := succ s
      let acc := if nexts.isEmpty then { acc with stuck := true } else acc
      let (todo', seen') := nexts.foldl (fun (p : List σ × Std.HashSet σ) n =>
        if p.2.contains n then p else (n :: p.1, p.2.insert n)) (rest, seen)
      exploreLoop succ isTerminal cap todo' seen' acc

def explore {σ : Type} [BEq σ] [Hashable σ] (succ : σ → List σ) (isTerminal : σ → Bool)
    (cap : Nat) (s0 : σ) : Explored σ :=
  exploreLoop succ isTerminal cap [s0] (Std.HashSet.emptyWithCapacity.insert s0) {}

/-- one pseudo-random maximal run (linear congruential choice among the enabled successors) -/
partial def sampleRun {σ : Type} (succ : σ → List σ) (isTerminal : σ → Bool) (seed fuel : Nat) (s : σ) :
    Option σ :=
  if isTerminal s then some s
  else if fuel == 0 then none
  else
    let nexts := succ s
    if nexts.isEmpty then none
    else
      let seed' := (seed * 6364136223846793005 + 1442695040888963407) % 18446744073709551616
      match nexts[(seed' / 65536) % nexts.length]? with
      | some n => sampleRun succ isTerminal seed' (fuel - 1) n
      | none => none

def sampleMany {σ : Type} (succ : σ → List σ) (isTerminal : σ → Bool) (seed runs : Nat) (s0 : σ) :
    List σ × Nat :=
  (List.range runs).foldl (fun (acc : List σ × Nat) i =>
    match sampleRun succ isTerminal (seed * 1000003 + i * 7919 + 1) 100000 s0 with
    | some t => (t :: acc.1, acc.2)
    | none => (acc.1, acc.2 + 1)) ([], 0)

def dedupJson (l : List Json) : List Json :=
  (l.map (·.compress)).eraseDups.filterMap fun s => (Json.parse s).toOption

def parseACfg (j : Json) : Except String (ACfg × Nat × Nat) := do
  let env ← parsePlans j
  let nw ← Driver.getNat j "workers"
  let nt ← Driver.getNat j "tasks"
  let bad ← (← Driver.getArr j "bad").toList.mapM (·.getNat?)
  let ign := (Driver.getBool j "ignore_failures").toOption.getD false
  let rel := (Driver.getBool j "release_on_raise").toOption.getD true
  return ({ env := env, bad := fun t => bad.contains t, ignoreFailures := ign, releaseOnRaise := rel }, nw, nt)

/-! ### iterate -/

def itLabels (s : IT) : List ILabel :=
  let ws := List.range s.ws.length
  let rs := List.range s.running.length
  let zs := List.range s.zombies.length
  let kms : List (Nat × Bool) := [(1, false), (1, true), (0, true)]
  if s.outcome.isSome then [.merge, .mergeStop]
  else
    ws.map .submit ++ rs.flatMap (fun i => kms.map fun km => ILabel.co i km.1 km.2)
      ++ zs.flatMap (fun i => kms.map fun km => ILabel.zco i km.1 km.2)
      ++ [.drain] ++ rs.map .check ++ [.finish, .merge, .mergeStop] ++ ws.map .crash ++ ws.map .rejoin

/-- quotient used for exploration only: order of the batch queues and dead zombies do not
influence any observable -/
def itNorm (s : IT) : IT :=
  { s with yieldedB := dedupPairs s.yieldedB, outQ := dedupPairs s.outQ,
           zombies := s.zombies.filter fun z => !z.co.done }

def allBatches (c : ICfg) : List (Nat × Nat) :=
  (List.range c.n).flatMap fun sh => (List.range (c.nb sh)).map fun b => (sh, b)

def itObs (c : ICfg) (s : IT) : Json :=
  let res : Json := match s.result with
    | none => Json.null
    | some none => "ValueError"
    | some (some l) => toJson (sortNat l)
  Json.mkObj [("outcome", outcomeJson s.outcome), ("result", res),
    ("complete", toJson ((allBatches c).all fun b => s.yieldedB.contains b)),
    ("finished", toJson (sortNat s.finished)), ("failed", toJson (sortNat s.failed))]

def parseICfg (j : Json) : Except String (ICfg × Nat) := do
  let env ← parsePlans j
  let nw ← Driver.getNat j "workers"
  let nb ← (← Driver.getArr j "nb").toList.mapM (·.getNat?)
  let thr ← Driver.getNat j "threshold"
  let direct := (Driver.getBool j "direct_put").toOption.getD false
  let strict := (Driver.getBool j "strict").toOption.getD true
  return ({ env := env, n := nb.length, nb := fun s => nb[s]?.getD 0, threshold := thr,
            directPut := direct, strict := strict }, nw)

def parseALabel (j : Json) : Except String ALabel := do
  let a ← j.getArr?
  let name ← (a[0]?.getD Json.null).getStr?
  let arg := ((a[1]?.getD (Json.num 0)).getNat?).toOption.getD 0
  match name with
  | "acquire" => return .acquire arg
  | "submit" => return .submit arg
  | "complete" => return .complete arg
  | "check" => return .check arg
  | "releaseMid" => return .releaseMid arg
  | "crash" => return .crash arg
  | "rejoin" => return .rejoin arg
  | "exit" => return .exit
  | "noWorkers" => return .noWorkers
  | "close" => return .close
  | _ => throw s!"unknown label {name}"

def parseILabel (j : Json) : Except String ILabel := do
  let a ← j.getArr?
  let name ← (a[0]?.getD Json.null).getStr?
  let arg := ((a[1]?.getD (Json.num 0)).getNat?).toOption.getD 0
  let k := ((a[2]?.getD (Json.num 0)).getNat?).toOption.getD 0
  let m := ((a[3]?.getD (Json.bool false)).getBool?).toOption.getD false
  match name with
  | "submit" => return .submit arg
  | "co" => return .co arg k m
  | "zco" => return .zco arg k m
  | "drain" => return .drain
  | "check" => return .check arg
  | "finish" => return .finish
  | "merge" => return .merge
  | "mergeStop" => return .mergeStop
  | "crash" => return .crash arg
  | "rejoin" => return .rejoin arg
  | _ => throw s!"unknown label {name}"

def runLabels {σ L : Type} (step : σ → L → Option σ) : σ → List L → Nat → Except String σ
  | s, [], _ => .ok s
  | s, l :: ls, i =>
    match step s l with
    | some s' => runLabels step s' ls (i + 1)
    | none => .error s!"label #{i} not enabled"

def handle (j : Json) : Except String Json := do
  let op ← Driver.getStr j "op"
  match op with
  | "ac_explore" =>
    let (c, nw, nt) ← parseACfg j
    let cap := (Driver.getNat j "cap").toOption.getD 200000
    let r := explore (acSucc c) (fun s => s.outcome.isSome) cap
      (AC.init nw nt)
    return Json.mkObj [("terminals", Json.arr (dedupJson (r.terminals.map acObs)).toArray),
      ("stuck", toJson r.stuck), ("truncated", toJson r.truncated), ("states", toJson r.states)]
  | "it_explore" =>
    let (c, nw) ← parseICfg j
    let cap := (Driver.getNat j "cap").toOption.getD 200000
    let r := explore (fun s => ((itLabels s).filterMap (itStep c s)).map itNorm)
      (fun s => s.outcome.isSome && s.result.isSome) cap (IT.init nw c.n)
    return Json.mkObj [("terminals", Json.arr (dedupJson (r.terminals.map (itObs c))).toArray),
      ("stuck", toJson r.stuck), ("truncated", toJson r.truncated), ("states", toJson r.states)]
  | "ac_sample" =>
    let (c, nw, nt) ← parseACfg j
    let seed := (Driver.getNat j "seed").toOption.getD 1
    let runs := (Driver.getNat j "runs").toOption.getD 50
    let r := sampleMany (acSucc c) (fun s => s.outcome.isSome) seed runs (AC.init nw nt)
    return Json.mkObj [("terminals", Json.arr (dedupJson (r.1.map acObs)).toArray),
      ("stuck", toJson (r.2 != 0)), ("sampled", toJson true)]
  | "it_sample" =>
    let (c, nw) ← parseICfg j
    let seed := (Driver.getNat j "seed").toOption.getD 1
    let runs := (Driver.getNat j "runs").toOption.getD 50
    let r := sampleMany (fun s => ((itLabels s).filterMap (itStep c s)).map itNorm)
      (fun s => s.outcome.isSome && s.result.isSome) seed runs (IT.init nw c.n)
    return Json.mkObj [("terminals", Json.arr (dedupJson (r.1.map (itObs c))).toArray),
      ("stuck", toJson (r.2 != 0)), ("sampled", toJson true)]
  | "ac_run" =>
    let (c, nw, nt) ← parseACfg j
    let ls ← (← Driver.getArr j "schedule").toList.mapM parseALabel
    match runLabels (acStep c) (AC.init nw nt) ls 0 with
    | .ok s => return Json.mkObj [("obs", acObs s)]
    | .error e => return Json.mkObj [("err", Json.str e)]
  | "it_run" =>
    let (c, nw) ← parseICfg j
    let ls ← (← Driver.getArr j "schedule").toList.mapM parseILabel
    match runLabels (itStep c) (IT.init nw c.n) ls 0 with
    | .ok s => return Json.mkObj [("obs", itObs c s), ("merged", toJson s.merged),
        ("timeouts", toJson s.timeoutCnt)]
    | .error e => return Json.mkObj [("err", Json.str e)]
  | "merge" =>
    let states ← (← Driver.getArr j "states").toList.mapM (·.getInt?)
    let strict ← Driver.getNat j "strict"
    let show_ := fun (r : Except ErrKind Int) => match r with
      | .ok v => toJson v
      | .error e => Json.mkObj [("err", Driver.errJson e)]
    return Json.mkObj [("transform", show_ (trMergeStates (· + ·) 0 states strict)),
      ("chained", show_ (chMergeStates (· + ·) 0 states strict))]
  | "merge_multi" =>
    -- `ChainedRunner.merge_states` of a chain with `stages` aggregating stages over a one-shot stream;
    -- a state = one integer component per stage, merge = +
    let rows ← (← Driver.getArr j "states").toList.mapM fun r => do
      let a ← r.getArr?
      a.toList.mapM (·.getInt?)
    let k ← Driver.getNat j "stages"
    let strict ← Driver.getNat j "strict"
    let proj := fun (i : Nat) (row : List Int) => row[i]?.getD 0
    match chMergeMulti (· + ·) 0 proj k ⟨rows⟩ strict with
    | .ok cs => return Json.mkObj [("totals", toJson cs)]
    | .error e => return Json.mkObj [("err", Driver.errJson e)]
  | _ => throw s!"unknown op {op}"

end Driver.Sched
