import Driver.Util
import MlModel.Model.Resume
/-!
Driver handler for `Model/Resume.lean` (wire name "resume").

Request
```
{"model":"resume",
 "src":  {"kind":"seq","chain":[{"idx":i,"num":k,"off":o},...]} | {"kind":"iter","idx":i,"num":k,"off":o},
 "data": [[r,...],...]          one list of integer rows per source element
 "pipe": null | {"a":A,"b":B,"drop":null|{"m":M,"r":R},"target":T}
 "threads": 0 | n,
 "ops":  [["take",k] | ["ckpt"] | ["restore"]]                      (threads = 0)
         [["pull",i] | ["deliver",j] | ["ckpt"] | ["restore"]]      (threads > 0: a schedule)
 "final": k}                    a last `take k` (drain)
```
Answer: `log` (what every take returned), `delivered`/`lost` (surviving timeline), `agg`
(`sum`,`count` of the rows fed to the aggregate), `err`.
-/
open Lean MlModel MlModel.Resume
namespace Driver.Resume

def parseCfg (j : Json) : Except String Cfg := do
  return ⟨← Driver.getNat j "idx", ← Driver.getNat j "num", ← Driver.getNat j "off"⟩

def parseRows (j : Json) : Except String (List Int) := do
  (← j.getArr?).toList.mapM (·.getInt?)

def parseOp (j : Json) : Except String Op := do
  let a ← j.getArr?
  match a.toList with
  | [Json.str "take", k] => return .take (← k.getNat?)
  | [Json.str "ckpt"] => return .ckpt
  | [Json.str "restore"] => return .restore
  | _ => throw s!"bad op {j.compress}"

def parseParOp (j : Json) : Except String ParOp := do
  let a ← j.getArr?
  match a.toList with
  | [Json.str "pull", k] => return .pull (← k.getNat?)
  | [Json.str "deliver", k] => return .deliver (← k.getNat?)
  | [Json.str "ckpt"] => return .ckpt
  | [Json.str "restore"] => return .restore
  | _ => throw s!"bad schedule op {j.compress}"

structure PipeCfg where
  a : Int
  b : Int
  drop : Option (Nat × Nat)
  target : Nat
  /-- a second named transform chained after the first (its own runner): map a₂·x + b₂ -/
  chain2 : Option (Int × Int) := none

def parsePipe (j : Json) : Except String PipeCfg := do
  let a ← Driver.getInt j "a"
  let b ← Driver.getInt j "b"
  let target ← Driver.getNat j "target"
  let drop ← match j.getObjVal? "drop" with
    | .error _ => pure none
    | .ok .null => pure none
    | .ok d => do pure (some (← Driver.getNat d "m", ← Driver.getNat d "r"))
  let chain2 ← match j.getObjVal? "chain2" with
    | .error _ => pure none
    | .ok .null => pure none
    | .ok d => do pure (some (← Driver.getInt d "a", ← Driver.getInt d "b"))
  return ⟨a, b, drop, target, chain2⟩

/-- the user function of the chain: rows ↦ a·row + b -/
def PipeCfg.g (c : PipeCfg) (rows : List Int) : List Int := rows.map fun x => c.a * x + c.b

/-- row-wise chain: map, then drop the element when its first mapped row ≡ r (mod m) -/
def PipeCfg.f (c : PipeCfg) (rows : List Int) : List (List Int) :=
  let out := c.g rows
  match c.drop with
  | none => [out]
  | some (m, r) => if (out.headD 0) % (m : Int) = (r : Int) then [] else [out]

/-- sum and count of the rows fed to the aggregate -/
def sumCount : Agg.Mergeable Int (Int × Nat) (Int × Nat) where
  empty := (0, 0)
  ofBatch := fun xs => (xs.foldl (· + ·) 0, xs.length)
  merge := fun s t => (s.1 + t.1, s.2 + t.2)
  result := id

def rowView (c : PipeCfg) : RowView (List Int) (List Int) (List Int) Int :=
  ⟨id, id, c.g⟩

def rowViewFn (c : PipeCfg) : RowView (List Int) (List Int) Unit Int :=
  ⟨id, fun _ => [], fun rows => (c.f rows).flatten⟩

def rowsJson (r : List Int) : Json := toJson r
def outsJson (r : List (List Int)) : Json := Json.arr (r.map rowsJson).toArray

def aggJson (s : Int × Nat) : Json := Json.mkObj [("sum", toJson s.1), ("count", toJson s.2)]

def errObj (e : ErrKind) : Json := Json.mkObj [("err", Driver.errJson e)]

/-- plain source under a history -/
def runSource {R : Recoverable (List Int)} (it : R.It) (ops : List Op) (final : Nat) : Json :=
  match SrcRun.run R (SrcRun.init R it) (ops ++ [.take final]) with
  | .error e => errObj e
  | .ok r => Json.mkObj [
      ("log", Json.arr (r.log.map outsJson).toArray),
      ("delivered", outsJson r.delivered),
      ("lost", rowsJson []),
      ("agg", Json.null),
      ("err", Json.null)]

def runPipe {R : Recoverable (List Int)} {T : Type} (P : PipeDef (List Int) (List Int) T Int (Int × Nat) (Int × Nat))
    (V : RowView (List Int) (List Int) T Int) (it : R.It) (ops : List Op) (final : Nat)
    (aggOf : PipeIt R (List Int) T (Int × Nat) → Int × Nat := fun p => P.m.result p.agg) : Json :=
  match PipeRun.run R P V (PipeRun.init R P it) (ops ++ [.take final]) with
  | .error e => errObj e
  | .ok r => Json.mkObj [
      ("log", Json.arr (r.log.map outsJson).toArray),
      ("delivered", outsJson (Ev.delivered r.trace)),
      ("lost", rowsJson (Ev.lostRows r.trace)),
      ("agg", aggJson (aggOf r.p)),
      ("err", Json.null)]

def runPar {R : Recoverable (List Int)} (c : PipeCfg) (cursors : List R.It) (sched : List ParOp) : Json :=
  let add := fun (s : Int × Nat) (b : List Int) => sumCount.add s b
  match ParRun.run R c.f add (ParRun.init R sumCount.empty cursors) sched with
  | .error e => errObj e
  | .ok r =>
    -- per producer: for every source element it has not taken yet, the outputs the chain makes of it
    let rest := r.s.cursors.map fun it => ((takeN R (R.size it + 1) it).1.map c.f)
    Json.mkObj [
      ("delivered", outsJson r.delivered),
      ("lost", outsJson r.lost),
      ("buf", outsJson r.s.buf),
      ("rest", Json.arr (rest.map fun sh => Json.arr (sh.map outsJson).toArray).toArray),
      ("agg", aggJson r.s.agg),
      ("err", Json.null)]

def withPipe {R : Recoverable (List Int)} (pipe : Option PipeCfg) (it : R.It) (ops : List Op)
    (final : Nat) : Json :=
  match pipe with
  | none => runSource (R := R) it ops final
  | some c =>
    if c.target = 0 then
      match c.chain2 with
      | none => runPipe (R := R) ⟨Trans.ofFn c.f, sumCount, id⟩ (rowViewFn c) it ops final
      | some (a2, b2) =>
        -- runner "a" (with the aggregate) feeds runner "b"; the chained iterator reports a's aggregate
        let Pa : PipeDef (List Int) (List Int) Unit Int (Int × Nat) (Int × Nat) := ⟨Trans.ofFn c.f, sumCount, id⟩
        let c2 : PipeCfg := ⟨a2, b2, none, 0, none⟩
        let Pb : PipeDef (List Int) (List Int) Unit Int (Int × Nat) (Int × Nat) := ⟨Trans.ofFn c2.f, sumCount, id⟩
        runPipe (R := pipeRec R Pa) Pb (rowViewFn c2) (PipeIt.fresh R Pa it sumCount.empty) ops final
          (fun p => sumCount.result p.src.agg)
    else
      runPipe (R := R) ⟨Trans.chunk c.g c.target, sumCount, id⟩ (rowView c) it ops final

/-- the `num_threads` shards made by `TransformRunner._actual_inputs` (transform.py:406–410) -/
def shardsOf (s : Src) (n : Nat) : Except ErrKind (List Src) :=
  (List.range n).mapM fun i => s.shard ⟨i, n, 0⟩

def handle (j : Json) : Except String Json := do
  let data ← (← Driver.getArr j "data").toList.mapM parseRows
  let src ← j.getObjVal? "src"
  let kind ← Driver.getStr src "kind"
  let pipe ← match j.getObjVal? "pipe" with
    | .error _ => pure none
    | .ok .null => pure none
    | .ok p => do pure (some (← parsePipe p))
  let threads ← Driver.getNat j "threads"
  let final ← Driver.getNat j "final"
  if threads = 0 then
    let ops ← (← Driver.getArr j "ops").toList.mapM parseOp
    if kind == "seq" then
      let chain ← (← Driver.getArr src "chain").toList.mapM parseCfg
      match chain.foldlM Src.shard (Src.root data.length) with
      | .error e => return errObj e
      | .ok s => return withPipe (R := seqRec data) pipe s.iterate ops final
    else
      let cfg ← parseCfg src
      match IterIt.restore cfg with
      | .error e => return errObj e
      | .ok it => return withPipe (R := iterRec data) pipe it ops final
  else
    let sched ← (← Driver.getArr j "ops").toList.mapM parseParOp
    let c := pipe.getD ⟨1, 0, none, 0, none⟩
    if kind == "seq" then
      let chain ← (← Driver.getArr src "chain").toList.mapM parseCfg
      match chain.foldlM Src.shard (Src.root data.length) >>= (shardsOf · threads) with
      | .error e => return errObj e
      | .ok ss => return runPar (R := seqRec data) c (ss.map Src.iterate) sched
    else
      -- `ShardedIterable.shard(i, n)` replaces the shard config (io.py:157)
      let its : List IterIt := (List.range threads).map fun i => ⟨⟨i, threads, 0⟩, 0⟩
      return runPar (R := iterRec data) c its sched

end Driver.Resume
