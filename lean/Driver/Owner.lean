import Driver.Util
import MlModel.Model.Owner
import MlModel.Model.OwnerEnv
import Std.Data.HashSet
/-!
Driver handler `"owner"`.

* `{"model":"owner","mode":"seq","nworkers":n,"pw":[[w..] per pool],"ops":[op..]}` — thread 0 executes
  the pool operations one after the other, alone (a sequential history); after each one the handler
  reports the values returned by the primitive operations and the public observables
  (`is_locked()`, `is_locked(p)`, `is_available(p)`, `acquired_workers(p)`).
  op = `{"op":"acquire_all"|"release_all"|"next_idle"|"release"|"run"|"call_and_wait"|"as_completed", "p":..,
        "usable":[bool per worker], ...}`.
* `{"mode":"sched", ..., "threads":[[op..]..], "sched":[[tid, usable-mask]..]}` — replay one schedule of the LTS
  (for the deterministic thread scheduler of harness/sched).
* `{"mode":"explore", ..., "threads":[[op..]..], "usable":[..]}` — exhaustive exploration of *all*
  interleavings of a small configuration (memoised DFS); checks the invariants that the theorems of
  `Properties/C20.lean` prove.  This is a **test** of the model and of the theorems' hypotheses
  (in particular of the scripts built from unrepaired operations, where it must find the violations).
-/
open Lean MlModel MlModel.Owner
namespace Driver.Owner

def getNats (j : Json) (k : String) : Except String (List Nat) := do
  (← Driver.getArr j k).toList.mapM (·.getNat?)

def getNatsD (j : Json) (k : String) : Except String (List Nat) :=
  match j.getObjVal? k with
  | .error _ => .ok []
  | .ok _ => getNats j k

def getBools (j : Json) (k : String) : Except String (List Bool) := do
  (← Driver.getArr j k).toList.mapM (·.getBool?)

def parseBody (j : Json) : Except String BodyAct := do
  match j.getObjVal? "next" with
  | .ok _ => return .next (← getNats j "next")
  | .error _ => return .releaseUnused (← getNats j "rel")

/-- One request op → the script of primitive operations it stands for. -/
def parseOp (pw : Pid → List Wid) (j : Json) : Except String (List Op) := do
  let op ← Driver.getStr j "op"
  let p ← Driver.getNat j "p"
  match op with
  | "acquire_all" => return [.acquireAll p (← getNats j "ws") (← Driver.getNat j "n")]
  | "release_all" => return [.releaseAll p (← getNatsD j "ws")]
  | "release_all_orig" => return [.releaseAllOrig p (← getNatsD j "ws")]
  | "next_idle" => return [.nextIdle p (← getNats j "ws") (← Driver.getBool j "acq")]
  | "release" => return [.releaseOne p (← Driver.getNat j "w") (← Driver.getBool j "checked")]
  | "finalize" => return [.finalize p]
  | "idle" => return [.idleWorkers p]
  | "call" => return [.callW p (← Driver.getNat j "w")]
  | "alive_workers" => return [.aliveWorkers p false]
  | "is_alive" => return [.isAliveW p (← Driver.getNat j "w")]
  | "acquired_workers" => return [.acquiredWorkers p]
  | "run" => return runScript pw p (← Driver.getNat j "tries")
  | "call_and_wait" => return callAndWaitScript pw p
  | "as_completed" => return asCompletedScript p (← (← Driver.getArr j "body").toList.mapM parseBody)
  | s => throw s!"bad owner op {s}"

def usableOf (bs : List Bool) : Wid → Bool := fun w => bs.getD w true

def resJson : Res → Json
  | .unit => Json.null
  | .workers ws => toJson ws
  | .worker none => Json.str "none"
  | .worker (some w) => toJson w
  | .code n => Json.str s!"code{n}"

def obsJson (nw : Nat) (npools : Nat) (pw : Pid → List Wid) (W : Wid → Worker) : List (String × Json) :=
  let ws := List.range nw
  let ps := List.range npools
  [("locked", toJson (ws.map fun w => isLocked (W w) none)),
   ("locked_by", toJson (ps.map fun p => ws.map fun w => isLocked (W w) (some p))),
   ("available", toJson (ps.map fun p => ws.map fun w => isAvailable (W w) p)),
   ("acquired", toJson (ps.map fun p => acquiredWorkers pw W p))]

def mkPw (pools : List (List Nat)) : Pid → List Wid := fun p => pools.getD p []

def parsePools (j : Json) : Except String (List (List Nat)) := do
  (← Driver.getArr j "pw").toList.mapM fun x => do (← x.getArr?).toList.mapM (·.getNat?)

/-- run thread `t` until its script is exhausted (sequential execution), with fuel -/
def runScriptSeq (pw : Pid → List Wid) (u : Wid → Bool) : Nat → Cfg → Tid → Cfg
  | 0, c, _ => c
  | fuel + 1, c, t =>
    match step? pw u c t with
    | none => c
    | some c' => runScriptSeq pw u fuel c' t

def getOptNat (j : Json) (k : String) : Option Nat :=
  match j.getObjVal? k with
  | .ok v => (v.getNat?).toOption
  | .error _ => none

/-- Sequential histories.  The capacity/liveness oracle is environment state kept here:
`hung` = workers whose only slot is taken by a call that never completes (no capacity),
`dead` = workers pronounced dead (not alive).  `usable w = w ∉ hung ∧ w ∉ dead`.
Env ops: `hang`/`unhang`/`die`/`revive`.  A pool operation may carry `"kills": w`: its task pronounces
worker `w` dead while it runs — applied iff the task is actually executed (`run`: a worker was found;
`call_and_wait`: always; `as_completed`: a worker could be obtained).  `run` on a pool without any live
worker fails in `wait_until_alive` *before* its `try`: it does not start (`not_started`). -/
def handleSeq (j : Json) : Except String Json := do
  let nw ← Driver.getNat j "nworkers"
  let pools ← parsePools j
  let pw := mkPw pools
  let ops ← Driver.getArr j "ops"
  let mut c : Cfg := ⟨fun _ => {}, fun _ => {}⟩
  let mut out : Array Json := #[]
  let mut hung : List Nat := []
  let mut dead : List Nat := []
  for oj in ops do
    let opn ← Driver.getStr oj "op"
    let envOp := opn == "hang" || opn == "unhang" || opn == "die" || opn == "revive"
    let mut results : List Res := []
    let mut notStarted := false
    let mut stuck := false
    let hung0 := hung
    let dead0 := dead
    let u : Wid → Bool := fun w => !hung0.contains w && !dead0.contains w
    let obtainable := (List.range pools.length).map fun p =>
      (pw p).any fun w => isAvailable (c.W w) p && u w
    if envOp then
      let w ← Driver.getNat oj "w"
      if opn == "hang" then hung := w :: hung
      else if opn == "unhang" then hung := hung.filter (· != w)
      else if opn == "die" then dead := w :: dead
      else dead := dead.filter (· != w)
    else
      let p ← Driver.getNat oj "p"
      if opn == "run" && !((pw p).any fun w => !dead0.contains w) then
        notStarted := true
      else
        let script ← parseOp pw oj
        let th := c.T 0
        let before := th.results.length
        c := ⟨c.W, upd c.T 0 { th with script := script }⟩
        c := runScriptSeq pw u 100000 c 0
        let th' := c.T 0
        stuck := th'.cur.isSome || !th'.script.isEmpty
        results := th'.results.drop before
        let ran := match opn with
          | "run" => (match results.head? with | some (.worker (some _)) => true | _ => false)
          | "call_and_wait" => true
          | "as_completed" => obtainable.getD p false
          | _ => false
        match getOptNat oj "kills" with
        | some w => if ran then dead := w :: dead
        | none => pure ()
    out := out.push (Json.mkObj ([
      ("results", Json.arr (results.map resJson).toArray),
      ("not_started", Json.bool notStarted),
      ("dead", toJson ((List.range nw).map fun w => dead.contains w)),
      ("stuck", Json.bool stuck), ("pre_obtainable", toJson obtainable)] ++ obsJson nw pools.length pw c.W))
  return Json.mkObj [("obs", Json.arr out)]

/-! ### schedules and exhaustive exploration -/

def parseThreads (pw : Pid → List Wid) (j : Json) : Except String (List (List Op)) := do
  (← Driver.getArr j "threads").toList.mapM fun tj => do
    let ops ← (← tj.getArr?).toList.mapM (parseOp pw)
    return ops.flatten

def initCfg (threads : List (List Op)) : Cfg :=
  ⟨fun _ => {}, fun t => { script := threads.getD t [] }⟩

def pcName : MPc → String
  | .aEnter => "aEnter" | .aRdPool => "aRdPool" | .aTry => "aTry" | .aWr => "aWr" | .aRd2 => "aRd2"
  | .aExit _ => "aExit" | .rEnter => "rEnter" | .rRdLocked1 => "rRdLocked1" | .rRdPool => "rRdPool"
  | .rRdLocked2 => "rRdLocked2" | .rUnlock => "rUnlock" | .rWr => "rWr" | .rExit => "rExit"
  | .vRdLocked => "vRdLocked" | .vRdPool => "vRdPool" | .lRdLocked => "lRdLocked" | .lRdPool => "lRdPool"
  | .cEnter => "cEnter" | .cExit => "cExit" | .iEnter => "iEnter" | .iExit => "iExit"
  | .kEnter => "kEnter" | .kExit => "kExit"

/-- label of the step thread `t` is about to take (for trace comparison with the real scheduler) -/
def label (c : Cfg) (t : Tid) : String :=
  match (c.T t).cur with
  | some (cl, _) => s!"{pcName cl.pc}(w{cl.w},p{cl.p})"
  | none => match (c.T t).script with
    | [] => "end"
    | _ => "start"

def handleSched (j : Json) : Except String Json := do
  let nw ← Driver.getNat j "nworkers"
  let pools ← parsePools j
  let pw := mkPw pools
  let threads ← parseThreads pw j
  let sched ← (← Driver.getArr j "sched").toList.mapM fun sj => do
    let t ← Driver.getNat sj "t"
    let u ← getBools sj "usable"
    return (t, u)
  let mut c := initCfg threads
  let mut trace : Array Json := #[]
  for (t, u) in sched do
    match step? pw (usableOf u) c t with
    | none => trace := trace.push (Json.mkObj [("t", toJson t), ("label", Json.str "disabled")])
    | some c' =>
      trace := trace.push (Json.mkObj [("t", toJson t), ("label", Json.str (label c t))])
      c := c'
  let nt := threads.length
  return Json.mkObj ([
    ("trace", Json.arr trace),
    ("results", Json.arr ((List.range nt).map fun t => Json.arr (((c.T t).results.map resJson).toArray)).toArray),
    ("finished", toJson ((List.range nt).map fun t => (c.T t).cur.isNone && (c.T t).script.isEmpty))]
    ++ obsJson nw pools.length pw c.W)

def key (nw nt : Nat) (c : Cfg) : String :=
  toString (repr ((List.range nw).map c.W, (List.range nt).map fun t =>
    let th := c.T t; (th.script, th.cur, th.exited)))

/-- pools the thread still acts for -/
def actsFor (th : Thread) : List Pid :=
  th.script.map Op.pool ++ (match th.cur with | some (_, k) => [k.pool] | none => [])

structure Explore where
  seen : Std.HashSet String := {}
  states : Nat := 0
  steps : Nat := 0
  finals : Nat := 0
  deadlocks : Nat := 0
  badOwner : Nat := 0      -- `lock ↔ pool ≠ none` broken outside the critical section
  steals : Nat := 0        -- ownership of p removed by a thread not acting for p
  badExit : Nat := 0       -- sole driver left its finaliser with an acquired worker
  firstBad : Option String := none

partial def explore (pw : Pid → List Wid) (u : Wid → Bool) (nw nt : Nat) (c : Cfg) (ex : Explore) : Explore := Id.run do
  let k := key nw nt c
  if ex.seen.contains k then return ex
  let mut ex := { ex with seen := ex.seen.insert k, states := ex.states + 1 }
  -- state invariant
  for w in List.range nw do
    let x := c.W w
    if x.sl.isNone && (x.lock != x.pool.isSome) then
      ex := { ex with badOwner := ex.badOwner + 1, firstBad := ex.firstBad <|> some s!"owner {k}" }
  -- exit property for pools driven by one thread
  for t in List.range nt do
    let th := c.T t
    if th.cur.isNone then
      if let some p := th.exited then
        let sole := (List.range nt).all fun t' => t' == t || !(actsFor (c.T t')).contains p
        if sole && !(acquiredWorkers pw c.W p).isEmpty then
          ex := { ex with badExit := ex.badExit + 1, firstBad := ex.firstBad <|> some s!"exit {k}" }
  let mut enabled := 0
  for t in List.range nt do
    match step? pw u c t with
    | none => pure ()
    | some c' =>
      enabled := enabled + 1
      ex := { ex with steps := ex.steps + 1 }
      -- no stealing
      for w in List.range nw do
        match (c.W w).pool with
        | some p =>
          if (c'.W w).pool != some p then
            let acting := match (c.T t).cur with | some (cl, _) => cl.p | none => p
            if acting != p then
              ex := { ex with steals := ex.steals + 1,
                              firstBad := ex.firstBad <|> some s!"steal by t{t} of w{w} from p{p}: {k}" }
        | none => pure ()
      ex := explore pw u nw nt c' ex
  if enabled == 0 then
    let done := (List.range nt).all fun t => (c.T t).cur.isNone && (c.T t).script.isEmpty
    if done then ex := { ex with finals := ex.finals + 1 }
    else ex := { ex with deadlocks := ex.deadlocks + 1, firstBad := ex.firstBad <|> some s!"deadlock {k}" }
  return ex

def handleExplore (j : Json) : Except String Json := do
  let nw ← Driver.getNat j "nworkers"
  let pools ← parsePools j
  let pw := mkPw pools
  let threads ← parseThreads pw j
  let u := usableOf (← getBools j "usable")
  let ex := explore pw u nw threads.length (initCfg threads) {}
  return Json.mkObj [
    ("states", toJson ex.states), ("steps", toJson ex.steps), ("finals", toJson ex.finals),
    ("deadlocks", toJson ex.deadlocks), ("bad_owner", toJson ex.badOwner), ("steals", toJson ex.steals),
    ("bad_exit", toJson ex.badExit),
    ("first_bad", match ex.firstBad with | none => Json.null | some s => Json.str s)]

/-! ### the product with the liveness environment: schedule replay (`xsched`) and model-guided coverage (`xcover`) -/

section XSched
open MlModel.OwnerEnv

def parseEOp (j : Json) : Except String EOp := do
  match (← Driver.getStr j "op") with
  | "die" => return .die (← Driver.getNat j "w")
  | "revive" => return .revive (← Driver.getNat j "w")
  | "send" => return .send (← Driver.getNat j "w") (← Driver.getBool j "alive")
  | "deliver" => return .deliver (← Driver.getNat j "k") (← Driver.getBool j "fail")
  | "tick" => return .tick (← Driver.getNat j "d")
  | "shutdown" => return .shutdown (← Driver.getNat j "w")
  | s => throw s!"bad env op {s}"

/-- (real-code label, program point) of the step thread `t` is about to take -/
def xlabel (x : X) (t : Tid) : String × String :=
  match (x.base.T t).cur with
  | some (cl, _) =>
    let w := cl.w
    match cl.pc with
    | .aEnter => (s!"acquire SL{w}", "aEnter") | .aRdPool => (s!"rdpool {w}", "aRdPool")
    | .aTry => (s!"tryacquire L{w}", "aTry") | .aWr => (s!"wrpool {w}", "aWr")
    | .aRd2 => (s!"rdpool {w}", "aRd2") | .aExit _ => (s!"release SL{w}", "aExit")
    | .rEnter => (s!"acquire SL{w}", "rEnter") | .rRdLocked1 => (s!"locked L{w}", "rRdLocked1")
    | .rRdPool => (s!"rdpool {w}", "rRdPool") | .rRdLocked2 => (s!"locked L{w}", "rRdLocked2")
    | .rUnlock => (s!"release L{w}", "rUnlock") | .rWr => (s!"wrpool {w}", "rWr")
    | .rExit => (s!"release SL{w}", "rExit")
    | .vRdLocked => (s!"locked L{w}", "vRdLocked") | .vRdPool => (s!"rdpool {w}", "vRdPool")
    | .lRdLocked => (s!"locked L{w}", "lRdLocked") | .lRdPool => (s!"rdpool {w}", "lRdPool")
    | .cEnter => (s!"acquire SL{w}", "cEnter") | .cExit => (s!"release SL{w}", "cExit")
    | .iEnter =>
      match x.env.mic t with
      | .strAcq _ => ("acquire RL", "r.strAcq") | .strRel _ => ("release RL", "r.strRel")
      | _ => (s!"acquire SL{w}", "iEnter")
    | .iExit =>
      match x.env.mic t with
      | .foldAcq .. => ("acquire RL", "i.foldAcq") | .foldRel .. => ("release RL", "i.foldRel")
      | .getAcq _ => ("acquire RL", "i.getAcq") | .getRel .. => ("release RL", "i.getRel")
      | _ => (s!"release SL{w}", "iExit")
    | .kEnter => (s!"acquire SL{w}", "kEnter") | .kExit => (s!"release SL{w}", "kExit")
  | none =>
    match x.env.ctl t with
    | .rTick .. => ("clock", "c.rTick")
    | .rCond _ _ ticker => ("clock", if x.env.now - ticker < 180 then "c.rCond" else "c.rCond.err")
    | .rAlive .. =>
      (match lastRes x t with
       | some (.workers (_ :: _)) => ("clock", "c.rAlive.ret")
       | _ => ("sleep", "c.rAlive.sleep"))
    | .rNext .. => ("sleep", "c.rNext")
    | .rClockN _ _ st ow =>
      ("clock", if x.env.now - st > 180 then "c.rClockN.timeout" else if ow.isSome then "c.rClockN.submit" else "c.rClockN.again")
    | .rSub .. =>
      (match lastRes x t with
       | some .unit => ("fwait", "c.rSub.wait")
       | some (.code 1) => ("sleep", if x.env.now - x.env.sticker t < x.env.thr then "c.rSub.sleepAlive" else "c.rSub.disconnected")
       | _ => ("sleep", "c.rSub.sleepCap"))
    | .sSub .. =>
      (match lastRes x t with
       | some (.code 1) => ("sleep", if x.env.now - x.env.sticker t < x.env.thr then "c.sSub.sleepAlive" else "c.sSub.disconnected")
       | _ => ("sleep", "c.sSub.sleepCap"))
    | .cAcq .. => ("clock", "c.cAcq")
    | .cWait .. => ("wdone", "c.cWait")
    | .rErr _ | .fin .. => ("end", "end")
    | .ac a =>
      let pcn := match a.pc with
        | .alive1 => "alive1" | .alive2 => "alive2" | .next => "next" | .sub .. => "sub" | .polled _ st _ _ =>
          (match st with | .queued => "polled.queued" | .ok => "polled.ok" | .failed => "polled.failed" | .cancelled => "polled.cancelled")
        | .isAl .. => (if x.env.acRaced t then "isAl.raced" else if x.env.lastAlive t then "isAl.alive" else "isAl.dead")
        | .acq => "acq" | .rel => "rel"
      match acPlan a (x.base.T t).script.head? (lastRes x t) x.env.callSt (x.env.lastAlive t) (x.env.acRaced t)
          (decide (x.env.now - x.env.sticker t < x.env.thr)) ((x.env.tcalls t).getLast?.getD 0) with
      | none => ("end", "a." ++ pcn ++ ".none")
      | some act =>
        match act.piece with
        | none => ("tdone", "a." ++ pcn ++ ">poll")
        | some op =>
          let kind := match op with
            | .aliveWorkers .. => "workers" | .nextIdle .. => "nextIdle" | .submitW _ _ s => s!"submit{min s 2}"
            | .isAliveW .. => "isAlive" | .acquiredWorkers _ => "acquired"
            | .releaseAll _ ws => (if ws.isEmpty then "releaseEmpty" else "release")
            | .finalize _ => (match act.ctl with
                | .fin _ .ok => "fin.ok" | .fin _ .closed => "fin.closed" | .fin _ .raised => "fin.raised"
                | .fin _ .noWorker => "fin.noWorker" | .fin _ .disconnected => "fin.disconnected" | _ => "fin")
            | _ => "other"
          let sleeping := match a.pc, lastRes x t with
            | .sub .., some (.code _) => true
            | _, _ => false
          (if sleeping then "sleep" else "start", "a." ++ pcn ++ ">" ++ kind)
    | .idle =>
    match x.env.prog t with
    | .asCompleted .. :: _ => ("start", "a.start")
    | .run .. :: _ => ("start", "c.start.run")
    | .callAndWait .. :: _ => ("start", "c.start.caw")
    | .submitNB .. :: _ => ("start", "c.start.submit")
    | .prim :: _ => ("start", "start")
    | [] =>
    match (x.base.T t).script with
    | _ :: _ => ("start", "start")
    | [] =>
      match x.env.mic t with
      | .dieAcq _ => ("acquire RL", "e.die.acq") | .dieRel => ("release RL", "e.die.rel")
      | .revAcq .. => ("acquire RL", "e.revive.acq") | .revRel => ("release RL", "e.revive.rel")
      | .hbAcq _ _ al _ => ("acquire RL", if al then "e.hb.register" else "e.hb.unregister")
      | .hbRel _ => ("release RL", "e.hb.rel")
      | _ =>
        match x.env.escript t with
        | .die _ :: _ => ("start", "e.die") | .revive _ :: _ => ("start", "e.revive")
        | .send .. :: _ => ("start", "e.send") | .tick _ :: _ => ("start", "e.tick")
        | .shutdown _ :: _ => ("start", "e.shutdown")
        | .deliver k fail :: _ =>
          ("start", match x.env.queue with
            | [] => "e.deliver.empty"
            | q => if x.env.callSt (q.getD (k % q.length) 0) == .cancelled then "e.deliver.cancelled" else
              if (x.env.callSt (q.getD (k % q.length) 0)).done then "e.deliver.preset" else
              if fail then "e.deliver.fail" else
              match x.env.calls[q.getD (k % q.length) 0]? with
              | some (.hb .., _) => "e.deliver.hb" | some (.ping _, _) => "e.deliver.ping"
              | some (.taskRaise _, _) => "e.deliver.taskRaise"
              | some (.shutdownC _, _) => "e.deliver.shutdown"
              | _ => "e.deliver.plain")
        | [] => ("end", "end")

structure XSetup where
  nw : Nat
  pools : List (List Nat)
  nt : Nat
  x0 : X

def isComposite (j : Json) : Bool :=
  match j.getObjValAs? String "op" with
  | .ok "run" | .ok "call_and_wait" | .ok "submit" => true
  | .ok "as_completed" => (j.getObjVal? "script").toOption.isSome      -- round 11: as a program (the script carries the environment's choices)
  | _ => false

def parseX (j : Json) : Except String XSetup := do
  let nw ← Driver.getNat j "nworkers"
  let pools ← parsePools j
  let pw := mkPw pools
  let thr ← Driver.getInt j "thr"
  let now ← Driver.getInt j "now"
  let reg0 ← (← Driver.getArr j "reg0").toList.mapM (·.getStr?)
  let mps ← getNatsD j "mp"
  let ths ← Driver.getArr j "threads"
  let mut scripts : List (List Op) := []
  let mut escripts : List (List EOp) := []
  let mut progs : List (List TOp) := []
  for tj in ths do
    let kind ← Driver.getStr tj "kind"
    let ops ← Driver.getArr tj "ops"
    if kind == "pool" then
      let anyComp := ops.toList.any isComposite
      let mut sc : List Op := []
      let mut pg : List TOp := []
      for oj in ops.toList do
        if isComposite oj then
          let p ← Driver.getNat oj "p"
          let raises := (oj.getObjValAs? String "task").toOption == some "raise"
          let opn ← Driver.getStr oj "op"
          let wv := (getOptNat oj "w").getD 0
          if opn == "as_completed" then
            let tasks ← getBools oj "tasks"
            let ign ← Driver.getBool oj "ignore"
            let fixed ← Driver.getBool oj "fixed"
            for pj in (← Driver.getArr oj "script").toList do
              sc := sc ++ (← parseOp pw pj)
            pg := pg ++ [TOp.asCompleted p tasks ign (getOptNat oj "take") fixed]
          else
          pg := pg ++ [if opn == "run" then TOp.run p raises
                       else if opn == "submit" then TOp.submitNB p wv raises
                       else TOp.callAndWait p raises]
        else
          sc := sc ++ (← parseOp pw oj)
          pg := pg ++ [TOp.prim]
      scripts := scripts ++ [sc]
      escripts := escripts ++ [[]]
      progs := progs ++ [if anyComp then pg else []]
    else
      scripts := scripts ++ [[]]
      escripts := escripts ++ [← ops.toList.mapM parseEOp]
      progs := progs ++ [[]]
  let reg : Registry.Reg := fun a =>
    match reg0.getD a "absent" with
    | "alive" => some (some now)
    | "dead" => some none
    | _ => none
  let env : Env := { reg := reg, now := now, thr := thr, escript := fun t => escripts.getD t [],
                     prog := fun t => progs.getD t [], mp := fun w => mps.getD w 1 }
  return ⟨nw, pools, ths.size, ⟨initCfg scripts, env⟩⟩

/-- The pieces a composite operation of pool `p` can start. -/
def pieceCandidates (pw : Pid → List Wid) (p : Pid) : List Op :=
  [.aliveWorkers p false, .aliveWorkers p true, .nextIdle p (pw p) true, .finalize p, .acquireAllCall p] ++
  (pw p).flatMap fun w => [.submitW p w 0, .submitW p w 1, .submitW p w 2]

def ctlPool (x : X) (t : Tid) : Option Pid :=
  match x.env.ctl t with
  | .rTick p _ | .rCond p _ _ | .rAlive p _ _ | .rErr p | .rNext p _ _ | .rClockN p _ _ _ | .rSub p _ _
  | .fin p _ | .cAcq p _ | .cWait p _ _ | .sSub p _ _ => some p
  | .ac _ => none
  | .idle => match x.env.prog t with
    | .callAndWait p _ :: _ => some p
    | .submitNB p _ _ :: _ => some p
    | _ => none

def pushOp (x : X) (t : Tid) (op : Op) : X :=
  let th := x.base.T t
  ⟨⟨x.base.W, upd x.base.T t { th with script := op :: th.script }⟩, x.env⟩

/-- `xstep?`, with the prophecy supplied on demand: when the controller of a composite operation wants to start a piece,
the piece (the one candidate the controller accepts) is put in front of the thread's script first.  Returns the
configuration the step was taken from (with the pushed piece) and the successor. -/
def xstepP (pw : Pid → List Wid) (x : X) (t : Tid) : Option (X × X) :=
  let pushed : Option (X × X) :=
    match (x.base.T t).cur, ctlPool x t with
    | none, some p =>
      (pieceCandidates pw p).findSome? fun op =>
        let xp := pushOp x t op
        match xstep? pw xp t with
        | some x' => if (x'.base.T t).script.length < (xp.base.T t).script.length then some (xp, x') else none
        | none => none
    | none, none =>
      -- round 11: inside `as_completed` only the pieces of `worker.submit` are supplied on demand; every other piece (and with it
      -- the environment's choices) is the next operation of the observed script
      match x.env.ctl t with
      | .ac a =>
        (match a.pc with
         | .next | .sub .. =>
           ((pw a.p).flatMap fun w => [Op.submitW a.p w 0, .submitW a.p w 1, .submitW a.p w 2]).findSome? fun op =>
             let xp := pushOp x t op
             match xstep? pw xp t with
             | some x' => if (x'.base.T t).script.length < (xp.base.T t).script.length then some (xp, x') else none
             | none => none
         | _ => none)
      | _ => none
    | _, _ => none
  -- (the piece is always supplied by the prophecy, never taken from the thread's own pending primitive operations)
  match pushed with
  | some r => some r
  | none => (xstep? pw x t).map fun x' => (x, x')

def xenabled (pw : Pid → List Wid) (nt : Nat) (x : X) : List Nat :=
  (List.range nt).filter fun t => (xstepP pw x t).isSome

def outcJson : Outc → Json
  | .ok => "ok" | .raised => "raised" | .noWorker => "noWorker" | .notStarted => "notStarted"
  | .disconnected => "disconnected" | .closed => "closed"

def entryJson : Registry.Entry → Json
  | none => Json.str "absent"
  | some none => Json.null
  | some (some t) => toJson t

def threadFinished (x : X) (t : Tid) : Bool :=
  let c := x.base
  (c.T t).cur.isNone && (c.T t).script.isEmpty && (x.env.escript t).isEmpty && x.env.mic t == .idle &&
    x.env.ctl t == .idle && (x.env.prog t).isEmpty

def handleXSched (j : Json) : Except String Json := do
  let s ← parseX j
  let pw := mkPw s.pools
  let sched ← (← Driver.getArr j "sched").toList.mapM (·.getNat?)
  let nt := s.nt
  let mut x := s.x0
  let mut trace : Array Json := #[]
  let mut enabled : Array Json := #[]
  let mut regs : Array Json := #[]
  let mut accepted := true
  let mut started : Array (List Op) := Array.replicate nt []      -- operations / pieces started so far, per thread
  let mut opres : Array (Array Json) := Array.replicate nt #[]    -- results per operation of the thread's program
  for t in sched do
    if accepted then
      let en := xenabled pw nt x
      match xstepP pw x t with
      | none => accepted := false
      | some (xp, x') =>
        let (l, pp) := xlabel xp t
        enabled := enabled.push (toJson en)
        regs := regs.push (Json.arr ((List.range s.nw).map fun w => entryJson (x.env.reg w)).toArray)
        trace := trace.push (Json.arr #[toJson t, Json.str l, Json.str pp])
        if (x'.base.T t).script.length < (xp.base.T t).script.length then
          started := started.modify t fun l => l ++ (xp.base.T t).script.take 1
        if (x'.env.outs t).length > (xp.env.outs t).length then
          opres := opres.modify t fun a => a.push (match (x'.env.outs t).getLast? with | some o => outcJson o | none => Json.null)
        else if xp.env.ctl t == .idle && x'.env.ctl t == .idle &&
            (x'.base.T t).results.length > (xp.base.T t).results.length then
          opres := opres.modify t fun a => a.push (match (x'.base.T t).results.getLast? with | some r => resJson r | none => Json.null)
        x := x'
  -- second pass: the same schedule on the pure `xstep?` from the initial configuration whose scripts are the
  -- discovered prophecy (pieces in the order they were started, then what was not started yet)
  let x0' : X := ⟨⟨s.x0.base.W, fun t => { (s.x0.base.T t) with script := (started.getD t []) ++ (x.base.T t).script }⟩, s.x0.env⟩
  let mut y := x0'
  let mut k := 0
  let mut prophecyOk := true
  for t in sched do
    if k < trace.size && prophecyOk then
      match xstep? pw y t with
      | none => prophecyOk := false
      | some y' =>
        let (l, pp) := xlabel y t
        if trace[k]! != Json.arr #[toJson t, Json.str l, Json.str pp] then prophecyOk := false
        y := y'
        k := k + 1
  let c := x.base
  return Json.mkObj ([
    ("accepted", Json.bool accepted), ("prophecy_ok", Json.bool prophecyOk),
    ("trace", Json.arr trace), ("enabled_trace", Json.arr enabled), ("reg_trace", Json.arr regs),
    ("enabled", toJson (xenabled pw nt x)),
    ("results", Json.arr ((List.range nt).map fun t => Json.arr (opres.getD t #[])).toArray),
    ("finished", toJson ((List.range nt).map fun t => threadFinished x t)),
    ("get", toJson ((List.range s.nw).map fun w => Registry.get x.env.reg w)),
    ("reg", Json.arr ((List.range s.nw).map fun w => entryJson (x.env.reg w)).toArray)]
    ++ obsJson s.nw s.pools.length pw c.W)

def xkey (nw nt : Nat) (x : X) : String :=
  let e := x.env
  key nw nt x.base ++ toString (repr (
    (List.range nw).map (fun w => (e.reg w, (e.clients w).pend, (e.clients w).hb)),
    e.rl, e.now, e.calls, e.queue, (List.range nt).map (fun t => (e.mic t, e.escript t)),
    (List.range nt).map (fun t => (e.ctl t, e.prog t, e.outs t, e.sticker t, e.tcalls t, e.lastAlive t, e.acRaced t))))

/-- Breadth-first search of the product for, per program point, a shortest schedule whose last step
is taken at that program point (model-guided coverage: the harness replays them on the real code). -/
partial def xcover (pw : Pid → List Wid) (nw nt : Nat) (x0 : X) (limit : Nat) :
    Nat × List (String × List Nat) := Id.run do
  let mut seen : Std.HashSet String := {}
  let mut found : List (String × List Nat) := []
  let mut frontier : Array (X × List Nat) := #[(x0, [])]
  let mut states := 0
  seen := seen.insert (xkey nw nt x0)
  while !frontier.isEmpty && states < limit do
    let mut next : Array (X × List Nat) := #[]
    for (x, path) in frontier do
      states := states + 1
      for t in List.range nt do
        match xstepP pw x t with
        | none => pure ()
        | some (xp, x') =>
          let pp := (xlabel xp t).2
          if !(found.any fun f => f.1 == pp) then
            found := (pp, (t :: path).reverse) :: found
          let k := xkey nw nt x'
          if !seen.contains k then
            seen := seen.insert k
            next := next.push (x', t :: path)
    frontier := next
  return (states, found)

def handleXCover (j : Json) : Except String Json := do
  let s ← parseX j
  let pw := mkPw s.pools
  let limit ← Driver.getNat j "limit"
  let (states, found) := xcover pw s.nw s.nt s.x0 limit
  return Json.mkObj [
    ("states", toJson states),
    ("found", Json.arr (found.map fun (pp, sch) => Json.mkObj [("pp", Json.str pp), ("sched", toJson sch)]).toArray)]

end XSched

def handle (j : Json) : Except String Json := do
  match (← Driver.getStr j "mode") with
  | "seq" => handleSeq j
  | "sched" => handleSched j
  | "explore" => handleExplore j
  | "xsched" => handleXSched j
  | "xcover" => handleXCover j
  | m => throw s!"bad owner mode {m}"

end Driver.Owner
