import Driver.Util
import MlModel.Model.Shard
open Lean MlModel MlModel.Shard MlModel.Merged
namespace Driver.Shard

def stateJson : ShardConfig → Json
  | .root i k s => Json.arr #[Json.arr #[toJson i, toJson k, toJson s]]
  | .child i k s p =>
    match stateJson p with
    | .arr a => Json.arr (#[Json.arr #[toJson i, toJson k, toJson s]] ++ a)
    | x => x

def parseTriple (j : Json) : Except String (Int × Int × Int) := do
  let a ← j.getArr?
  if a.size != 3 then throw "triple expected"
  return (← a[0]!.getInt?, ← a[1]!.getInt?, ← a[2]!.getInt?)

/-- Canonical compact form of an element list (shared with harness/props/c09.py `compact`):
`[]`, `{"from": a, "n": len}` for consecutive integers, otherwise the explicit list. -/
def compact (xs : List Int) : Json :=
  match xs with
  | [] => Json.arr #[]
  | a :: _ =>
    if xs == (List.range xs.length).map (fun (j : Nat) => a + (j : Int)) then
      Json.mkObj [("from", toJson a), ("n", toJson xs.length)]
    else toJson xs

/-- Observation of one data source over parts of the given sizes (elements are `0..n-1`). -/
def dsCore (sizes : List Nat) (d : DS) : List (String × Json) :=
  let parts : List (List Int) :=
    (sizes.foldl (fun (acc : List (List Int) × Nat) s =>
      (acc.1 ++ [(List.range' acc.2 s).map Int.ofNat], acc.2 + s)) ([], 0)).1
  [("start", toJson d.start), ("end", toJson d.end),
   ("len", match d.len with | .ok n => toJson n | .error e => Driver.errJson e),
   ("state", stateJson d.state),
   ("elems", compact (sliceElems parts (some d.start) (some d.end)))]

def dsJson (sizes : List Nat) (d : DS) : Json :=
  let rt := match fromState d.dataLen d.state with
    | .ok r => Json.mkObj ((dsCore sizes r).filter (·.1 != "state"))
    | .error e => Json.mkObj [("err", Driver.errJson e)]
  Json.mkObj (dsCore sizes d ++ [("rt", rt)])

def exceptDs (sizes : List Nat) : Except ErrKind DS → Json
  | .ok d => dsJson sizes d
  | .error e => Json.mkObj [("err", Driver.errJson e)]

def finalIdx (xs : List Int) (i k s : Int) : Nat → Nat → Nat
  | 0, idx => idx
  | n + 1, idx => finalIdx xs i k s n (rrNext xs i k s idx).2

def handle (j : Json) : Except String Json := do
  let op ← Driver.getStr j "op"
  match op with
  | "shards" =>
    let sizes ← (← Driver.getArr j "sizes").toList.mapM (·.getNat?)
    let path ← (← Driver.getArr j "path").toList.mapM parseTriple
    let k ← Driver.getInt j "k"
    let idxs ← (← Driver.getArr j "idxs").toList.mapM (·.getInt?)
    let extra ← Driver.getNat j "extra_off"
    let root := DS.root sizes.sum
    match root.shardChain path with
    | .error e => return Json.mkObj [("base", Json.mkObj [("err", Driver.errJson e)]), ("shards", Json.arr #[])]
    | .ok base =>
      let shards := idxs.map fun i =>
        match base.shard i k 0 with
        | .error e => Json.arr #[toJson i, Json.arr #[Json.mkObj [("err", Driver.errJson e)]]]
        | .ok s0 =>
          let maxOff := s0.rawLen.toNat + extra
          Json.arr #[toJson i, Json.arr ((List.range (maxOff + 1)).map fun (off : Nat) =>
            exceptDs sizes (base.shard i k (off : Int))).toArray]
      return Json.mkObj [("base", dsJson sizes base), ("shards", Json.arr shards.toArray)]
  | "rr" =>
    let n ← Driver.getNat j "n"
    let i ← Driver.getInt j "i"
    let k ← Driver.getInt j "k"
    let s ← Driver.getInt j "start"
    let calls ← Driver.getNat j "calls"
    match rrMake k with
    | .error e => return Json.mkObj [("err", Driver.errJson e)]
    | .ok _ =>
      let xs : List Int := (List.range n).map Int.ofNat
      let outs := rrNexts xs i k s calls 0
      return Json.mkObj [("err", Json.null), ("outs", toJson outs), ("index", toJson (rrStateIndex s (finalIdx xs i k s calls 0)))]
  | _ => throw s!"bad op {op}"

end Driver.Shard
