import Driver.Util
import Driver.Queue
import Driver.Piter
import Driver.Prefetch
import MlModel.Model.Piter2
/-! JSON handler of the two-queue LTS `Model/Piter2.lean` (wire name "piter2").

* replay: `{buffer_size, workers (null = piter's own pool | n = caller's pool, 0 = unbounded), num_steps?, fwd,
  inputs:[{items:[v|"fail"], ret, more:[..]}], gens:[ret], fn, fail_on?, schedule:[tid|[tid,"timeout"]], want_enabled?}`
  → labels, acceptance, per-thread observations, enabled sets, `Q2.returned`, `Q1.returned`, visited program points;
* `{"op":"explore", …same configuration…, "limit":N}`: exhaustive exploration of ALL schedules (ghost history erased):
  number of states / transitions, every distinct quiescent (no enabled step) configuration that is not final with
  a schedule reaching it. -/
open Lean MlModel MlModel.Piter2
open MlModel.Queue (Tid Shared Raise Elem stepThread)
namespace Driver.Piter2

deriving instance BEq, Hashable for MlModel.Piter2.Role
deriving instance BEq, Hashable for MlModel.Piter2.XPc
deriving instance BEq, Hashable for MlModel.Piter2.Hand
deriving instance BEq, Hashable for MlModel.Piter2.CPc
deriving instance BEq, Hashable for MlModel.Piter2.Th
deriving instance BEq, Hashable for MlModel.Piter2.Cfg

def natList (j : Json) (k : String) : List Nat :=
  match Driver.getArr j k with
  | .ok a => a.toList.filterMap fun x => x.getNat?.toOption
  | .error _ => []

def parseInput (j : Json) : Except String InSpec := do
  let items ← (← Driver.getArr j "items").toList.mapM Driver.Queue.parseItem
  return { items := items, ret := ← Driver.getNat j "ret", more := natList j "more" }

def outcomeOf (t : Th) : Option Raise :=
  match t.role with
  | .cons => t.iterOutcome
  | .l1 => t.a.outcome
  | .l2 => t.b.outcome

def threadJson (t : Th) : Json :=
  Json.mkObj [
    ("done", t.done),
    ("received", toJson (match t.role with | .cons => t.b.received.map (fun (e : Elem) => e.2) | _ => ([] : List Nat))),
    ("pulled", toJson (match t.role with | .l1 => t.pulled | _ => ([] : List Nat))),
    ("outcome", match outcomeOf t with | none => Json.null | some r => Driver.Queue.raiseJson r),
    ("early", t.early)]

/-- name of the program point a thread is at (for coverage) -/
def pointOf (t : Th) : String :=
  match t.role with
  | .cons =>
    match t.cpc with
    | .boot => "c.boot" | .submit => "c.submit" | .shutdown => "c.shutdown" | .fin => "c.fin"
    | .iter => "c.iter." ++ t.b.pc.name | .stopping => "c.stop2." ++ t.b.pc.name | .upstop => "c.stop1." ++ t.a.pc.name
  | .l1 => "l1." ++ t.a.pc.name
  | .l2 =>
    match t.b.pc, t.x with
    | .eNext, .lockAcq => "l2.lockAcq"
    | .eNext, .lockRel => "l2.lockRel." ++ (match t.hand with | .item _ => "item" | .stop _ => "stop" | .err _ => "err")
    | .eNext, .deq => "l2.deq." ++ t.a.pc.name
    | .done, .up => "l2.up." ++ t.a.pc.name
    | pc, _ => "l2." ++ pc.name

/-- replay collecting the program points at which a step was taken -/
def replayPoints (F : Nat → Option (List Nat)) : Cfg → List (Tid × Bool) → List String → List String
  | _, [], acc => acc
  | c, (tid, alt) :: rest, acc =>
    match step F c tid alt with
    | none => acc
    | some (_, c') =>
      let p := match c.ths[tid]? with | some t => pointOf t | none => "?"
      replayPoints F c' rest (if acc.contains p then acc else p :: acc)

/-- erase the ghost history that no step reads (the consumer's `received` is read by `num_steps`) -/
def eraseSh (s : Shared) : Shared := { s with produced := [], dequeued := [], lost := [], progress := 0 }
def eraseQ (q : Queue.Thread) (keepRecv : Bool) : Queue.Thread :=
  { q with received := if keepRecv then q.received else [] }
def canon (c : Cfg) : Cfg :=
  { c with s1 := eraseSh c.s1, s2 := eraseSh c.s2,
           ths := c.ths.map fun t => { t with pulled := [], emitted := [], a := eraseQ t.a false,
                                              b := eraseQ t.b (t.role == .cons) } }

structure Explored where
  states : Nat := 0
  transitions : Nat := 0
  complete : Bool := true
  /-- quiescent configurations that are not final: blocked points + a schedule (at most 5 kept) -/
  stuck : Array Json := #[]
  nStuck : Nat := 0
  nFinal : Nat := 0
  maxDepth : Nat := 0

partial def exploreAll (F : Nat → Option (List Nat)) (c0 : Cfg) (limit : Nat) : Explored := Id.run do
  let c0 := canon c0
  let mut seen : Std.HashMap Cfg Nat := Std.HashMap.emptyWithCapacity 65536
  let mut nodes : Array (Cfg × Nat × Nat × Nat) := #[(c0, 0, 0, 0)]
  seen := seen.insert c0 0
  let mut res : Explored := {}
  let mut i := 0
  let path (nodes : Array (Cfg × Nat × Nat × Nat)) (j : Nat) : List Nat := Id.run do
    let mut acc : List Nat := []
    let mut k := j
    while k != 0 do
      let (_, par, tid, _) := nodes[k]!
      acc := tid :: acc
      k := par
    return acc
  while i < nodes.size do
    let (c, _, _, d) := nodes[i]!
    if d > res.maxDepth then res := { res with maxDepth := d }
    let en := enabled F c
    if en.isEmpty then
      if c.allDone then res := { res with nFinal := res.nFinal + 1 }
      else
        res := { res with nStuck := res.nStuck + 1 }
        if res.stuck.size < 5 then
          let o := Json.mkObj [("points", toJson (c.ths.map pointOf)), ("schedule", toJson (path nodes i))]
          res := { res with stuck := res.stuck.push o }
    for (tid, alt) in en do
      match step F c tid alt with
      | none => pure ()
      | some (_, c1) =>
        let c' := canon c1
        res := { res with transitions := res.transitions + 1 }
        if !seen.contains c' then
          if nodes.size >= limit then
            res := { res with complete := false }
          else
            seen := seen.insert c' nodes.size
            nodes := nodes.push (c', i, tid, d + 1)
    i := i + 1
  return { res with states := nodes.size }

def handle (j : Json) : Except String Json := do
  let bufferSize ← Driver.getNat j "buffer_size"
  let workers : Option Nat := Driver.Piter.optNat j "workers"
  let fwd ← Driver.getBool j "fwd"
  let inputs ← (← Driver.getArr j "inputs").toList.mapM parseInput
  let gens := natList j "gens"
  let fk ← Driver.Piter.parseFn (← Driver.getStr j "fn")
  let F := Piter.evalFn fk (Driver.Piter.optNat j "fail_on")
  let fifo := (j.getObjValAs? Bool "fifo").toOption.getD false
  let c0 := { piterInit bufferSize workers (Driver.Piter.optNat j "num_steps") fwd inputs gens with fifo := fifo }
  if (j.getObjValAs? String "op").toOption == some "explore" then
    let limit := (j.getObjValAs? Nat "limit").toOption.getD 300000
    let r := exploreAll F c0 limit
    return Json.mkObj [("states", toJson r.states), ("transitions", toJson r.transitions), ("complete", r.complete),
      ("max_depth", toJson r.maxDepth), ("n_stuck", toJson r.nStuck), ("n_final", toJson r.nFinal),
      ("stuck", Json.arr r.stuck), ("max_workers", toJson c0.maxWorkers)]
  let sched ← (← Driver.getArr j "schedule").toList.mapM Driver.Queue.parseChoice
  let (trace, c, ok) := Piter2.replay F c0 sched []
  let enJson (l : List (Tid × Bool)) : Json := Json.arr (l.map fun (tid, alt) =>
        Json.arr #[toJson tid, if alt then Json.str "timeout" else Json.null]).toArray
  let wantEn := (j.getObjValAs? Bool "want_enabled").toOption.getD false
  let enTrace := if wantEn then Json.arr ((Piter2.replayEnabled F c0 sched []).map enJson).toArray else Json.null
  return Json.mkObj [
    ("enabled_trace", enTrace),
    ("accepted", ok),
    ("trace", Json.arr (trace.map fun (tid, l) => Json.arr #[toJson tid, Json.str l]).toArray),
    ("threads", Json.arr (c.ths.map threadJson).toArray),
    ("all_done", c.allDone),
    ("enabled", enJson (Piter2.enabled F c)),
    ("points", toJson (replayPoints F c0 sched [])),
    ("left", toJson (c.ths.map pointOf)),
    ("max_workers", toJson c0.maxWorkers),
    ("returned", toJson c.s2.returned), ("returned1", toJson c.s1.returned),
    ("q1", toJson (c.s1.q.map (·.2))), ("q2", toJson (c.s2.q.map (·.2))),
    ("lost1", toJson (c.s1.lost.map (·.2))), ("lost2", toJson (c.s2.lost.map (·.2)))]

end Driver.Piter2
