import Driver.Util
import Driver.Resume
import Driver.PipeAgg
import MlModel.Model.ResumeSliced
/-!
Driver handler for `Model/ResumeSliced.lean` and `Model/PipeAggCarry.lean` (wire name "resumesliced").

```
{"model":"resumesliced", "mode":"history",
 "stages": [{"drop":null|{"m":M,"r":R}, "aggs":[..], "slicers":[..]}, ...]     upstream first, >= 1; aggs / slicers as "pipeagg"
 "batches": [..]                 the elements of the SequenceDataSource (as "pipeagg")
 "ops": [["take",k] | ["ckpt"] | ["restore"]], "final": k}
```
A stage is `TreeTransform(name=..)[.filter(lambda a: len(a) % M != R, input_keys='a')].aggregate(..)…add_slice(..)…`
(one runner each).  Answer: `log` (per take: the row counts `len(batch['a'])` of the delivered batches), `final` (the last,
draining take), `result` / `keys` = `agg_result` entries and `agg_state` keys of the chained iterator after the drain
(all stages, upstream first), `snaps` = `result` after every op, `full_*` = the same for the uninterrupted run, `err`.

```
{"model":"resumesliced", "mode":"carry"|"fold", "aggs":[..], "slicers":[..], "parts":[[batch..],..]}
```
`carry`: `iterate(part0)`, then `iterate(part_i, state=previous.agg_state)`; `fold`: `ChainedRunner.update_state` folded over
all batches from `create_state()`.  Answer as "pipeagg" plus `keys`.
-/
open Lean MlModel MlModel.Resume MlModel.PipeAgg
namespace Driver.ResumeSliced

abbrev SD := SlicedDef Batch (List Val) Stat Rv

/-- `len(batch['a'])` -/
def nrowsA (b : Batch) : Nat :=
  match lookupKey "a" b with
  | some (.seq _ xs) => xs.length
  | _ => 0

def parseStage (j : Json) : Except String SD := do
  let aggs ← (← Driver.getArr j "aggs").toList.mapM Driver.PipeAgg.parseAgg
  let slicers ← (← Driver.getArr j "slicers").toList.mapM Driver.PipeAgg.parseSlicer
  let drop ← match j.getObjVal? "drop" with
    | .error _ => pure none
    | .ok .null => pure none
    | .ok d => do pure (some (← Driver.getNat d "m", ← Driver.getNat d "r"))
  let f : Batch → List Batch := match drop with
    | none => fun b => [b]
    | some (m, r) => fun b => if nrowsA b % m = r then [] else [b]
  return ⟨f, { aggs, slicers }⟩

def entriesJson (res : Result Rv) : List Json :=
  res.map fun (k, v) =>
    Json.mkObj [("metric", k.metric), ("slice", Driver.PipeAgg.sliceJson k.slice), ("value", Driver.PipeAgg.routJson v)]

def keysJson (st : State Stat) : List Json :=
  st.map fun (k, _) => Json.arr #[toJson k.metrics, Driver.PipeAgg.sliceJson k.slice]

/-- `agg_result` / `agg_state` keys of the chained iterator: every stage's, upstream first -/
def observe {R : Recoverable Batch} (Ds : List SD) (it : (slicedChainRec R Ds).It) :
    Except ErrKind (List Json × List Json) := do
  let mut res := []
  let mut keys := []
  for (D, agg) in (Ds.zip (slicedAggsDown R Ds it)).reverse do
    let st ← agg
    let r ← getResult D.P st
    res := res ++ entriesJson r
    keys := keys ++ keysJson st
  return (res, keys)

def obsJson {R : Recoverable Batch} (Ds : List SD) (it : (slicedChainRec R Ds).It) : Except ErrKind Json := do
  let (res, _) ← observe Ds it
  return Json.arr res.toArray

def stepAll {R : Recoverable Batch} (Ds : List SD) :
    SrcRun (slicedChainRec R Ds) → List Op → List Json → Except ErrKind (SrcRun (slicedChainRec R Ds) × List Json)
  | r, [], acc => .ok (r, acc.reverse)
  | r, op :: ops, acc => do
    let r' ← SrcRun.step (slicedChainRec R Ds) r op
    let o ← obsJson Ds r'.it
    stepAll Ds r' ops (o :: acc)

def countsJson (bs : List Batch) : Json := Json.arr (bs.map fun b => toJson (nrowsA b)).toArray

def runHist {R : Recoverable Batch} (Ds : List SD) (it : R.It) (ops : List Op) (final : Nat) :
    Except ErrKind (List (String × Json)) := do
  let start := SrcRun.init (slicedChainRec R Ds) (slicedChainFresh R Ds it)
  let (r0, snaps) ← stepAll Ds start ops []
  let r ← SrcRun.step (slicedChainRec R Ds) r0 (.take final)
  let (res, keys) ← observe Ds r.it
  let u ← SrcRun.step (slicedChainRec R Ds) start (.take final)
  let (fres, fkeys) ← observe Ds u.it
  return [("log", Json.arr (r.log.map countsJson).toArray),
          ("result", Json.arr res.toArray), ("keys", Json.arr keys.toArray),
          ("snaps", Json.arr snaps.toArray),
          ("full", Json.arr (u.log.map countsJson).toArray),
          ("full_result", Json.arr fres.toArray), ("full_keys", Json.arr fkeys.toArray)]

def handle (j : Json) : Except String Json := do
  let mode ← Driver.getStr j "mode"
  if mode == "history" then
    let stages ← (← Driver.getArr j "stages").toList.mapM parseStage
    if stages.isEmpty then throw "resumesliced: at least one stage"
    let bs ← (← Driver.getArr j "batches").toList.mapM Driver.PipeAgg.parseBatch
    let final ← Driver.getNat j "final"
    let ops ← (← Driver.getArr j "ops").toList.mapM Driver.Resume.parseOp
    -- the builder's duplicate checks (`aggregate` / `add_aggregate` / `add_slice`) come first
    for D in stages do
      match D.P.validate with
      | .error e => return Json.mkObj [("err", Driver.errJson e)]
      | .ok () => pure ()
    match runHist (R := seqRec bs) stages.reverse (Src.root bs.length).iterate ops final with
    | .error e => return Json.mkObj [("err", Driver.errJson e)]
    | .ok kvs => return Json.mkObj (("err", Json.null) :: kvs)
  else
    let aggs ← (← Driver.getArr j "aggs").toList.mapM Driver.PipeAgg.parseAgg
    let slicers ← (← Driver.getArr j "slicers").toList.mapM Driver.PipeAgg.parseSlicer
    let parts ← (← Driver.getArr j "parts").toList.mapM fun p => do
      (← p.getArr?).toList.mapM Driver.PipeAgg.parseBatch
    let P : Pipeline (List Val) Stat Rv := { aggs, slicers }
    let st : Except ErrKind (State Stat) := match P.validate with
      | .error e => .error e
      | .ok () => if mode == "fold" then foldUpdate P (createState P) parts.flatten else carried P parts
    match st >>= fun s => (getResult P s).map fun r => (s, r) with
    | .error e => return Json.mkObj [("err", Driver.errJson e), ("result", Json.arr #[]), ("keys", Json.arr #[])]
    | .ok (s, res) =>
      return Json.mkObj [("err", Json.null), ("result", Json.arr (entriesJson res).toArray),
                         ("keys", Json.arr (keysJson s).toArray)]

end Driver.ResumeSliced
