import Driver.Util
import MlModel.Model.Registry
/-!
Driver handler `"liveness"`: runs a sequential history of registry / client / transport events on
`MlModel.Registry.World` and reports, after every event, the value returned by `is_alive` (for
`alive` events) and `get a` for every address of interest.

Request: `{"model":"liveness","now":N,"addrs":[a..],"clients":[{"addr":a,"thr":n}..],
           "events":[{"op":"reg","a":0,"t":5}, {"op":"alive","i":0}, ...]}`
(the file is not called `Registry.lean` because `Driver/Registry.lean` is the generated dispatch table).
-/
open Lean MlModel MlModel.Registry
namespace Driver.Liveness

def parseEv (j : Json) : Except String Ev := do
  let op ← Driver.getStr j "op"
  match op with
  | "reg" => return .reg (← Driver.getNat j "a") (← Driver.getInt j "t")
  | "refresh" => return .refresh (← Driver.getNat j "a") (← Driver.getInt j "t")
  | "unreg" => return .unreg (← Driver.getNat j "a")
  | "tick" => return .tick (← Driver.getNat j "d")
  | "alive" => return .alive (← Driver.getNat j "i")
  | "call" => return .call (← Driver.getNat j "i")
  | "send" => return .send (← Driver.getNat j "i") (← Driver.getNat j "a") (← Driver.getBool j "alive")
  | "deliver" => return .deliver (← Driver.getNat j "k") (← Driver.getBool j "fail")
  | "kill" => return .kill (← Driver.getNat j "a")
  | "revive" => return .revive (← Driver.getNat j "a")
  | "shutdown" => return .shutdown (← Driver.getNat j "i")
  | s => throw s!"bad liveness op {s}"

def isAliveEv : Ev → Bool
  | .alive _ => true
  | _ => false

/-- label of the model branch an event exercised (coverage histogram) -/
def branch (w : World) (e : Ev) : String :=
  match e with
  | .reg a _ => match w.reg a with
    | none => "reg/absent" | some none => "reg/dead" | some (some _) => "reg/live"
  | .refresh a _ => match w.reg a with
    | none => "refresh/absent" | some none => "refresh/dead" | some (some _) => "refresh/live"
  | .unreg _ => "unreg"
  | .tick _ => "tick"
  | .alive i =>
    let (w', b) := w.isAlive i
    if b then "alive/true" else if w'.calls.length > w.calls.length then "alive/false+hb" else "alive/false"
  | .call _ => "call"
  | .send _ _ al => if al then "send/alive" else "send/dead"
  | .deliver k fail =>
    match w.queue with
    | [] => "deliver/empty"
    | q => match w.calls[q.getD (k % q.length) 0]? with
      | none => "deliver/?"
      | some c =>
        if c.st = .cancelled then "deliver/cancelled"
        else if w.down.contains c.addr then "deliver/down"
        else if fail then "deliver/fail"
        else match c.meth with
          | .heartbeat none _ => "deliver/hb-nosender"
          | .heartbeat (some _) true => "deliver/hb-register"
          | .heartbeat (some _) false => "deliver/hb-unregister"
          | .plain => "deliver/plain"
          | .shutdown => if w.noloop.contains c.addr then "deliver/shutdown-noloop" else "deliver/shutdown"
  | .kill _ => "kill"
  | .revive a => if w.stopped.contains a then "revive/restart" else "revive"
  | .shutdown _ => "shutdown"

def handle (j : Json) : Except String Json := do
  let now ← Driver.getInt j "now"
  let addrs ← (← Driver.getArr j "addrs").toList.mapM (·.getNat?)
  let clients ← (← Driver.getArr j "clients").toList.mapM fun c => do
    return ({ addr := ← Driver.getNat c "addr", thr := ← Driver.getInt c "thr" } : Client)
  let evs ← (← Driver.getArr j "events").toList.mapM parseEv
  let w0 : World := { now := now, reg := Reg.empty, clients := clients }
  let mut w := w0
  let mut out : Array Json := #[]
  let mut branches : Array Json := #[]
  for e in evs do
    branches := branches.push (Json.str (branch w e))
    let (w', b) := w.step e
    w := w'
    out := out.push (Json.mkObj [
      ("alive", if isAliveEv e then Json.bool b else Json.null),
      ("get", toJson (addrs.map fun a => get w.reg a)),
      ("queued", toJson w.queue.length)])
  return Json.mkObj [("obs", Json.arr out), ("branches", Json.arr branches)]

end Driver.Liveness
