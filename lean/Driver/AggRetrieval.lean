import Driver.Util
import MlModel.Model.Agg.RetrievalThr
open Lean MlModel MlModel.Agg MlModel.Agg.Retrieval
namespace Driver.AggRetrieval

/-! JSON driver for the retrieval family (`harness/agg/retrieval.py`).

A request is an *operation program* over numbered accumulators, interpreted here with the pure
model and by the harness on the real objects:
`["new", i]`, `["add", i, batch]`, `["merge", i, j]`, `["result", i]`, `["call", batch]`.
Every `add` / `result` / `call` produces one observation. -/

def qJson : Q → Json := Driver.optRatJson

def termJson : Retrieval.Term → Json
  | .sqrt q => Json.mkObj [("sqrt", Driver.ratJson q)]
  | .dcg rs => Json.mkObj [("dcg", toJson rs)]
  | .ndcg rs ideal => Json.mkObj [("ndcg", toJson rs), ("ideal", toJson ideal)]

def vJson (v : V) : Json := Json.mkObj [("q", qJson v.q), ("sym", Json.arr (v.sym.map termJson).toArray)]

def vecJson (vs : List V) : Json := Json.arr (vs.map vJson).toArray

def meanResultJson : MeanResult → Json
  | .scalarZero => Json.str "scalar0"
  | .mean t c => Json.mkObj [("total", vecJson t), ("count", toJson c)]

def metricOf (s : String) : Except String Metric :=
  match Metric.all.find? (fun m => m.name == s) with
  | some m => .ok m
  | none => .error s!"bad metric {s}"

def natList (j : Json) : Except String (List Nat) := do
  (← j.getArr?).toList.mapM (·.getNat?)

def intList (j : Json) : Except String (List Int) := do
  (← j.getArr?).toList.mapM (·.getInt?)

def parseCfg (j : Json) : Except String Config := do
  let ks ← match j.getObjVal? "k_list" with
    | .ok .null => pure none
    | .ok v => do pure (some (← natList v))
    | .error _ => pure none
  let ms ← (← Driver.getArr j "metrics").toList.mapM fun m => do metricOf (← m.getStr?)
  let mc := (j.getObjValAs? Bool "multiclass").toOption.getD false
  return { kList := ks, metrics := ms, multiclass := mc }

/-- a batch: `[[y_true_row, y_pred_row], ...]` (multioutput) or `[[label, label], ...]` (multiclass) -/
def parseBatch (mc : Bool) (j : Json) : Except String (List (Row Int)) := do
  let rows ← j.getArr?
  if mc then
    let ls ← rows.toList.mapM fun r => do
      let a ← r.getArr?
      if a.size != 2 then throw "label pair expected"
      return ((← a[0]!.getInt?), (← a[1]!.getInt?))
    return wrapMulticlass ls
  else
    rows.toList.mapM fun r => do
      let a ← r.getArr?
      if a.size != 2 then throw "row pair expected"
      return { yTrue := ← intList a[0]!, yPred := ← intList a[1]! }

def stateResultJson (cfg : Config) (s : State) : Json :=
  Json.arr ((cfg.metrics.zip (resultState s)).map fun (m, r) =>
    Json.arr #[Json.str m.name, meanResultJson r]).toArray

def batchValsJson (cfg : Config) (rows : List (Row Int)) : Json :=
  Json.arr ((cfg.metrics.zip (batchVals cfg rows)).map fun (m, rowsVals) =>
    Json.arr #[Json.str m.name, Json.arr (rowsVals.map vecJson).toArray]).toArray

def setAt {β : Type} (xs : List β) (i : Nat) (v : β) (d : β) : List β :=
  if i < xs.length then xs.set i v else xs ++ List.replicate (i - xs.length) d ++ [v]

/-- the operation program over the pure `Mergeable` model -/
def runTopK (cfg : Config) (prog : List Json) : Except String (List Json) := do
  let m := mergeable (α := Int) cfg
  let mut accs : List State := []
  let mut obs : List Json := []
  for op in prog do
    let a ← op.getArr?
    let name ← a[0]!.getStr?
    match name with
    | "new" =>
      let i ← a[1]!.getNat?
      accs := setAt accs i m.empty m.empty
    | "add" =>
      let i ← a[1]!.getNat?
      let b ← parseBatch cfg.multiclass a[2]!
      accs := setAt accs i (m.add (accs.getD i m.empty) b) m.empty
      obs := obs ++ [Json.mkObj [("rows", batchValsJson cfg b)]]
    | "merge" =>
      let i ← a[1]!.getNat?
      let j ← a[2]!.getNat?
      accs := setAt accs i (m.merge (accs.getD i m.empty) (accs.getD j m.empty)) m.empty
    | "merge_states" =>
      -- merge_states([s_i, s_j1, ...]): folds into the first one
      let is ← natList a[1]!
      match is with
      | [] => throw "merge_states of nothing"
      | i :: js =>
        accs := setAt accs i (m.mergeStates ((i :: js).map fun x => accs.getD x m.empty)) m.empty
    | "result" =>
      let i ← a[1]!.getNat?
      obs := obs ++ [Json.mkObj [("result", stateResultJson cfg (accs.getD i m.empty))]]
    | "call" =>
      let b ← parseBatch cfg.multiclass a[1]!
      obs := obs ++ [Json.mkObj [("result", stateResultJson cfg (m.add m.empty b))]]
    | s => throw s!"bad op {s}"
  return obs

/-! ### ThresholdedRetrieval -/

open MlModel.Agg.Retrieval.Thr in
def parseThrRow (j : Json) : Except String (Thr.Row Int) := do
  let a ← j.getArr?
  if a.size != 3 then throw "thr row triple expected"
  let pr ← match a[2]! with
    | .null => pure none
    | v => do
      let ps ← (← v.getArr?).toList.mapM fun x => do
        match ← Driver.parseOptRat x with
        | some r => pure r
        | none => throw "nan prob"
      pure (some ps)
  return { yTrue := ← intList a[0]!, yPred := ← intList a[1]!, prob := pr }

def ratOf (j : Json) : Except String Rat := do
  match ← Driver.parseOptRat j with
  | some r => pure r
  | none => throw "rational expected"

def kindOf (s : String) : Except String Thr.Kind :=
  match s with
  | "precision" => .ok .precision | "recall" => .ok .recall | "f1_score" => .ok .f1
  | s => .error s!"bad thresholded metric {s}"

def ratsJson (xs : List Rat) : Json := Json.arr (xs.map Driver.ratJson).toArray

def thrResultJson (ts : List Rat) (ms : List (Thr.Kind × Option Rat)) (c : Thr.Counts) : Json :=
  Json.arr (ms.map fun (k, t) =>
    match t with
    | none => ratsJson (c.rates k)
    | some x => Driver.ratJson (Thr.interp x ts (c.rates k))).toArray

def runThr (ts : List Rat) (ms : List (Thr.Kind × Option Rat)) (prog : List Json) :
    Except String (List Json) := do
  let zero := Thr.Counts.zero ts.length
  let mut accs : List Thr.Counts := []
  let mut obs : List Json := []
  for op in prog do
    let a ← op.getArr?
    let name ← a[0]!.getStr?
    match name with
    | "new" =>
      let i ← a[1]!.getNat?
      accs := setAt accs i zero zero
    | "add" =>
      let i ← a[1]!.getNat?
      let rows ← (← a[2]!.getArr?).toList.mapM parseThrRow
      match Thr.batchCounts ts rows with
      | .ok c =>
        accs := setAt accs i (Thr.Counts.merge (accs.getD i zero) c) zero
        obs := obs ++ [Json.mkObj [("batch", Json.mkObj [
          ("tp_trues", toJson c.tpTrues), ("tp_preds", toJson c.tpPreds),
          ("p_trues", toJson c.pTrues), ("p_preds", toJson c.pPreds)])]]
      | .error e =>
        obs := obs ++ [Json.mkObj [("err", Driver.errJson e)]]
        return obs
    | "merge" =>
      let i ← a[1]!.getNat?
      let j ← a[2]!.getNat?
      accs := setAt accs i (Thr.Counts.merge (accs.getD i zero) (accs.getD j zero)) zero
    | "result" =>
      let i ← a[1]!.getNat?
      obs := obs ++ [Json.mkObj [("result", thrResultJson ts ms (accs.getD i zero))]]
    | s => throw s!"bad op {s}"
  return obs

/-! ### stand-alone MeanState / TupleMeanState -/

def qList (j : Json) : Except String (List Q) := do
  (← j.getArr?).toList.mapM Driver.parseOptRat

def runMean (prog : List Json) : Except String (List Json) := do
  let mut accs : List Mean := []
  let mut obs : List Json := []
  for op in prog do
    let a ← op.getArr?
    let name ← a[0]!.getStr?
    match name with
    | "new" => accs := setAt accs (← a[1]!.getNat?) Mean.empty Mean.empty
    | "add" =>
      let i ← a[1]!.getNat?
      let b := Mean.new (← qList a[2]!)
      accs := setAt accs i (Mean.merge (accs.getD i Mean.empty) b) Mean.empty
      obs := obs ++ [Json.mkObj [("batch", Json.arr #[qJson b.total, toJson b.count])]]
    | "merge" =>
      let i ← a[1]!.getNat?
      let j ← a[2]!.getNat?
      accs := setAt accs i (Mean.merge (accs.getD i Mean.empty) (accs.getD j Mean.empty)) Mean.empty
    | "result" => obs := obs ++ [Json.mkObj [("result", qJson (accs.getD (← a[1]!.getNat?) Mean.empty).result)]]
    | "call" => obs := obs ++ [Json.mkObj [("result", qJson (Mean.new (← qList a[1]!)).result)]]
    | s => throw s!"bad op {s}"
  return obs

def runTuple (prog : List Json) : Except String (List Json) := do
  let mut accs : List TupleMean := []
  let mut obs : List Json := []
  for op in prog do
    let a ← op.getArr?
    let name ← a[0]!.getStr?
    let cols (j : Json) : Except String (List (List Q)) := do (← j.getArr?).toList.mapM qList
    let resJson (t : TupleMean) : Json := Json.arr (t.result.map qJson).toArray
    match name with
    | "new" => accs := setAt accs (← a[1]!.getNat?) [] []
    | "add" =>
      let i ← a[1]!.getNat?
      match TupleMean.merge (accs.getD i []) (TupleMean.new (← cols a[2]!)) with
      | .ok t => accs := setAt accs i t []
      | .error e =>
        obs := obs ++ [Json.mkObj [("err", Driver.errJson e)]]
        return obs
    | "merge" =>
      let i ← a[1]!.getNat?
      let j ← a[2]!.getNat?
      match TupleMean.merge (accs.getD i []) (accs.getD j []) with
      | .ok t => accs := setAt accs i t []
      | .error e =>
        obs := obs ++ [Json.mkObj [("err", Driver.errJson e)]]
        return obs
    | "result" => obs := obs ++ [Json.mkObj [("result", resJson (accs.getD (← a[1]!.getNat?) []))]]
    | "call" => obs := obs ++ [Json.mkObj [("result", resJson (TupleMean.new (← cols a[1]!)))]]
    | s => throw s!"bad op {s}"
  return obs

def handle (j : Json) : Except String Json := do
  let kind ← Driver.getStr j "kind"
  let prog := (← Driver.getArr j "prog").toList
  match kind with
  | "topk" =>
    let cfg ← parseCfg (← j.getObjVal? "cfg")
    return Json.mkObj [("obs", Json.arr (← runTopK cfg prog).toArray)]
  | "thr" =>
    let ts ← (← Driver.getArr j "thresholds").toList.mapM ratOf
    let ms ← (← Driver.getArr j "metrics").toList.mapM fun m => do
      let a ← m.getArr?
      let k ← kindOf (← a[0]!.getStr?)
      let t ← match a[1]! with
        | .null => pure none
        | v => do pure (some (← ratOf v))
      pure (k, t)
    return Json.mkObj [("obs", Json.arr (← runThr ts ms prog).toArray)]
  | "mean" => return Json.mkObj [("obs", Json.arr (← runMean prog).toArray)]
  | "tuplemean" => return Json.mkObj [("obs", Json.arr (← runTuple prog).toArray)]
  | s => throw s!"bad kind {s}"

end Driver.AggRetrieval
