import Driver.Util
import Driver.PipeAgg
import MlModel.Model.PipeAggShard
import MlModel.Model.Strategy
/-!
JSON handler of the `PipeAggShard` model (wire name `pipeaggshard`): a sharded run of a sliced aggregation.

```
{"model":"pipeaggshard","aggs":[..],"slicers":[..],"batches":[..],      -- as for "pipeagg"
 "parts":[[0,1],[2],[]] | null,  "k": 3 | null,                          -- explicit shards (batch indexes), or
                                                                         -- `SequenceDataSource.shard(i, k)`, i < k
 "strict": null | -1 | n}        -- strict_states_cnt: null = the number of shards, -1 = not given, n = that number
```
Answer: `{"whole": {"err","result"}, "merged": {"err","result"}}` — `agg_result` of the run over all batches, and
`get_result(merge_states(states of the shard runs))`; entries as for "pipeagg".
-/
open Lean MlModel MlModel.PipeAgg
namespace Driver.PipeAggShard
open Driver.PipeAgg

def resJson (r : Except ErrKind (Result Rv)) : Json :=
  match r with
  | .error e => Json.mkObj [("err", Driver.errJson e), ("result", Json.arr #[])]
  | .ok res =>
    let entries := res.map fun (k, v) =>
      Json.mkObj [("metric", k.metric), ("slice", sliceJson k.slice), ("value", routJson v)]
    Json.mkObj [("err", Json.null), ("result", Json.arr entries.toArray)]

def handle (j : Json) : Except String Json := do
  let aggs ← (← Driver.getArr j "aggs").toList.mapM parseAgg
  let slicers ← (← Driver.getArr j "slicers").toList.mapM parseSlicer
  let bs ← (← Driver.getArr j "batches").toList.mapM parseBatch
  let P : Pipeline (List Val) Stat Rv := { aggs, slicers }
  let parts : List (List Batch) ← match j.getObjVal? "parts" with
    | .ok (.arr ps) => ps.toList.mapM fun p => do
        let idx ← (← p.getArr?).toList.mapM (·.getNat?)
        idx.mapM fun i => match bs[i]? with
          | some b => pure b
          | none => throw s!"bad batch index {i}"
    | _ => do
      let k ← Driver.getNat j "k"
      if k = 0 then throw "k must be positive"
      -- `make(shard=ShardConfig(i, k))` over `SequenceDataSource(batches)`: the C09 model of `shard` (Model/Shard.lean)
      pure (MlModel.Strategy.shardParts (MlModel.Shard.DS.root bs.length) k bs)
  let strict : Nat := match j.getObjVal? "strict" with
    | .ok (.num _) => match (j.getObjValAs? Int "strict") with
      | .ok i => if i < 0 then 0 else i.toNat
      | .error _ => 0
    | _ => parts.length
  return Json.mkObj [("whole", resJson (aggResult P bs)), ("merged", resJson (shardedResult P parts strict))]

end Driver.PipeAggShard
