import Driver.Util
import MlModel.Model.QueueBackend
import MlModel.Generated.QueueExc
/-! Driver handler "queuebackend": the backend contract instances of `Model/QueueBackend.lean` as executable objects
(`op = "run"`: a sequence of put_nowait / get_nowait / empty on one backend), and the handler table read off the source
with its dispatch (`op = "table"`), for the cross-checks of `harness/lib_queue_backends.py`. -/
open Lean MlModel MlModel.Queue MlModel.QueueBackend
namespace Driver.QueueBackend

def excName : ExcClass → String
  | .queueEmpty => "queue.Empty" | .queueFull => "queue.Full"
  | .asyncioQueueEmpty => "asyncio.QueueEmpty" | .asyncioQueueFull => "asyncio.QueueFull"
  | .stopIteration => "StopIteration" | .timeoutError => "TimeoutError" | .valueError => "ValueError"
  | .otherException => "OtherException" | .exception => "Exception" | .baseException => "BaseException"
  | .unknown => "unknown"

def allClasses : List ExcClass :=
  [.queueEmpty, .queueFull, .asyncioQueueEmpty, .asyncioQueueFull, .stopIteration, .timeoutError, .valueError,
   .otherException, .exception, .baseException]

def roleName : Role → String
  | .parkFull => "parkFull" | .parkEmpty => "parkEmpty" | .exhaustCheck => "exhaustCheck"
  | .stopOrError => "stopOrError" | .reraise => "reraise" | .other => "other"

def backendOf (n : String) : Except String Backend :=
  match n with
  | "queue.Queue" => .ok stdQueue
  | "queue.SimpleQueue" => .ok simpleQueue
  | "asyncio.Queue" => .ok asyncioQueue
  | _ => .error s!"unknown backend {n}"

def kindName : Kind → String
  | .stdQueue => "queue.Queue" | .simpleQueue => "queue.SimpleQueue" | .asyncioQueue => "asyncio.Queue"
  | .unknown => "unknown"

def runOps (b : Backend) (cap : Nat) : List Json → List Elem → List Json → Except String (List Json)
  | [], _, acc => .ok acc.reverse
  | op :: rest, q, acc => do
    let a ← op.getArr?
    let k ← (a[0]?.getD Json.null).getStr?
    match k with
    | "put" => do
      let v ← (a[1]?.getD Json.null).getNat?
      match b.putNowait cap q (0, v) with
      | .ok q' => runOps b cap rest q' (Json.arr #["ok"] :: acc)
      | .error e => runOps b cap rest q (Json.arr #["raise", excName e] :: acc)
    | "get" =>
      match b.getNowait q with
      | .ok (v, q') => runOps b cap rest q' (Json.arr #["val", toJson v.2] :: acc)
      | .error e => runOps b cap rest q (Json.arr #["raise", excName e] :: acc)
    | "empty" => runOps b cap rest q (Json.arr #["bool", toJson (b.isEmpty q)] :: acc)
    | _ => throw s!"bad op {k}"

def clauseJson (c : Clause) : Json :=
  Json.mkObj [("classes", toJson (c.classes.map excName)), ("role", roleName c.role)]

def siteJson (cs : List Clause) : Json :=
  Json.mkObj [
    ("clauses", Json.arr (cs.map clauseJson).toArray),
    ("dispatch", Json.mkObj (allClasses.map fun e =>
      (excName e, match dispatch cs e with | some r => Json.str (roleName r) | none => Json.null)))]

def handle (j : Json) : Except String Json := do
  let op ← Driver.getStr j "op"
  match op with
  | "run" => do
    let b ← backendOf (← Driver.getStr j "backend")
    let cap ← Driver.getNat j "cap"
    if !b.capOk cap then throw s!"backend {b.name} cannot have capacity {cap}"
    let ops ← Driver.getArr j "ops"
    let res ← runOps b cap ops.toList [] []
    return Json.mkObj [("results", Json.arr res.toArray)]
  | "table" =>
    let H := MlModel.Generated.QueueExc.handlers
    return Json.mkObj [
      ("put", siteJson H.put), ("get", siteJson H.get), ("getBatch", siteJson H.getBatch),
      ("getNowait", siteJson H.getNowait),
      ("classified", Json.mkObj (pythonBackends.map fun b => (b.name, toJson (classified H b)))),
      ("defaultSync", toJson ((List.range 4).map fun n => kindName (MlModel.Generated.QueueExc.defaultSync n))),
      ("defaultAsync", toJson ((List.range 4).map fun n => kindName (MlModel.Generated.QueueExc.defaultAsync n)))]
  | _ => throw s!"bad op {op}"

end Driver.QueueBackend
