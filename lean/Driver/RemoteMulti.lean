import Driver.Util
import Driver.Remote
import Driver.RemoteState
import MlModel.Model.RemoteMulti
open Lean MlModel MlModel.Lazy MlModel.RemoteState MlModel.RemoteOpts MlModel.RemoteMulti
/-! JSON handler for `Model/RemoteMulti.lean` (wire name "remotemulti").

`{"model":"remotemulti","fn_max":N,"variant":"real"|"clear_objects","clients":[cfg,...],"ops":[op,...]}` with
`cfg = {"call_timeout":n,"max_parallelism":n,"heartbeat_threshold_secs":n,"iterate_batch_size":n}` and every op
carrying `"c"` (index of the client that sends it): the ops of "remotestate" (`mk`/`get`/`getf`/`iter`/`next`) plus
`{"op":"gen","items":[v],"fin":{"stop":[v]}|{"fail":{"kind","msg"}}}`, `{"op":"giter","h":k}`, `{"op":"gnext","h":k}`,
`{"op":"clear"}` (the courier method `clear_cache`), `{"op":"info"}`, `{"op":"hb","sender":s,"alive":b}`,
`{"op":"shutdown","how":"party"|"client"}`.  `h` = index of the earlier op that returned the handle (an op whose
`h` did not return one is skipped).  Answers the client's observation per op; `"local":true` runs `mlocalStep`. -/
namespace Driver.RemoteMulti

def parseCfg (j : Json) : Except String ClientCfg := do
  return { callTimeout := ← Driver.getNat j "call_timeout", maxParallelism := ← Driver.getNat j "max_parallelism",
           heartbeatThreshold := ← Driver.getNat j "heartbeat_threshold_secs",
           iterateBatchSize := ← Driver.getNat j "iterate_batch_size" }

def cfgJson (c : ClientCfg) : Json :=
  Json.mkObj [("call_timeout", toJson c.callTimeout), ("max_parallelism", toJson c.maxParallelism),
    ("heartbeat_threshold_secs", toJson c.heartbeatThreshold), ("iterate_batch_size", toJson c.iterateBatchSize)]

def parseMOp (results : Array (Option Nat)) (op : Json) : Except String (Option MOp) := do
  let kind ← Driver.getStr op "op"
  match kind with
  | "gen" =>
    let items ← Driver.Remote.parseVals #[] op "items"
    let fin ← Driver.Remote.parseFin #[] (← op.getObjVal? "fin")
    return some (.gen items fin)
  | "clear" => return some .clearCache
  | "info" => return some .cacheInfo
  | "hb" => return some (.heartbeat (← Driver.getStr op "sender") (← Driver.getBool op "alive"))
  | "shutdown" =>
    match ← Driver.getStr op "how" with
    | "party" => return some .shutdownParty
    | "client" => return some .shutdownClient
    | h => throw s!"bad shutdown {h}"
  | "giter" | "gnext" =>
    match ← Driver.RemoteState.handleOf results op with
    | none => return none
    | some h => return some (if kind == "giter" then .giter h else .gnext h)
  | _ =>
    match ← Driver.RemoteState.parseOp results op with
    | none => return none
    | some o => return some (.ev o)

def obsJson : MObs → Json
  | .st o => Driver.RemoteState.obsJson o
  | .handle id cfg => Json.mkObj [("remote", toJson id), ("cfg", cfgJson cfg)]
  | .elem v => Json.mkObj [("elem", Driver.Lazy.valJson v)]
  | .raised x => Json.mkObj [("raised", Driver.Remote.excJson x)]
  | .info h m c => Json.mkObj [("info", toJson [h, m, c])]
  | .none => Json.mkObj [("none", true)]
  | .exc x => Json.mkObj [("exc", Driver.Remote.excJson x)]

def lobsJson : LObs → Json
  | .st o => Driver.RemoteState.obsJson o
  | .var id => Json.mkObj [("remote", toJson id)]
  | .elem v => Json.mkObj [("elem", Driver.Lazy.valJson v)]
  | .raised x => Json.mkObj [("raised", Driver.Remote.excJson x)]
  | .none => Json.mkObj [("none", true)]

def handle (j : Json) : Except String Json := do
  let fnMax ← Driver.getNat j "fn_max"
  let ops ← Driver.getArr j "ops"
  let variant := (Driver.getStr j "variant").toOption.getD "real"
  let isLocal := (Driver.getBool j "local").toOption.getD false
  let cfgList ← (← Driver.getArr j "clients").toList.mapM parseCfg
  let cfgs : Nat → ClientCfg := fun i => cfgList.getD i {}
  let step ← match variant with
    | "real" => pure (mstep cfgs)
    | "clear_objects" => pure (mstepMutant cfgs)
    | _ => throw s!"bad variant {variant}"
  let mut s := MSrv.init fnMax
  let mut L : MLoc := {}
  let mut results : Array (Option Nat) := #[]
  let mut out : Array Json := #[]
  for opj in ops do
    let mut ob : Json := Json.mkObj [("skip", true)]
    let mut res : Option Nat := none
    let c := (Driver.getNat opj "c").toOption.getD 0
    match ← parseMOp results opj with
    | none => pure ()
    | some op =>
      if isLocal then
        let r := mlocalStep op L
        L := r.2
        ob := lobsJson r.1
        match r.1 with
        | .var id => res := some id
        | _ => pure ()
      else
        let r := step ⟨c, op⟩ s
        s := r.2
        ob := obsJson r.1
        match r.1 with
        | .handle id _ => res := some id
        | _ => pure ()
    results := results.push res
    out := out.push ob
  return Json.mkObj [("obs", Json.arr out)]

end Driver.RemoteMulti
