import Driver.Util
import MlModel.Model.RemoteState
open Lean MlModel MlModel.Lazy MlModel.RemoteState
/-! JSON handler for `Model/RemoteState.lean` (wire name "remotestate").

`{"model":"remotestate","fn_max":N,"variant":"real"|"attr_cached","ops":[op,...]}` with
`{"op":"mk","cls":C,"args":[pv]}`, `{"op":"get","h":k,"links":[link],"lazy":b}`,
`{"op":"getf","h":k,"links":[{..link..,"cache":b,"lazy":b}]}`, `{"op":"iter","h":k,"links":[link]}`,
`{"op":"next","h":k}`, `{"op":"clear"}`; `h` = index of the earlier op that returned the handle
(an op whose `h` did not return one is skipped).  Answers, per op, the client's observation and
`cache_info` of the `LazyFn` cache `[hits, misses, currsize]`; `"local":true` runs `localStep` instead. -/
namespace Driver.RemoteState

def parsePV (j : Json) : Except String PV :=
  match j with
  | .null => .ok .none
  | _ =>
    match j.getObjVal? "i" with
    | .ok v => do return .int (← v.getInt?)
    | .error _ =>
    match j.getObjVal? "s" with
    | .ok v => do return .str (← v.getStr?)
    | .error _ =>
    match j.getObjVal? "ints" with
    | .ok v => do return .ints (← (← v.getArr?).toList.mapM (·.getInt?))
    | .error _ => .error s!"bad plain value {j.compress}"

def pvJson : PV → Json
  | .int n => Json.mkObj [("i", toJson n)]
  | .str s => Json.mkObj [("s", s)]
  | .none => .null
  | .ints xs => Json.mkObj [("ints", toJson xs)]

def parseCls (s : String) : Except String Cls :=
  match s with
  | "Counter" => .ok .counter | "Account" => .ok .account | "Store" => .ok .store
  | _ => .error s!"bad class {s}"

def clsName : Cls → String
  | .counter => "Counter" | .account => "Account" | .store => "Store" | .ticker => "generator"
  | .tupIter => "tuple_iterator"

def parseLink (j : Json) : Except String SLink := do
  let l ← Driver.getStr j "l"
  match l with
  | "attr" => return .attr (← Driver.getStr j "name")
  | "item" => return .item (← parsePV (← j.getObjVal? "key"))
  | "call" => return .call (← (← Driver.getArr j "args").toList.mapM parsePV)
  | _ => throw s!"bad link {l}"

def parseFLink (j : Json) : Except String FLink := do
  return { l := ← parseLink j, cache := (Driver.getBool j "cache").toOption.getD false,
           lazy := (Driver.getBool j "lazy").toOption.getD false }

def itemsJson (items : List (PV × PV)) : Json :=
  Json.arr (items.map fun p => Json.arr #[pvJson p.1, pvJson p.2]).toArray

def fsnapJson : FSnap → Json
  | .pv v => pvJson v
  | .sub c fs items => Json.mkObj [("obj", clsName c),
      ("fields", Json.mkObj (fs.map fun p => (p.1, pvJson p.2))), ("items", itemsJson items)]
  | .opaque => Json.mkObj [("other", "opaque")]

def errName (e : Err) : String := e.name

def obsJson : Obs → Json
  | .val v => Json.mkObj [("val", pvJson v)]
  | .snap c fs items => Json.mkObj [("snap", Json.mkObj [("obj", clsName c),
      ("fields", Json.mkObj (fs.map fun p => (p.1, fsnapJson p.2))), ("items", itemsJson items)])]
  | .remote id => Json.mkObj [("remote", toJson id)]
  | .method => Json.mkObj [("method", true)]
  | .err e => Json.mkObj [("err", errName e)]

def handleOf (results : Array (Option Nat)) (j : Json) : Except String (Option Nat) := do
  let i ← Driver.getNat j "h"
  return (results.getD i none)

def parseOp (results : Array (Option Nat)) (op : Json) : Except String (Option Op) := do
  let kind ← Driver.getStr op "op"
  match kind with
  | "mk" => return some (.mk (← parseCls (← Driver.getStr op "cls")) (← (← Driver.getArr op "args").toList.mapM parsePV))
  | "clear" => return some .clear
  | _ =>
    match ← handleOf results op with
    | none => return none
    | some h =>
      match kind with
      | "get" =>
        return some (.get h (← (← Driver.getArr op "links").toList.mapM parseLink)
          ((Driver.getBool op "lazy").toOption.getD false))
      | "getf" => return some (.getF h (← (← Driver.getArr op "links").toList.mapM parseFLink))
      | "iter" => return some (.iter h (← (← Driver.getArr op "links").toList.mapM parseLink))
      | "next" => return some (.next h)
      | _ => throw s!"bad op {kind}"

def handle (j : Json) : Except String Json := do
  let fnMax ← Driver.getNat j "fn_max"
  let ops ← Driver.getArr j "ops"
  let variant := (Driver.getStr j "variant").toOption.getD "real"
  let isLocal := (Driver.getBool j "local").toOption.getD false
  let build ← match variant with
    | "real" => pure chainR
    | "attr_cached" => pure chainRMutant
    | _ => throw s!"bad variant {variant}"
  let mut s := SSt.init fnMax
  let mut L : Loc := {}
  let mut results : Array (Option Nat) := #[]
  let mut out : Array Json := #[]
  for opj in ops do
    let mut ob : Json := Json.mkObj [("skip", true)]
    let mut res : Option Nat := none
    match ← parseOp results opj with
    | none => pure ()
    | some op =>
      let o ← if isLocal then do
          let r := localStep op L
          L := r.2
          pure r.1
        else do
          let r := remoteStepWith build op s
          s := r.2
          pure r.1
      ob := obsJson o
      match o with
      | .remote id => res := some id
      | _ => pure ()
    results := results.push res
    out := out.push (ob.setObjVal! "fn" (toJson [s.fnc.hits, s.fnc.misses, s.fnc.currsize]))
  return Json.mkObj [("obs", Json.arr out)]

end Driver.RemoteState
