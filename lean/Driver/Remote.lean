import Driver.Util
import Driver.Lazy
import MlModel.Model.Remote
open Lean MlModel MlModel.Lazy MlModel.Remote
namespace Driver.Remote

def kindOfName : String → Err
  | "ValueError" => .py .value | "TypeError" => .py .type | "KeyError" => .py .key
  | "IndexError" => .py .index | "TimeoutError" => .py .timeout | "StopIteration" => .py .stop
  | "RuntimeError" => .py .runtime | "AssertionError" => .py .assertion
  | "AttributeError" => .py .attr | "NotImplementedError" => .py .notImpl
  | "ZeroDivisionError" => .py .zeroDiv | "LazyObjectMissingError" => .missing
  | "OutOfModel" => .outOfModel
  | _ => .py .other

def parseVals (results : Array Val) (j : Json) (k : String) : Except String (List Val) := do
  (← Driver.getArr j k).toList.mapM (Driver.Lazy.parseVal results)

def parseExc (results : Array Val) (j : Json) : Except String Exc := do
  let kind ← Driver.getStr j "kind"
  let msg := (Driver.getStr j "msg").toOption.getD ""
  let code := (Driver.getNat j "code").toOption.getD 0
  let args ← match j.getObjVal? "args" with
    | .ok _ => parseVals results j "args"
    | .error _ => pure []
  return { kind := kindOfName kind, msg := msg, code := code, args := args }

def parseFin (results : Array Val) (j : Json) : Except String Fin :=
  match j.getObjVal? "stop" with
  | .ok _ => do return .stop (← parseVals results j "stop")
  | .error _ => do return .fail (← parseExc results (← j.getObjVal? "fail"))

def excJson (x : Exc) : Json :=
  Json.mkObj [("kind", Json.str x.kind.name), ("msg", Json.str x.msg), ("code", toJson x.code),
    ("args", Json.arr (x.args.map Driver.Lazy.valJson).toArray)]

def pvalJson : PVal → Json
  | .plain v => Json.mkObj [("v", Driver.Lazy.valJson v)]
  | .exc x => Json.mkObj [("exc", excJson x)]
  | .list xs => Json.mkObj [("list", Json.arr (xs.map Driver.Lazy.valJson).toArray)]

def cresJson : CRes → Json
  | .val v => pvalJson v
  | .remote id => Json.mkObj [("remote", toJson id)]

/-- the handle id an earlier op returned (none: that op did not return a handle → the op is skipped) -/
def handleOf (results : Array Val) (j : Json) (k : String) : Except String (Option Nat) := do
  let i ← Driver.getNat j k
  match results.getD i .none with
  | .handle id => return some id
  | _ => return none

/-- does the JSON mention `{"res": k}` for an op `k` that did not return a handle? -/
partial def badRes (results : Array Val) (j : Json) : Bool :=
  match j with
  | .arr xs => xs.any (badRes results)
  | .obj kvs =>
    (match j.getObjVal? "res" with
     | .ok (.num n) =>
       (match results.getD n.mantissa.toNat .none with
        | .handle _ => false
        | _ => true)
     | _ => false) || kvs.toList.any (fun p => badRes results p.2)
  | _ => false

/-- `none` = skipped (refers to an op that did not return a handle) -/
def parseProg (results : Array Val) (j : Json) : Except String (Option Prog) := do
  let p ← Driver.getStr j "p"
  if badRes results j then return none
  match p with
  | "expr" => return some (.expr (← Driver.Lazy.parseExpr results (← j.getObjVal? "e")))
  | "exc_value" => return some (.excValue (← parseExc results (← j.getObjVal? "x")))
  | "raise" => return some (.raise (← parseExc results (← j.getObjVal? "x")))
  | "mk_gen" => return some (.mkGen (← parseVals results j "items") (← parseFin results (← j.getObjVal? "fin")))
  | "mk_queue" => return some (.mkQueue (← parseVals results j "buf") (← parseFin results (← j.getObjVal? "fin")))
  | "iter_of" => return (← handleOf results j "h").map .iterOf
  | "next" => return (← handleOf results j "h").map .next
  | "qget" => return (← handleOf results j "h").map .qget
  | "qbatch" => return (← handleOf results j "h").map .qbatch
  | _ => throw s!"bad prog {p}"

def parseLink (results : Array Val) (j : Json) : Except String Link := do
  let l ← Driver.getStr j "l"
  match l with
  | "attr" => return .attr (← Driver.getStr j "name")
  | "item" => return .item (← Driver.Lazy.parseVal results (← j.getObjVal? "key"))
  | "call" =>
    let args ← parseVals results j "args"
    let kw ← (← Driver.getArr j "kw").toList.mapM fun p => do
      let a ← p.getArr?
      let k ← (a.getD 0 .null).getStr?
      let x ← Driver.Lazy.parseVal results (a.getD 1 .null)
      return (k, x)
    return .call args kw
  | _ => throw s!"bad link {l}"

def parseEnv (j : Json) : Except String Env := do
  let fate := (Driver.getStr j "fate").toOption.getD "ok"
  let f ← match fate with
    | "ok" => pure Fate.ok | "deadline" => pure Fate.deadline | "deadline_after" => pure Fate.deadlineAfter
    | "app_error" => pure Fate.appError | "die" => pure Fate.lost
    | _ => throw s!"bad fate {fate}"
  return { alive0 := (Driver.getBool j "alive0").toOption.getD true, fate := f,
           aliveAtError := (Driver.getBool j "alive_err").toOption.getD true }

def outJson (r : Except Exc CRes) : Json :=
  match r with
  | .ok c => Json.mkObj [("ok", cresJson c)]
  | .error x => Json.mkObj [("err", excJson x)]

def resVal (r : Except Exc CRes) : Val :=
  match r with
  | .ok (.remote id) => .handle id
  | .ok (.val (.plain v)) => v
  | _ => .none

/-- run the whole background queue (the harness waits for the thread pool) -/
partial def drainBg (s : Srv) : Srv :=
  if s.bg.isEmpty then s else drainBg (runBg s)

def runOps (ops : Array Json) (fnMax objMax : Nat) : Except String (Array Json) := do
  let mut s := Srv.init fnMax objMax
  let mut results : Array Val := #[]
  let mut out : Array Json := #[]
  for op in ops do
    let kind ← Driver.getStr op "op"
    let log0 := s.lz.w.log.length
    let mut ob : Json := Json.mkObj [("skip", true)]
    let mut resv : Val := .none
    match kind with
    | "get" =>
      match ← parseProg results (← op.getObjVal? "prog") with
      | none => pure ()
      | some p =>
        let r := getResult p (← parseEnv op) s
        s := r.2
        ob := outJson r.1
        resv := resVal r.1
    | "chain" =>
      match ← handleOf results op "h" with
      | none => pure ()
      | some id =>
        let links ← (← Driver.getArr op "links").toList.mapM (parseLink results)
        let r := handleResult id links (← parseEnv op) s
        s := r.2
        ob := outJson r.1
        resv := resVal r.1
    | "call" =>
      match ← parseProg results (← op.getObjVal? "prog") with
      | none => pure ()
      | some p =>
        let fl ← op.getObjVal? "flags"
        let fb := fun (k : String) => (Driver.getBool fl k).toOption.getD false
        let rq : Request := ⟨p.dumps, fb "return_exception", fb "compress", fb "return_immediately", fb "return_none"⟩
        match p.traceError with
        | some x => ob := Json.mkObj [("raised", excJson x)]
        | none =>
          let r := MlModel.Remote.handle rq s
          s := r.2
          match r.1 with
          | .payload w gz => ob := Json.mkObj [("payload", pvalJson w.loads), ("gz", gz)]
          | .raised x => ob := Json.mkObj [("raised", excJson x)]
    | "bg" =>
      s := drainBg s
      ob := Json.mkObj [("bg", true)]
    | "shutdown" =>
      s := requestShutdown s
      ob := Json.mkObj [("shutdown", true)]
    | "init_iterator" =>
      match ← parseProg results (← op.getObjVal? "prog") with
      | none => pure ()
      | some p =>
        match p.traceError with
        | some x => ob := Json.mkObj [("raised", excJson x)]
        | none =>
          let r := initIterator p.dumps s
          s := r.2
          match r.1 with
          | .refused x => ob := Json.mkObj [("refused", excJson x)]
          | .accepted => ob := Json.mkObj [("accepted", true)]
          | .raised x => ob := Json.mkObj [("raised", excJson x)]
    | _ => throw s!"bad op {kind}"
    results := results.push resv
    out := out.push (ob.setObjVal! "calls" (toJson (s.lz.w.log.drop log0)))
  return out

/-- `{"model":"remote","fn_max":..,"obj_max":..,"threads":[[op,...],...]}`: every thread's ops are run
on a server of their own state slice — by `C14_concurrent` requests on distinct objects commute, so
for thread-disjoint programs the per-thread observations do not depend on the interleaving.  A plain
sequential case has one thread. -/
def handle (j : Json) : Except String Json := do
  let fnMax ← Driver.getNat j "fn_max"
  let objMax ← Driver.getNat j "obj_max"
  let threads ← Driver.getArr j "threads"
  let mut outs : Array Json := #[]
  for t in threads do
    let ops ← t.getArr?
    outs := outs.push (Json.arr (← runOps ops fnMax objMax))
  return Json.mkObj [("threads", Json.arr outs)]

end Driver.Remote
