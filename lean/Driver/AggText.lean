import Driver.Util
import MlModel.Model.Agg.TextHeap
open Lean MlModel MlModel.Agg.Text
namespace Driver.AggText

/-- a text: a JSON string, or anything else (`null`, a number) = "not a str" -/
def parseText (j : Json) : Option Str :=
  match j with
  | .str s => some s.toList
  | _ => none

def parseTexts (j : Json) : Except String (List (Option Str)) := do
  return (← j.getArr?).toList.map parseText

def rowsJson (rows : List (Str × Rat)) : Json :=
  Json.arr (rows.map fun (k, f) => Json.arr #[Json.str (String.ofList k), Driver.ratJson f]).toArray

def errObs (e : ErrKind) : Json := Json.mkObj [("err", Driver.errJson e)]

def parseMetric (metric : String) (cfg : Json) : Except String (Except ErrKind Metric) := do
  match metric with
  | "ngrams" =>
    let k ← Driver.getInt cfg "k"
    let n ← Driver.getInt cfg "n"
    let first ← Driver.getBool cfg "first"
    let dup ← Driver.getBool cfg "dup"
    return (NGramCfg.make k n first dup).map Metric.ngrams
  | "patterns" =>
    let ps ← (← Driver.getArr cfg "patterns").toList.mapM fun p => do return (← p.getStr?).toList
    let dup ← Driver.getBool cfg "dup"
    return (PatCfg.make ps dup).map Metric.patterns
  | m => throw s!"bad metric {m}"

/-- the exception a non-`str` text raises inside `add` (before the state is touched):
`re.sub` / `re.finditer` → TypeError; `text.find` → AttributeError -/
def badTextErr : Metric → ErrKind
  | .ngrams _ => .type
  | .patterns cfg => if cfg.countDup then .type else .attr

def allTexts (ts : List (Option Str)) : Option (List Str) := ts.mapM id

def optRows : Obs → Json
  | none => Json.null
  | some r => rowsJson r

/-- one program operation on the heap model; returns the new world and the observation -/
def doOp (m : Metric) (w : World) (op : Json) : Except String (World × Json) := do
  let a ← op.getArr?
  let tag ← (a[0]?.getD Json.null).getStr?
  let arg (i : Nat) : Json := a[i]?.getD Json.null
  match tag with
  | "make" => return ((step m w .make).1, Json.null)
  | "add" =>
    let i ← (arg 1).getNat?
    let ts ← parseTexts (arg 2)
    match allTexts ts with
    | none =>
      -- PatternFrequency with no patterns cannot exist, so any bad text is reached
      return (w, errObs (badTextErr m))
    | some texts =>
      let (w1, o) := step m w (.add i texts)
      return (w1, optRows o)
  | "merge" =>
    let i ← (arg 1).getNat?
    let j ← (arg 2).getNat?
    return ((step m w (.merge i j)).1, Json.null)
  | "merge_states" =>
    -- base.py:195: `result = next(it); for state in it: result.merge(state)`
    let is ← (← (arg 1).getArr?).toList.mapM (·.getNat?)
    match is with
    | [] => throw "merge_states of no states"
    | i :: js => return (js.foldl (fun w j => (step m w (.merge i j)).1) w, Json.null)
  | "result" =>
    let i ← (arg 1).getNat?
    return (w, optRows (step m w (.result i)).2)
  | "snap" =>
    -- every accumulator's result, and which accumulators share a Counter object (equivalence classes of the
    -- references, numbered in first-seen order)
    let rows := Json.arr ((List.range w.accs.length).map fun i => optRows (step m w (.result i)).2).toArray
    let refs := w.accs.map Acc.ctr
    let firsts := refs.eraseDups
    let ids := refs.map fun r => (firsts.idxOf r)
    return (w, Json.mkObj [("rows", rows), ("ids", toJson ids)])
  | "call" | "fn" =>
    -- AggregateFn.__call__ (base.py:153): get_result(update_state(create_state(), texts)), on a private accumulator
    let ts ← parseTexts (arg 1)
    match allTexts ts with
    | none => return (w, errObs (badTextErr m))
    | some texts =>
      let mm := m.mergeable
      return (w, rowsJson (mm.result (mm.add mm.empty texts)))
  | t => throw s!"bad op {t}"

def avgAlpha (j : Json) : Except String Json := do
  let ts ← parseTexts j
  match allTexts ts with
  | none => return errObs .type
  | some texts =>
    match avgAlphaCount texts with
    | .error e => return errObs e
    | .ok r => return Json.mkObj [("count", toJson r.count), ("mean", Driver.ratJson r.mean), ("var", Driver.ratJson r.var)]

/-- `{"model":"aggtext","metric":"ngrams"|"patterns","cfg":{..},"prog":[op,..]}` → `{"obs":[..]}`;
`{"model":"aggtext","metric":"avgalpha","texts":[..]}` → `{"obs":[{count,mean,var}|{err}]}` -/
def handle (j : Json) : Except String Json := do
  let metric ← Driver.getStr j "metric"
  if metric == "avgalpha" then
    return Json.mkObj [("obs", Json.arr #[← avgAlpha (← j.getObjVal? "texts")])]
  let cfg ← j.getObjVal? "cfg"
  let prog ← Driver.getArr j "prog"
  match ← parseMetric metric cfg with
  | .error e =>
    -- the constructor raises: every operation that needs the metric reports that error
    return Json.mkObj [("obs", Json.arr (prog.map fun _ => errObs e))]
  | .ok m =>
    let mut w : World := {}
    let mut obs : Array Json := #[]
    for op in prog do
      let (w1, o) ← doOp m w op
      w := w1
      obs := obs.push o
    return Json.mkObj [("obs", Json.arr obs)]

end Driver.AggText
