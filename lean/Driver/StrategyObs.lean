import Driver.Util
import Driver.Strategy
import MlModel.Model.StrategyObs
open Lean MlModel MlModel.Strategy MlModel.Shard MlModel.StrategyObs
namespace Driver.StrategyObs

/-! Handler "strategyobs" (C03 round 10, twin of `harness/lib_c03y.py`): integer streams from a data source of one
of four shapes, a chain of stages of row-wise integer functions with keyed aggregates, and every observable the
aggregate can be taken from, for the whole run and for every requested shard count. -/

/-- row-wise functions of the correspondence (`OPS` of lib_c03y.py) -/
def opFn : String → Except String (Int → List Int)
  | "dbl" => .ok fun x => [2 * x]
  | "inc" => .ok fun x => [x + 1]
  | "neg" => .ok fun x => [-x]
  | "sq" => .ok fun x => [x * x]
  | "even" => .ok fun x => if x % 2 = 0 then [x] else []
  | "pos" => .ok fun x => if 0 < x then [x] else []
  | "small" => .ok fun x => if x < 6 then [x] else []
  | s => .error s!"bad op {s}"

def kindOf : String → Except String AKind
  | "sumcount" => .ok .sumcount
  | "count" => .ok .count
  | "sumsq" => .ok .sumsq
  | "max" => .ok .max
  | "collect" => .ok .collect
  | "moments" => .ok .moments
  | s => .error s!"bad agg kind {s}"

abbrev Key := String × AKind
abbrev LStage := AStage Key (List Int) Int (List Int)

structure PStage where
  ops : List (Op Int)
  agg : LStage

def parseStage (j : Json) : Except String PStage := do
  let ops ← (← Driver.getArr j "ops").toList.mapM fun o => do
    let f ← opFn (← o.getStr?)
    return Op.row f
  let keys ← (← Driver.getArr j "aggs").toList.mapM fun a => do
    let k ← Driver.getStr a "key"
    let kd ← kindOf (← Driver.getStr a "kind")
    return (k, kd)
  return { ops := ops, agg := libStage keys }

def kvJson (s : KV Key (List Int)) : Json :=
  Json.arr (s.map fun kv => Json.arr #[toJson kv.1.1, toJson kv.2]).toArray

def exceptKv (r : Except ErrKind (KV Key (List Int))) : Json :=
  match r with
  | .ok s => kvJson s
  | .error e => Json.mkObj [("err", Driver.errJson e)]

/-- everything observable of ONE chained run over `xs` -/
structure RunObs where
  out : List Int
  stageOuts : List (List Int)
  states : Except ErrKind (List (KV Key (List Int)))

def runChain (ps : List PStage) (xs : List Int) : RunObs :=
  let stages : List (Stage Int) := ps.map fun p => { ops := p.ops, aggs := [] }
  let feeds := stageOuts stages xs
  { out := output stages xs, stageOuts := feeds, states := chainStates (ps.map (·.agg)) none feeds }

def RunObs.json (ps : List PStage) (r : RunObs) : Json :=
  let aggs := ps.map (·.agg)
  Json.mkObj [
    ("out", toJson r.out),
    ("stage_outs", toJson r.stageOuts),
    -- `_ChainedRunnerIterator.agg_state` / `AggregateResult.agg_state`
    ("state", exceptKv (r.states.map List.flatten)),
    -- `_ChainedRunnerIterator.agg_result` / `AggregateResult.agg_result`
    ("it_result", exceptKv (r.states.map fun sts => chainAggResult aggs sts)),
    -- `ChainedRunner.get_result(returned agg_state)`
    ("state_result", exceptKv (r.states.map fun sts => chainGetResult aggs sts.flatten))]

/-- request `{"model":"strategyobs","src":"mseq"|"seq"|"rr"|"iter","seqs":[[int..]..],
"stages":[{"ops":[name..],"aggs":[{"key":s,"kind":s}..]}..],"ks":[k..]}` -/
def handle (j : Json) : Except String Json := do
  let src ← Driver.getStr j "src"
  let seqs : List (List Int) ← (← Driver.getArr j "seqs").toList.mapM fun s => do
    (← s.getArr?).toList.mapM (·.getInt?)
  let ps ← (← Driver.getArr j "stages").toList.mapM parseStage
  let ks ← match j.getObjVal? "ks" with
    | .ok v => do (← v.getArr?).toList.mapM (·.getNat?)
    | .error _ => pure []
  let contiguous := src == "mseq" || src == "seq"
  -- a sequence data source is read through `MergedSequences.slice`, an iterable as it comes
  let whole : List Int := if contiguous then mergedElems (mergedRoot seqs) seqs else seqs.flatten
  let aggs := ps.map (·.agg)
  let shardJson (k : Nat) : Json :=
    let parts : List (List Int) :=
      if contiguous then mergedShardParts (mergedRoot seqs) k seqs else Driver.Strategy.rrParts k seqs.flatten
    let runs := parts.map (runChain ps)
    let states : List (KV Key (List Int)) := runs.filterMap fun r => (r.states.map List.flatten).toOption
    let merged := chainMergeStates aggs states
    Json.mkObj [
      ("k", toJson k),
      ("parts", toJson parts),
      ("runs", Json.arr (runs.map (RunObs.json ps)).toArray),
      ("merged", kvJson merged),
      ("merged_result", kvJson (chainGetResult aggs merged))]
  return Json.mkObj [
    ("whole_elems", toJson whole),
    ("whole", (runChain ps whole).json ps),
    ("shards", Json.arr (ks.map shardJson).toArray)]

end Driver.StrategyObs
