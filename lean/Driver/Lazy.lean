import Driver.Util
import MlModel.Model.Lazy
open Lean MlModel MlModel.Lazy
namespace Driver.Lazy

/-- Values; `{"res":k}` = the object returned by op `k` (`None` when that op did not return). -/
partial def parseVal (results : Array Val) (j : Json) : Except String Val :=
  match j with
  | .null => .ok .none
  | _ =>
    match j.getObjVal? "i" with
    | .ok v => do return .int (← v.getInt?)
    | .error _ =>
    match j.getObjVal? "s" with
    | .ok v => do return .str (← v.getStr?)
    | .error _ =>
    match j.getObjVal? "f" with
    | .ok v => do return .fn (← v.getStr?)
    | .error _ =>
    match j.getObjVal? "h" with
    | .ok v => do return .handle (← v.getNat?)
    | .error _ =>
    match j.getObjVal? "res" with
    | .ok v => do let k ← v.getNat?; return results.getD k .none
    | .error _ =>
    match j.getObjVal? "t" with
    | .ok v => do
      let xs ← (← v.getArr?).toList.mapM (parseVal results)
      return .tup xs
    | .error _ =>
    match j.getObjVal? "r" with
    | .ok v => do
      let fs ← (← v.getArr?).toList.mapM fun p => do
        let a ← p.getArr?
        let k ← (a.getD 0 .null).getStr?
        let x ← parseVal results (a.getD 1 .null)
        return (k, x)
      return .record fs
    | .error _ => .error s!"bad value {j.compress}"

partial def valJson : Val → Json
  | .int n => Json.mkObj [("i", toJson n)]
  | .str s => Json.mkObj [("s", s)]
  | .none => .null
  | .tup xs => Json.mkObj [("t", Json.arr (xs.map valJson).toArray)]
  | .record fs => Json.mkObj [("r", Json.arr (fs.map fun p => Json.arr #[Json.str p.1, valJson p.2]).toArray)]
  | .fn n => Json.mkObj [("f", n)]
  | .handle id => Json.mkObj [("h", id)]

partial def parseExpr (results : Array Val) (j : Json) : Except String Expr := do
  let t ← Driver.getStr j "t"
  match t with
  | "const" => return .const (← parseVal results (← j.getObjVal? "v"))
  | "traced" => return .traced (← parseVal results (← j.getObjVal? "v")) (← Driver.getBool j "lazy")
  | "getattr" => return Expr.getattr (← parseExpr results (← j.getObjVal? "o")) (← Driver.getStr j "name")
  | "getitem" =>
    return Expr.getitem (← parseExpr results (← j.getObjVal? "o")) (← parseVal results (← j.getObjVal? "key"))
  | "call" =>
    let f ← parseExpr results (← j.getObjVal? "f")
    let args ← (← Driver.getArr j "args").toList.mapM (parseExpr results)
    let kw ← (← Driver.getArr j "kw").toList.mapM fun p => do
      let a ← p.getArr?
      let k ← (a.getD 0 .null).getStr?
      let x ← parseExpr results (a.getD 1 .null)
      return (k, x)
    return .call f args kw (← Driver.getBool j "cache") (← Driver.getBool j "lazy")
  | _ => .error s!"bad expr tag {t}"

def infoJson {κ ν : Type} (c : Lru.Cache κ ν) : Json := toJson [c.hits, c.misses, c.currsize]

def handle (j : Json) : Except String Json := do
  let fnMax ← Driver.getNat j "fn_max"
  let objMax ← Driver.getNat j "obj_max"
  let ops ← Driver.getArr j "ops"
  let mut s := St.init fnMax objMax
  let mut results : Array Val := #[]
  let mut out : Array Json := #[]
  for op in ops do
    let kind ← Driver.getStr op "op"
    let log0 := s.w.log.length
    let mut val : Json := .null
    let mut ref : Nat := 0
    let mut err : Json := .null
    let mut resv : Val := .none
    match kind with
    | "make" =>
      let e ← parseExpr results (← op.getObjVal? "e")
      let pk := (Driver.getBool op "pickle").toOption.getD false
      let (r, s') := (if pk then maybeMakePickled e else maybeMake e) s
      s := s'
      match r with
      | .ok (v, rf) => val := valJson v; ref := rf; resv := v
      | .error e => err := Json.str e.name
    | "clear_cache" => s := (clearCache s).2
    | "clear_object" => s := (clearObject s).2
    | _ => throw s!"bad op {kind}"
    results := results.push resv
    out := out.push (Json.mkObj [
      ("val", val), ("ref", ref), ("err", err),
      ("calls", toJson (s.w.log.drop log0)),
      ("fn", infoJson s.fnc), ("obj", infoJson s.obj)])
  return Json.mkObj [("ops", Json.arr out)]

end Driver.Lazy
