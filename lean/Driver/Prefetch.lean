import Driver.Util
import Driver.Queue
import MlModel.Model.Prefetch
open Lean MlModel MlModel.Prefetch
namespace Driver.Prefetch

def parseGen (j : Json) : Except String Gen := do
  let src ← (← Driver.getArr j "src").toList.mapM Driver.Queue.parseItem
  let r ← Driver.getNat j "ret"
  return { src := src, ret := r }

def parseProg (j : Json) : Except String Prog := do
  let k ← Driver.getStr j "kind"
  match k with
  | "client" => do
    let g ← parseGen j
    let b ← Driver.getNat j "batch"
    return .client g b
  | "init" => do return .initIter (← parseGen j)
  | "next" => do return .nextBatch (← Driver.getNat j "batch")
  | "stop" => return .stopPrefetch ((j.getObjValAs? Bool "fatal").toOption.getD false)
  | "shutdown" => return .shutdown
  | _ => throw s!"bad prog {k}"

def raiseJson : MlModel.Queue.Raise → Json
  | .empty => Json.mkObj [("raise", "Empty")]
  | .stop r => Json.mkObj [("raise", "StopIteration"), ("args", toJson r)]
  | .err .other => Json.mkObj [("raise", "rpc_error"), ("code", (4 : Nat))]
  | .err e => Json.mkObj [("raise", e.name)]

def optRaiseJson : Option MlModel.Queue.Raise → Json
  | none => Json.null
  | some r => raiseJson r

def replyJson (r : Reply) : Json :=
  Json.mkObj [("elems", toJson (r.elems.map (·.2))),
    ("marker", match r.marker with
      | some (.err .other) => Json.mkObj [("raise", "Exception")]
      | m => optRaiseJson m),
    ("nmarkers", if r.marker.isSome then (1 : Nat) else (0 : Nat)), ("marker_last", true)]

/-- canonical observation of a request thread (same shape as harness/lib_prefetch.run_real) -/
def threadJson (t : Thread) : Json :=
  let done := t.pc == .done
  match t.prog with
  | .client _ _ =>
    Json.mkObj [("done", done), ("yielded", toJson (t.yielded.map (·.2))),
      ("outcome", if done then optRaiseJson t.outcome else Json.null)]
  | .nextBatch _ =>
    if done then
      match t.outcome, t.replies.getLast? with
      | none, some r => Json.mkObj [("done", true), ("outcome", Json.null), ("reply", replyJson r)]
      | o, _ => Json.mkObj [("done", true), ("outcome", optRaiseJson o)]
    else Json.mkObj [("done", false), ("outcome", Json.null)]
  | _ => Json.mkObj [("done", done), ("outcome", if done then optRaiseJson t.outcome else Json.null)]

def pendingLabel (_c : Cfg) (t : Thread) : String :=
  match t.pc with
  | .nbGet | .lkStop | .prod => s!"{repr t.qt.pc}#{t.g}"
  | pc => s!"{repr pc}"

/-- request: {prefetch, threads:[prog], schedule:[tid], want_enabled?}
response: labels executed, acceptance, final thread observations, enabled sets -/
def handle (j : Json) : Except String Json := do
  let prefetch ← Driver.getNat j "prefetch"
  let progs ← (← Driver.getArr j "threads").toList.mapM parseProg
  let sched ← (← Driver.getArr j "schedule").toList.mapM fun x => x.getNat?
  let c0 := init prefetch progs
  let (trace, c, ok) := replay c0 sched []
  let wantEn := (j.getObjValAs? Bool "want_enabled").toOption.getD false
  let enTrace := if wantEn then toJson (replayEnabled c0 sched []) else Json.null
  let n := progs.length
  let reqs := (c.ths.drop 1).take n
  let prods := (c.ths.drop (n + 1)).zipIdx.map fun (t, i) =>
    Json.mkObj [("tid", toJson (n + 1 + i)), ("done", t.pc == .done),
      ("raised", match t.outcome with | some (.err e) => Json.str e.name | _ => Json.null)]
  let left := c.ths.zipIdx.filterMap fun (t, i) =>
    if t.pc == .done then none else some (Json.arr #[toJson i, Json.str (pendingLabel c t)])
  return Json.mkObj [
    ("enabled_trace", enTrace),
    ("accepted", ok),
    ("trace", Json.arr (trace.map fun (tid, l) => Json.arr #[toJson tid, Json.str l]).toArray),
    ("threads", Json.arr (reqs.map threadJson).toArray),
    ("producers", Json.arr prods.toArray),
    ("main_done", (c.ths.head?.map (·.pc == .done)).getD false),
    ("enabled", toJson (enabled c)),
    ("left", Json.arr left.toArray),
    ("nqueues", toJson c.sh.qs.length),
    ("generator", match c.sh.generator with | some g => toJson g | none => Json.null)]

end Driver.Prefetch
