import Driver.Util
import Driver.Queue
import MlModel.Model.Prefetch
import Std.Data.HashMap
open Lean MlModel MlModel.Prefetch

deriving instance BEq, Hashable for MlModel.ErrKind
deriving instance BEq, Hashable for MlModel.Queue.Item
deriving instance BEq, Hashable for MlModel.Queue.Raise
deriving instance BEq, Hashable for MlModel.Queue.Prog
deriving instance BEq, Hashable for MlModel.Queue.Caller
deriving instance BEq, Hashable for MlModel.Queue.Pc
deriving instance BEq, Hashable for MlModel.Queue.Thread
deriving instance BEq, Hashable for MlModel.Queue.Shared
deriving instance BEq, Hashable for MlModel.Prefetch.Gen
deriving instance BEq, Hashable for MlModel.Prefetch.Prog
deriving instance BEq, Hashable for MlModel.Prefetch.Pc
deriving instance BEq, Hashable for MlModel.Prefetch.Reply
deriving instance BEq, Hashable for MlModel.Prefetch.Thread
deriving instance BEq, Hashable for MlModel.Prefetch.Shared
deriving instance BEq, Hashable for MlModel.Prefetch.Cfg

namespace Driver.Prefetch

def parseGen (j : Json) : Except String Gen := do
  let src ← (← Driver.getArr j "src").toList.mapM Driver.Queue.parseItem
  let r ← Driver.getNat j "ret"
  return { src := src, ret := r }

/-- `build`: how the lazy object of an `init_generator` request behaves when the server constructs it:
absent / "ok" — a generator; "raise" — the constructor raises `ValueError`; "noniter" — it builds a value that
is not an `Iterable` (`TypeError`) -/
def parseBuild (j : Json) : Except String (Option ErrKind) :=
  match (j.getObjValAs? String "build").toOption with
  | none | some "ok" => return none
  | some "raise" => return some .value
  | some "noniter" => return some .type
  | some b => throw s!"bad build {b}"

def parseProg (j : Json) : Except String Prog := do
  let k ← Driver.getStr j "kind"
  match k with
  | "client" => do
    match ← parseBuild j with
    | some e => return .initFail e true
    | none =>
      let g ← parseGen j
      let b ← Driver.getNat j "batch"
      return .client g b
  | "init" => do
    match ← parseBuild j with
    | some e => return .initFail e false
    | none => return .initIter (← parseGen j)
  | "next" => do return .nextBatch (← Driver.getNat j "batch")
  | "stop" => return .stopPrefetch ((j.getObjValAs? Bool "fatal").toOption.getD false)
  | "shutdown" => return .shutdown
  | _ => throw s!"bad prog {k}"

def raiseJson : MlModel.Queue.Raise → Json
  | .empty => Json.mkObj [("raise", "Empty")]
  | .stop r => Json.mkObj [("raise", "StopIteration"), ("args", toJson r)]
  | .err .other => Json.mkObj [("raise", "rpc_error"), ("code", (4 : Nat))]
  | .err e => Json.mkObj [("raise", e.name)]

def optRaiseJson : Option MlModel.Queue.Raise → Json
  | none => Json.null
  | some r => raiseJson r

def replyJson (r : Reply) : Json :=
  Json.mkObj [("elems", toJson (r.elems.map (·.2))),
    ("marker", match r.marker with
      | some (.err .other) => Json.mkObj [("raise", "Exception")]
      | m => optRaiseJson m),
    ("nmarkers", if r.marker.isSome then (1 : Nat) else (0 : Nat)), ("marker_last", true)]

/-- canonical observation of a request thread (same shape as harness/lib_prefetch.run_real) -/
def threadJson (t : Thread) : Json :=
  let done := t.pc == .done
  match t.prog with
  | .client _ _ =>
    Json.mkObj [("done", done), ("yielded", toJson (t.yielded.map (·.2))),
      ("outcome", if done then optRaiseJson t.outcome else Json.null)]
  | .nextBatch _ =>
    if done then
      match t.outcome, t.replies.getLast? with
      | none, some r => Json.mkObj [("done", true), ("outcome", Json.null), ("reply", replyJson r)]
      | o, _ => Json.mkObj [("done", true), ("outcome", optRaiseJson o)]
    else Json.mkObj [("done", false), ("outcome", Json.null)]
  | .initFail _ cl =>
    -- the handler RAISED (construction failure / `assert`): the fake courier answers with a non-OK status
    -- (code 2, the handler's exception as its cause); a RETURNED `TimeoutError` (shutdown requested) and a call
    -- to a stopped server look like those of a successful `init_generator`
    let o := if !done then Json.null else match t.outcome with
      | some (.err .timeout) => raiseJson (.err .timeout)
      | some (.err .other) => raiseJson (.err .other)
      | some (.err e) => Json.mkObj [("raise", "rpc_error"), ("code", (2 : Nat)), ("cause", e.name)]
      | o => optRaiseJson o
    if cl then Json.mkObj [("done", done), ("yielded", toJson ([] : List Nat)), ("outcome", o)]
    else Json.mkObj [("done", done), ("outcome", o)]
  | _ => Json.mkObj [("done", done), ("outcome", if done then optRaiseJson t.outcome else Json.null)]

/-- the operation a thread that is not enabled waits for (same wording as the scheduler's labels) -/
def pendingLabel (_c : Cfg) (t : Thread) : String :=
  match t.pc with
  | .nbGet | .lkStop | .prod =>
    match t.qt.pc with
    | .pWake => s!"wake cond2#{t.g}"
    | .bWake | .gWake => s!"wake cond1#{t.g}"
    | pc => s!"{repr pc}#{t.g}"
  | .mnWake => "wake shut"
  | .lkJoin => "join thread"
  | pc => s!"{repr pc}"

/-- is the prefetch thread past its last `put` (inside `_stop_enqueue`, or finished)? -/
def prodPast (t : Thread) : Bool :=
  t.pc == .done || (t.pc == .prod && (match t.qt.pc with
    | .tAcq | .tR0 | .tR1 | .tR2 | .tR3 | .tR4 | .tS0 | .tS1 | .tS2 | .tS3 | .tS4 | .tRel | .done => true
    | _ => false))

/-- every prefetch thread of a generator that is no longer `self._generator` is past its last `put` -/
def oldStopped (c : Cfg) : Bool :=
  c.ths.all fun t =>
    match t.prog with
    | .producer k => c.sh.generator == some k || prodPast t
    | _ => true

def obsJson (n : Nat) (c : Cfg) : Json :=
  let reqs := (c.ths.drop 1).take n
  let prods := (c.ths.drop (n + 1)).zipIdx.map fun (t, i) =>
    Json.mkObj [("tid", toJson (n + 1 + i)), ("done", t.pc == .done),
      ("raised", match t.outcome with | some (.err e) => Json.str e.name | _ => Json.null)]
  let left := c.ths.zipIdx.filterMap fun (t, i) =>
    if t.pc == .done then none else some (Json.arr #[toJson i, Json.str "thread", Json.str (pendingLabel c t)])
  Json.mkObj [
    ("threads", Json.arr (reqs.map threadJson).toArray),
    ("producers", Json.arr prods.toArray),
    ("main_done", (c.ths.head?.map (·.pc == .done)).getD false),
    ("left", Json.arr left.toArray),
    ("nqueues", toJson c.sh.qs.length)]

structure Explored where
  states : Nat := 0
  transitions : Nat := 0
  complete : Bool := true
  /-- distinct observations of the configurations in which no thread is enabled -/
  quiescent : Array Json := #[]
  /-- schedules to configurations violating `oldStopped` (at most 3) -/
  badOld : Array (List Nat) := #[]
  maxDepth : Nat := 0

/-- exhaustive breadth-first exploration of all schedules (every interleaving of every thread) -/
partial def exploreAll (n : Nat) (c0 : Cfg) (limit : Nat) : Explored := Id.run do
  let mut seen : Std.HashMap Cfg Nat := Std.HashMap.emptyWithCapacity 65536
  let mut nodes : Array (Cfg × Nat × Nat × Nat) := #[(c0, 0, 0, 0)]   -- cfg, parent, tid, depth
  seen := seen.insert c0 0
  let mut res : Explored := {}
  let mut qseen : Std.HashMap String Unit := {}
  let mut i := 0
  let path (nodes : Array (Cfg × Nat × Nat × Nat)) (j : Nat) : List Nat := Id.run do
    let mut acc : List Nat := []
    let mut k := j
    while k != 0 do
      let (_, par, tid, _) := nodes[k]!
      acc := tid :: acc
      k := par
    return acc
  while i < nodes.size do
    let (c, _, _, d) := nodes[i]!
    if d > res.maxDepth then res := { res with maxDepth := d }
    if !oldStopped c && res.badOld.size < 3 then
      res := { res with badOld := res.badOld.push (path nodes i) }
    let en := enabled c
    if en.isEmpty then
      let o := obsJson n c
      let key := o.compress
      if !qseen.contains key then
        qseen := qseen.insert key ()
        res := { res with quiescent := res.quiescent.push (o.setObjVal! "schedule" (toJson (path nodes i))) }
    for tid in en do
      match step c tid with
      | none => pure ()
      | some (_, c') =>
        res := { res with transitions := res.transitions + 1 }
        if !seen.contains c' then
          if nodes.size >= limit then
            res := { res with complete := false }
          else
            seen := seen.insert c' nodes.size
            nodes := nodes.push (c', i, tid, d + 1)
    i := i + 1
  return { res with states := nodes.size }

/-- request: {prefetch, threads:[prog], schedule:[tid], want_enabled?}
response: labels executed, acceptance, final thread observations, enabled sets -/
def handle (j : Json) : Except String Json := do
  let prefetch ← Driver.getNat j "prefetch"
  let progs ← (← Driver.getArr j "threads").toList.mapM parseProg
  let sched ← (← Driver.getArr j "schedule").toList.mapM fun x => x.getNat?
  let c0 := init prefetch progs
  if (j.getObjValAs? String "op").toOption == some "explore" then
    let limit := (j.getObjValAs? Nat "limit").toOption.getD 400000
    let r := exploreAll progs.length c0 limit
    return Json.mkObj [("states", toJson r.states), ("transitions", toJson r.transitions),
      ("complete", r.complete), ("max_depth", toJson r.maxDepth),
      ("quiescent", Json.arr r.quiescent), ("bad_old", toJson r.badOld.toList)]
  let (trace, c, ok) := replay c0 sched []
  let wantEn := (j.getObjValAs? Bool "want_enabled").toOption.getD false
  let enTrace := if wantEn then toJson (replayEnabled c0 sched []) else Json.null
  let n := progs.length
  let reqs := (c.ths.drop 1).take n
  let prods := (c.ths.drop (n + 1)).zipIdx.map fun (t, i) =>
    Json.mkObj [("tid", toJson (n + 1 + i)), ("done", t.pc == .done),
      ("raised", match t.outcome with | some (.err e) => Json.str e.name | _ => Json.null)]
  let left := c.ths.zipIdx.filterMap fun (t, i) =>
    if t.pc == .done then none else some (Json.arr #[toJson i, Json.str (pendingLabel c t)])
  return Json.mkObj [
    ("enabled_trace", enTrace),
    ("accepted", ok),
    ("trace", Json.arr (trace.map fun (tid, l) => Json.arr #[toJson tid, Json.str l]).toArray),
    ("threads", Json.arr (reqs.map threadJson).toArray),
    ("producers", Json.arr prods.toArray),
    ("main_done", (c.ths.head?.map (·.pc == .done)).getD false),
    ("enabled", toJson (enabled c)),
    ("left", Json.arr left.toArray),
    ("nqueues", toJson c.sh.qs.length),
    ("generator", match c.sh.generator with | some g => toJson g | none => Json.null)]

end Driver.Prefetch
