import Driver.Util
import MlModel.Model.Stage
/-!
Driver for the interleaved-stage LTS (`Model/Stage.lean`), model name "stage".

ops:
* `replay`  {batches:[nat], workers:n, mode:"turn"|"fused"|"await", schedule:[label]} -> accepted prefix, the
  rejected label, the final state's observations and the program points visited;  mode "turn" = `stepT`
  (thread granularity, the code), "fused" = `step {ackAwait := false}`, "await" = `step {ackAwait := true}`;
* `explore` {batches, workers, mode, cap} -> exhaustive search over all schedules: number of states, terminal
  observations (consumer done: the consumed lists; stuck states), the set of program points reachable.

label on the wire: "produce" | "closeInput" | "consume" | "consumerEnd" | ["schedule"|"created"|"ack"|"pull"|
"pullEnd"|"forward"|"finish", w].
-/
open Lean MlModel MlModel.Stage
namespace Driver.Stage

def parseLabel (j : Json) : Except String Label :=
  match j with
  | .str "produce" => .ok .produce
  | .str "closeInput" => .ok .closeInput
  | .str "consume" => .ok .consume
  | .str "consumerEnd" => .ok .consumerEnd
  | .arr #[.str k, w] => do
    let w ← w.getNat?
    match k with
    | "schedule" => .ok (.schedule w) | "created" => .ok (.created w) | "ack" => .ok (.ack w)
    | "pull" => .ok (.pull w) | "pullEnd" => .ok (.pullEnd w) | "forward" => .ok (.forward w)
    | "finish" => .ok (.finish w) | s => .error s!"bad label {s}"
  | _ => .error s!"bad label {j.compress}"

def labelJson : Label → Json
  | .produce => "produce" | .closeInput => "closeInput" | .consume => "consume" | .consumerEnd => "consumerEnd"
  | .schedule w => Json.arr #["schedule", toJson w] | .created w => Json.arr #["created", toJson w]
  | .ack w => Json.arr #["ack", toJson w] | .pull w => Json.arr #["pull", toJson w]
  | .pullEnd w => Json.arr #["pullEnd", toJson w] | .forward w => Json.arr #["forward", toJson w]
  | .finish w => Json.arr #["finish", toJson w]

def phaseStr : Phase → String
  | .idle => "idle" | .creating => "creating" | .kicked => "kicked" | .registered => "registered" | .done => "done"

def stepMode (mode : String) : Except String (St → Label → Option St) :=
  match mode with
  | "turn" => .ok stepT
  | "fused" => .ok (step { ackAwait := false })
  | "await" => .ok (step { ackAwait := true })
  | s => .error s!"bad mode {s}"

def stJson (s : St) : Json :=
  Json.mkObj [
    ("to_produce", toJson s.toProduce), ("inp", toJson s.inp), ("in_closed", s.inClosed),
    ("workers", Json.arr (s.ws.map fun x => Json.mkObj [("phase", phaseStr x.phase), ("pulling", x.pulling),
        ("remote_done", x.remoteDone), ("hand", toJson x.hand)]).toArray),
    ("result_q", toJson s.resultQ), ("consumed", toJson s.consumed),
    ("start", toJson s.start), ("stop", toJson s.stop), ("max_enqueuer", toJson s.maxE),
    ("enqueue_done", s.enqueueDone), ("consumer_done", s.consumerDone)]

/-- replays `ls`; returns (number accepted, final state, points visited (reversed)) -/
def replay (f : St → Label → Option St) : St → List Label → Nat → List String → Nat × St × List String
  | s, [], k, pts => (k, s, pts)
  | s, l :: ls, k, pts =>
    match f s l with
    | some s' => replay f s' ls (k + 1) (pointOf s l :: pts)
    | none => (k, s, pts)

def dedup (l : List String) : List String := l.foldl (fun acc x => if acc.contains x then acc else acc ++ [x]) []

/-- breadth-first exploration with a state cap -/
partial def bfs (f : St → Label → Option St) (labels : List Label) (cap : Nat)
    (frontier : List St) (seen : Std.HashSet St) (pts : List String) (terms : List St) (stuck : List St) :
    Std.HashSet St × List String × List St × List St × Bool :=
  match frontier with
  | [] => (seen, pts, terms, stuck, true)
  | s :: rest =>
    if seen.size > cap then (seen, pts, terms, stuck, false) else
    let succs := labels.filterMap fun l => (f s l).map fun s' => (l, s')
    let pts := succs.foldl (fun acc (l, _) => let p := pointOf s l; if acc.contains p then acc else p :: acc) pts
    let (terms, stuck) :=
      if succs.isEmpty then (if s.consumerDone then (s :: terms, stuck) else (terms, s :: stuck)) else (terms, stuck)
    let (seen, frontier) := succs.foldl (fun (seen, fr) (_, s') =>
      if seen.contains s' then (seen, fr) else (seen.insert s', s' :: fr)) (seen, rest)
    bfs f labels cap frontier seen pts terms stuck

def handle (j : Json) : Except String Json := do
  let op ← Driver.getStr j "op"
  let batches ← (← Driver.getArr j "batches").toList.mapM fun x => x.getNat?
  let n ← Driver.getNat j "workers"
  let f ← stepMode (← Driver.getStr j "mode")
  let s0 := St.init batches n
  match op with
  | "replay" =>
    let ls ← (← Driver.getArr j "schedule").toList.mapM parseLabel
    let (k, s, pts) := replay f s0 ls 0 []
    let rejected : Json := match ls.drop k with | [] => Json.null | l :: _ => labelJson l
    let en := (allLabels n).filter fun l => (f s l).isSome
    return Json.mkObj [
      ("accepted", decide (k = ls.length)), ("accepted_steps", toJson k), ("rejected", rejected),
      ("state", stJson s), ("points", toJson (dedup pts.reverse)),
      ("enabled", Json.arr (en.map labelJson).toArray)]
  | "explore" =>
    let cap := (j.getObjValAs? Nat "cap").toOption.getD 200000
    let (seen, pts, terms, stuck, complete) := bfs f (allLabels n) cap [s0] (Std.HashSet.emptyWithCapacity.insert s0) [] [] []
    let consumed := dedup (terms.map fun s => (toJson s.consumed).compress)
    return Json.mkObj [
      ("states", toJson seen.size), ("complete", complete),
      ("terminal_consumed", toJson consumed), ("terminals", toJson terms.length),
      ("stuck", Json.arr ((stuck.take 3).map stJson).toArray), ("stuck_count", toJson stuck.length),
      ("points", toJson (pts.mergeSort (· ≤ ·)))]
  | s => .error s!"stage: bad op {s}"

end Driver.Stage
