import Driver.Util
import Driver.Pipe
import MlModel.Model.PipeHeap
/-!
Driver handler for the `pipeheap` model: `_get_outputs` of an `Assign` on the cell heap (property C08,
"the caller's objects are untouched").

Request : {"model":"pipeheap","record":val,"steps":[{"keys":outspec,"outs":[val | {"at":[seg..]}],"outs_at"?:[seg..]}..]}
          (`outs_at`: the tuple of outputs IS the tuple object at that path of the current record — a function that
          returned a tuple VALUE of the record)
          `record` is loaded into a fresh heap (one cell per object, no sharing inside it); the steps are
          consecutive `assign`s on the same record; an output `{"at": path}` is the very object found at
          `path` in the *current* record (a function that returns one of its arguments).
Response: {"err": null|kind, "out": val, "shared": [[seg..]..], "written": n, "agree": bool}
          shared  = the container positions of the final record whose object is an object of the loaded
                    record (identity), depth first;
          written = number of pre-existing cells whose content changed (theorem C08_assign_no_write: 0);
          agree   = the value of the final record equals what the functional model (`Pipe.getOutputs`,
                    the one the refinement theorems are about) computes.
-/
open Lean MlModel
namespace Driver.PipeHeap
open MlModel.Tree MlModel.PipeHeap

partial def load (h : Heap) : Pipe.Val → Heap × Nat
  | .none => alloc h (.leaf .none)
  | .null => alloc h .null
  | .bool b => alloc h (.leaf (.int (if b then 1 else 0)))
  | .int i => alloc h (.leaf (.int i))
  | .str s => alloc h (.leaf (.str s))
  | .list xs =>
    let (h, rs) := xs.foldl (fun (acc : Heap × List Nat) x => let (h', r) := load acc.1 x; (h', acc.2 ++ [r])) (h, [])
    alloc h (.list rs)
  | .tuple xs =>
    let (h, rs) := xs.foldl (fun (acc : Heap × List Nat) x => let (h', r) := load acc.1 x; (h', acc.2 ++ [r])) (h, [])
    alloc h (.tuple rs)
  | .dict kvs =>
    let (h, es) := kvs.foldl (fun (acc : Heap × List (DKey × Nat)) kv =>
      let (h', r) := load acc.1 kv.2; (h', acc.2 ++ [(DKey.str kv.1, r)])) (h, [])
    alloc h (.dict es)

def dkeyName : DKey → String
  | .str s => s
  | .int i => s!"Index({i})"     -- (never arises here: `Pipe.Seg` has names and `Index` only)
  | .idx i => s!"Index({i})"     -- an `Index` object stored as a dict key (Model/Tree.lean keeps key objects since wp-C18F)
  | .lit _ _ => "Literal(?)"
  | .obj id => s!"Object({id})"   -- (never arises here) an opaque hashable key object (Model/Tree.lean, wp-SC18c)

partial def dump (h : Heap) (r : Nat) : Pipe.Val :=
  match h[r]? with
  | some (.leaf (.int i)) => .int i
  | some (.leaf (.str s)) => .str s
  | some (.leaf .none) => .none
  | some .null => .null
  | some (.list rs) => .list (rs.map (dump h))
  | some (.tuple rs) => .tuple (rs.map (dump h))
  | some (.dict es) => .dict (es.map fun (k, c) => (dkeyName k, dump h c))
  | _ => .none

def segP : Pipe.Seg → PKey
  | .name s => .str s
  | .idx i => .idx i

def keyPath : Pipe.Key → Except String Path
  | .name s => .ok [.str s]
  | .index i => .ok [.idx i]
  | .path p => .ok (p.map segP)
  | .self => .ok [.self]
  | .skip => .ok [.skip]
  | .lit _ => .error "Literal keys are not part of the heap tie"

def hkey : Pipe.OutKey → Except String HKey
  | .key k => do return .key (← keyPath k)
  | .dict items => do
    return .dict (← items.mapM fun (rk, src) => do return (← keyPath rk, ← keyPath src))

/-- container positions of the tree at `r` that are cells below `limit`, depth first -/
partial def shared (h : Heap) (limit : Nat) (r : Nat) (path : List Json) : List Json :=
  match h[r]? with
  | some (.dict es) =>
    (if r < limit then [Json.arr path.toArray] else []) ++
      es.flatMap fun (k, c) => shared h limit c (path ++ [Json.str (dkeyName k)])
  | some (.list rs) | some (.tuple rs) =>
    (if r < limit then [Json.arr path.toArray] else []) ++
      rs.zipIdx.flatMap fun (c, i) => shared h limit c (path ++ [toJson i])
  | _ => []

/-- the heap of `Model/Tree.lean` has `int` / `str` / `None` leaves: a bool is loaded as its int (`load`) -/
partial def unbool : Pipe.Val → Pipe.Val
  | .bool b => .int (if b then 1 else 0)
  | .list xs => .list (xs.map unbool)
  | .tuple xs => .tuple (xs.map unbool)
  | .dict kvs => .dict (kvs.map fun (k, v) => (k, unbool v))
  | v => v

structure St where
  h : Heap
  base : Nat
  /-- the functional model's record, or the error it raised -/
  fval : Except ErrKind Pipe.Val

def step (st : St) (j : Json) : Except String (St × Option ErrKind) := do
  let spec ← Driver.Pipe.parseOutSpec (← j.getObjVal? "keys")
  let keys := spec.normalize
  let hkeys ← keys.mapM hkey
  -- the function's outputs: fresh objects, or objects of the current record
  let mut h := st.h
  let mut outs : List Nat := []
  for o in (← Driver.getArr j "outs") do
    match o.getObjVal? "at" with
    | .ok (.arr p) =>
      let path ← p.toList.mapM Driver.Pipe.parseSeg
      match Tree.get h st.base (path.map segP) with
      | .ok r => outs := outs ++ [r]
      | .error _ => throw s!"bad at-path {o}"
    | _ =>
      let (h', r) := load h (← Driver.Pipe.parseVal o)
      h := h'
      outs := outs ++ [r]
  -- the tuple object holding the outputs: a fresh one, or (`outs_at`) the very tuple object of the current record
  -- that the function returned (its elements are then the objects that tuple holds)
  let (h1, t, outs2) ← match j.getObjVal? "outs_at" with
    | .ok (.arr p) => do
      let path ← p.toList.mapM Driver.Pipe.parseSeg
      match Tree.get h st.base (path.map segP) with
      | .ok r =>
        match h[r]? with
        | some (.tuple rs) => pure (h, r, rs)
        | _ => throw s!"outs_at does not name a tuple: {j}"
      | .error _ => throw s!"bad outs_at path {j}"
    | _ => let (h1, t) := alloc h (.tuple outs); pure (h1, t, outs)
  let fouts := outs2.map (dump h1)
  let op : Pipe.Op := { kind := .assign, inKeys := [], outKeys := keys, fn := Pipe.identityFn }
  let fval := st.fval >>= fun b => Pipe.getOutputs op b fouts
  match getOutputsH false h1 st.base hkeys outs2 t with
  | (h2, .ok r) => return ({ h := h2, base := r, fval := fval }, none)
  | (h2, .error e) => return ({ h := h2, base := st.base, fval := fval }, some e)

def handle (j : Json) : Except String Json := do
  let rec0 ← Driver.Pipe.parseVal (← j.getObjVal? "record")
  let (h0, base) := load #[] rec0
  let limit := h0.size
  let mut st : St := { h := h0, base := base, fval := .ok rec0 }
  let mut err : Option ErrKind := none
  let mut written := 0
  for s in (← Driver.getArr j "steps") do
    if err.isNone then
      let before := st.h
      let (st', e) ← step st s
      -- cells that existed before this step's routing (the loaded outputs are allocated inside `step`:
      -- compare only the cells that existed before the step at all)
      written := written + ((List.range before.size).filter fun r => st'.h[r]? != before[r]?).length
      st := st'
      err := e
  let out := dump st.h st.base
  let agree := match err, st.fval with
    | none, .ok v => unbool v == out
    | some _, .error _ => true
    | _, _ => false
  return Json.mkObj [("err", Driver.optErrJson err), ("out", Driver.Pipe.valJson out),
    ("shared", Json.arr (shared st.h limit st.base []).toArray), ("written", toJson written),
    ("agree", toJson agree)]

end Driver.PipeHeap
