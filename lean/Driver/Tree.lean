import Driver.Util
import MlModel.Model.Tree
/-!
Driver handler for the `tree` model (property C18).

Request : {"model":"tree","strict":bool,"heap":[cell…],"ops":[op…]}
Response: {"ops":[obs…]}   one observation per op; references are raw heap indices (the harness
relabels them to first-seen identity classes on both sides).
-/
open Lean MlModel MlModel.Tree
namespace Driver.Tree

def parseDKey (j : Json) : Except String DKey :=
  match j.getObjVal? "s" with
  | .ok v => do return .str (← v.getStr?)
  | .error _ =>
    match j.getObjVal? "i" with
    | .ok v => do return .int (← v.getInt?)
    | .error _ =>
      match j.getObjVal? "x" with
      | .ok v => do return .idx (← v.getInt?)       -- an `Index` object held as a dict key
      | .error _ =>
        match j.getObjVal? "o" with
        | .ok v => do return .obj (← v.getNat?)      -- any other hashable key object (Key instance, tuple, …): an atom
        | .error _ => do
          let id ← j.getObjValAs? Nat "l"
          let v ← j.getObjValAs? Nat "v"
          return .lit id v

def dkeyJson : DKey → Json
  | .str s => Json.mkObj [("s", s)]
  | .int i => Json.mkObj [("i", toJson i)]
  | .idx i => Json.mkObj [("x", toJson i)]
  | .lit id v => Json.mkObj [("l", toJson id), ("v", toJson v)]
  | .obj id => Json.mkObj [("o", toJson id)]

def parsePKey (j : Json) : Except String PKey :=
  match j with
  | .str "SELF" => .ok .self
  | .str "SKIP" => .ok .skip
  | _ =>
    match j.getObjVal? "s" with
    | .ok v => do return .str (← v.getStr?)
    | .error _ =>
      match j.getObjVal? "x" with
      | .ok v => do return .idx (← v.getInt?)
      | .error _ =>
        match j.getObjVal? "i" with
        | .ok v => do return .int (← v.getInt?)
        | .error _ =>
          match j.getObjVal? "o" with
          | .ok v => do return .obj (← v.getNat?)
          | .error _ => do
            let id ← j.getObjValAs? Nat "l"
            let v ← j.getObjValAs? Nat "v"
            return .lit id v

def pkeyJson : PKey → Json
  | .str s => Json.mkObj [("s", s)]
  | .idx i => Json.mkObj [("x", toJson i)]
  | .int i => Json.mkObj [("i", toJson i)]
  | .self => Json.str "SELF"
  | .skip => Json.str "SKIP"
  | .lit id v => Json.mkObj [("l", toJson id), ("v", toJson v)]
  | .obj id => Json.mkObj [("o", toJson id)]

def parsePath (j : Json) : Except String Path := do
  (← j.getArr?).toList.mapM parsePKey

def pathJson (p : Path) : Json := Json.arr (p.map pkeyJson).toArray

def parseKeys (j : Json) : Except String Keys :=
  match j with
  | .str "empty" => .ok .empty
  | _ =>
    match j.getObjVal? "path" with
    | .ok v => do return .path (← parsePath v)
    | .error _ => do
      let ks ← (← Driver.getArr j "multi").toList.mapM parsePath
      return .multi ks

/-- a path element that may be a tuple of ints: `{"t": [i, j, …]}` -/
def parseXKey (j : Json) : Except String XKey :=
  match j.getObjVal? "t" with
  | .ok v => do return .tup (← (← v.getArr?).toList.mapM (·.getInt?))
  | .error _ => do return .k (← parsePKey j)

def parseXPath (j : Json) : Except String (List XKey) := do
  (← j.getArr?).toList.mapM parseXKey

def parseKeysX (j : Json) : Except String KeysX :=
  match j with
  | .str "empty" => .ok .empty
  | _ =>
    match j.getObjVal? "path" with
    | .ok v => do return .path (← parseXPath v)
    | .error _ => do
      let ks ← (← Driver.getArr j "multi").toList.mapM parseXPath
      return .multi ks

def xpathPlain (p : List XKey) : Option Path :=
  p.mapM fun x => match x with | .k k => some k | .tup _ => none

/-- the tuple-free form of `keys`, if it has one: then the functions the C18 theorems are about are run -/
def keysPlain : KeysX → Option Keys
  | .path p => (xpathPlain p).map .path
  | .empty => some .empty
  | .multi ks => (ks.mapM xpathPlain).map .multi

def parseRefs (j : Json) (k : String) : Except String (List Ref) := do
  (← Driver.getArr j k).toList.mapM (·.getNat?)

def parseCell (j : Json) : Except String Node := do
  match ← Driver.getStr j "t" with
  | "dict" =>
    let es ← (← Driver.getArr j "es").toList.mapM fun e => do
      let a ← e.getArr?
      match a.toList with
      | [k, r] => do return ((← parseDKey k), (← r.getNat?))
      | _ => throw "bad dict entry"
    return .dict es
  | "list" => return .list (← parseRefs j "rs")
  | "tuple" => return .tuple (← parseRefs j "rs")
  | "int" => return .leaf (.int (← Driver.getInt j "v"))
  | "str" => return .leaf (.str (← Driver.getStr j "v"))
  | "nd" =>
    let shape ← (← Driver.getArr j "shape").toList.mapM (·.getNat?)
    return .nd (← Driver.getNat j "b") (← Driver.getNat j "off") shape
  | "buf" => return .buf (← (← Driver.getArr j "v").toList.mapM (·.getInt?))
  | "none" => return .leaf .none
  | "null" => return .null
  | t => throw s!"bad cell kind {t}"

def valJson : Val → Json
  | .int i => Json.mkObj [("int", toJson i)]
  | .str s => Json.mkObj [("str", s)]
  | .none => Json.str "none"

/-- Structure reachable from `r`, with raw references. -/
def dump (h : Heap) : Nat → Ref → Json
  | 0, r => Json.mkObj [("t", "cut"), ("r", toJson r)]
  | fuel + 1, r =>
    match h[r]? with
    | none => Json.mkObj [("t", "dangling"), ("r", toJson r)]
    | some (.dict es) =>
      Json.mkObj [("t", "dict"), ("r", toJson r),
        ("es", Json.arr (es.map fun (k, c) => Json.arr #[dkeyJson k, dump h fuel c]).toArray)]
    | some (.list rs) =>
      Json.mkObj [("t", "list"), ("r", toJson r), ("rs", Json.arr (rs.map (dump h fuel)).toArray)]
    | some (.tuple rs) =>
      Json.mkObj [("t", "tuple"), ("r", toJson r), ("rs", Json.arr (rs.map (dump h fuel)).toArray)]
    | some (.leaf v) => Json.mkObj [("t", "leaf"), ("r", toJson r), ("v", valJson v)]
    | some .null => Json.mkObj [("t", "null"), ("r", toJson r)]
    | some (.nd b off shape) =>
      Json.mkObj [("t", "nd"), ("r", toJson r), ("b", toJson b), ("off", toJson off), ("shape", toJson shape),
        ("v", toJson (ndElems h b off shape))]
    | some (.buf _) => Json.mkObj [("t", "buf"), ("r", toJson r)]

def dumpH (h : Heap) (r : Ref) : Json := dump h (h.size + 1) r

/-- The library of leaf functions shared with harness/props/c18.py. -/
def leafFn : String → Except String (Option LeafFn)
  | "none" => .ok none
  | "id" => .ok (some fun h r => (h, r))
  | "inc" => .ok (some fun h r =>
      match h[r]? with
      | some (.leaf (.int i)) => alloc h (.leaf (.int (i + 1)))
      | _ => (h, r))
  | "wrap" => .ok (some fun h r => alloc h (.list [r]))
  | "pair" => .ok (some fun h r => alloc h (.tuple [r, r]))
  | "const" => .ok (some fun h _ => alloc h (.leaf (.int 7)))
  | s => .error s!"unknown leaf fn {s}"

/-- Two child references denote "the same object" for the identity observation: equal references, or
interned scalars (int/str/None leaves, the empty tuple) of equal value. -/
def sameChild (h' : Heap) (a b : Ref) : Bool :=
  a == b ||
  match h'[a]?, h'[b]? with
  | some (.leaf x), some (.leaf y) => x == y
  | some (.tuple []), some (.tuple []) => true
  | _, _ => false

def sameRefs (h' : Heap) : List Ref → List Ref → Bool
  | [], [] => true
  | a :: as, b :: bs => sameChild h' a b && sameRefs h' as bs
  | _, _ => false

def sameCell (h' : Heap) : Node → Node → Bool
  | .dict es, .dict es' => es.map (·.1) == es'.map (·.1) && sameRefs h' (es.map (·.2)) (es'.map (·.2))
  | .list rs, .list rs' => sameRefs h' rs rs'
  | .tuple rs, .tuple rs' => sameRefs h' rs rs'
  | a, b => a == b

/-- Cells below `h.size` whose (shallow) content differs in `h'`.  An ndarray *object* counts as changed
when the elements it shows changed (that is what Python can observe of it); buffers are not objects. -/
def changed (h h' : Heap) : List Nat :=
  (List.range h.size).filter fun r =>
    match h[r]?, h'[r]? with
    | some (.buf _), some (.buf _) => false
    | some (.nd b o s), some (.nd b' o' s') =>
      !(b == b' && o == o' && s == s' && ndElems h b o s == ndElems h' b' o' s')
    | some a, some b => !sameCell h' a b
    | _, _ => true

/-- What `__get` returned: an object of the heap, or a new view / numpy scalar (`tag` makes the raw identity
of a new view unique; the harness relabels identities to first-seen classes on both sides). -/
def locJson (h : Heap) (tag : String) : Loc → Json
  | .obj r => dumpH h r
  | .view b off shape =>
    Json.mkObj [("t", "nd"), ("r", Json.str tag), ("b", toJson b), ("off", toJson off), ("shape", toJson shape),
      ("v", toJson (ndElems h b off shape))]
  | .scalar x => Json.mkObj [("t", "leaf"), ("v", valJson (.int x))]

def keysPaths : Keys → List Path
  | .path p => [p]
  | .empty => []
  | .multi ks => ks

structure St where
  heap : Heap
  roots : Array (Option Ref)   -- result root of each op so far (none if it has none)

/-- The tree an op works on: a raw reference, or the result root of an earlier op (`none` when that op
raised, in which case this op is skipped on both sides). -/
def resolveRoot (st : St) (j : Json) (k : String) : Except String (Option Ref) := do
  let v ← j.getObjVal? k
  match v.getNat? with
  | .ok r => return some r
  | .error _ =>
    let i ← v.getObjValAs? Nat "res"
    match st.roots[i]? with
    | some r => return r
    | none => throw s!"op {i} does not exist yet"

def resObs (h h' : Heap) (orig : Ref) : Res Ref → Json
  | (_, .ok r) => Json.mkObj [("err", Json.null), ("res", dumpH h' r), ("orig", dumpH h' orig),
      ("changed", toJson (changed h h'))]
  | (_, .error e) => Json.mkObj [("err", Driver.errJson e), ("orig", dumpH h' orig),
      ("changed", toJson (changed h h'))]

def runOp (strict : Bool) (st : St) (j : Json) : Except String (St × Json) := do
  let op ← Driver.getStr j "op"
  let h := st.heap
  let skipped : St × Json := ({ st with roots := st.roots.push none }, Json.mkObj [("skipped", true)])
  if (j.getObjValAs? Bool "skip").toOption == some true then return skipped
  let root ← if op == "normalize" then pure 0 else
    match ← resolveRoot st j "root" with
    | some r => pure r
    | none => return skipped
  match op with
  | "get" | "getd" =>
    let keysX ← parseKeysX (← j.getObjVal? "keys")
    let sentinel : GetResV := .one (.obj (h.size + 1000000))
    let r := match keysPlain keysX with
      | some keys => if op == "get" then getItemV h root keys else getDV h root keys sentinel
      | none => if op == "get" then getItemVX h root keysX else getDVX h root keysX sentinel
    let tag := s!"view@{st.roots.size}"
    let o := match r with
      | .error e => Json.mkObj [("err", Driver.errJson e)]
      | .ok (.one l) =>
        if l == .obj (h.size + 1000000) then Json.mkObj [("err", Json.null), ("default", true)]
        else Json.mkObj [("err", Json.null), ("one", locJson h tag l)]
      | .ok (.many ls) => Json.mkObj [("err", Json.null),
          ("many", Json.arr (ls.zipIdx.map fun (l, i) => locJson h s!"{tag}.{i}" l).toArray)]
    return ({ st with roots := st.roots.push none }, o)
  | "set" =>
    let keysX ← parseKeysX (← j.getObjVal? "keys")
    let value ← Driver.getNat j "value"
    let inPlace ← Driver.getBool j "in_place"
    let r := match keysPlain keysX with
      | some keys => setItem strict inPlace h root keys value
      | none => setItemX strict inPlace h root keysX value
    let root' := match r.2 with | .ok x => some x | .error _ => none
    return ({ heap := r.1, roots := st.roots.push root' }, resObs h r.1 root r)
  | "update" =>
    let pairs ← (← Driver.getArr j "pairs").toList.mapM fun e => do
      let a ← e.getArr?
      match a.toList with
      | [p, v] => do return ((← parseXPath p), (← v.getNat?))
      | _ => throw "bad pair"
    let r := match pairs.mapM (fun pv => (xpathPlain pv.1).map fun p => (p, pv.2)) with
      | some plain => copyAndUpdate strict h root plain
      | none => copyAndUpdateX strict h root pairs
    let root' := match r.2 with | .ok x => some x | .error _ => none
    return ({ heap := r.1, roots := st.roots.push root' }, resObs h r.1 root r)
  | "items" =>
    let o := match items h root with
      | .error e => Json.mkObj [("err", Driver.errJson e)]
      | .ok kvs => Json.mkObj [("err", Json.null),
          ("items", Json.arr (kvs.map fun (p, r) => Json.arr #[pathJson p, dumpH h r]).toArray)]
    return ({ st with roots := st.roots.push none }, o)
  | "apply" =>
    let f ← leafFn (← Driver.getStr j "fn")
    let r := applyFn strict f h root
    let root' := match r.2 with | .ok x => some x | .error _ => none
    return ({ heap := r.1, roots := st.roots.push root' }, resObs h r.1 root r)
  | "normalize" =>
    let keys ← parseKeys (← j.getObjVal? "keys")
    return ({ st with roots := st.roots.push none },
      Json.mkObj [("err", Json.null), ("paths", Json.arr ((normalizeKeys keys).map pathJson).toArray)])
  | s => throw s!"unknown op {s}"

def handle (j : Json) : Except String Json := do
  let strict ← Driver.getBool j "strict"
  let cells ← (← Driver.getArr j "heap").toList.mapM parseCell
  let ops ← Driver.getArr j "ops"
  let mut st : St := { heap := cells.toArray, roots := #[] }
  let mut out : Array Json := #[]
  for o in ops do
    let (st', obs) ← runOp strict st o
    st := st'
    out := out.push obs
  return Json.mkObj [("ops", Json.arr out)]

end Driver.Tree
