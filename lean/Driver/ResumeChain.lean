import Driver.Util
import Driver.Resume
import MlModel.Model.ResumeChain
/-!
Driver handler for `Model/ResumeChain.lean` (wire name "resumechain").

Request
```
{"model":"resumechain",
 "src":    as for "resume",
 "data":   [[r,...],...]        one list of integer rows per source element
 "stages": [{"name":s,"a":A,"b":B,"drop":null|{"m":M,"r":R},"agg":bool}, ...]    upstream first, >= 1
 "ops":    [["take",k] | ["ckpt"] | ["restore"]],
 "final":  k}                   a last `take k` (drain)
```
Answer: `log` (what every take returned), `delivered` (surviving timeline), `agg` = the chained
iterator's `agg_state` as `[[name, {"sum","count"}], ...]` (order of `named_iterators`),
`snaps` = `agg` after every op of `ops`, `start_agg` = `agg` of the fresh iterator,
`tracked` = `_iterators` as hop counts, `stage_aggs` = every stage's aggregation state upstream
first (whether tracked or not), `err`.
-/
open Lean MlModel MlModel.Resume
namespace Driver.ResumeChain

abbrev St := Stage (List Int) Int (Int × Nat) (Int × Nat)

def parseStage (j : Json) : Except String St := do
  let name ← Driver.getStr j "name"
  let c ← Driver.Resume.parsePipe (j.setObjVal! "target" (toJson (0 : Nat)))
  let agg ← match j.getObjVal? "agg" with
    | .ok (.bool b) => pure b
    | _ => throw "stage: agg must be a bool"
  return ⟨name, c.f, Driver.Resume.sumCount, id, agg⟩

def aggArr {R : Recoverable (List Int)} (rs : List St) (c : ChainIt R rs) : Json :=
  Json.arr ((ChainIt.aggState R rs c).map fun p =>
    Json.arr #[Json.str p.1, Driver.Resume.aggJson p.2]).toArray

/-- `ChainRun.run`, additionally recording `agg_state` after every op (`snaps`) -/
def stepAll {R : Recoverable (List Int)} (rs : List St) :
    ChainRun R rs → List Op → List Json → Except ErrKind (ChainRun R rs × List Json)
  | r, [], acc => .ok (r, acc.reverse)
  | r, op :: ops, acc => do
    let r' ← ChainRun.step R rs r op
    stepAll rs r' ops (aggArr rs r'.c :: acc)

def run {R : Recoverable (List Int)} (rs : List St) (it : R.It) (ops : List Op) (final : Nat) : Json :=
  match stepAll rs (ChainRun.init R rs it) ops [] >>= fun (r0, snaps) =>
      (ChainRun.step R rs r0 (.take final)).map fun r => (r, snaps) with
  | .error e => Driver.Resume.errObj e
  | .ok (r, snaps) => Json.mkObj [
      ("log", Json.arr (r.log.map Driver.Resume.outsJson).toArray),
      ("delivered", Driver.Resume.outsJson r.delivered),
      ("agg", aggArr rs r.c),
      ("snaps", Json.arr snaps.toArray),
      ("start_agg", aggArr rs (ChainIt.fresh R rs it)),
      ("tracked", toJson r.c.tracked),
      ("stage_aggs", Json.arr ((aggsDown R rs r.c.top).reverse.map Driver.Resume.aggJson).toArray),
      ("err", Json.null)]

def handle (j : Json) : Except String Json := do
  let data ← (← Driver.getArr j "data").toList.mapM Driver.Resume.parseRows
  let src ← j.getObjVal? "src"
  let kind ← Driver.getStr src "kind"
  let stages ← (← Driver.getArr j "stages").toList.mapM parseStage
  if stages.isEmpty then throw "resumechain: at least one stage"
  let rs := stages.reverse          -- the model lists stages downstream first
  let final ← Driver.getNat j "final"
  let ops ← (← Driver.getArr j "ops").toList.mapM Driver.Resume.parseOp
  if kind == "seq" then
    let chain ← (← Driver.getArr src "chain").toList.mapM Driver.Resume.parseCfg
    match chain.foldlM Src.shard (Src.root data.length) with
    | .error e => return Driver.Resume.errObj e
    | .ok s => return run (R := seqRec data) rs s.iterate ops final
  else
    let cfg ← Driver.Resume.parseCfg src
    match IterIt.restore cfg with
    | .error e => return Driver.Resume.errObj e
    | .ok it => return run (R := iterRec data) rs it ops final

end Driver.ResumeChain
