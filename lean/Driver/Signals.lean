import Driver.Util
import MlModel.Model.Signals
/-! Driver handler for the classification signals (model name "signals"). -/
open Lean MlModel MlModel.Signals
namespace Driver.Signals

def rat (j : Json) : Except String Rat := do
  match ← Driver.parseOptRat j with
  | some q => pure q
  | none => throw "nan not supported"

def rats (j : Json) (k : String) : Except String (List Rat) := do
  (← Driver.getArr j k).toList.mapM rat

def termsJson (r : Except ErrKind LogTerms) : Json :=
  match r with
  | .error e => Json.mkObj [("err", Json.str e.name)]
  | .ok ts => Json.mkObj [("terms", Json.arr (ts.map fun (c, a) =>
      Json.mkObj [("c", Driver.ratJson c), ("a", Driver.ratJson a)]).toArray)]

def handle (j : Json) : Except String Json := do
  match ← Driver.getStr j "name" with
  | "binary_flip_mask" | "neg_to_pos_flip_mask" | "pos_to_neg_flip_mask" =>
    let name ← Driver.getStr j "name"
    match j.getObjVal? "threshold" with
    | .ok (.null) | .error _ =>
      let b ← Driver.getBool j "base_pred"
      let m ← Driver.getBool j "model_pred"
      let v : Nat := match name with
        | "binary_flip_mask" => binaryFlipB b m
        | "neg_to_pos_flip_mask" => if negToPosB b m then 1 else 0
        | _ => if posToNegB b m then 1 else 0
      return Json.mkObj [("out", toJson v)]
    | .ok tj =>
      let t ← rat tj
      let bs ← rats j "base_pred"
      let ms ← rats j "model_pred"
      let f := match name with
        | "binary_flip_mask" => binaryFlip t
        | "neg_to_pos_flip_mask" => negToPos t
        | _ => posToNeg t
      return Json.mkObj [("out", toJson (List.zipWith f bs ms))]
  | "topk_accurate" =>
    let s ← rats j "scores"
    let w ← rats j "weights"
    return Json.mkObj [("out", toJson (topkAccurate (weighted s w) (← Driver.getNat j "label") (← Driver.getNat j "k")))]
  | "binary_cross_entropy" => return termsJson (binaryCrossEntropy (← rats j "y_true") (← rats j "y_pred"))
  | "categorical_cross_entropy" => return termsJson (categoricalCrossEntropy (← rats j "y_true") (← rats j "y_pred"))
  | n => throw s!"unknown signal {n}"

end Driver.Signals
