import Driver.Util
import MlModel.Model.Queue
open Lean MlModel MlModel.Queue
namespace Driver.Queue

def parseItem (j : Json) : Except String Item :=
  match j with
  | .str "fail" => .ok .fail
  | _ => do let n ← j.getNat?; return .val n

def parseErr : String → ErrKind
  | "ValueError" => .value | "TimeoutError" => .timeout | "RuntimeError" => .runtime
  | "TypeError" => .type | "KeyError" => .key | _ => .other

def parseProg (j : Json) : Except String Prog := do
  let k ← Driver.getStr j "kind"
  match k with
  | "producer" => do
    let src ← (← Driver.getArr j "src").toList.mapM parseItem
    let r ← Driver.getNat j "ret"
    return .producer src r
  | "get" => return .getLoop
  | "batch" => do
    let m ← Driver.getNat j "max"
    let b ← Driver.getBool j "block"
    return .batchLoop m b
  | "batchkeep" => do
    let m ← Driver.getNat j "max"
    return .batchKeep m
  | "stopper" =>
    match j.getObjValAs? String "exc" with
    | .ok e => return .stopper (some (parseErr e))
    | .error _ => return .stopper none
  | _ => throw s!"bad prog {k}"

def raiseJson : Raise → Json
  | .empty => Json.mkObj [("raise", "Empty")]
  | .stop r => Json.mkObj [("raise", "StopIteration"), ("args", toJson r)]
  | .err e => Json.mkObj [("raise", e.name)]

def threadJson (t : Thread) : Json :=
  Json.mkObj [
    ("done", t.pc == .done),
    ("received", toJson (t.received.map (·.2))),
    ("outcome", match t.outcome with | none => Json.null | some r => raiseJson r)]

def parseChoice (j : Json) : Except String (Tid × Bool) := do
  match j with
  | .arr a =>
    let tid ← (a[0]?.getD Json.null).getNat?
    let alt := match a[1]? with | some (.str "timeout") => true | _ => false
    return (tid, alt)
  | _ => do let tid ← j.getNat?; return (tid, false)

/-- request: {cap, max_enq, timeout, ignore_error, threads:[prog], schedule:[tid | [tid,"timeout"]]}
response: trace of labels, acceptance, final thread states and the set of choices enabled at the end -/
def handle (j : Json) : Except String Json := do
  let cap ← Driver.getNat j "cap"
  let maxEnq ← Driver.getNat j "max_enq"
  let timeout ← Driver.getBool j "timeout"
  let ign ← Driver.getBool j "ignore_error"
  let progs ← (← Driver.getArr j "threads").toList.mapM parseProg
  let sched ← (← Driver.getArr j "schedule").toList.mapM parseChoice
  let c0 := init cap maxEnq timeout ign progs
  let (trace, c, ok) := replay c0 sched []
  let enJson (l : List (Tid × Bool)) : Json := Json.arr (l.map fun (tid, alt) =>
        Json.arr #[toJson tid, if alt then Json.str "timeout" else Json.null]).toArray
  let wantEn := (j.getObjValAs? Bool "want_enabled").toOption.getD false
  let enTrace := if wantEn then Json.arr ((replayEnabled c0 sched []).map enJson).toArray else Json.null
  return Json.mkObj [
    ("enabled_trace", enTrace),
    ("accepted", ok),
    ("trace", Json.arr (trace.map fun (tid, l) => Json.arr #[toJson tid, Json.str l]).toArray),
    ("threads", Json.arr (c.ths.map threadJson).toArray),
    ("all_done", c.allDone),
    ("enabled", Json.arr ((enabled c).map fun (tid, alt) =>
        Json.arr #[toJson tid, if alt then Json.str "timeout" else Json.null]).toArray),
    ("q", toJson (c.sh.q.map (·.2))), ("returned", toJson c.sh.returned), ("exhausted", c.sh.exhausted),
    ("produced", toJson (c.sh.produced.map (·.2))), ("lost", toJson (c.sh.lost.map (·.2)))]

end Driver.Queue
