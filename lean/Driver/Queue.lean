import Driver.Util
import MlModel.Model.Queue
open Lean MlModel MlModel.Queue
namespace Driver.Queue

def parseItem (j : Json) : Except String Item :=
  match j with
  | .str "fail" => .ok .fail
  | _ => do let n ← j.getNat?; return .val n

def parseErr : String → ErrKind
  | "ValueError" => .value | "TimeoutError" => .timeout | "RuntimeError" => .runtime
  | "TypeError" => .type | "KeyError" => .key | _ => .other

def parseProg (j : Json) : Except String Prog := do
  let k ← Driver.getStr j "kind"
  match k with
  | "producer" => do
    let src ← (← Driver.getArr j "src").toList.mapM parseItem
    let r ← Driver.getNat j "ret"
    return .producer src r
  | "get" => return .getLoop
  | "batch" => do
    let m ← Driver.getNat j "max"
    let b ← Driver.getBool j "block"
    return .batchLoop m b
  | "stopper" =>
    match j.getObjValAs? String "exc" with
    | .ok e => return .stopper (some (parseErr e))
    | .error _ => return .stopper none
  | _ => throw s!"bad prog {k}"

def raiseJson : Raise → Json
  | .empty => Json.mkObj [("raise", "Empty")]
  | .stop r => Json.mkObj [("raise", "StopIteration"), ("args", toJson r)]
  | .err e => Json.mkObj [("raise", e.name)]

def threadJson (t : Thread) : Json :=
  Json.mkObj [
    ("done", t.pc == .done),
    ("received", toJson (t.received.map (·.2))),
    ("outcome", match t.outcome with | none => Json.null | some r => raiseJson r)]

def parseChoice (j : Json) : Except String (Tid × Bool) := do
  match j with
  | .arr a =>
    let tid ← (a[0]?.getD Json.null).getNat?
    let alt := match a[1]? with | some (.str "timeout") => true | _ => false
    return (tid, alt)
  | _ => do let tid ← j.getNat?; return (tid, false)

/-! ## Program points (`Pc` constructors) by name -/

def callerName : Caller → String
  | .get => "get" | .batch => "batch"

/-- Name of a program point: the constructor name, `get_nowait`'s points suffixed by their caller. -/
def _root_.MlModel.Queue.Pc.name : Pc → String
  | .start => "start" | .done => "done"
  | .nAcq c => "nAcq." ++ callerName c | .nGet c => "nGet." ++ callerName c | .nEmp c => "nEmp." ++ callerName c
  | .nNaOk c => "nNaOk." ++ callerName c | .nNaErr c => "nNaErr." ++ callerName c
  | .nRelOk c => "nRelOk." ++ callerName c | .nRelErr c => "nRelErr." ++ callerName c
  | .gAcq => "gAcq" | .gR0 => "gR0" | .gR1 => "gR1" | .gR2 => "gR2" | .gR3 => "gR3" | .gR4 => "gR4"
  | .gRet => "gRet" | .gWait => "gWait" | .gWake => "gWake" | .gRaise => "gRaise"
  | .bAcq => "bAcq" | .bR0 => "bR0" | .bR1 => "bR1" | .bR2 => "bR2" | .bR3 => "bR3" | .bR4 => "bR4"
  | .bEmp => "bEmp" | .bWait => "bWait" | .bWake => "bWake" | .bRaise => "bRaise" | .bExit => "bExit"
  | .bE1 => "bE1" | .bE2 => "bE2" | .bE3 => "bE3"
  | .sAcq => "sAcq" | .sRel => "sRel" | .eNext => "eNext"
  | .pAcq => "pAcq" | .pPut => "pPut" | .pStAcq => "pStAcq" | .pStRel => "pStRel"
  | .pR0 => "pR0" | .pR1 => "pR1" | .pR2 => "pR2" | .pR3 => "pR3" | .pR4 => "pR4" | .pRet => "pRet"
  | .pWait => "pWait" | .pWake => "pWake" | .pRaiseT => "pRaiseT" | .pExit => "pExit"
  | .tAcq => "tAcq" | .tR0 => "tR0" | .tR1 => "tR1" | .tR2 => "tR2" | .tR3 => "tR3" | .tR4 => "tR4"
  | .tS0 => "tS0" | .tS1 => "tS1" | .tS2 => "tS2" | .tS3 => "tS3" | .tS4 => "tS4" | .tRel => "tRel"
  | .mAcq => "mAcq" | .mRel => "mRel" | .mE0 => "mE0" | .mE1 => "mE1" | .mE2 => "mE2"
  | .mD0 => "mD0" | .mD1 => "mD1" | .mD2 => "mD2"

/-- Every `Pc` constructor (completeness: `Pc.all_complete` below). -/
def _root_.MlModel.Queue.Pc.all : List Pc :=
  [.start, .done] ++
  [Caller.get, Caller.batch].flatMap (fun c =>
    [.nAcq c, .nGet c, .nEmp c, .nNaOk c, .nNaErr c, .nRelOk c, .nRelErr c]) ++
  [.gAcq, .gR0, .gR1, .gR2, .gR3, .gR4, .gRet, .gWait, .gWake, .gRaise,
   .bAcq, .bR0, .bR1, .bR2, .bR3, .bR4, .bEmp, .bWait, .bWake, .bRaise, .bExit, .bE1, .bE2, .bE3,
   .sAcq, .sRel, .eNext,
   .pAcq, .pPut, .pStAcq, .pStRel, .pR0, .pR1, .pR2, .pR3, .pR4, .pRet, .pWait, .pWake, .pRaiseT, .pExit,
   .tAcq, .tR0, .tR1, .tR2, .tR3, .tR4, .tS0, .tS1, .tS2, .tS3, .tS4, .tRel,
   .mAcq, .mRel, .mE0, .mE1, .mE2, .mD0, .mD1, .mD2]

/-- Adding a `Pc` constructor without listing it in `Pc.all` breaks the build. -/
theorem _root_.MlModel.Queue.Pc.all_complete (p : Pc) : p ∈ Pc.all := by
  cases p <;> first | decide | (rename_i c; cases c <;> decide)

/-- The parked-wait points: the only ones with a timeout alternative `(tid, true)`. -/
def _root_.MlModel.Queue.Pc.hasAlt : Pc → Bool
  | .gWake | .bWake | .pWake => true
  | _ => false

/-- Name of the program point executed by the choice `(pc, alt)`. -/
def pointName (pc : Pc) (alt : Bool) : String := if alt then pc.name ++ ":timeout" else pc.name

/-- The program points that can execute a step: every `Pc` except the terminal `done`, plus the
timeout alternative of the three parked-wait points.  Slot of `(pc, alt)` = its index here. -/
def allPoints : List (Pc × Bool) :=
  (Pc.all.filter (· != .done)).flatMap fun pc => if pc.hasAlt then [(pc, false), (pc, true)] else [(pc, false)]

def slotOf (pc : Pc) (alt : Bool) : Nat := allPoints.idxOf (pc, alt)

def pcTraceJson (c0 : Cfg) (sched : List (Tid × Bool)) : Json :=
  let rec go (c : Cfg) (l : List (Tid × Bool)) (acc : Array Json) : Array Json :=
    match l with
    | [] => acc
    | (tid, alt) :: rest =>
      match c.ths[tid]?, step c tid alt with
      | some t, some (_, c') => go c' rest (acc.push (Json.str (pointName t.pc alt)))
      | _, _ => acc
  Json.arr (go c0 sched #[])

/-! ## `"op": "cover"`: seeded random walks on the LTS + greedy cover of the program points reached -/

/-- Knuth's MMIX linear congruential generator, 64 bit. -/
def lcg (s : Nat) : Nat := (s * 6364136223846793005 + 1442695040888963407) % 18446744073709551616

/-- next state and a draw in `[0, n)` (from the high bits) -/
def draw (s n : Nat) : Nat × Nat :=
  let s' := lcg s
  ((s' / 4294967296) % (max n 1), s')

structure Walk where
  sched : Array (Tid × Bool) := #[]
  /-- slots (indices into `allPoints`) of the points executed, step by step -/
  slots : Array Nat := #[]
  /-- "done" (all threads finished) | "deadlock" (nothing enabled) | "max_len" -/
  ending : String := "max_len"

/-- One random walk: uniform among the enabled ordinary choices; when timeout alternatives are on
offer one of them is taken with probability 1/10 (always, if nothing else is enabled). -/
def walk : Nat → Cfg → Nat → Walk → Walk × Nat
  | 0, c, rng, w => ({ w with ending := if c.allDone then "done" else "max_len" }, rng)
  | fuel + 1, c, rng, w =>
    let en := enabled c
    if en.isEmpty then ({ w with ending := if c.allDone then "done" else "deadlock" }, rng) else
    let normal := en.filter fun x => !x.2
    let alts := en.filter fun x => x.2
    let (r1, rng) := draw rng 10
    let pool := if !alts.isEmpty && (normal.isEmpty || r1 == 0) then alts else normal
    let (r2, rng) := draw rng pool.length
    match pool[r2]? with
    | none => (w, rng)
    | some (tid, alt) =>
      match c.ths[tid]?, step c tid alt with
      | some t, some (_, c') =>
        walk fuel c' rng { w with sched := w.sched.push (tid, alt), slots := w.slots.push (slotOf t.pc alt) }
      | _, _ => (w, rng)

def walkMask (w : Walk) : Nat := w.slots.foldl (fun m i => m ||| (1 <<< i)) 0

def popcount (n bits : Nat) : Nat := (List.range bits).foldl (fun a i => a + (n >>> i) % 2) 0

/-- Greedy cover: repeatedly keep the candidate walk that adds the most points not yet covered
(ties: the shorter one), until no candidate adds anything. -/
def greedy (ws : Array (Walk × Nat)) (cand : Walk → Bool) : Nat → Nat → Array Nat → Nat × Array Nat
  | 0, cov, kept => (cov, kept)
  | fuel + 1, cov, kept =>
    let nbits := allPoints.length
    let best := (List.range ws.size).foldl (fun (b : Option (Nat × Nat × Nat)) i =>
      match ws[i]? with
      | none => b
      | some (w, m) =>
        if !cand w then b else
        let gain := popcount (m - (m &&& cov)) nbits
        if gain == 0 then b else
        match b with
        | none => some (i, gain, w.sched.size)
        | some (_, g, len) => if gain > g || (gain == g && w.sched.size < len) then some (i, gain, w.sched.size) else b) none
    match best with
    | none => (cov, kept)
    | some (i, _, _) =>
      match ws[i]? with
      | none => (cov, kept)
      | some (_, m) => greedy ws cand fuel (cov ||| m) (kept.push i)

def choiceJson : Tid × Bool → Json
  | (tid, false) => toJson tid
  | (tid, true) => Json.arr #[toJson tid, Json.str "timeout"]

/-- request: {op:"cover", cap, max_enq, timeout, ignore_error, threads:[prog], seed, walks, max_len}
response: {schedules:[[tid | [tid,"timeout"]]], ends:["done"|"deadlock"|"max_len"] (one per schedule),
pcs:{point name: number of times executed over all walks}, all_pcs:[every point name],
walks, walks_done}.  The kept schedules reach every point reached by any walk; walks that end with all
threads finished are preferred, others are kept only for points no finished walk reaches. -/
def handleCover (j : Json) (c0 : Cfg) : Except String Json := do
  let seed ← Driver.getNat j "seed"
  let nWalks ← Driver.getNat j "walks"
  let maxLen ← Driver.getNat j "max_len"
  let (ws, _) := (List.range nWalks).foldl (fun (acc : Array (Walk × Nat) × Nat) _ =>
    let (w, rng) := walk maxLen c0 acc.2 {}
    (acc.1.push (w, walkMask w), rng)) (#[], lcg (seed + 1))
  let (cov1, kept1) := greedy ws (fun w => w.ending == "done") ws.size 0 #[]
  let (_, kept) := greedy ws (fun _ => true) ws.size cov1 kept1
  let counts := ws.foldl (fun (a : Array Nat) (w, _) => w.slots.foldl (fun a i => a.modify i (· + 1)) a)
    (Array.replicate allPoints.length 0)
  let names := allPoints.map fun (pc, alt) => pointName pc alt
  let keptWalks := kept.filterMap fun i => (ws[i]?).map (·.1)
  return Json.mkObj [
    ("schedules", Json.arr (keptWalks.map fun w => Json.arr (w.sched.map choiceJson))),
    ("ends", Json.arr (keptWalks.map fun w => Json.str w.ending)),
    ("pcs", Json.mkObj ((names.zip counts.toList).filter (·.2 != 0) |>.map fun (n, k) => (n, toJson k))),
    ("all_pcs", toJson names),
    ("walks", toJson ws.size),
    ("walks_done", toJson (ws.filter (·.1.ending == "done")).size)]

/-- request: {cap, max_enq, timeout, ignore_error, threads:[prog], schedule:[tid | [tid,"timeout"]]}
(optional: want_enabled, want_pcs; `"op": "cover"` selects `handleCover` instead)
response: trace of labels, acceptance, final thread states and the set of choices enabled at the end;
with want_pcs also `pc_trace`, the name of the program point executed by every accepted choice -/
def handle (j : Json) : Except String Json := do
  let cap ← Driver.getNat j "cap"
  let maxEnq ← Driver.getNat j "max_enq"
  let timeout ← Driver.getBool j "timeout"
  let ign ← Driver.getBool j "ignore_error"
  let progs ← (← Driver.getArr j "threads").toList.mapM parseProg
  let keep := (j.getObjValAs? Bool "keep_partial").toOption.getD false
  let c00 := init cap maxEnq timeout ign progs
  let c0 : Cfg := { c00 with sh := { c00.sh with keepPartial := keep } }
  match j.getObjValAs? String "op" with
  | .ok "cover" => handleCover j c0
  | .ok op => throw s!"unknown op {op}"
  | .error _ =>
  let sched ← (← Driver.getArr j "schedule").toList.mapM parseChoice
  let (trace, c, ok) := replay c0 sched []
  let enJson (l : List (Tid × Bool)) : Json := Json.arr (l.map fun (tid, alt) =>
        Json.arr #[toJson tid, if alt then Json.str "timeout" else Json.null]).toArray
  let wantEn := (j.getObjValAs? Bool "want_enabled").toOption.getD false
  let enTrace := if wantEn then Json.arr ((replayEnabled c0 sched []).map enJson).toArray else Json.null
  let wantPcs := (j.getObjValAs? Bool "want_pcs").toOption.getD false
  return Json.mkObj <| (if wantPcs then [("pc_trace", pcTraceJson c0 sched)] else []) ++ [
    ("enabled_trace", enTrace),
    ("accepted", ok),
    ("trace", Json.arr (trace.map fun (tid, l) => Json.arr #[toJson tid, Json.str l]).toArray),
    ("threads", Json.arr (c.ths.map threadJson).toArray),
    ("all_done", c.allDone),
    ("enabled", Json.arr ((enabled c).map fun (tid, alt) =>
        Json.arr #[toJson tid, if alt then Json.str "timeout" else Json.null]).toArray),
    ("q", toJson (c.sh.q.map (·.2))), ("returned", toJson c.sh.returned), ("exhausted", c.sh.exhausted),
    ("produced", toJson (c.sh.produced.map (·.2))), ("lost", toJson (c.sh.lost.map (·.2)))]

end Driver.Queue
