import Driver.Util
import MlModel.Model.LazyEq
open Lean MlModel MlModel.LazyEq
/-! JSON handler for `Model/LazyEq.lean` (wire name "lazyeq").

`{"model":"lazyeq","fn_max":N,"variant":"real"|"sig","steps":[step,...]}` with
`{"s":"make","x":{"oid":n,"id":n,"fn":str,"args":[{"oid":n,"v":argv}]}}` | `{"s":"clear"}` and
`argv = {"int":n} | {"tup":[n]} | {"list":[n]} | {"arr":[n]} | {"tuparr":[n]} | {"amb":true}`.
Answers per step `{"out":"hit"|"miss"|"raised"|"cleared","obj":n?,"fn":[hits,misses,currsize]}`. -/
namespace Driver.LazyEq

def parseInts (j : Json) : Except String (List Int) := do
  (← j.getArr?).toList.mapM (·.getInt?)

def parseArgV (j : Json) : Except String ArgV :=
  match j.getObjVal? "int" with
  | .ok v => do return .int (← v.getInt?)
  | .error _ =>
  match j.getObjVal? "tup" with
  | .ok v => do return .tup (← parseInts v)
  | .error _ =>
  match j.getObjVal? "list" with
  | .ok v => do return .list (← parseInts v)
  | .error _ =>
  match j.getObjVal? "arr" with
  | .ok v => do return .arr (← parseInts v)
  | .error _ =>
  match j.getObjVal? "tuparr" with
  | .ok v => do return .tupArr (← parseInts v)
  | .error _ =>
  match j.getObjVal? "amb" with
  | .ok _ => .ok .amb
  | .error _ => .error s!"bad argument value {j.compress}"

def parseLFn (j : Json) : Except String LFn := do
  let args ← (← Driver.getArr j "args").toList.mapM fun a => do
    return ({ oid := ← Driver.getNat a "oid", v := ← parseArgV (← a.getObjVal? "v") } : Arg)
  return { oid := ← Driver.getNat j "oid", id := ← Driver.getNat j "id", fn := ← Driver.getStr j "fn", args := args }

def handle (j : Json) : Except String Json := do
  let fnMax ← Driver.getNat j "fn_max"
  let variant := (Driver.getStr j "variant").toOption.getD "real"
  let eq ← match variant with
    | "real" => pure LFn.eq
    | "sig" => pure LFn.eqSig
    | _ => throw s!"bad variant {variant}"
  let mut s : St := { cache := { maxsize := fnMax } }
  let mut out : Array Json := #[]
  for st in ← Driver.getArr j "steps" do
    let step ← match ← Driver.getStr st "s" with
      | "clear" => pure Step.clear
      | "make" => pure (Step.make (← parseLFn (← st.getObjVal? "x")))
      | k => throw s!"bad step {k}"
    let r := MlModel.LazyEq.step eq s step
    s := r.2
    let fn := toJson [s.cache.hits, s.cache.misses, s.cache.data.length]
    out := out.push (match r.1 with
      | .hit v => Json.mkObj [("out", "hit"), ("obj", toJson v), ("fn", fn)]
      | .miss v => Json.mkObj [("out", "miss"), ("obj", toJson v), ("fn", fn)]
      | .raised => Json.mkObj [("out", "raised"), ("fn", fn)]
      | .cleared => Json.mkObj [("out", "cleared"), ("fn", fn)])
  return Json.mkObj [("steps", Json.arr out)]

end Driver.LazyEq
