import Driver.Util
import MlModel.Model.DequeueCache
/-!
JSON handler of the `DequeueCache` model (wire name `dequeuecache`).

```
{"model":"dequeuecache","n":8195,"bm":4096,"maxlen":0,"steps":null|k,"queues":1}
```
A stream `0..n-1` is enqueued completely (the producer is ahead), then consumed through `queues` stage
queues in a row, each by `iter(queue)` = `DequeueIterator` whose `get_batch()` refills are at most `bm`
long and whose cache is a `deque(maxlen)` (`0` = `None`); `steps` = `num_steps` of the (last) iterator.
Answer: `{"err":null,"out":[..delivered..],"sizes":[..refill sizes of the first queue..],"end":"stop"|"indexError"}`.
-/
open Lean MlModel MlModel.DequeueCache
namespace Driver.DequeueCache

def handle (j : Json) : Except String Json := do
  let n ← Driver.getNat j "n"
  let bm ← Driver.getNat j "bm"
  let maxlen ← Driver.getNat j "maxlen"
  let queues ← Driver.getNat j "queues"
  let steps ← Driver.getOptInt j "steps"
  let numSteps : Option Nat := steps.bind fun i => if i < 0 then none else some i.toNat
  if bm = 0 then throw "bm must be positive"
  if queues = 0 then throw "queues must be positive"
  let xs := List.range n
  let mid := throughQueues maxlen bm (queues - 1) xs
  let out := throughQueue maxlen bm numSteps mid
  let fin := (ending maxlen numSteps (refills bm mid)).1
  let sizes := (refills bm xs).map List.length
  return Json.mkObj [("err", Json.null), ("out", toJson out), ("sizes", toJson sizes),
    ("end", Json.str (match fin with | .stop => "stop" | .indexError => "indexError" | .item _ => "item"))]

end Driver.DequeueCache
