import Driver.Util
import MlModel.Model.PrefetchClient
open Lean MlModel MlModel.PrefetchClient

/-! JSON handler of `Model/PrefetchClient.lean` (model name "prefetchclient").
Request: {"model":"prefetchclient","batch":b,"yields":[val..],"fin":{"ret":[s..]}|{"raise":exc},"variant":"shipped"|"byvalue"}
  val = {"p": "<canonical encoding>"} | {"e": exc};  exc = {"cls": "<class name>", "args": ["<encoding>", ..]}
Response: {"outcomes":[{yielded:[val..], returned:[s|null..], exhausted:bool, raised:exc|null}, ..]} — one outcome per
scheduling choice of the server (terminal marker attached to a full last chunk / sent alone), duplicates removed. -/
namespace Driver.PrefetchClient

def parseCls (s : String) : ExcClass := if s == "StopIteration" then .stopIteration else .other s

def parseExc (j : Json) : Except String Exc := do
  let c ← Driver.getStr j "cls"
  let a ← (← Driver.getArr j "args").toList.mapM fun x => x.getStr?
  return { cls := parseCls c, args := a }

def parseVal (j : Json) : Except String Val :=
  match j.getObjVal? "p" with
  | .ok p => do return .plain (← p.getStr?)
  | .error _ => do return .exc (← parseExc (← j.getObjVal? "e"))

def parseFin (j : Json) : Except String Fin :=
  match j.getObjVal? "ret" with
  | .ok r => do return .ret (← (← r.getArr?).toList.mapM fun x => x.getStr?)
  | .error _ => do return .raise (← parseExc (← j.getObjVal? "raise"))

def clsJson : ExcClass → Json
  | .stopIteration => "StopIteration"
  | .other n => Json.str n

def excJson (e : Exc) : Json := Json.mkObj [("cls", clsJson e.cls), ("args", toJson e.args)]

def valJson : Val → Json
  | .plain v => Json.mkObj [("p", Json.str v)]
  | .exc e => Json.mkObj [("e", excJson e)]

def clientJson (st : Client) : Json :=
  Json.mkObj [("yielded", Json.arr (st.yielded.map valJson).toArray),
    ("returned", Json.arr (st.returned.map fun | some s => Json.str s | none => Json.null).toArray),
    ("exhausted", st.exhausted),
    ("raised", match st.raised with | some e => excJson e | none => Json.null)]

def handle (j : Json) : Except String Json := do
  let b ← Driver.getNat j "batch"
  let ys ← (← Driver.getArr j "yields").toList.mapM parseVal
  let fin ← parseFin (← j.getObjVal? "fin")
  let ne : Exc → Bool ← match (j.getObjValAs? String "variant").toOption with
    | none | some "shipped" => pure pyNe
    | some "byvalue" => pure neByValue
    | some v => throw s!"bad variant {v}"
  -- a client that never ends is cut after `polls` further replies of the exhausted queue
  let polls := (j.getObjValAs? Nat "polls").toOption.getD 3
  let run (attach : Bool) : Client :=
    let rs := replies b attach ys fin
    runClient ne {} (rs ++ List.replicate polls [Val.exc (serverMarker fin)])
  let a := run true
  let d := run false
  let outs := if a == d then [a] else [a, d]
  return Json.mkObj [("outcomes", Json.arr (outs.map clientJson).toArray),
    ("replies", Json.arr ((replies b true ys fin).map fun r => Json.arr (r.map valJson).toArray).toArray)]

end Driver.PrefetchClient
