import Driver.Util
import MlModel.Model.Agg.RollingMeanVar
import MlModel.Model.Agg.RollingSimple
import MlModel.Model.Agg.RollingSamplers
import MlModel.Model.Agg.RollingHeap
/-!
Driver for the "rolling" metric family (model name `aggrolling`).

Request: `{"model":"aggrolling","metric":<name>,"cfg":{..},"prog":[op,..]}` where an op is
`{"op":"make","acc":i}`, `{"op":"add","acc":i,"batch":B}`, `{"op":"merge","acc":i,"other":j}`,
`{"op":"result","acc":i}`, `{"op":"call","batch":B}` (one-shot `metric(batch)`).
Response: `{"obs":[..]}` — one entry per executed op (`null` for a silent update, the result
for `result`/`call`, `{"err":kind}` for a modelled Python exception, after which the program stops).
-/
open Lean MlModel MlModel.Agg MlModel.Agg.Rolling MlModel.Agg.Heap MlModel.Agg.Rolling.H
namespace Driver.AggRolling

/-- one metric class as an abstract machine over JSON batches -/
structure Machine where
  σ : Type
  make : Except ErrKind σ
  /-- `acc.add(batch)`; the whole op object is passed (the reservoir reads its `rng` field) -/
  add : σ → Json → Except String (Except ErrKind σ)
  merge : σ → σ → Json → Except String (Except ErrKind σ)
  result : σ → Except ErrKind Json
  /-- `metric(batch)` = `new(batch).result()` -/
  call : Json → Except String (Except ErrKind Json)

def errObs (e : ErrKind) : Json := Json.mkObj [("err", Json.str e.name)]

def fJson (x : F) : Json := Driver.optRatJson x

def parseF (j : Json) : Except String F := Driver.parseOptRat j

def parseRat (j : Json) : Except String Rat := do
  match ← Driver.parseOptRat j with
  | some r => return r
  | none => throw "NaN not allowed here"

def parseList {α : Type} (f : Json → Except String α) (j : Json) : Except String (List α) := do
  (← j.getArr?).toList.mapM f

def parsePair (j : Json) : Except String (Rat × Rat) := do
  match ← parseList parseRat j with
  | [a, b] => return (a, b)
  | _ => throw "pair expected"

def batchOf (op : Json) : Except String Json := op.getObjVal? "batch"

/-- run a program -/
def run (m : Machine) (prog : List Json) : Except String Json := do
  let mut accs : Array (Option m.σ) := #[]
  let mut obs : Array Json := #[]
  for op in prog do
    let kind ← Driver.getStr op "op"
    let getAcc (k : String) (accs : Array (Option m.σ)) : Except String (Nat × m.σ) := do
      let i ← Driver.getNat op k
      match accs.getD i none with
      | some s => return (i, s)
      | none => throw s!"accumulator {i} not made"
    let setAcc (accs : Array (Option m.σ)) (i : Nat) (s : m.σ) : Array (Option m.σ) :=
      let accs := if accs.size ≤ i then accs ++ Array.replicate (i + 1 - accs.size) none else accs
      accs.set! i (some s)
    match kind with
    | "make" =>
      let i ← Driver.getNat op "acc"
      match m.make with
      | .ok s => accs := setAcc accs i s; obs := obs.push Json.null
      | .error e => obs := obs.push (errObs e); break
    | "add" =>
      let (i, s) ← getAcc "acc" accs
      match ← m.add s op with
      | .ok s' => accs := setAcc accs i s'; obs := obs.push Json.null
      | .error e => obs := obs.push (errObs e); break
    | "merge" =>
      let (i, s) ← getAcc "acc" accs
      let (_, o) ← getAcc "other" accs
      match ← m.merge s o op with
      | .ok s' => accs := setAcc accs i s'; obs := obs.push Json.null
      | .error e => obs := obs.push (errObs e); break
    | "result" =>
      let (_, s) ← getAcc "acc" accs
      match m.result s with
      | .ok r => obs := obs.push r
      | .error e => obs := obs.push (errObs e); break
    | "call" =>
      match ← m.call op with
      | .ok r => obs := obs.push r
      | .error e => obs := obs.push (errObs e); break
    | k => throw s!"unknown op {k}"
  return Json.mkObj [("obs", Json.arr obs)]

/-! ### MeanAndVariance / Var / Mean -/

def parseMVBatch (b : Json) : Except String MV := do
  let dim ← Driver.getNat b "dim"
  if dim == 1 then
    let xs ← parseList parseF (← b.getObjVal? "xs")
    return MV.ofList xs
  else
    let k ← Driver.getNat b "k"
    let rows ← parseList (parseList parseF) (← b.getObjVal? "rows")
    return MV.ofRows k rows

def mvResultJson (r : MVResult) : Json :=
  Json.mkObj [("vec", r.vec), ("count", toJson r.count), ("mean", Json.arr (r.mean.map fJson).toArray),
    ("var", Json.arr (r.var.map fJson).toArray), ("total", Json.arr (r.total.map fJson).toArray)]

def mvMachine : Machine where
  σ := MV
  make := .ok MV.fresh
  add := fun s op => do let o ← parseMVBatch (← batchOf op); return MV.merge true s o
  merge := fun s o _ => return MV.merge true s o
  result := fun s => .ok (mvResultJson s.result)
  call := fun op => do let o ← parseMVBatch (← batchOf op); return .ok (mvResultJson o.result)

def meanMachine : Machine where
  σ := MV
  make := .ok MV.fresh
  add := fun s op => do let o ← parseMVBatch (← batchOf op); return MV.mergeMean s o.dropVar
  merge := fun s o _ => return MV.mergeMean s o
  result := fun s => .ok (mvResultJson s.result)
  call := fun op => do let o ← parseMVBatch (← batchOf op); return .ok (mvResultJson o.dropVar.result)

/-! ### MeanState / TupleMeanState -/

def meanStateMachine : Machine where
  σ := MeanState
  make := .ok MeanState.fresh
  add := fun s op => do let xs ← parseList parseRat (← batchOf op); return .ok (s.merge (MeanState.ofList xs))
  merge := fun s o _ => return .ok (s.merge o)
  result := fun s => .ok (Driver.ratJson s.result)
  call := fun op => do let xs ← parseList parseRat (← batchOf op); return .ok (Driver.ratJson (MeanState.ofList xs).result)

def tmsJson (r : List Rat) : Json := Json.arr (r.map Driver.ratJson).toArray

def tmsMachine : Machine where
  σ := TMS
  make := .ok []
  add := fun s op => do
    let cols ← parseList (parseList parseRat) (← batchOf op)
    return TMS.merge true s (TMS.ofCols cols)
  merge := fun s o _ => return TMS.merge true s o
  result := fun s => .ok (tmsJson s.result)
  call := fun op => do
    let cols ← parseList (parseList parseRat) (← batchOf op)
    return .ok (tmsJson (TMS.ofCols cols).result)

/-! ### Counter -/

def counterJson (c : CounterS) : Json :=
  Json.arr (c.map fun p => Json.arr #[toJson p.1, toJson p.2]).toArray

def counterMachine : Machine where
  σ := CounterS
  make := .ok []
  add := fun s op => do
    let xs ← parseList (fun j => j.getInt?) (← batchOf op)
    return .ok (s.merge (CounterS.ofList xs))
  merge := fun s o _ => return .ok (s.merge o)
  result := fun s => .ok (counterJson s)
  call := fun op => do
    let xs ← parseList (fun j => j.getInt?) (← batchOf op)
    return .ok (counterJson (CounterS.ofList xs))

/-! ### Histogram -/

def parseBinSpec (cfg : Json) : Except String BinSpec := do
  let bins ← cfg.getObjVal? "bins"
  match bins with
  | .arr es => return .explicit (← es.toList.mapM parseRat)
  | _ =>
    let n ← bins.getNat?
    match cfg.getObjVal? "range" with
    | .ok (.arr #[lo, hi]) => return .uniform n (← parseRat lo) (← parseRat hi)
    | _ => return .auto n

def parseHistBatch (b : Json) : Except String (List (F × Rat)) := do
  let xs ← parseList parseF (← b.getObjVal? "xs")
  match b.getObjVal? "w" with
  | .ok (.arr ws) =>
    let ws ← ws.toList.mapM parseRat
    return xs.zip ws
  | _ => return xs.map fun x => (x, 1)

def histJson (h : Hist) : Json :=
  Json.mkObj [("hist", Json.arr (h.hist.map Driver.ratJson).toArray),
              ("edges", Json.arr (h.edges.map Driver.ratJson).toArray)]

def histMachine (b : BinSpec) : Machine where
  σ := Hist
  make := Hist.make b
  add := fun s op => do
    let xs ← parseHistBatch (← batchOf op)
    return (do let o ← Hist.ofBatch b xs; s.merge o)
  merge := fun s o _ => return s.merge o
  result := fun s => .ok (histJson s)
  call := fun op => do
    let xs ← parseHistBatch (← batchOf op)
    return (do let o ← Hist.ofBatch b xs; pure (histJson o))

/-! ### MinMaxAndCount -/

def mmcJson (s : MMC) : Json :=
  Json.mkObj [("count", toJson s.count),
              ("min", match s.min with | none => Json.str "inf" | some v => Driver.ratJson v),
              ("max", Driver.ratJson s.max)]

def mmcMachine : Machine where
  σ := MMC
  make := .ok MMC.fresh
  add := fun s op => do let xs ← parseList parseRat (← batchOf op); return s.add xs
  merge := fun s o _ => return .ok (s.merge o)
  result := fun s => .ok (mmcJson s)
  call := fun _ => throw "MinMaxAndCount is not callable"

/-! ### R2Tjur, R2TjurRelative, RRegression, SymmetricPredictionDifference -/

def tjurMachine (rel : Bool) : Machine where
  σ := Tjur
  make := .ok Tjur.fresh
  add := fun s op => do let xs ← parseList parsePair (← batchOf op); return .ok (s.merge (Tjur.ofList xs))
  merge := fun s o _ => return .ok (s.merge o)
  result := fun s => .ok (fJson (if rel then s.resultRel else s.result))
  call := fun _ => throw "not callable"

def rregJson : Option RRegResult → Json
  | none => Json.str "undef"
  | some r => Json.mkObj [("num", Driver.ratJson r.numerator), ("radx", Driver.ratJson r.radX),
                          ("rady", Driver.ratJson r.radY)]

def rregMachine (center : Bool) : Machine where
  σ := RReg
  make := .ok RReg.fresh
  add := fun s op => do let xs ← parseList parsePair (← batchOf op); return .ok (s.merge (RReg.ofList xs))
  merge := fun s o _ => return .ok (s.merge o)
  result := fun s => .ok (rregJson (s.result center))
  call := fun _ => throw "not callable"

def spdMachine : Machine where
  σ := SPD
  make := .ok SPD.fresh
  add := fun s op => do let xs ← parseList parsePair (← batchOf op); return .ok (s.merge (SPD.ofList xs))
  merge := fun s o _ => return .ok (s.merge o)
  result := fun s => .ok (fJson s.result)
  call := fun _ => throw "not callable"

/-! ### UnboundedSampler / ValueAccumulator (opaque JSON values) -/

def usResultJson : USResult Json → Json
  | .tuple cols => Json.mkObj [("tuple", Json.arr (cols.map fun c => Json.arr c.toArray).toArray)]
  | .single c => Json.mkObj [("single", Json.arr c.toArray)]

def parseCols (b : Json) : Except String (List (List Json)) := do
  (← b.getArr?).toList.mapM fun c => do return (← c.getArr?).toList

def usMachine : Machine where
  σ := US Json
  make := .ok US.fresh
  add := fun s op => do let cols ← parseCols (← batchOf op); return US.merge true s (US.ofCols cols)
  merge := fun s o _ => return US.merge true s o
  result := fun s => .ok (usResultJson s.result)
  call := fun op => do let cols ← parseCols (← batchOf op); return .ok (usResultJson (US.ofCols cols).result)

/-- `concat = true`: `concat_fn = operator.add` on lists; `false`: no `concat_fn` (items are the
batch objects themselves) -/
def vaMachine (concat : Bool) : Machine where
  σ := VA Json
  make := .ok []
  add := fun s op => do
    let cols ← parseCols (← batchOf op)
    let o : VA Json := if concat then cols else cols.map fun c => [Json.arr c.toArray]
    return VA.merge true s o
  merge := fun s o _ => return VA.merge true s o
  result := fun s => (VA.result s).map usResultJson
  call := fun op => do
    let cols ← parseCols (← batchOf op)
    let o : VA Json := if concat then cols else cols.map fun c => [Json.arr c.toArray]
    return (VA.result o).map usResultJson

/-! ### FixedSizeSample: only size and reviewed-count are predicted -/

def parseRng (op : Json) : Except String Rng :=
  match op.getObjVal? "rng" with
  | .ok j => parseList (fun x => x.getNat?) j
  | .error _ => .ok []

def fssMachine (maxSize : Nat) : Machine where
  σ := FSS Json
  make := .ok (FSS.fresh maxSize)
  add := fun s op => do
    let xs ← (← (← batchOf op).getArr?).toList.mapM (fun x => pure x)
    let rng ← parseRng op
    return .ok (s.add xs rng).1
  merge := fun s o op => do
    let rng ← parseRng op
    return (FSS.merge true s o rng).map (·.1)
  result := fun s => .ok (Json.mkObj [("size", toJson s.reservoir.length), ("reviewed", toJson s.reviewed),
    ("members", Json.arr s.reservoir.toArray)])
  call := fun _ => throw "not callable"

/-! ### identity probes: which accumulators reference a common container (heap model) -/

def sharePairs {C B : Type} (cls : HClass C B) (σ : Sys cls) : Json :=
  let fps := σ.objs.map fun o => (cls.fp o).refs
  let n := fps.length
  let pairs := (List.range n).flatMap fun i => (List.range n).filterMap fun j =>
    if i < j && (fps.getD i []).any (fun r => (fps.getD j []).contains r) then
      some (Json.arr #[toJson i, toJson j]) else none
  Json.arr pairs.toArray

/-- after every op: the pairs `[i, j]` of accumulators that share at least one container -/
def runHeap {C B : Type} (cls : HClass C B) (parseBatch : Json → Except String B) (prog : List Json) :
    Except String Json := do
  let mut σ : Sys cls := Sys.init cls
  let mut obs : Array Json := #[]
  for op in prog do
    let kind ← Driver.getStr op "op"
    match kind with
    | "make" => σ := σ.step .make
    | "add" =>
      let i ← Driver.getNat op "acc"
      let b ← parseBatch (← batchOf op)
      σ := σ.step (.add i b)
    | "merge" =>
      let i ← Driver.getNat op "acc"
      let j ← Driver.getNat op "other"
      σ := σ.step (.merge i j)
    | k => throw s!"unknown heap op {k}"
    obs := obs.push (sharePairs cls σ)
  return Json.mkObj [("shares", Json.arr obs)]

def parseMVRows (b : Json) : Except String (List (List F)) := do
  parseList (parseList parseF) (← b.getObjVal? "rows")

def handle (j : Json) : Except String Json := do
  let metric ← Driver.getStr j "metric"
  let cfg := (j.getObjVal? "cfg").toOption.getD Json.null
  let prog := (← Driver.getArr j "prog").toList
  match metric with
  | "meanvar" => run mvMachine prog
  | "mean" => run meanMachine prog
  | "meanstate" => run meanStateMachine prog
  | "tuplemeanstate" => run tmsMachine prog
  | "counter" => run counterMachine prog
  | "histogram" => do let b ← parseBinSpec cfg; run (histMachine b) prog
  | "minmax" => run mmcMachine prog
  | "r2tjur" => run (tjurMachine false) prog
  | "r2tjurrel" => run (tjurMachine true) prog
  | "rregression" => do let c ← Driver.getBool cfg "center"; run (rregMachine c) prog
  | "spd" => run spdMachine prog
  | "sampler" => run usMachine prog
  | "valueacc" => do let c ← Driver.getBool cfg "concat"; run (vaMachine c) prog
  | "fss" => do let n ← Driver.getNat cfg "max_size"; run (fssMachine n) prog
  | "heap_sampler" => runHeap (usClass Json) parseCols prog
  | "heap_valueacc" => runHeap (vaClass Json) parseCols prog
  | "heap_fss" => do
    let n ← Driver.getNat cfg "max_size"
    runHeap (fssClass Json true n []) (fun b => do return (← b.getArr?).toList) prog
  | "heap_meanvar" => do let k ← Driver.getNat cfg "k"; runHeap (mvClass k) parseMVRows prog
  | m => throw s!"unknown metric {m}"

end Driver.AggRolling
