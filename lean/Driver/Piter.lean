import Driver.Util
import Driver.Queue
import MlModel.Model.Piter
open Lean MlModel MlModel.Queue MlModel.Piter
namespace Driver.Piter

def parseFn : String → Except String FnKind
  | "ident" => .ok .ident | "inc" => .ok .inc | "keep_even" => .ok .keepEven
  | "dup" => .ok .dup | "dup_odd" => .ok .dupOdd | s => .error s!"bad fn {s}"

def optNat (j : Json) (k : String) : Option Nat :=
  match j.getObjVal? k with
  | .ok v => v.getNat?.toOption
  | .error _ => none

def parseProd (j : Json) : Except String ProdSpec := do
  return { sid := ← Driver.getNat j "sid", useLock := ← Driver.getBool j "lock", ret := ← Driver.getNat j "ret" }

def threadJson (t : PThread) : Json :=
  Json.mkObj [
    ("done", t.done),
    ("received", toJson (t.q.received.map (·.2))),
    ("pulled", toJson t.pulled),
    ("outcome", match (if t.isProd then t.q.outcome else t.iterOutcome) with
      | none => Json.null | some r => Driver.Queue.raiseJson r),
    ("early", t.early)]

/-- request: {cap, batch_max, max_workers, num_steps?, stop_on_end, inputs:[[item]], prods:[{sid,lock,ret}],
fn, fail_on?, schedule:[tid | [tid,"timeout"]], want_enabled?} -/
def handle (j : Json) : Except String Json := do
  let cap ← Driver.getNat j "cap"
  let batchMax ← Driver.getNat j "batch_max"
  let maxWorkers ← Driver.getNat j "max_workers"
  let stopOnEnd ← Driver.getBool j "stop_on_end"
  let inputs ← (← Driver.getArr j "inputs").toList.mapM fun a => do
    let l ← a.getArr?
    l.toList.mapM Driver.Queue.parseItem
  let prods ← (← Driver.getArr j "prods").toList.mapM parseProd
  let fk ← parseFn (← Driver.getStr j "fn")
  let F := evalFn fk (optNat j "fail_on")
  let sched ← (← Driver.getArr j "schedule").toList.mapM Driver.Queue.parseChoice
  let c0 := Piter.init cap batchMax maxWorkers (optNat j "num_steps") stopOnEnd inputs prods
  let (trace, c, ok) := Piter.replay F c0 sched []
  let enJson (l : List (Tid × Bool)) : Json := Json.arr (l.map fun (tid, alt) =>
        Json.arr #[toJson tid, if alt then Json.str "timeout" else Json.null]).toArray
  let wantEn := (j.getObjValAs? Bool "want_enabled").toOption.getD false
  let enTrace := if wantEn then Json.arr ((Piter.replayEnabled F c0 sched []).map enJson).toArray else Json.null
  return Json.mkObj [
    ("enabled_trace", enTrace),
    ("accepted", ok),
    ("trace", Json.arr (trace.map fun (tid, l) => Json.arr #[toJson tid, Json.str l]).toArray),
    ("threads", Json.arr (c.ths.map threadJson).toArray),
    ("all_done", c.allDone),
    ("enabled", enJson (Piter.enabled F c)),
    ("q", toJson (c.sh.q.map (·.2))), ("returned", toJson c.sh.returned), ("exhausted", c.sh.exhausted),
    ("produced", toJson (c.sh.produced.map (·.2))), ("lost", toJson (c.sh.lost.map (·.2)))]

end Driver.Piter
