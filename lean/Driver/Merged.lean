import Driver.Util
import MlModel.Model.Merged
import MlModel.Model.Shard
open Lean MlModel MlModel.Merged
namespace Driver.Merged

def errOfName : String → Except String ErrKind
  | "ValueError" => .ok .value | "TypeError" => .ok .type | "KeyError" => .ok .key
  | "IndexError" => .ok .index | "RuntimeError" => .ok .runtime | "ZeroDivisionError" => .ok .zeroDiv
  | "AssertionError" => .ok .assertion | "AttributeError" => .ok .attr
  | "NotImplementedError" => .ok .notImpl | "Exception" => .ok .other
  | s => .error s!"bad error kind {s}"

/-- A part: `{"outs":[3,"ValueError",5], "sliceable":true}` — per index the value or the error raised. -/
def parsePart (j : Json) : Except String (List (Except ErrKind Int) × Bool) := do
  let outs ← (← Driver.getArr j "outs").toList.mapM fun e =>
    match e with
    | .str s => do let k ← errOfName s; pure (Except.error k)
    | _ => do let i ← e.getInt?; pure (Except.ok i)
  let sl ← Driver.getBool j "sliceable"
  return (outs, sl)

def outcomeJson : Outcome Int → Json
  | .val a => Json.arr #["v", toJson a]
  | .raise e => Json.arr #["e", Driver.errJson e]
  | .stop => Json.str "stop"

def exceptJson : Except ErrKind Int → Json
  | .ok a => Json.arr #["v", toJson a]
  | .error e => Json.arr #["e", Driver.errJson e]

def query (parts : List (List (Except ErrKind Int) × Bool)) (maxBatch : Nat) (q : Json) :
    Except String Json := do
  let t ← Driver.getStr q "t"
  match t with
  | "len" => return toJson (total (parts.map (·.1.length)))
  | "idx" =>
    let i ← Driver.getInt q "i"
    -- `merged[i]`: the located element access itself may raise the source's error
    return exceptJson ((getitem (parts.map (·.1)) i).bind id)
  | "slice" =>
    let a ← Driver.getOptInt q "a"
    let b ← Driver.getOptInt q "b"
    let calls ← Driver.getNat q "calls"
    match q.getObjVal? "step" with
    | .ok (.num _) => return Json.arr #["e", Driver.errJson .notImpl]
    | _ =>
      let outs := chainNexts calls (mkChain parts maxBatch a b)
      return Json.arr (outs.map outcomeJson).toArray
  | "ds" =>
    -- `SequenceDataSource(MergedSequences(parts, max_batch)).shard(i, k, off)` iterated with `next`
    let i ← Driver.getInt q "i"
    let k ← Driver.getInt q "k"
    let off ← Driver.getInt q "off"
    let calls ← Driver.getNat q "calls"
    match (MlModel.Shard.DS.root (total (parts.map (·.1.length)))).shard i k off with
    | .error e => return Json.arr #["e", Driver.errJson e]
    | .ok d =>
      let outs := chainNexts calls (mkChain parts maxBatch (some d.start) (some d.end))
      return Json.arr (outs.map outcomeJson).toArray
  | "range" =>
    -- `_RangeIterator(parts[p], start, stop, max_batch)` driven directly (not a public entry point;
    -- used only by the self-test of the model)
    let p ← Driver.getNat q "p"
    let start ← Driver.getNat q "start"
    let stop ← Driver.getNat q "stop"
    let calls ← Driver.getNat q "calls"
    let part := parts.getD p ([], true)
    let outs := nexts (srcOf part.1 part.2) stop calls ⟨start, maxBatch, []⟩
    return Json.arr (outs.map outcomeJson).toArray
  | _ => throw s!"bad query {t}"

def handle (j : Json) : Except String Json := do
  let parts ← (← Driver.getArr j "parts").toList.mapM parsePart
  let maxBatch ← Driver.getNat j "max_batch"
  let qs ← Driver.getArr j "queries"
  let rs ← qs.toList.mapM (query parts maxBatch)
  return Json.mkObj [("res", Json.arr rs.toArray)]

end Driver.Merged
