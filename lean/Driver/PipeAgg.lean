import Driver.Util
import MlModel.Model.PipeAggInst
/-!
JSON handler of the `PipeAgg` model (wire name `pipeagg`).

```
{"model":"pipeagg",
 "aggs":[{"out":["o"],"in":["b"]|null,"dec":"cols"|{"field":"x"},"view":"meanvar","noslice":false}],
 "slicers":[{"name":["a"],"keys":["a"],"replace":null|0,
             "kind":"default"|"within"|"fn"|"mask",
             "within":[[1,3]], "fn":"parity",
             "layout":[<template>..], "mwithin":[..]|null, "twice":false}],
 "batches":[{"a":[1,2],"b":[3,4]}, ..]}
```
A value is a JSON scalar (an integer; a number with a fractional part / exponent = a float; a string; `true` /
`false`), `null` (`None`), an array (list), `{"np": [...]}` (numpy array, any depth; its dtype is the one numpy
infers from the content) or an object (dict; a dict-valued column never has a key "np").
`"replace"` is `null` / absent (filter mode), a JSON scalar, or `{"none": true}` (replace with `None`).
A mask template is `"t"`, `"f"`, `"m<i>"` (nested `== key` on feature column i), `"np<i>"` (the same as a
1-D numpy bool array) or `{"dict":[[k, template],..]}`.
Answer: `{"err":null|kind,"result":[{"metric":..,"slice":null|{"features":..,"values":..},"value":..},..]}`.
-/
open Lean MlModel MlModel.PipeAgg
namespace Driver.PipeAgg

/-- strip trailing decimal zeros of a float literal (it stays a float: `1.0` is `flt 1 0`) -/
def normFlt (m : Int) : Nat → Scalar
  | 0 => .flt m 0
  | e + 1 => if m % 10 = 0 then normFlt (m / 10) e else .flt m (e + 1)

def parseScalar (j : Json) : Except String Scalar :=
  match j with
  | .num n => .ok (if n.exponent = 0 then .int n.mantissa else normFlt n.mantissa n.exponent)
  | .str s => .ok (.str s)
  | .bool b => .ok (.bool b)
  | .null => .ok .none
  | _ => .error s!"bad scalar {j.compress}"

partial def parseVal (j : Json) : Except String Val :=
  match j with
  | .null => .ok .null
  | .num _ | .str _ | .bool _ => do let s ← parseScalar j; return .leaf s
  | .arr xs => do let vs ← xs.toList.mapM parseVal; return .seq false vs
  | .obj kvs =>
    match j.getObjVal? "np" with      -- {"np": [...]}: a numpy array
    | .ok (.arr xs) => do
      let vs ← xs.toList.mapM fun x => parseVal (match x with
        | .arr _ => Json.mkObj [("np", x)]
        | _ => x)
      return .seq true vs
    | _ => do
      let vs ← kvs.toList.mapM fun (k, v) => do let v' ← parseVal v; return (k, v')
      return .map vs

def parseBatch (j : Json) : Except String Batch := do
  match ← parseVal j with
  | .map kvs => return kvs
  | _ => throw "a batch must be an object"

def parseStrs (j : Json) (k : String) : Except String (List String) := do
  (← Driver.getArr j k).toList.mapM (·.getStr?)

def parseInts (j : Json) : Except String (List Int) := do
  (← j.getArr?).toList.mapM (·.getInt?)

/-! ### the library of user slice functions (mirrored in harness/props/c02.py: `SLICE_FNS`) -/

def intsOf (row : List Val) : Except ErrKind (List Int) := mapE Val.asKey row

def sliceFn : String → Except String (List Val → Except ErrKind (List (List Int)))
  | "parity" => .ok fun row => match intsOf row with
      | .ok [x] => .ok [[x % 2]]
      | .ok _ => .error .type
      | .error e => .error e
  | "self_and_neg" => .ok fun row => match intsOf row with
      | .ok [x] => .ok [[x], [-x]]
      | .ok _ => .error .type
      | .error e => .error e
  | "small" => .ok fun row => match intsOf row with
      | .ok [x] => .ok (if x > 2 then [] else [[x]])
      | .ok _ => .error .type
      | .error e => .error e
  | "both" => .ok fun row => match intsOf row with
      | .ok [x, y] => .ok [[x], [y]]
      | .ok _ => .error .type
      | .error e => .error e
  | "pair" => .ok fun row => match intsOf row with
      | .ok [x, y] => .ok [[x, y]]
      | .ok _ => .error .type
      | .error e => .error e
  | "sum" => .ok fun row => match intsOf row with
      | .ok [x, y] => .ok [[x + y]]
      | .ok _ => .error .type
      | .error e => .error e
  | "twice_small" => .ok fun row => match intsOf row with     -- the same value twice, or nothing
      | .ok [x] => .ok (if x ≤ 1 then [[x], [x]] else [])
      | .ok _ => .error .type
      | .error e => .error e
  | "repeat" => .ok fun row => match intsOf row with          -- x emitted y times (y ≤ 0: nothing)
      | .ok [x, y] => .ok (List.replicate y.toNat [x])
      | .ok _ => .error .type
      | .error e => .error e
  | "bad_arity" => .ok fun row => match intsOf row with
      | .ok [x] => .ok [[x, x]]
      | .ok _ => .error .type
      | .error e => .error e
  | s => .error s!"bad slice fn {s}"

/-! ### mask templates (mirrored in harness/props/c02.py: `build_mask`) -/

inductive MT where
  | tt | ff
  | m (c : Nat)
  | np (c : Nat)
  | dict (kvs : List (String × MT))

partial def parseMT (j : Json) : Except String MT :=
  match j with
  | .str "t" => .ok .tt
  | .str "f" => .ok .ff
  | .str s =>
    if s.startsWith "np" then .ok (.np (s.drop 2).toNat!)
    else if s.startsWith "m" then .ok (.m (s.drop 1).toNat!)
    else .error s!"bad template {s}"
  | _ => do
    let kvs ← Driver.getArr j "dict"
    let es ← kvs.toList.mapM fun e => do
      let a ← e.getArr?
      let k ← (a[0]!).getStr?
      let tpl ← parseMT (a[1]!)
      return (k, tpl)
    return .dict es

/-- `get_mask(inputs, key)`: nested `== key` -/
partial def leafEq (key : Int) : Val → Mask
  | .leaf v => if v = Scalar.int key then .tt else .ff
  | .seq _ xs => .seq (xs.map (leafEq key))
  | _ => .ff

partial def evalMask (key : Int) (cols : List Val) : MT → Mask
  | .tt => .tt
  | .ff => .ff
  | .m c => leafEq key (cols.getD c .null)
  | .np c => leafEq key (cols.getD c .null)
  | .dict kvs => .map (kvs.map fun (k, tpl) => (k, evalMask key cols tpl))

def evalTop (key : Int) (cols : List Val) : MT → TopMask
  | .np c => .np ((match cols.getD c .null with
      | .seq _ xs => xs
      | _ => []).map fun (x : Val) => match x with
      | .leaf v => v == Scalar.int key
      | _ => false)
  | tpl => .gen (evalMask key cols tpl)

def dedup (xs : List Int) : List Int := xs.foldl (fun acc x => if acc.contains x then acc else acc ++ [x]) []

/-- the user `slice_mask_fn` of the harness: one slice per distinct scalar of the feature columns
(first-seen order), optionally restricted to `within`, each with the masks built from `layout` -/
def maskFn (layout : List MT) (within : Option (List Int)) (twice : Bool)
    (cols : List Val) : Except ErrKind (List (List Int × List TopMask)) :=
  let keys := dedup (cols.flatMap Val.leaves)
  let keys := match within with
    | none => keys
    | some w => keys.filter w.contains
  let one := keys.map fun k => ([k], layout.map (evalTop k cols))
  .ok (if twice then one.flatMap (fun e => [e, e]) else one)

def parseSlicer (j : Json) : Except String Slicer := do
  let name ← parseStrs j "name"
  let keys ← parseStrs j "keys"
  let replace ← match j.getObjVal? "replace" with
    | .error _ => pure none
    | .ok .null => pure none
    | .ok (.obj _) => pure (some Scalar.none)        -- {"none": true}
    | .ok v => do let r ← parseScalar v; pure (some r)
  let fn ← match ← Driver.getStr j "kind" with
    | "default" => pure (SliceFn.rows defaultFn)
    | "within" => do
      let w ← (← Driver.getArr j "within").toList.mapM parseInts
      pure (SliceFn.rows (withinFn w))
    | "fn" => do
      let f ← sliceFn (← Driver.getStr j "fn")
      pure (SliceFn.rows f)
    | "mask" => do
      let layout ← (← Driver.getArr j "layout").toList.mapM parseMT
      let within ← match j.getObjVal? "mwithin" with
        | .ok .null => pure none
        | .ok v => do let w ← parseInts v; pure (some w)
        | .error _ => pure none
      let twice := (j.getObjValAs? Bool "twice").toOption.getD false
      pure (SliceFn.masks (maskFn layout within twice))
    | k => throw s!"bad slicer kind {k}"
  return { name, keys, fn, replace }

def parseAgg (j : Json) : Except String (Agg (List Val) Stat Rv) := do
  let out ← parseStrs j "out"
  let inKeys ← match j.getObjVal? "in" with
    | .ok .null => pure none
    | .ok _ => do let ks ← parseStrs j "in"; pure (some ks)
    | .error e => throw e
  let dec ← match j.getObjVal? "dec" with
    | .ok (.str "cols") => pure decCols
    | .ok d => do let k ← Driver.getStr d "field"; pure (decField k)
    | .error e => throw e
  let vname ← Driver.getStr j "view"
  let some v := view vname | throw s!"bad view {vname}"
  let noSlice := (j.getObjValAs? Bool "noslice").toOption.getD false
  return { out, inKeys, m := statM v, dec, noSlice }

def fracJson (p : Int × Nat) : Json := Json.arr #[toJson p.1, toJson p.2]

/-- a (canonical) scalar: a number is the exact fraction `{"n":[num, den]}` (not reduced) -/
def scalarJson : Scalar → Json
  | .int i => Json.mkObj [("n", Json.arr #[toJson i, toJson (1 : Nat)])]
  | .flt m e => Json.mkObj [("n", Json.arr #[toJson m, toJson (10 ^ e : Nat)])]
  | .bool b => Json.mkObj [("n", Json.arr #[toJson (if b then 1 else 0 : Nat), toJson (1 : Nat)])]
  | .str s => Json.mkObj [("s", Json.str s)]
  | .none => Json.str "none"

def rvJson : Rv → Json
  | .nums xs => Json.mkObj [("nums", Json.arr (xs.map fracJson).toArray)]
  | .hist h => Json.mkObj [("hist", Json.arr (h.map fracJson).toArray)]
  | .bag h => Json.mkObj [("bag", Json.arr (h.map fun (k, c) => Json.arr #[scalarJson k, toJson c]).toArray)]

def routJson : ROut Rv → Json
  | .one r => rvJson r
  | .tup rs => Json.mkObj [("tup", Json.arr (rs.map rvJson).toArray)]

def sliceJson (k : SliceKey) : Json :=
  if k = SliceKey.none then Json.null
  else Json.mkObj [("features", toJson k.features), ("values", toJson k.values)]

def handle (j : Json) : Except String Json := do
  let aggs ← (← Driver.getArr j "aggs").toList.mapM parseAgg
  let slicers ← (← Driver.getArr j "slicers").toList.mapM parseSlicer
  let bs ← (← Driver.getArr j "batches").toList.mapM parseBatch
  let P : Pipeline (List Val) Stat Rv := { aggs, slicers }
  match aggResult P bs with
  | .error e => return Json.mkObj [("err", Driver.errJson e), ("result", Json.arr #[])]
  | .ok res =>
    let entries := res.map fun (k, v) =>
      Json.mkObj [("metric", k.metric), ("slice", sliceJson k.slice), ("value", routJson v)]
    return Json.mkObj [("err", Json.null), ("result", Json.arr entries.toArray)]

end Driver.PipeAgg
