import Driver.Util
import MlModel.Model.Lru
open Lean MlModel MlModel.Lru
namespace Driver.Lru

/-- ops: ["get",k] ["set",k,v] ["clear"] ["has",k] ["wrapped",k,insert,v] (v = what `fn` would return) -/
def handle (j : Json) : Except String Json := do
  let maxsize ← Driver.getNat j "maxsize"
  let ops ← Driver.getArr j "ops"
  let mut c : Cache Int Int := Lru.empty maxsize
  let mut out : Array Json := #[]
  for op in ops do
    let a ← op.getArr?
    let kind ← (a.getD 0 .null).getStr?
    let mut ret : Json := .null
    match kind with
    | "get" =>
      let k ← (a.getD 1 .null).getInt?
      let (r, c') := c.getitem k
      c := c'
      ret := match r with | some v => toJson v | none => Json.str "KeyError"
    | "set" =>
      let k ← (a.getD 1 .null).getInt?
      let v ← (a.getD 2 .null).getInt?
      c := c.setitem k v
    | "clear" => c := c.clear
    | "has" =>
      let k ← (a.getD 1 .null).getInt?
      ret := toJson (c.contains k)
    | "wrapped" =>
      let k ← (a.getD 1 .null).getInt?
      let ins ← (a.getD 2 .null).getBool?
      let v ← (a.getD 3 .null).getInt?
      let (r, c') := c.wrapped k ins (fun _ => v)
      c := c'
      ret := toJson r
    | _ => throw s!"bad op {kind}"
    out := out.push (Json.mkObj [("ret", ret), ("keys", toJson c.keys), ("len", c.len),
      ("info", toJson [c.hits, c.misses, c.currsize])])
  return Json.mkObj [("ops", Json.arr out)]

end Driver.Lru
