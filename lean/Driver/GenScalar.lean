import Driver.Util
import MlModel.Generated.ScalarEval
/-!
# Driver for the numeric self-check of `translate/scalar.py`

Request  `{"model":"genscalar","fn":<label>,"args":[F,..],"rads":bool,"sqrt":[[radicand, value],..]}`
Response `{"out":[F,..]}` — the value(s) of the GENERATED definition `fn` on the flattened arguments
(`rads = true`: the radicands of the `sqrt` calls it meets), or `{"out":null}` for an unknown label / arity.
`sqrt` is the table of square roots the harness computed for the radicands of a first pass: the driver never
approximates; a radicand missing from the table evaluates to NaN.
-/
open Lean MlModel.Agg.Rolling
namespace Driver.GenScalar

def fJson (x : F) : Json := Driver.optRatJson x

def handle (j : Json) : Except String Json := do
  let fn ← Driver.getStr j "fn"
  let args ← (← Driver.getArr j "args").toList.mapM Driver.parseOptRat
  let rads := (j.getObjValAs? Bool "rads").toOption.getD false
  let table ← match j.getObjVal? "sqrt" with
    | .ok (.arr a) => a.toList.mapM fun p => do
        let xs ← p.getArr?
        match xs.toList with
        | [r, v] => do return ((← Driver.parseOptRat r), (← Driver.parseOptRat v))
        | _ => throw "sqrt table entries are [radicand, value]"
    | _ => pure []
  let sqrt : F → F := fun x => match table.find? (fun p => p.1 == x) with
    | some p => p.2
    | none => none
  match MlModel.Generated.Scalar.eval sqrt fn rads args with
  | some out => return Json.mkObj [("out", Json.arr (out.map fJson).toArray)]
  | none => return Json.mkObj [("out", Json.null), ("labels", toJson MlModel.Generated.Scalar.labels)]

end Driver.GenScalar
