import Lean.Data.Json
import MlModel.Model.Basic
/-! JSON helpers shared by the per-model driver handlers. -/
open Lean
namespace Driver

def errJson (e : MlModel.ErrKind) : Json := Json.str e.name

def optErrJson : Option MlModel.ErrKind → Json
  | none => Json.null
  | some e => errJson e

def getInt (j : Json) (k : String) : Except String Int := j.getObjValAs? Int k
def getNat (j : Json) (k : String) : Except String Nat := j.getObjValAs? Nat k
def getStr (j : Json) (k : String) : Except String String := j.getObjValAs? String k
def getBool (j : Json) (k : String) : Except String Bool := j.getObjValAs? Bool k
def getArr (j : Json) (k : String) : Except String (Array Json) := do
  let v ← j.getObjVal? k
  v.getArr?

def getOptInt (j : Json) (k : String) : Except String (Option Int) :=
  match j.getObjVal? k with
  | .error _ => .ok none
  | .ok .null => .ok none
  | .ok v => do let i ← v.getInt?; return some i

def ratJson (r : Rat) : Json := Json.mkObj [("n", toJson r.num), ("d", toJson r.den)]

def optRatJson : Option Rat → Json
  | none => Json.str "nan"
  | some r => ratJson r

/-- Parse a rational given as `{"n":..,"d":..}`, an integer, or `"nan"` → none. -/
def parseOptRat (j : Json) : Except String (Option Rat) :=
  match j with
  | .str "nan" => .ok none
  | .null => .ok none
  | .num _ => do let i ← j.getInt?; return some (i : Rat)
  | _ => do
    let n ← j.getObjValAs? Int "n"
    let d ← j.getObjValAs? Nat "d"
    return some ((n : Rat) / (d : Rat))

end Driver
