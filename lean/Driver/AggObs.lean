import Driver.Util
import Driver.AggRetrieval
import MlModel.Model.Agg.ThrHeap
import MlModel.Model.Agg.CmStateHeap
import MlModel.Model.Agg.HistHeap
import MlModel.Model.Agg.HeapMS
open Lean MlModel MlModel.Agg MlModel.Agg.Heap
namespace Driver.AggObs

/-! JSON driver for the heap models with returned values (`Model/Agg/HeapObs.lean`), used by the
aliasing sub-check `harness/agg/heapobs.py` (work package C11T).

A request carries a class name, its configuration and a program of
`{"op":"make"}`, `{"op":"add","acc":i,"batch":…}`, `{"op":"merge","acc":i,"other":j}`,
`{"op":"result","acc":i}`, `{"op":"poke","out":k,"arr":n,"val":v}` (fill the n-th private array of
the k-th returned value with `v`), `{"op":"merge_states","accs":[i, j, …]}` (ONE n-ary call:
`SysR.mergeStates` of `Model/Agg/HeapMS.lean`, work package SC11; an empty list answers the class's
`emptyMergeErr`).  After every operation the driver reports

* `refs`  — for every accumulator the references of its public arrays (fixed order) and for every
  returned value the references of its arrays (`priv ++ exposed`); equal numbers = the same buffer;
* `vals`  — the content of each of those arrays, and the immutable public fields of each accumulator;
* `err`   — the error kind if the operation raised (the state is then unchanged). -/

/-- what the generic runner needs to know about a class -/
structure ObsClass (C B : Type) where
  cls : HClassR C B
  /-- the arrays reachable through the accumulator's public attributes, in a fixed order -/
  pub : cls.Obj → List Nat
  /-- immutable public fields -/
  scalars : cls.Obj → List Json
  addErr : Heap C → cls.Obj → B → Option String
  mergeErr : Heap C → cls.Obj → cls.Obj → Option String
  /-- what `merge_states([])` raises (`next()` of an exhausted iterator in base.py:197; the
  confusion-matrix loop returns `None` instead) -/
  emptyMergeErr : Option String := some "StopIteration"
  cellJson : C → Json
  /-- the content a `poke` with fill value `v` gives a cell -/
  fill : Int → C → C
  parseBatch : Json → Except String B

def snapshot {C B : Type} [Inhabited C] (k : ObsClass C B) (σ : SysR k.cls) (err : Option String) : Json :=
  let accRefs := σ.objs.map fun o => k.pub o
  let outRefs := σ.outs.map Out.refs
  let cells := fun (rs : List Nat) => Json.arr (rs.map fun r => k.cellJson (σ.heap.read r)).toArray
  Json.mkObj [
    ("refs", Json.mkObj [("accs", toJson accRefs), ("outs", toJson outRefs)]),
    ("vals", Json.mkObj [("accs", Json.arr (accRefs.map cells).toArray),
                         ("outs", Json.arr (outRefs.map cells).toArray),
                         ("scalars", Json.arr (σ.objs.map fun o => Json.arr (k.scalars o).toArray).toArray)]),
    ("err", match err with | some e => Json.str e | none => Json.null)]

def runObs {C B : Type} [Inhabited C] (k : ObsClass C B) (prog : List Json) : Except String Json := do
  let mut σ : SysR k.cls := SysR.init k.cls
  let mut obs : Array Json := #[]
  for op in prog do
    let kind ← Driver.getStr op "op"
    let mut err : Option String := none
    match kind with
    | "make" => σ := σ.step (.base .make)
    | "add" =>
      let i ← Driver.getNat op "acc"
      let b ← k.parseBatch (← op.getObjVal? "batch")
      match σ.objs[i]? with
      | none => throw s!"add: no accumulator {i}"
      | some o => err := k.addErr σ.heap o b
      σ := σ.step (.base (.add i b))
    | "merge" =>
      let i ← Driver.getNat op "acc"
      let j ← Driver.getNat op "other"
      match σ.objs[i]?, σ.objs[j]? with
      | some s, some o => err := k.mergeErr σ.heap s o
      | _, _ => throw s!"merge: no accumulator {i} / {j}"
      σ := σ.step (.base (.merge i j))
    | "merge_states" =>
      let ids ← (← Driver.getArr op "accs").toList.mapM fun (x : Json) => x.getNat?
      for i in ids do
        if (σ.objs[i]?).isNone then throw s!"merge_states: no accumulator {i}"
      if mergeStatesRaises ids then err := k.emptyMergeErr
      σ := σ.stepM (.mergeStates ids)
    | "result" =>
      let i ← Driver.getNat op "acc"
      σ := σ.step (.result i)
    | "poke" =>
      let ko ← Driver.getNat op "out"
      let n ← Driver.getNat op "arr"
      let v ← Driver.getInt op "val"
      match σ.pokeRef ko n with
      | none => throw s!"poke: value {ko} has no private array {n}"
      | some r => σ := σ.step (.poke ko n (k.fill v (σ.heap.read r)))
    | s => throw s!"unknown op {s}"
    obs := obs.push (snapshot k σ err)
  return Json.mkObj [("obs", Json.arr obs)]

/-! ### ThresholdedRetrieval -/

open MlModel.Agg.Retrieval in
def thrCellJson : Thr.H.Cell → Json
  | .nat xs => toJson xs
  | .rat xs => Json.arr (xs.map Driver.ratJson).toArray

open MlModel.Agg.Retrieval in
def thrObs (ts : List Rat) (ms : List (Thr.Kind × Option Rat)) : ObsClass Thr.H.Cell (List (Thr.Row Int)) where
  cls := Thr.H.cls Int ts ms
  -- acc.thresholds, acc.confusion_matrix.thresholds, .tp_trues, .tp_preds, .p_preds
  pub := fun (o : Thr.H.Obj) => [o.thr, o.thr, o.tpTrues, o.tpPreds, o.pPreds]
  scalars := fun (o : Thr.H.Obj) => [toJson o.pTrues]
  addErr := fun h (o : Thr.H.Obj) rows =>
    match Thr.batchCounts (h.read o.thr).rats rows with
    | .ok _ => none
    | .error e => some e.name
  mergeErr := fun _ _ _ => none
  cellJson := thrCellJson
  fill := fun v c => match c with
    | .nat xs => .nat (xs.map fun _ => v.toNat)
    | .rat xs => .rat (xs.map fun _ => (v : Rat))
  parseBatch := fun j => do (← j.getArr?).toList.mapM Driver.AggRetrieval.parseThrRow

/-! ### ConfusionMatrixAggFn state API -/

open MlModel.Agg.Confusion in
def cmStateObs : ObsClass SH.Cell SH.Batch where
  cls := SH.cls true
  pub := fun (s : SH.St) => SH.stRefs s          -- state.tp, .tn, .fp, .fn
  scalars := fun _ => []
  addErr := fun _ _ _ => none
  mergeErr := fun _ _ _ => none
  emptyMergeErr := none
  cellJson := fun (c : List Int) => toJson c
  fill := fun v (c : List Int) => c.map fun _ => v
  parseBatch := fun j => do
    let a ← Driver.getArr j "cm"
    if a.size != 4 then throw "cm: four arrays expected"
    let f := fun (x : Json) => do (← x.getArr?).toList.mapM (·.getInt?)
    return ⟨← f a[0]!, ← f a[1]!, ← f a[2]!, ← f a[3]!⟩

/-! ### Histogram -/

open MlModel.Agg.Rolling in
def histObs (edges : List Rat) : ObsClass HistH.Cell (List Rat) where
  cls := HistH.cls edges
  pub := fun (o : HistH.Obj) => [o.hist, o.edges]      -- acc.hist, acc.bin_edges
  scalars := fun _ => []
  addErr := fun _ _ _ => none
  mergeErr := fun _ _ _ => none
  cellJson := fun (c : List Rat) => Json.arr (c.map Driver.ratJson).toArray
  fill := fun v (c : List Rat) => c.map fun _ => (v : Rat)
  parseBatch := fun j => do (← Driver.getArr j "counts").toList.mapM Driver.AggRetrieval.ratOf

def handle (j : Json) : Except String Json := do
  let cls ← Driver.getStr j "cls"
  let prog := (← Driver.getArr j "prog").toList
  match cls with
  | "thr" =>
    let ts ← (← Driver.getArr j "thresholds").toList.mapM Driver.AggRetrieval.ratOf
    let ms ← (← Driver.getArr j "metrics").toList.mapM fun m => do
      let a ← m.getArr?
      let k ← Driver.AggRetrieval.kindOf (← a[0]!.getStr?)
      let t ← match a[1]! with
        | .null => pure none
        | v => do pure (some (← Driver.AggRetrieval.ratOf v))
      pure (k, t)
    runObs (thrObs ts ms) prog
  | "cmstate" => runObs cmStateObs prog
  | "hist" =>
    let edges ← (← Driver.getArr j "edges").toList.mapM Driver.AggRetrieval.ratOf
    runObs (histObs edges) prog
  | s => throw s!"unknown class {s}"

end Driver.AggObs
