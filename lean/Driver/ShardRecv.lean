import Driver.Util
import Driver.Shard
import MlModel.Model.ShardRecv
/-!
Driver for `Model/ShardRecv.lean` (wire name `shardrecv`): `from_state` called on explicit receivers.

A source SPEC is a list of operations applied to the root, each `["shard", i, k, off]` or
`["restore", SPEC, take]` (`cur = cur.from_state(state)` where `state` is the state of the source SPEC
evaluates to — `take = null` — or of its iterator after `take` `next` calls).
-/
open Lean MlModel MlModel.Shard MlModel.Merged
namespace Driver.ShardRecv

def errObj (e : ErrKind) : Json := Json.mkObj [("err", Driver.errJson e)]

def partsOf (sizes : List Nat) : List (List Int) :=
  (sizes.foldl (fun (acc : List (List Int) × Nat) s =>
    (acc.1 ++ [(List.range' acc.2 s).map Int.ofNat], acc.2 + s)) ([], 0)).1

/-- state of the source `s`, or of its iterator after `take` `next` calls, with the delivered elements -/
def stateAfter (xs : List Int) (s : Source) (take : Option Nat) : ShardConfig × List Int × Option SeqIter :=
  match take with
  | none => (s.ds.state, [], none)
  | some m =>
    let r := SeqIter.nexts xs m s.iterate
    (r.2.state, r.1.filterMap id, some r.2)

partial def evalSpec (n : Nat) (ie : Bool) (xs : List Int) (j : Json) : Except String (Except ErrKind Source) := do
  let ops ← j.getArr?
  let mut cur : Except ErrKind Source := .ok (Source.root n ie)
  for op in ops do
    let a ← op.getArr?
    let tag ← a[0]!.getStr?
    match cur with
    | .error _ => pure ()
    | .ok c =>
      if tag == "shard" then
        cur := c.shard (← a[1]!.getInt?) (← a[2]!.getInt?) (← a[3]!.getInt?)
      else if tag == "restore" then
        let take : Option Nat ← (match a[2]! with
          | .null => pure none
          | v => do let t ← v.getNat?; pure (some t))
        match ← evalSpec n ie xs a[1]! with
        | .error e => cur := .error e
        | .ok o => cur := c.fromState (stateAfter xs o take).1
      else throw s!"bad op {tag}"
  return cur

/-- `[[i, k, start], …]` leaf first (as `Driver.Shard.stateJson` prints it) -/
def parseState (j : Json) : Except String ShardConfig := do
  let a ← j.getArr?
  let ts ← a.toList.mapM Driver.Shard.parseTriple
  match ts.reverse with
  | [] => throw "empty state"
  | (i, k, s) :: rest => return rest.foldl (fun p (t : Int × Int × Int) => .child t.1 t.2.1 t.2.2 p) (.root i k s)

def srcObs (sizes : List Nat) (s : Source) : Json :=
  Json.mkObj (Driver.Shard.dsCore sizes s.ds ++ [("ie", toJson s.ignoreError)])

def iterObs (xs : List Int) (it : SeqIter) : Json :=
  Json.mkObj [("elems", Driver.Shard.compact (it.rest xs)), ("state", Driver.Shard.stateJson it.state)]

/-- a receiver: `{"src": SPEC, "as": "source" | "iter" | "origin_iter", "adv": n}` -/
def evalRecv (n : Nat) (ie : Bool) (xs : List Int) (sizes : List Nat) (originIt : Option SeqIter)
    (state : ShardConfig) (j : Json) : Except String Json := do
  let how ← Driver.getStr j "as"
  if how == "origin_iter" then
    match originIt with
    | none => throw "origin_iter without an iterator"
    | some it =>
      match it.fromState state with
      | .ok it' => return iterObs xs it'
      | .error e => return errObj e
  else
    match ← evalSpec n ie xs (← j.getObjVal? "src") with
    | .error e => return Json.mkObj [("recv_err", Driver.errJson e)]
    | .ok r =>
      if how == "source" then
        match r.fromState state with
        | .ok s' => return srcObs sizes s'
        | .error e => return errObj e
      else
        let adv ← Driver.getNat j "adv"
        let it := (SeqIter.nexts xs adv r.iterate).2
        match it.fromState state with
        | .ok it' => return iterObs xs it'
        | .error e => return errObj e

def rrTriple (r : RRSource) : Json := Json.arr #[toJson r.shardIndex, toJson r.numShards, toJson r.startIndex]

def evalRR (n : Nat) (j : Json) : Except String (Except ErrKind RRSource) := do
  let ops ← j.getArr?
  let mut cur : Except ErrKind RRSource := .ok (RRSource.root n)
  for op in ops do
    let a ← op.getArr?
    let tag ← a[0]!.getStr?
    match cur with
    | .error _ => pure ()
    | .ok c =>
      if tag == "shard" then cur := c.shard (← a[1]!.getInt?) (← a[2]!.getInt?)
      else if tag == "from_state" then cur := c.fromState (← a[1]!.getInt?) (← a[2]!.getInt?) (← a[3]!.getInt?)
      else throw s!"bad op {tag}"
  return cur

def handle (j : Json) : Except String Json := do
  let op ← Driver.getStr j "op"
  match op with
  | "seq" =>
    let sizes ← (← Driver.getArr j "sizes").toList.mapM (·.getNat?)
    let ie ← Driver.getBool j "ie"
    let n := sizes.sum
    let xs : List Int := (partsOf sizes).flatten
    let take : Option Nat ← (match j.getObjVal? "take" with
      | .ok .null => pure none
      | .ok v => do let t ← v.getNat?; pure (some t)
      | .error _ => pure none)
    match ← evalSpec n ie xs (← j.getObjVal? "origin") with
    | .error e => return Json.mkObj [("origin", errObj e), ("recv", Json.arr #[])]
    | .ok o =>
      let (st0, head, oit) := stateAfter xs o take
      let st ← (match j.getObjVal? "state_override" with
        | .ok .null => pure st0
        | .ok v => parseState v
        | .error _ => pure st0)
      let recvs ← (← Driver.getArr j "receivers").toList.mapM (evalRecv n ie xs sizes oit st)
      return Json.mkObj [
        ("origin", Json.mkObj [("head", Driver.Shard.compact head), ("state", Driver.Shard.stateJson st0),
                               ("all", Driver.Shard.compact (sliceElems (partsOf sizes) (some o.ds.start) (some o.ds.end)))]),
        ("recv", Json.arr recvs.toArray)]
  | "rr" =>
    let n ← Driver.getNat j "n"
    let take ← Driver.getNat j "take"
    let calls ← Driver.getNat j "calls"
    let xs : List Int := (List.range n).map Int.ofNat
    match ← evalRR n (← j.getObjVal? "origin") with
    | .error e => return Json.mkObj [("origin", errObj e), ("recv", Json.arr #[])]
    | .ok o =>
      let head := rrNexts xs o.shardIndex o.numShards o.startIndex take 0
      let idx := rrIndexAfter xs o.shardIndex o.numShards o.startIndex take 0
      let st := rrStateIndex o.startIndex idx
      let recvs ← (← Driver.getArr j "receivers").toList.mapM fun (rj : Json) => do
        let how ← Driver.getStr rj "as"
        let base ← (if how == "origin_iter" then pure (.ok o) else do evalRR n (← rj.getObjVal? "src"))
        match base with
        | .error e => return Json.mkObj [("recv_err", Driver.errJson e)]
        | .ok r =>
          match r.fromState o.shardIndex o.numShards st with
          | .error e => return errObj e
          | .ok r' =>
            return Json.mkObj [("state", rrTriple r'),
              ("outs", toJson (rrNexts xs r'.shardIndex r'.numShards r'.startIndex calls 0))]
      return Json.mkObj [("origin", Json.mkObj [("head", toJson head),
                            ("state", Json.arr #[toJson o.shardIndex, toJson o.numShards, toJson st])]),
                         ("recv", Json.arr recvs.toArray)]
  | "mux" =>
    let sizes ← (← Driver.getArr j "sizes").toList.mapM (·.getNat?)
    let ie ← Driver.getBool j "ie"
    let take ← Driver.getNat j "take"
    let n := sizes.sum
    let xs : List Int := (partsOf sizes).flatten
    let origins ← (← Driver.getArr j "origins").toList.mapM (evalSpec n ie xs)
    match origins.mapM id with
    | .error e => return Json.mkObj [("origin", errObj e), ("recv", Json.arr #[])]
    | .ok os =>
      let r := muxNexts xs take (os.map Source.iterate)
      let states := muxState r.2
      let obsOf (res : Except ErrKind (List Source)) : Json :=
        match res with
        | .error e => errObj e
        | .ok rebuilt =>
          Json.mkObj [("elems", Driver.Shard.compact (rebuilt.flatMap fun s =>
                          sliceElems (partsOf sizes) (some s.ds.start) (some s.ds.end))),
                      ("state", Json.arr (rebuilt.map fun s => Driver.Shard.stateJson s.iterate.state).toArray)]
      let recvs ← (← Driver.getArr j "receivers").toList.mapM fun (rj : Json) => do
        match rj with
        | .str _ => return obsOf (muxFromState (r.2.map (·.config)) states)   -- "self" / "fresh": the origins
        | _ =>
          let specs ← rj.getArr?
          let srcs ← specs.toList.mapM (evalSpec n ie xs)
          match srcs.mapM id with
          | .error e => return Json.mkObj [("recv_err", Driver.errJson e)]
          | .ok rs => return obsOf (muxFromState rs states)
      return Json.mkObj [("origin", Json.mkObj [("head", Driver.Shard.compact (r.1.filterMap id)),
                            ("state", Json.arr (states.map Driver.Shard.stateJson).toArray)]),
                         ("recv", Json.arr recvs.toArray)]
  | _ => throw s!"bad op {op}"

end Driver.ShardRecv
