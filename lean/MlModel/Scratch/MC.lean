import MlModel.Model.Queue
import Std.Data.HashSet
/-! Scratch: explicit-state model checker for the queue LTS (NOT part of the library). -/
open MlModel MlModel.Queue

deriving instance Hashable for ErrKind
deriving instance BEq, Hashable for Item
deriving instance BEq, Hashable for Raise
deriving instance BEq, Hashable for Prog
deriving instance BEq, Hashable for Caller
deriving instance BEq, Hashable for Pc
deriving instance BEq, Hashable for Thread
deriving instance BEq, Hashable for Shared
deriving instance BEq, Hashable for Cfg

namespace MC

/-- erase ghost history so that the state space stays small -/
def strip (c : Cfg) : Cfg :=
  { sh := { c.sh with produced := [], dequeued := [], lost := [], progress := 0 },
    ths := c.ths.map fun t => { t with received := [] } }

def succs (c : Cfg) : List ((Tid × Bool) × Cfg) :=
  (enabled c).filterMap fun (tid, alt) => (step c tid alt).map fun (_, c') => ((tid, alt), c')

structure Result where
  states : Nat := 0
  finals : Nat := 0
  deadlocks : List Cfg := []
  bad : List (String × Cfg) := []

partial def bfs (inv : Cfg → Option String) (front : List Cfg) (seen : Std.HashSet Cfg) (r : Result) : Result :=
  match front with
  | [] => r
  | c :: rest =>
    let ss := succs c
    let r := { r with states := r.states + 1 }
    let r := if c.allDone then { r with finals := r.finals + 1 } else
      if ss.isEmpty then { r with deadlocks := c :: r.deadlocks } else r
    let r := match inv c with
      | some m => if r.bad.length < 3 then { r with bad := (m, c) :: r.bad } else r
      | none => r
    let (front', seen') := ss.foldl (fun (f, sn) (_, c') =>
      let k := strip c'
      if sn.contains k then (f, sn) else (k :: f, sn.insert k)) (rest, seen)
    bfs inv front' seen' r

def run (inv : Cfg → Option String) (c0 : Cfg) : Result :=
  bfs inv [strip c0] (Std.HashSet.emptyWithCapacity 1024 |>.insert (strip c0)) {}

def report (name : String) (r : Result) : IO Unit := do
  IO.println s!"{name}: states={r.states} finals={r.finals} deadlocks={r.deadlocks.length} bad={r.bad.length}"
  for c in r.deadlocks.take 1 do IO.println s!"  DEADLOCK {repr c}"
  for (m, c) in r.bad.take 2 do IO.println s!"  BAD {m}\n {repr c}"

end MC
