import MlModel.Properties.C04Live
open MlModel.C04
#print axioms C04_no_deadlock
#print axioms C04_enqueueDone_monotone
#check @C04_no_deadlock
