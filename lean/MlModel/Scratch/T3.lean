import MlModel.Model.Agg.RollingMeanVar
open MlModel.Agg.Rolling
def b1 : List (List F) := [[some 1, none],[some 2, none]]
def b2 : List (List F) := [[some 3, some 4],[some 5, some 6]]
#eval (MV.mergeCore false (MV.mergeCore false MV.fresh (MV.ofRows 2 b1)) (MV.ofRows 2 b2)).result
#eval (MV.mergeCore true (MV.mergeCore true MV.fresh (MV.ofRows 2 b1)) (MV.ofRows 2 b2)).result
#eval (MV.ofRows 2 (b1++b2)).result
#eval (MV.mergeCore true (MV.mergeCore true MV.fresh (MV.ofRows 2 b2)) (MV.ofRows 2 b1)).result
