import Mathlib.Tactic.FieldSimp
import Mathlib.Tactic.Ring
import Mathlib.Tactic.Linarith
import Mathlib.Algebra.Order.Field.Rat

example (a b : Rat) (h : b ≠ 0) : a / b * b = a := by field_simp
example (n1 n2 s1 s2 : Rat) (h1 : n1 ≠ 0) (h2 : n2 ≠ 0) (h : n1 + n2 ≠ 0) :
   s1/n1 + (s2/n2 - s1/n1) * (n2/(n1+n2)) = (s1+s2)/(n1+n2) := by field_simp; ring
#check @List.Perm
#check @Vector
#check @List.count_append
#check @List.sum_append
#eval (3 : Rat) / 4 + 1
example (n : Nat) : ((n : Rat) = 0) ↔ n = 0 := by exact_mod_cast Iff.rfl
