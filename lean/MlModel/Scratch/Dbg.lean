import MlModel.Lemmas.QueueLiveDefs
/-!
# Liveness of the IteratorQueue LTS — thread-local facts (`XOK`), one step at a time
-/
namespace MlModel.Queue
set_option linter.unusedSimpArgs false

/-- configuration constants are never written -/
def ConstStep (s : Shared) (t : Thread) (tid : Tid) (alt : Bool) : Prop :=
  ∀ lbl s' t', stepThread s t tid alt = some (lbl, s', t') →
    s'.timeout = s.timeout ∧ s'.cap = s.cap ∧ s'.ignoreError = s.ignoreError

set_option hygiene false in
macro "const_group" : tactic => `(tactic| (
  intro lbl s' t' h
  unfold stepThread at h
  cases hpc : t.pc <;> (try (simp only [hpc, Pc.group] at hg; omega)) <;>
    simp only [hpc] at h <;>
    (try simp only [acquire, release, notify, waitPark, waitWake, goto, enqLoop, putLoop, batchLoop,
      afterRaise, afterValue] at h) <;>
    (repeat' split at h) <;>
    (try simp only [Option.some.injEq, Prod.mk.injEq, reduceCtorEq] at h) <;>
    (try (obtain ⟨-, rfl, rfl⟩ := h)) <;>
    simp_all [Shared.setOwner]))

theorem const_g0 {s t tid alt} (hg : t.pc.group = 0) : ConstStep s t tid alt := by const_group
theorem const_g1 {s t tid alt} (hg : t.pc.group = 1) : ConstStep s t tid alt := by const_group
theorem const_g2 {s t tid alt} (hg : t.pc.group = 2) : ConstStep s t tid alt := by const_group
theorem const_g3 {s t tid alt} (hg : t.pc.group = 3) : ConstStep s t tid alt := by const_group
theorem const_g4 {s t tid alt} (hg : t.pc.group = 4) : ConstStep s t tid alt := by const_group
theorem const_g5 {s t tid alt} (hg : t.pc.group = 5) : ConstStep s t tid alt := by const_group
theorem const_g6 {s t tid alt} (hg : t.pc.group = 6) : ConstStep s t tid alt := by const_group
theorem const_g7 {s t tid alt} (hg : t.pc.group = 7) : ConstStep s t tid alt := by const_group

theorem stepThread_const {s t tid alt} : ConstStep s t tid alt := by
  have h := Pc.group_lt t.pc
  match hg : t.pc.group with
  | 0 => exact const_g0 hg | 1 => exact const_g1 hg | 2 => exact const_g2 hg | 3 => exact const_g3 hg
  | 4 => exact const_g4 hg | 5 => exact const_g5 hg | 6 => exact const_g6 hg | 7 => exact const_g7 hg
  | n + 8 => omega

/-- the stepping thread keeps its thread-local facts -/
def XStep (s : Shared) (t : Thread) (tid : Tid) (alt : Bool) : Prop :=
  ∀ lbl s' t', stepThread s t tid alt = some (lbl, s', t') → TOK t → XOK s t → XOK s' t'


theorem dbg_tAcq {s t tid alt} {c : Caller} (hpc : t.pc = .tAcq) : XStep s t tid alt := by
  intro lbl s' t' h htok hx
  have hk := htok.kind
  clear htok
  unfold XOK at hx ⊢
  unfold stepThread at h
  simp only [hpc] at h hk hx <;>
    (try simp only [acquire, release, notify, waitPark, waitWake, goto, enqLoop, putLoop, batchLoop,
      afterRaise, afterValue] at h) <;>
    (repeat' split at h) <;>
    (try simp only [Option.some.injEq, Prod.mk.injEq, reduceCtorEq] at h) <;>
    (try (obtain ⟨-, rfl, rfl⟩ := h)) <;>
    simp_all [Shared.setOwner, Shared.owner, armed, isCons, isStopper, pcKind,
      Shared.enqueueDone, Shared.full]

theorem dbg_tR0 {s t tid alt} {c : Caller} (hpc : t.pc = .tR0) : XStep s t tid alt := by
  intro lbl s' t' h htok hx
  have hk := htok.kind
  clear htok
  unfold XOK at hx ⊢
  unfold stepThread at h
  simp only [hpc] at h hk hx <;>
    (try simp only [acquire, release, notify, waitPark, waitWake, goto, enqLoop, putLoop, batchLoop,
      afterRaise, afterValue] at h) <;>
    (repeat' split at h) <;>
    (try simp only [Option.some.injEq, Prod.mk.injEq, reduceCtorEq] at h) <;>
    (try (obtain ⟨-, rfl, rfl⟩ := h)) <;>
    simp_all [Shared.setOwner, Shared.owner, armed, isCons, isStopper, pcKind,
      Shared.enqueueDone, Shared.full]

theorem dbg_tR2 {s t tid alt} {c : Caller} (hpc : t.pc = .tR2) : XStep s t tid alt := by
  intro lbl s' t' h htok hx
  have hk := htok.kind
  clear htok
  unfold XOK at hx ⊢
  unfold stepThread at h
  simp only [hpc] at h hk hx <;>
    (try simp only [acquire, release, notify, waitPark, waitWake, goto, enqLoop, putLoop, batchLoop,
      afterRaise, afterValue] at h) <;>
    (repeat' split at h) <;>
    (try simp only [Option.some.injEq, Prod.mk.injEq, reduceCtorEq] at h) <;>
    (try (obtain ⟨-, rfl, rfl⟩ := h)) <;>
    simp_all [Shared.setOwner, Shared.owner, armed, isCons, isStopper, pcKind,
      Shared.enqueueDone, Shared.full]

theorem dbg_tRel {s t tid alt} {c : Caller} (hpc : t.pc = .tRel) : XStep s t tid alt := by
  intro lbl s' t' h htok hx
  have hk := htok.kind
  clear htok
  unfold XOK at hx ⊢
  unfold stepThread at h
  simp only [hpc] at h hk hx <;>
    (try simp only [acquire, release, notify, waitPark, waitWake, goto, enqLoop, putLoop, batchLoop,
      afterRaise, afterValue] at h) <;>
    (repeat' split at h) <;>
    (try simp only [Option.some.injEq, Prod.mk.injEq, reduceCtorEq] at h) <;>
    (try (obtain ⟨-, rfl, rfl⟩ := h)) <;>
    simp_all [Shared.setOwner, Shared.owner, armed, isCons, isStopper, pcKind,
      Shared.enqueueDone, Shared.full]

end MlModel.Queue
