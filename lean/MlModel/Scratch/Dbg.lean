import MlModel.Lemmas.QueueLiveProgs
/-!
# Liveness of the IteratorQueue LTS — what a fault-free run computes, one step at a time

Fault-free: no `Item.fail` in any source, no stopper, no timeout.  Then no exception is ever
recorded (`clean`), every producer puts *all* its source values and stops with its own return
value, and a consumer's end-of-stream exception is `StopIteration(*returned)`.
-/
namespace MlModel.Queue
set_option linter.unusedSimpArgs false

def noFail (l : List Item) : Bool := l.all (fun i => i != .fail)

def Prog.noFail : Prog → Bool
  | .producer src _ => Queue.noFail src
  | _ => true

/-- the return value of a producer's source iterator -/
def progRet : Prog → List Nat
  | .producer _ r => [r]
  | _ => []

/-- `final` as a function of the two fields it reads (kept folded in the step proofs) -/
def finalOf (exc : Option ErrKind) (returned : List Nat) : Raise :=
  match exc with
  | some e => .err e
  | none => .stop returned

theorem final_eq (s : Shared) : s.final = finalOf s.exc s.returned := rfl

/-- thread-local facts of a fault-free run -/
structure CT (t : Thread) : Prop where
  src : noFail t.src = true
  prog : t.prog.noFail = true
  kind : t.prog.kind ≠ .stopper
  pc : t.pc ≠ .pRaiseT
  stop : stopped t = true → t.rets = progRet t.prog
  stop2 : stopped t = true → t.src = []
  res : (t.pc = .done ∨ t.pc = .bRaise) → t.result = []

def CleanStep (s : Shared) (t : Thread) (tid : Tid) (alt : Bool) : Prop :=
  ∀ lbl s' t', stepThread s t tid alt = some (lbl, s', t') → TOK t →
    s.exc = none → s.stopRequested = false → s.timeout = false →
    ((match t.pc with | .nRelErr _ => true | _ => false) = true → t.x.isErr = true → s.exc.isSome = true) →
    CT t → s'.exc = none ∧ s'.stopRequested = false ∧ CT t'


theorem dbg_a {s t tid alt} {c : Caller} (hpc : t.pc = .nNaOk c) : CleanStep s t tid alt := by
  intro lbl s' t' h htok he hsr hto hx3 hct
  have hk := htok.kind; have hr := htok.res
  obtain ⟨c1, c2, c3, c4, c5, c7, c6⟩ := hct
  clear htok
  clear hto
  unfold stepThread at h
  simp only [hpc] at h hk hx3 c4 c6 <;>
    (try simp only [acquire, release, notify, waitPark, waitWake, goto, enqLoop, putLoop, batchLoop,
      afterRaise, afterValue] at h) <;>
    (repeat' split at h) <;>
    (try simp only [Option.some.injEq, Prod.mk.injEq, reduceCtorEq] at h) <;>
    (try (obtain ⟨-, rfl, rfl⟩ := h)) <;>
    (refine ⟨?_, ?_, ⟨?_, ?_, ?_, ?_, ?_, ?_, ?_⟩⟩) <;>
    (try (have hen : t.pc = Pc.eNext := hpc; clear hen; cases hprog : t.prog)) <;>
    simp_all [Shared.setOwner, Shared.owner, pcKind, Prog.kind, noFail, Prog.noFail, progRet, stopped] <;>
    (try assumption)

theorem dbg_b {s t tid alt} {c : Caller} (hpc : t.pc = .nNaOk c) : CleanStep s t tid alt := by
  intro lbl s' t' h htok he hsr hto hx3 hct
  have hk := htok.kind; have hr := htok.res
  obtain ⟨c1, c2, c3, c4, c5, c7, c6⟩ := hct
  clear htok
  clear he
  unfold stepThread at h
  simp only [hpc] at h hk hx3 c4 c6 <;>
    (try simp only [acquire, release, notify, waitPark, waitWake, goto, enqLoop, putLoop, batchLoop,
      afterRaise, afterValue] at h) <;>
    (repeat' split at h) <;>
    (try simp only [Option.some.injEq, Prod.mk.injEq, reduceCtorEq] at h) <;>
    (try (obtain ⟨-, rfl, rfl⟩ := h)) <;>
    (refine ⟨?_, ?_, ⟨?_, ?_, ?_, ?_, ?_, ?_, ?_⟩⟩) <;>
    (try (have hen : t.pc = Pc.eNext := hpc; clear hen; cases hprog : t.prog)) <;>
    simp_all [Shared.setOwner, Shared.owner, pcKind, Prog.kind, noFail, Prog.noFail, progRet, stopped] <;>
    (try assumption)

theorem dbg_c {s t tid alt} {c : Caller} (hpc : t.pc = .nNaOk c) : CleanStep s t tid alt := by
  intro lbl s' t' h htok he hsr hto hx3 hct
  have hk := htok.kind; have hr := htok.res
  obtain ⟨c1, c2, c3, c4, c5, c7, c6⟩ := hct
  clear htok
  clear hsr
  unfold stepThread at h
  simp only [hpc] at h hk hx3 c4 c6 <;>
    (try simp only [acquire, release, notify, waitPark, waitWake, goto, enqLoop, putLoop, batchLoop,
      afterRaise, afterValue] at h) <;>
    (repeat' split at h) <;>
    (try simp only [Option.some.injEq, Prod.mk.injEq, reduceCtorEq] at h) <;>
    (try (obtain ⟨-, rfl, rfl⟩ := h)) <;>
    (refine ⟨?_, ?_, ⟨?_, ?_, ?_, ?_, ?_, ?_, ?_⟩⟩) <;>
    (try (have hen : t.pc = Pc.eNext := hpc; clear hen; cases hprog : t.prog)) <;>
    simp_all [Shared.setOwner, Shared.owner, pcKind, Prog.kind, noFail, Prog.noFail, progRet, stopped] <;>
    (try assumption)

theorem dbg_d {s t tid alt} {c : Caller} (hpc : t.pc = .nNaOk c) : CleanStep s t tid alt := by
  intro lbl s' t' h htok he hsr hto hx3 hct
  have hk := htok.kind; have hr := htok.res
  obtain ⟨c1, c2, c3, c4, c5, c7, c6⟩ := hct
  clear htok
  clear hto he hsr
  unfold stepThread at h
  simp only [hpc] at h hk hx3 c4 c6 <;>
    (try simp only [acquire, release, notify, waitPark, waitWake, goto, enqLoop, putLoop, batchLoop,
      afterRaise, afterValue] at h) <;>
    (repeat' split at h) <;>
    (try simp only [Option.some.injEq, Prod.mk.injEq, reduceCtorEq] at h) <;>
    (try (obtain ⟨-, rfl, rfl⟩ := h)) <;>
    (refine ⟨?_, ?_, ⟨?_, ?_, ?_, ?_, ?_, ?_, ?_⟩⟩) <;>
    (try (have hen : t.pc = Pc.eNext := hpc; clear hen; cases hprog : t.prog)) <;>
    simp_all [Shared.setOwner, Shared.owner, pcKind, Prog.kind, noFail, Prog.noFail, progRet, stopped] <;>
    (try assumption)

theorem dbg_e {s t tid alt} {c : Caller} (hpc : t.pc = .nNaOk c) : CleanStep s t tid alt := by
  intro lbl s' t' h htok he hsr hto hx3 hct
  have hk := htok.kind; have hr := htok.res
  obtain ⟨c1, c2, c3, c4, c5, c7, c6⟩ := hct
  clear htok
  clear hx3
  unfold stepThread at h
  simp only [hpc] at h hk hx3 c4 c6 <;>
    (try simp only [acquire, release, notify, waitPark, waitWake, goto, enqLoop, putLoop, batchLoop,
      afterRaise, afterValue] at h) <;>
    (repeat' split at h) <;>
    (try simp only [Option.some.injEq, Prod.mk.injEq, reduceCtorEq] at h) <;>
    (try (obtain ⟨-, rfl, rfl⟩ := h)) <;>
    (refine ⟨?_, ?_, ⟨?_, ?_, ?_, ?_, ?_, ?_, ?_⟩⟩) <;>
    (try (have hen : t.pc = Pc.eNext := hpc; clear hen; cases hprog : t.prog)) <;>
    simp_all [Shared.setOwner, Shared.owner, pcKind, Prog.kind, noFail, Prog.noFail, progRet, stopped] <;>
    (try assumption)


end MlModel.Queue
