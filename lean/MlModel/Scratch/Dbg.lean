import MlModel.Lemmas.QueueVariantDefs
import MlModel.Lemmas.QueueLiveJ
/-!
# The termination measure decreases — the stepping thread's part, one step at a time
-/
namespace MlModel.Queue
set_option linter.unusedSimpArgs false

/-- what a dequeue that empties the queue may add to the other consumers' parts -/
def flT (N : Nat) (s : Shared) (t : Thread) : Nat :=
  match t.pc with
  | .nGet _ => if s.q.length = 1 then wFlip * N else 0
  | _ => 0

def VStep (s : Shared) (t : Thread) (tid : Tid) (alt : Bool) : Prop :=
  ∀ lbl s' t', stepThread s t tid alt = some (lbl, s', t') → ∀ (N : Nat), 1 ≤ N →
    TOK t → (t.prog.kind = .batch → 0 < t.batchMax) →
    s.deqWait.length ≤ N → s.enqWait.length ≤ N →
    potG N s' + flT N s t + potT N (xEmpty s') t' < potG N s + potT N (xEmpty s') t

/-- a finer partition of the program points than `Pc.group` (the arithmetic goals are bigger) -/
def Pc.sub : Pc → Nat
  | .start | .done => 0
  | .nAcq _ => 1 | .nGet _ => 2 | .nEmp _ => 3 | .nNaOk _ | .nNaErr _ => 4 | .nRelOk _ => 5 | .nRelErr _ => 6
  | .gAcq | .gR0 | .gR1 | .gR2 | .gR3 | .gR4 | .gRet | .gWait | .gWake | .gRaise => 7
  | .bAcq | .bR0 | .bR1 | .bR2 | .bR3 | .bR4 => 8
  | .bEmp | .bWait | .bWake => 9
  | .bRaise | .bExit | .bE1 | .bE2 | .bE3 => 10
  | .sAcq | .sRel | .eNext => 11
  | .pAcq | .pPut => 12
  | .pStAcq | .pStRel | .pR0 | .pR1 | .pR2 | .pR3 | .pR4 | .pRet => 13
  | .pWait | .pWake | .pRaiseT | .pExit => 14
  | .tAcq | .tR0 | .tR1 | .tR2 | .tR3 | .tR4 | .tS0 | .tS1 | .tS2 | .tS3 | .tS4 | .tRel => 15
  | .mAcq | .mRel | .mE0 | .mE1 | .mE2 | .mD0 | .mD1 | .mD2 => 16

theorem Pc.sub_lt (pc : Pc) : pc.sub < 17 := by cases pc <;> simp [Pc.sub]

theorem wB_eq (N : Nat) : wB N = 300 + 60 * N := rfl
theorem wA_eq (N : Nat) : wA N = wB N + 100 := rfl


theorem dbg_start {s t tid alt} {c : Caller} (hpc : t.pc = .start) : VStep s t tid alt := by
  intro lbl s' t' h N hN htok hmax hdw hew
  have hk := htok.kind
  clear htok
  have hB := wB_eq N; have hA := wA_eq N
  generalize hx' : xEmpty s' = x'
  unfold stepThread at h
  cases hpc : t.pc <;> 
    (try (cases ‹Caller›)) <;>
    simp only [hpc] at h hk <;>
    (try simp only [acquire, release, notify, waitPark, waitWake, goto, enqLoop, putLoop, batchLoop,
      afterRaise, afterValue] at h) <;>
    (repeat' split at h) <;>
    (try simp only [Option.some.injEq, Prod.mk.injEq, reduceCtorEq] at h) <;>
    (try (obtain ⟨-, rfl, rfl⟩ := h)) <;>
    cases x' <;>
    simp_all [potT, basePot, potG, srcLen, flT, xEmpty, Shared.setOwner, Shared.owner, enqueueDone_eq,
      wE, wD, wR, wFlip, wX, tA, pcKind, Prog.kind, Nat.mul_add, Nat.add_mul] <;>
    (repeat' split) <;> (try simp_all) <;>
    (try (have hposd := List.length_pos_of_mem ‹tid ∈ s.deqNotified›)) <;>
    (try (have hpose := List.length_pos_of_mem ‹tid ∈ s.enqNotified›)) <;>
    (try omega)

end MlModel.Queue
