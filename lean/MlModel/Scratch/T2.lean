#eval ([1, 2, (3:Rat)/2] : List Rat).sum
#eval ((3:Rat)/2)^2
#eval decide ((3:Rat)/2 < 2)
#eval (if (3:Rat)/2 = 0 then 1 else 2)
#eval min ((3:Rat)/2) 1
#eval ((7:Rat)/2).floor
#check @Rat.floor
#eval (List.finRange 3)
#eval (Vector.replicate 3 (0:Rat))
#check @Vector.zipWith
#eval |((-3:Rat)/2)|
