import MlModel.Scratch.MC
open MlModel MlModel.Queue MC

def srcs : List (List Item) := [[], [.val 1], [.val 1, .val 2], [.fail], [.val 1, .fail]]
def conss : List Prog := [.getLoop, .batchLoop 1 false, .batchLoop 2 false, .batchLoop 2 true, .batchLoop 1 true]
def stops : List Prog := [.stopper none, .stopper (some .value)]

/-- multisets of size n from list (combinations with repetition) -/
def multi {α} : Nat → List α → List (List α)
  | 0, _ => [[]]
  | _, [] => []
  | n+1, x :: xs => ((multi n (x :: xs)).map (x :: ·)) ++ multi (n+1) xs

def allProgs (np nc ns : Nat) : List (List Prog) :=
  (multi np srcs).flatMap fun ps => (multi nc conss).flatMap fun cs => (multi ns stops).map fun ss =>
    (ps.mapIdx fun i s => Prog.producer s (90 + i)) ++ cs ++ ss

def shapes : List (Nat × Nat × Nat) := [(1,1,0),(2,1,0),(1,2,0),(1,1,1),(0,1,1),(1,0,1),(0,2,1),(2,0,1)]

#eval do
  let mut total := 0
  let mut ndl := 0
  for (np, nc, ns) in shapes do
    for progs in allProgs np nc ns do
      for cap in [0, 1] do
        for to in [false, true] do
          let c0 := init cap np to false progs
          let r := run (fun _ => none) c0
          total := total + r.states
          if r.deadlocks.length > 0 then
            ndl := ndl + 1
            if ndl ≤ 12 then
              IO.println s!"DEADLOCK cap={cap} to={to} progs={repr progs} states={r.states}"
              for c in r.deadlocks.take 1 do IO.println s!"   pcs={repr (c.ths.map Thread.pc)} q={repr c.sh.q} exc={repr c.sh.exc} stopReq={c.sh.stopRequested} start={c.sh.start} stop={c.sh.stop} max={c.sh.maxEnq} exh={c.sh.exhausted}"
  IO.println s!"total states {total}, deadlocking configs {ndl}"
