import MlModel.Scratch.MC
import MlModel.Lemmas.QueueLiveDefs
open MlModel MlModel.Queue MC

namespace MC

def waitInvB (c : Cfg) : Bool :=
  decide (wlD c.sh).Nodup && decide (wlE c.sh).Nodup &&
  (wlD c.sh).all (fun tid => match c.ths[tid]? with | some t => consWakePc t.pc | none => false) &&
  (wlE c.sh).all (fun tid => match c.ths[tid]? with | some t => prodWakePc t.pc | none => false) &&
  (List.range c.ths.length).all (fun tid => match c.ths[tid]? with
    | some t => (!consWakePc t.pc || (wlD c.sh).contains tid) && (!prodWakePc t.pc || (wlE c.sh).contains tid)
    | none => true)

def lockInvB (c : Cfg) : Bool :=
  (List.range c.ths.length).all (fun tid => match c.ths[tid]? with
    | some t => [Lk.deq, Lk.enq, Lk.st].all fun l => (c.sh.owner l == some tid) == holds l t.pc
    | none => true)

def allInv (c : Cfg) : Option String :=
  if !decide (J1 c) then some "J1" else
  if !decide (J2 c) then some "J2" else
  if !decide (K1 c) then some "K1" else
  if !decide (K2 c) then some "K2" else
  if !c.ths.all (fun t => decide (XOK c.sh t)) then some "XOK" else
  if !decide (CNT c) then some "CNT" else
  if !decide (EARLY c) then some "EARLY" else
  if !decide (I3 c) then some "I3" else
  if !waitInvB c then some "WaitInv" else
  if !lockInvB c then some "LockInv" else none

def srcs : List (List Item) := [[], [.val 1], [.val 1, .val 2], [.fail], [.val 1, .fail]]
def conss : List Prog := [.getLoop, .batchLoop 1 false, .batchLoop 2 false, .batchLoop 2 true, .batchLoop 1 true]
def stops : List Prog := [.stopper none, .stopper (some .value)]

def multi {α} : Nat → List α → List (List α)
  | 0, _ => [[]]
  | _, [] => []
  | n+1, x :: xs => ((multi n (x :: xs)).map (x :: ·)) ++ multi (n+1) xs

def allProgs (np nc ns : Nat) : List (List Prog) :=
  (multi np srcs).flatMap fun ps => (multi nc conss).flatMap fun cs => (multi ns stops).map fun ss =>
    (ps.mapIdx fun i s => Prog.producer s (90 + i)) ++ cs ++ ss

def sweep (shapes : List (Nat × Nat × Nat)) (caps : List Nat) (tos : List Bool) (inv : Cfg → Option String) : IO Unit := do
  let mut total := 0
  let mut nbad := 0
  let mut ndl := 0
  for (np, nc, ns) in shapes do
    for progs in allProgs np nc ns do
      for cap in caps do
        for to in tos do
          let c0 := init cap np to false progs
          let r := run inv c0
          total := total + r.states
          if r.deadlocks.length > 0 then
            ndl := ndl + 1
            if ndl ≤ 5 then
              IO.println s!"DEADLOCK cap={cap} to={to} progs={repr progs}"
          if r.bad.length > 0 then
            nbad := nbad + 1
            if nbad ≤ 6 then
              IO.println s!"BAD cap={cap} to={to} progs={repr progs} states={r.states}"
              for (m, c) in r.bad.take 1 do
                IO.println s!"   {m}: pcs={repr (c.ths.map Thread.pc)} q={repr c.sh.q} exc={repr c.sh.exc} stopReq={c.sh.stopRequested} start={c.sh.start} stop={c.sh.stop} max={c.sh.maxEnq} exh={c.sh.exhausted} dW={c.sh.deqWait} dN={c.sh.deqNotified} eW={c.sh.enqWait} eN={c.sh.enqNotified} xs={repr (c.ths.map Thread.x)} res={repr (c.ths.map Thread.result)}"
    IO.println s!"shape {np},{nc},{ns} done: total states {total}, bad configs {nbad}, deadlocking {ndl}"
  IO.println s!"total states {total}, bad configs {nbad}, deadlocking configs {ndl}"

end MC
