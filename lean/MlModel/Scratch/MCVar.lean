import MlModel.Scratch.MCInv
import MlModel.Lemmas.QueueVariantDefs
open MlModel MlModel.Queue MC

namespace MC

structure TRes where
  states : Nat := 0
  trans : Nat := 0
  bad : List (Cfg × (Tid × Bool) × Cfg) := []

partial def bfsT (front : List Cfg) (seen : Std.HashSet Cfg) (r : TRes) : TRes :=
  match front with
  | [] => r
  | c :: rest =>
    let ss := succs c
    let r := { r with states := r.states + 1, trans := r.trans + ss.length }
    let r := ss.foldl (fun r (ch, c') =>
      if Phi c' < Phi c then r else if r.bad.length < 2 then { r with bad := (c, ch, c') :: r.bad } else r) r
    let (front', seen') := ss.foldl (fun (f, sn) (_, c') =>
      let k := strip c'
      if sn.contains k then (f, sn) else (k :: f, sn.insert k)) (rest, seen)
    bfsT front' seen' r

def sweepT (shapes : List (Nat × Nat × Nat)) (caps : List Nat) (tos : List Bool) : IO Unit := do
  let mut total := 0
  let mut nbad := 0
  for (np, nc, ns) in shapes do
    for progs in allProgs np nc ns do
      for cap in caps do
        for to in tos do
          let c0 := init cap np to false progs
          let r := bfsT [strip c0] (Std.HashSet.emptyWithCapacity 1024 |>.insert (strip c0)) {}
          total := total + r.trans
          if r.bad.length > 0 then
            nbad := nbad + 1
            if nbad ≤ 4 then
              IO.println s!"BAD cap={cap} to={to} progs={repr progs}"
              for (c, ch, c') in r.bad.take 1 do
                IO.println s!"   step {ch}: Phi {Phi c} -> {Phi c'}; pcs={repr (c.ths.map Thread.pc)} -> {repr (c'.ths.map Thread.pc)} q={repr c.sh.q}->{repr c'.sh.q} done={c.sh.enqueueDone}->{c'.sh.enqueueDone} exh={c.sh.exhausted}->{c'.sh.exhausted} dN={c.sh.deqNotified}->{c'.sh.deqNotified} eN={c.sh.enqNotified}->{c'.sh.enqNotified} dW={c.sh.deqWait} eW={c.sh.enqWait} res={repr (c.ths.map Thread.result)} potT={c.ths.map (potT c.ths.length (xEmpty c.sh))} -> {c'.ths.map (potT c'.ths.length (xEmpty c'.sh))} G={potG c.ths.length c.sh}->{potG c'.ths.length c'.sh}"
    IO.println s!"shape {np},{nc},{ns} done: transitions {total}, bad configs {nbad}"

end MC
