import MlModel.Scratch.MC
open MlModel MlModel.Queue MC

def cfgs : List (String × Cfg) := [
  ("1p[1]-get cap1", init 1 1 false false [.producer [.val 1] 9, .getLoop]),
  ("1p[1,2]-get cap1", init 1 1 false false [.producer [.val 1, .val 2] 9, .getLoop]),
  ("2p-get cap1", init 1 2 false false [.producer [.val 1] 9, .producer [.val 2] 8, .getLoop]),
  ("1p-2get cap1", init 1 1 false false [.producer [.val 1, .val 2] 9, .getLoop, .getLoop]),
  ("1p-batch2block cap1", init 1 1 false false [.producer [.val 1, .val 2] 9, .batchLoop 2 true]),
  ("1p-batch2 get cap0", init 0 1 false false [.producer [.val 1, .val 2] 9, .batchLoop 2 true, .getLoop])
]

#eval do
  for (n, c) in cfgs do
    report n (run (fun _ => none) c)
