import MlModel.Model.Stage
import MlModel.Lemmas.StageInv
import MlModel.Generated.StageTurn
import MlModel.Lemmas.StageTurn
/-!
# C16 — interleaved stages: enqueuer registration happens-before the worker's pulling

Model `Model/Stage.lean`: one remote stage of `run_pipeline_interleaved` - the previous stage feeding the
stage input, any number of stage workers (each: coroutine `async_enqueue_from_iterator(worker.async_iter(..))`
on the master's single event loop + the worker's own pulling thread), the stage's result queue with its
`_enqueue_start / _enqueue_stop / _max_enqueuer` counters, and the consumer that stops on
"queue empty and `enqueue_done`".  All theorems are for the configuration of the code (`ackAwait = false`:
the reply of the kick-off RPC is never awaited, so kick-off and `_start_enqueue()` are one event-loop turn)
and quantify over EVERY number of workers, EVERY list of input batches and EVERY schedule (`Reach`):
RPC latency, the order in which the workers' replies arrive, and the relative speed of workers, producer
and consumer are all scheduler choices.

The same LTS with `ackAwait = true` (a suspension point between kick-off and registration, i.e. the reply
latency of the kick-off RPC becomes observable) loses batches: `Witness/C16Stage.lean`.
-/
namespace MlModel.C16
open MlModel.Stage

variable {c : Cfg} {all : List Nat} {n : Nat} {s : St}

/-- **Conservation.**  At every moment every batch the previous stage produces is in exactly one place:
not yet produced, on the stage input, in some worker's hands, on the stage's result queue, or consumed. -/
theorem C16_stage_conservation (hc : c.ackAwait = false) (h : Reach c (St.init all n) s) :
    (s.toProduce ++ s.inp ++ hands s.ws ++ s.resultQ ++ s.consumed).Perm all :=
  (inv_reach hc h).cons

/-- **Registration happens-before pulling.**  At every observable moment (between any two steps of any
schedule) a worker that may pull from the stage input - it has received the kick-off - has its enqueuer
registered on the stage's result queue (`_start_enqueue` done); a worker that holds a batch is
registered and not finished. -/
theorem C16_stage_registered_before_pulling (hc : c.ackAwait = false) (h : Reach c (St.init all n) s) :
    ∀ x ∈ s.ws, (x.pulling = true → x.phase = .registered ∨ x.phase = .done) ∧
                (x.hand ≠ [] → x.phase = .registered) := by
  intro x hx
  have hok := (inv_reach hc h).wok x hx
  refine ⟨?_, ?_⟩
  · intro hp
    cases hph : x.phase with
    | idle => have := hok.early (Or.inl hph); simp [hp] at this
    | creating => have := hok.early (Or.inr hph); simp [hp] at this
    | kicked => exact absurd hph hok.nk
    | registered => exact Or.inl rfl
    | done => exact Or.inr rfl
  · intro hh
    cases hph : x.phase with
    | idle => exact absurd (hok.np (hok.early (Or.inl hph))).1 hh
    | creating => exact absurd (hok.np (hok.early (Or.inr hph))).1 hh
    | kicked => exact absurd hph hok.nk
    | registered => rfl
    | done => exact absurd (hok.dn hph).1 hh

/-- The counters of the result queue count what they are meant to count: `_enqueue_start` = workers
whose enqueuer is registered (finished or not), `_enqueue_stop` = finished ones, `_max_enqueuer` =
`_enqueue_start`. -/
theorem C16_stage_counters (hc : c.ackAwait = false) (h : Reach c (St.init all n) s) :
    s.start = s.ws.countP isReg ∧ s.stop = s.ws.countP isDone ∧ s.maxE = s.start :=
  ⟨(inv_reach hc h).cstart, (inv_reach hc h).cstop, (inv_reach hc h).cmax⟩

/-- **No batch is lost (interleaved = in-process, outputs).**  Whenever the stage's result queue is empty
and reads `enqueue_done` - the only situation in which its consumer stops - every batch of the stage input
has already been consumed, exactly once; in particular a consumer that has stopped has seen exactly the
in-process multiset of batches.  `enqueue_done` may well hold only transiently (a worker that registers
later makes it false again, finding F22): such a worker finds the input exhausted, the statement is about
what the consumer has received when it stops. -/
theorem C16_stage_no_lost_batch (hc : c.ackAwait = false) (h : Reach c (St.init all n) s) :
    (s.enqueueDone = true → s.resultQ = [] → s.consumed.Perm all) ∧
    (s.consumerDone = true → s.consumed.Perm all) := by
  refine ⟨?_, (inv_reach hc h).cdone⟩
  intro hd hq
  by_cases hcd : s.consumerDone = true
  · exact (inv_reach hc h).cdone hcd
  · -- the consumer can stop now: the successor state is reachable and has `consumerDone`
    have hstep : step c s .consumerEnd = some { s with consumerDone := true } := by
      simp [step, hd, hq, hcd]
    have := (inv_reach hc (.step .consumerEnd h hstep)).cdone rfl
    simpa using this

/-- non-vacuity / test: three batches, two workers, both pull, the second registers while the first is
already forwarding; the consumer ends having seen all three -/
example : ∃ s, Reach {} (St.init [10, 11, 12] 2) s ∧
    (s.consumerDone && s.consumed == [10, 12, 11] && s.start == 2 && s.stop == 2) = true :=
  reach_witness
    [.produce, .produce, .schedule 0, .schedule 1, .created 0, .pull 0, .produce, .closeInput, .created 1,
     .pull 1, .pull 0, .pullEnd 1, .pullEnd 0, .forward 0, .forward 0, .forward 1, .finish 0, .consume,
     .finish 1, .consume, .consume, .consumerEnd] _ (by decide)

/-- non-vacuity / test of the transient `enqueue_done` (F22 shape): worker 0 drains everything and
finishes (`1 == 1 == 1`), the consumer stops, worker 1 registers afterwards and finds nothing -/
example : ∃ s, Reach {} (St.init [10] 2) s ∧
    (s.consumerDone && s.consumed == [10] && s.start == 2 && s.stop == 1 && !s.enqueueDone) = true :=
  reach_witness
    [.produce, .closeInput, .schedule 0, .schedule 1, .created 0, .pull 0, .pullEnd 0, .forward 0, .finish 0,
     .consume, .consumerEnd, .created 1] _ (by decide)

/-! ## The configuration of the code, read off the source (package C16S)

`Generated/StageTurn.lean` is written on every check run by `translate/stage_turn.py` (Python `ast`) from
`CourierClient.async_iter` and `AsyncIteratorQueue.async_enqueue_from_iterator`. -/

/-- **No suspension point between the kick-off RPC and `_start_enqueue()`** (generated obligation): in
`async_iter` the kick-off statement `self.call(.., return_immediately=True)` and everything after it contain no
`await` / `async for` / `async with`; in `async_enqueue_from_iterator` the statement that awaits `iterator`
contains that one suspension point only, `self._start_enqueue()` follows it at the top level of the body and no
suspension point lies between them.  Before the kick-off there is one (phase `creating` of the model).  This
is the hypothesis `ackAwait = false` of the theorems above, resp. the turn atomicity of `stepT`; the seeded
change C16-m1 (`await` the acknowledgement) makes `awaitsAfterKickoff = 1` and breaks this theorem. -/
theorem C16_stage_turn_no_suspension_point :
    Generated.StageTurn.kickoffFound = true ∧ Generated.StageTurn.isCoroutine = true ∧
    Generated.StageTurn.registerAfterIterator = true ∧
    Generated.StageTurn.awaitsAfterKickoff = 0 ∧ Generated.StageTurn.awaitsInIteratorStmt = 1 ∧
    Generated.StageTurn.awaitsBeforeRegister = 0 ∧ 1 ≤ Generated.StageTurn.awaitsBeforeKickoff := by
  decide

/-- **The fused step is a turn of the thread-granular LTS.**  Whenever the `ackAwait = false` LTS takes its
`created w` step (kick-off and registration in one step) from a state in which no coroutine is mid-turn, the
thread-granular LTS `stepT` takes `created w` (kick-off) and then `ack w` (registration) and reaches the same
state: every execution of the LTS the theorems above are about is an execution of `stepT`. -/
theorem C16_stage_fused_is_turn {w : Nat} {s s' : St} (hm : s.midTurn = false)
    (h : step { ackAwait := false } s (.created w) = some s') :
    ∃ m, stepT s (.created w) = some m ∧ stepT m (.ack w) = some s' := by
  simp only [step] at h
  cases hx : s.ws[w]? with
  | none => simp [hx] at h
  | some x =>
    simp only [hx] at h
    by_cases hp : x.phase = .creating
    · simp only [hp, if_true] at h
      simp at h
      subst h
      have hlt : w < s.ws.length := by
        rcases Nat.lt_or_ge w s.ws.length with h1 | h1
        · exact h1
        · simp [List.getElem?_eq_none h1] at hx
      refine ⟨{ s with ws := s.ws.set w { x with phase := .kicked, pulling := true } }, ?_, ?_⟩
      · simp [stepT, hm, step, hx, hp]
      · simp [stepT, Label.isLoop, step, hlt, St.register]
    · simp [hp] at h

/-! ### Thread granularity (`stepT`): what is proved and what is not

NOT PROVED (full statement, kept visible):

    theorem C16_stage_turn_no_lost_batch (h : ReachT (St.init all n) s) :
        (s.enqueueDone = true → s.resultQ = [] → s.consumed.Perm all) ∧ (s.consumerDone = true → s.consumed.Perm all)

i.e. no lost batch for the thread-granular LTS (its conservation half IS proved: `C16_stage_turn_conservation`) in which a worker may already pull between its
kick-off and its registration.  The invariant needed on top of `Lemmas/StageInv.lean` is "a `kicked` worker with
a non-empty hand implies `stop = 0`" (`finish` is an event-loop step, so it cannot happen mid-turn; once
`stop ≠ 0` some worker has seen the end of the input and a kicked worker can pull nothing).  Evidence short of
a proof: the driver's exhaustive `explore` (mode "turn") of all schedules for ≤ 3 workers / ≤ 3 batches ends in
complete terminals only, and every projected real run is accepted by `stepT`.  The theorems above
(`ackAwait = false`) cover the executions in which no real thread runs mid-turn (`C16_stage_fused_is_turn`). -/

/-- **Conservation at thread granularity.**  In every state the thread-granular LTS `stepT` can reach - a worker
may already have pulled between its kick-off and its registration - every batch the previous stage produces is in
exactly one place (not produced, stage input, a worker's hands, result queue, consumed): nothing is duplicated
and nothing disappears.  (What is still missing for `stepT` is the other half of `C16_stage_no_lost_batch`: that a
consumer which STOPS has seen everything.) -/
theorem C16_stage_turn_conservation (h : ReachT (St.init all n) s) :
    (s.toProduce ++ s.inp ++ hands s.ws ++ s.resultQ ++ s.consumed).Perm all :=
  cons_reachT h

/-- conservation holds in EVERY configuration of the LTS, also with a suspension point between kick-off and
registration (`ackAwait = true`): what that configuration breaks is not conservation but the consumer's stopping
rule (`Witness/C16Stage.lean`: the consumer stops while a batch is still in a worker's hands) -/
theorem C16_stage_conservation_any_cfg (h : Reach c (St.init all n) s) :
    (s.toProduce ++ s.inp ++ hands s.ws ++ s.resultQ ++ s.consumed).Perm all :=
  cons_reach_any h

/-- test (non-vacuity of the thread-granular LTS): the worker pulls BETWEEN kick-off and registration, the
consumer still receives everything -/
example : (runT (St.init [10, 11] 2) [.produce, .produce, .closeInput, .schedule 0, .schedule 1, .created 1, .pull 1,
      .ack 1, .created 0, .pull 0, .pullEnd 0, .pullEnd 1, .ack 0, .forward 0, .forward 1, .finish 0, .finish 1,
      .consume, .consume, .consumerEnd]).map (fun s => s.consumerDone && s.consumed == [11, 10]) = some true := by
  decide

/-- test: the schedule by which the `ackAwait = true` LTS loses a batch (`Witness/C16Stage.lean`) is NOT an
execution of the thread-granular LTS - it needs event-loop steps of worker 0 while worker 1 is mid-turn -/
theorem C16_stage_turn_rejects_loss_witness :
    runT (St.init [10, 11] 2)
      [.produce, .produce, .closeInput, .schedule 0, .schedule 1, .created 1, .created 0, .ack 0, .pull 0, .pull 1,
       .pullEnd 0, .forward 0, .finish 0, .consume, .consumerEnd] = none := by
  decide

end MlModel.C16
