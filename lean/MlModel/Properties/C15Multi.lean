import MlModel.Lemmas.PrefetchStopInv
import MlModel.Lemmas.PrefetchDead
import MlModel.Lemmas.PrefetchReplay
import MlModel.Lemmas.PrefetchMultiDead
import MlModel.Lemmas.PrefetchTerm
import MlModel.Properties.C15
/-!
# C15 — any number of concurrent requests: what `init_generator` installs, also when it FAILS

All theorems are about `init p progs` for an ARBITRARY list `progs` of request threads (`Requests progs`:
client loops, healthy `init_generator` requests, `init_generator` requests whose lazy object raises at
construction or builds a non-iterable (`Prog.initFail`), `next_batch_from_generator`, `stop_prefetch` and
`shutdown` requests, in any number) and EVERY schedule (`Reachable`).

The property text: "Initialising a new generator or shutting down stops the previous one, never mixes elements
of two generators, and never leaves a request blocked."  A request is left blocked for ever when it reads a
queue nobody feeds and nobody has stopped; `C15_installed_has_producer` / `C15_no_orphan_queue` exclude that:
what `self._generator` points to always has its prefetch thread (the seeded change C15-m1 — the queue installed
before the lazy object is constructed — violates exactly this: the model-level invariant fails on it and the
check's scheduler finds the blocked request).
-/
namespace MlModel.C15
open MlModel.Prefetch

variable {p : Nat} {progs : List Prog} {c : Cfg}

/-- **Every installed queue has its prefetch thread** (every schedule, any concurrent requests, failing
`init_generator` calls included): whenever `self._generator` is the k-th queue, either `self._enqueue_thread` is
the prefetch thread created for that queue, or the request that installed it is at the very next program point
(`thread_start`), still holds the generator lock and is a healthy `init_generator`. -/
theorem C15_installed_has_producer (hreq : Requests progs) (h : Reachable (init p progs) c) {k : Nat}
    (hg : c.sh.generator = some k) :
    (∃ (tp : Queue.Tid) (t : Thread), c.sh.enqThread = some tp ∧ c.ths[tp]? = some t ∧ t.prog = .producer k) ∨
    (∃ (tid : Queue.Tid) (t : Thread), c.ths[tid]? = some t ∧ t.pc = .iiSpawn ∧ t.g = k ∧
      c.sh.genOwner = some tid ∧ ∀ e a, t.prog ≠ .initFail e a) := by
  have hI := iinv_reachable hreq h
  rcases hI.gen k hg with h1 | ⟨tid, t, ht, hpc, hgk⟩
  · exact Or.inl h1
  · exact Or.inr ⟨tid, t, ht, hpc, hgk, hI.lock tid t ht (by rw [hpc]; rfl), not_fail_of_gen (hI.spawnG tid t ht hpc).2⟩

/-- **No orphan queue**: whenever the generator lock is free — in particular after ANY `init_generator` call has
returned or raised — the queue `self._generator` points to has its prefetch thread, recorded in
`self._enqueue_thread`.  (A `next_batch` request can therefore never wait on a queue that nobody feeds: the
prefetch thread is alive, or it has finished and marked the end of enqueueing.) -/
theorem C15_no_orphan_queue (hreq : Requests progs) (h : Reachable (init p progs) c)
    (hfree : c.sh.genOwner = none) {k : Nat} (hg : c.sh.generator = some k) :
    ∃ (tp : Queue.Tid) (t : Thread), c.sh.enqThread = some tp ∧ c.ths[tp]? = some t ∧ t.prog = .producer k := by
  rcases C15_installed_has_producer hreq h hg with h1 | ⟨tid, t, -, -, -, hown, -⟩
  · exact h1
  · rw [hfree] at hown; cases hown

/-- **A failing `init_generator` installs nothing** (every step of such a request, in every reachable
configuration): `self._generator` and `self._enqueue_thread` keep their values, no queue and no thread is
created.  The server goes on answering from what was there before: no generator at all, or the previous one —
which this call has stopped (`C15_reinit_stop_joins`, `C15_reinit_stop_wakes` hold for it as for every locked stop). -/
theorem C15_failed_init_installs_nothing (hreq : Requests progs) (h : Reachable (init p progs) c)
    {tid : Queue.Tid} {t : Thread} {e : ErrKind} {a : Bool} (ht : c.ths[tid]? = some t)
    (hprog : t.prog = .initFail e a) {lbl : String} {c' : Cfg} (hs : step c tid = some (lbl, c')) :
    c'.sh.generator = c.sh.generator ∧ c'.sh.enqThread = c.sh.enqThread ∧
    c'.sh.qs.length = c.sh.qs.length ∧ c'.ths.length = c.ths.length := by
  have hI := iinv_reachable hreq h
  obtain ⟨t', hk, -⟩ := step_eff ht hs
  cases hk with
  | plain hths hgen henq hlen _ _ _ => exact ⟨hgen, henq, hlen, by rw [hths]; simp⟩
  | install _ _ _ _ _ _ _ _ hp => exact absurd hprog (not_fail_of_gen hp e a)
  | spawn _ _ _ _ _ h1 => exact absurd hprog (not_fail_of_gen (hI.spawnG tid t ht h1).2 e a)

/-- **The generator lock is a lock**: a request inside the locked stop / the installation (`_stop_prefetch_locked`,
`maybe_make`, `thread_start`, the release) is the owner of `_generator_lock`, and the owner is such a request. -/
theorem C15_generator_lock (hreq : Requests progs) (h : Reachable (init p progs) c) :
    (∀ (tid : Queue.Tid) (t : Thread), c.ths[tid]? = some t → holdsGen t.pc = true → c.sh.genOwner = some tid) ∧
    (∀ (tid : Queue.Tid), c.sh.genOwner = some tid → ∃ t, c.ths[tid]? = some t ∧ holdsGen t.pc = true) :=
  ⟨(iinv_reachable hreq h).lock, (iinv_reachable hreq h).owner⟩

/-- **Without a generator a request is answered at once**: a `next_batch_from_generator` request that starts
while `self._generator` is `None` (fresh server, or only failed `init_generator` calls so far —
`C15_failed_init_installs_nothing`) ends with its very first step, without any synchronisation operation, with
the reply `[TimeoutError('Generator is not set …')]`. -/
theorem C15_next_without_generator {tid : Queue.Tid} {t : Thread} {n : Nat} (ht : c.ths[tid]? = some t)
    (hprog : t.prog = .nextBatch n) (hpc : t.pc = .start) (hup : c.sh.serverUp = true)
    (hg : c.sh.generator = none) :
    ∃ c', step c tid = some ("start", c') ∧ ∃ t', c'.ths[tid]? = some t' ∧ t'.pc = .done ∧
      t'.replies = t.replies ++ [{ g := none, elems := [], marker := some (.err .timeout) }] ∧
      c'.sh = c.sh := by
  have hlt : tid < c.ths.length := by
    rcases List.getElem?_eq_some_iff.mp ht with ⟨h, _⟩; exact h
  have hstep : step c tid = some ("start", setTh c tid c.sh
      { t with pc := .done, replies := t.replies ++ [{ g := none, elems := [], marker := some (.err .timeout) }] }) := by
    unfold step
    simp [ht, hpc, hprog, callNext, hup, beginNext, hg]
  refine ⟨_, hstep, { t with pc := .done, replies := t.replies ++
      [{ g := none, elems := [], marker := some (.err .timeout) }] }, ?_, rfl, rfl, rfl⟩
  simp [setTh, List.getElem?_set_self hlt]

/-! ### An exhausted generator and its prefetch thread (the stop that is skipped) -/

/-- **An exhausted generator's prefetch thread is past its last `put`, or its stop is in progress** (every
schedule, any concurrent requests): if the k-th queue is `exhausted`, then the prefetch thread of that queue
has finished or is inside `_stop_enqueue` (the code after its last `put`), or a request is inside the locked stop
of that queue (`maybe_stop` … `join`) holding the generator lock — in which case the next holder of the lock finds
the prefetch thread ended (`C15_reinit_stop_joins`). -/
theorem C15_exhausted_producer_past (hreq : Requests progs) (h : Reachable (init p progs) c)
    {k : Nat} {q : Queue.Shared} (hq : c.sh.qs[k]? = some q) (hex : q.exhausted = true) :
    (∃ (tp : Queue.Tid) (P : Thread), c.ths[tp]? = some P ∧ P.prog = .producer k ∧
      (P.pc = .done ∨ (P.pc = .prod ∧ inStopEnqueue P.qt.pc = true))) ∨
    (∃ (a : Queue.Tid) (A : Thread), c.ths[a]? = some A ∧ (A.pc = .lkStop ∨ A.pc = .lkJoin) ∧ A.g = k ∧
      c.sh.genOwner = some a) := by
  have hS := sinv_reachable hreq h
  have hI := iinv_reachable hreq h
  rcases hS.exh k q hq hex with hsr | ⟨tp, P, hP, hp, hpast⟩
  · rcases hS.stopReq k q hq hsr with ⟨tp, P, hP, hp, hd⟩ | ⟨a, A, hA, hpc, hg⟩
    · exact Or.inl ⟨tp, P, hP, hp, Or.inl hd⟩
    · exact Or.inr ⟨a, A, hA, hpc, hg, hI.lock a A hA (by rcases hpc with h1 | h1 <;> rw [h1] <;> rfl)⟩
  · exact Or.inl ⟨tp, P, hP, hp, pastPut_spelled hS hP hp hpast⟩

/-- **A stop that is skipped because the generator is already exhausted** (`_stop_prefetch_locked`: `if
self._generator is not None and not self._generator.exhausted`): whenever a request can take the generator lock
(`_generator_lock` is free) and finds `self._generator` exhausted — so that it stops nothing and joins nobody —,
the thread recorded in `self._enqueue_thread` IS the prefetch thread of that generator and it is past its last
`put`: finished, or inside `_stop_enqueue`.  (Item 2 of the former `level_note`: was checked by exploration
only — driver predicate `oldStopped`.) -/
theorem C15_skipped_stop_producer_past (hreq : Requests progs) (h : Reachable (init p progs) c)
    (hfree : c.sh.genOwner = none) {k : Nat} (hg : c.sh.generator = some k) (hx : c.sh.exhaustedOf k = true) :
    ∃ (tp : Queue.Tid) (P : Thread), c.sh.enqThread = some tp ∧ c.ths[tp]? = some P ∧ P.prog = .producer k ∧
      (P.pc = .done ∨ (P.pc = .prod ∧ inStopEnqueue P.qt.pc = true)) := by
  have hI := iinv_reachable hreq h
  have hU := uinv_reachable hreq h
  obtain ⟨tp, P, he, hP, hp⟩ := C15_no_orphan_queue hreq h hfree hg
  obtain ⟨q, hq⟩ : ∃ q, c.sh.qs[k]? = some q :=
    ⟨c.sh.qs[k]'(hI.genLt k hg), List.getElem?_eq_getElem (hI.genLt k hg)⟩
  have hex : q.exhausted = true := by simpa [Shared.exhaustedOf, hq] using hx
  rcases C15_exhausted_producer_past hreq h hq hex with ⟨tp2, P2, hP2, hp2, hpast⟩ | ⟨a, A, -, -, -, hown⟩
  · obtain rfl := hU.uniq tp tp2 P P2 k hP hP2 hp hp2
    rw [hP] at hP2; obtain rfl := Option.some.inj hP2
    exact ⟨tp, P, he, hP, hp, hpast⟩
  · rw [hfree] at hown; cases hown

/-- **One prefetch thread per queue**; a locked stop (`maybe_stop`, the join) works on the queue that is
`self._generator` at that moment. -/
theorem C15_one_prefetch_thread_per_queue (hreq : Requests progs) (h : Reachable (init p progs) c) :
    (∀ (i j : Queue.Tid) (ti tj : Thread) (k : Nat), c.ths[i]? = some ti → c.ths[j]? = some tj →
      ti.prog = .producer k → tj.prog = .producer k → i = j) ∧
    (∀ (tid : Queue.Tid) (t : Thread), c.ths[tid]? = some t → t.pc = .lkStop ∨ t.pc = .lkJoin →
      c.sh.generator = some t.g) :=
  ⟨(uinv_reachable hreq h).uniq, (uinv_reachable hreq h).stopG⟩

/-! ### Nothing stays blocked, for any number of concurrent requests

`C15_multi_dead_shape_partial` (round 6) is the SERVER-LEVEL half: in a reachable configuration without enabled step a
thread that has not ended is the idle server thread, is blocked INSIDE an `IteratorQueue` operation, is in the join of
a locked stop, or waits for the generator / states lock held by such a thread.

Round 8 closes the QUEUE-LEVEL half (`Lemmas/QueueCount.lean`, `QueueCountView.lean`, `PrefetchViews.lean`,
`PrefetchMultiDead.lean`): the no-lost-wake-up invariant `Queue.Live` (J1 J2 K1 K2 + `Base`) of EVERY generator queue,
through a view with one slot per server thread — requests ENTER a queue and LEAVE it (a `next_batch` request leaves at
the end of its `get_batch` while others may be parked: this needs the counting strengthening `J1C` of J1, elements in
the queue ≤ notified consumers + producers owing a `notify` + consumers about to execute `get_nowait`), stoppers enter
and leave, the prefetch thread replaces its inert slot with its `_start_enqueue` step (also when a `maybe_stop` got
there first: finding F24's window), threads and queues are created on the fly — and the final-state analysis with
stoppers (`Queue.dead_view`).  Result: `C15_multi_no_request_blocked` and its corollaries below — the property's clause
"never leaves a request blocked" for ANY number of concurrent requests and EVERY schedule. -/

/-- **The server-level protocol never blocks** (every schedule, any concurrent requests — healthy and failing
`init_generator`, `next_batch`, `stop_prefetch`, `shutdown`, client loops): in a reachable configuration in which
no thread is enabled, a thread that has not ended is the idle server thread (and then no shutdown was requested),
is blocked inside an `IteratorQueue` operation, waits in a join for a prefetch thread that has not ended, or waits
for the generator / states lock held by such a thread (`Prefetch.Blocked`). -/
theorem C15_multi_dead_shape_partial (hreq : Requests progs) (h : Reachable (init p progs) c)
    (hdead : enabled c = []) {tid : Queue.Tid} {t : Thread} (ht : c.ths[tid]? = some t) :
    t.pc = .done ∨ Blocked c tid t :=
  dead_shape (ginv_reachable hreq h) (iinv_reachable hreq h) (uinv_reachable hreq h) (lkinv_reachable h)
    (stinv_reachable h) (enabled_nil hdead) tid t ht

/-- **Nothing stays blocked** (every schedule, any number of concurrent requests — client loops, healthy and failing
`init_generator`, `next_batch`, `stop_prefetch`, `shutdown`): in a reachable configuration in which no thread is
enabled every thread has ended, except
* the server's own thread when nobody has requested a shutdown (parked in `run_until_shutdown`, not notified), and
* the prefetch thread of the CURRENT generator (`self._generator`: the newest one), parked (not notified) in `put` on
  its bounded queue whose enqueueing has NOT ended: that generator has not been stopped, has not failed and is not
  exhausted — a live generator nobody reads at the moment.
In particular no thread is inside `get_batch`, inside `maybe_stop`, in a join, or waiting for a lock. -/
theorem C15_multi_no_request_blocked (hreq : Requests progs) (h : Reachable (init p progs) c)
    (hdead : enabled c = []) {tid : Queue.Tid} {t : Thread} (ht : c.ths[tid]? = some t) :
    t.pc = .done ∨ Stuck c tid t :=
  multi_dead (ginv_reachable hreq h) (iinv_reachable hreq h) (uinv_reachable hreq h) (sinv_reachable hreq h)
    (lkinv_reachable h) (stinv_reachable h) (vinv_reachable hreq h) (oinv_reachable hreq h) (enabled_nil hdead) tid t ht

/-- **Every request has ended**: the `i`-th request thread (`progs[i]`, thread `i + 1`) of a configuration without
enabled step is at its final program point — whatever the other requests were and however they were interleaved.
(A request list may contain further server threads `Prog.main`; those are covered by
`C15_multi_no_request_blocked`.) -/
theorem C15_multi_requests_end (hreq : Requests progs) (h : Reachable (init p progs) c)
    (hdead : enabled c = []) {i : Nat} {pr : Prog} (hi : progs[i]? = some pr) (hm : pr ≠ .main) :
    ∃ t, c.ths[i + 1]? = some t ∧ t.prog = pr ∧ t.pc = .done := by
  have h0 : (init p progs).ths[i + 1]? = some { prog := pr } := by
    simp [init, hi]
  obtain ⟨t, ht, hp⟩ := prog_persist h h0
  have hp' : t.prog = pr := hp
  refine ⟨t, ht, hp', ?_⟩
  rcases C15_multi_no_request_blocked hreq h hdead ht with h1 | h1
  · exact h1
  · cases h1 with
    | idleMain h2 => rw [hp'] at h2; exact absurd h2 hm
    | parkedProducer h2 =>
      rw [hp'] at h2
      exact absurd h2 (hreq pr (List.mem_of_getElem? hi) _)

/-- **Progress**: as long as some request has not ended, some thread can take a step — in every reachable
configuration, for every request list (the contrapositive of `C15_multi_requests_end`). -/
theorem C15_multi_progress (hreq : Requests progs) (h : Reachable (init p progs) c)
    {i : Nat} {pr : Prog} (hi : progs[i]? = some pr) (hm : pr ≠ .main) {t : Thread}
    (ht : c.ths[i + 1]? = some t) (hnd : t.pc ≠ .done) : enabled c ≠ [] := by
  intro hdead
  obtain ⟨t', ht', -, hd⟩ := C15_multi_requests_end hreq h hdead hi hm
  rw [ht] at ht'; obtain rfl := Option.some.inj ht'
  exact hnd hd

/-- **Every stopped generator's prefetch thread has ended**: in a configuration without enabled step the prefetch
thread of a queue whose enqueueing has ended — a `maybe_stop` was executed on it (re-initialisation, `stop_prefetch`,
shutdown), its generator failed, or it was read to the end — is at its final program point.  Only the prefetch thread
of a generator that is still live can remain (parked on its full queue). -/
theorem C15_multi_stopped_producer_ended (hreq : Requests progs) (h : Reachable (init p progs) c)
    (hdead : enabled c = []) {tp : Queue.Tid} {P : Thread} {k : Nat} {q : Queue.Shared}
    (hP : c.ths[tp]? = some P) (hp : P.prog = .producer k) (hq : c.sh.qs[k]? = some q)
    (hend : q.stopRequested = true ∨ q.exhausted = true ∨ q.enqueueDone = true) : P.pc = .done := by
  rcases C15_multi_no_request_blocked hreq h hdead hP with h1 | h1
  · exact h1
  · exfalso
    cases h1 with
    | idleMain h2 => rw [hp] at h2; cases h2
    | parkedProducer h2 _ _ _ q0 hq0 hnd hsr hex =>
      rw [hp] at h2
      obtain rfl := Prog.producer.inj h2
      rw [hq] at hq0; obtain rfl := Option.some.inj hq0
      rcases hend with h3 | h3 | h3
      · rw [hsr] at h3; cases h3
      · rw [hex] at h3; cases h3
      · rw [hnd] at h3; cases h3

/-- **A replaced generator's prefetch thread has ended**: in a configuration without enabled step the prefetch thread
of every queue other than `self._generator` is at its final program point ("initialising a new generator … stops the
previous one"), for every number of re-initialisations racing with any other requests. -/
theorem C15_multi_replaced_producer_ended (hreq : Requests progs) (h : Reachable (init p progs) c)
    (hdead : enabled c = []) {tp : Queue.Tid} {P : Thread} {k : Nat}
    (hP : c.ths[tp]? = some P) (hp : P.prog = .producer k) (hk : c.sh.generator ≠ some k) : P.pc = .done := by
  rcases C15_multi_no_request_blocked hreq h hdead hP with h1 | h1
  · exact h1
  · exfalso
    cases h1 with
    | idleMain h2 => rw [hp] at h2; cases h2
    | parkedProducer h2 _ _ hgen =>
      rw [hp] at h2
      obtain rfl := Prog.producer.inj h2
      exact hk hgen

/-- **A generator that has been replaced is stopped or exhausted** (every reachable configuration): every queue other
than `self._generator` has had `maybe_stop` executed on it, or was read to its end. -/
theorem C15_multi_replaced_is_stopped (hreq : Requests progs) (h : Reachable (init p progs) c)
    {k : Nat} {q : Queue.Shared} (hq : c.sh.qs[k]? = some q) (hk : c.sh.generator ≠ some k) :
    q.stopRequested = true ∨ q.exhausted = true :=
  oinv_reachable hreq h k q hq hk

/-- **After a shutdown everything has ended** except live generators nobody stopped … which do not exist: the
shutdown's own locked stop stops the current generator.  Stated as: with a shutdown requested, the server thread is
not left parked (`C15_shutdown_not_missed`), so every thread that has not ended is a parked prefetch thread. -/
theorem C15_multi_dead_after_shutdown (hreq : Requests progs) (h : Reachable (init p progs) c)
    (hdead : enabled c = []) (hf : c.sh.shutdownRequested = true) {tid : Queue.Tid} {t : Thread}
    (ht : c.ths[tid]? = some t) : t.pc = .done ∨ ∃ k, t.prog = .producer k := by
  rcases C15_multi_no_request_blocked hreq h hdead ht with h1 | h1
  · exact Or.inl h1
  · cases h1 with
    | idleMain _ _ _ hf' => rw [hf] at hf'; cases hf'
    | parkedProducer h2 => exact Or.inr ⟨_, h2⟩

/-- **The no-lost-wake-up invariant of every generator queue** (every schedule, any concurrent requests): J1 J2 K1 K2
with `Base` and the counting form of J1 hold for the queue-level view of every queue the server has created. -/
theorem C15_multi_no_lost_wakeup (hreq : Requests progs) (h : Reachable (init p progs) c)
    {k : Nat} {q : Queue.Shared} (hq : c.sh.qs[k]? = some q) :
    Queue.Live (viewK c k q) ∧ Queue.J1C (viewK c k q) :=
  ⟨((vinv_reachable hreq h).live k q hq).1.live, ((vinv_reachable hreq h).live k q hq).1.cnt⟩

/-- **A shutdown request is never missed**: once `shutdown` has been requested, a server thread is never left
parked in `run_until_shutdown` when nothing else can run. -/
theorem C15_shutdown_not_missed (hreq : Requests progs) (h : Reachable (init p progs) c)
    (hdead : enabled c = []) (hf : c.sh.shutdownRequested = true) {tid : Queue.Tid} {t : Thread}
    (ht : c.ths[tid]? = some t) : t.pc ≠ .mnWake := by
  intro hpc
  rcases C15_multi_dead_shape_partial hreq h hdead ht with h1 | h1
  · rw [hpc] at h1; cases h1
  · cases h1 with
    | idleMain _ _ hf' => rw [hf] at hf'; cases hf'
    | inQueue h2 => rw [hpc] at h2; rcases h2 with h2 | h2 | h2 <;> cases h2
    | inJoin h2 => rw [hpc] at h2; cases h2
    | forGen h2 => rw [hpc] at h2; cases h2
    | forStates h2 => rw [hpc] at h2; cases h2

/-- **The server-level locks are locks** (every schedule, any concurrent requests): `_shutdown_lock` and
`_tx_stats_lock` are owned by exactly the thread inside the corresponding region, a parked server thread is on a
wait list of the shutdown condition, and a reply is on its way whenever a request is in `_return_pickled`. -/
theorem C15_server_locks (h : Reachable (init p progs) c) : LkInv c ∧ StInv c :=
  ⟨lkinv_reachable h, stinv_reachable h⟩

/-! ### Non-vacuity (tests of the definitions) -/

/-- a failing `init_generator` (the constructor raises) and a `next_batch` request: the failed call ends with the
constructor's exception, `self._generator` is still `None`, no queue exists, and the request has been answered
with the time-out marker — the history of the seeded change C15-m1, on which the unchanged code does NOT block -/
example : ∃ c, Reachable (init 2 [.initFail .value false, .nextBatch 2]) c ∧ enabled c = [0] ∧
    c.sh.generator = none ∧ c.sh.qs.length = 0 ∧ c.sh.genOwner = none ∧
    obs c 1 = some (true, [], some (.err .value)) ∧
    (c.ths[2]?.map fun t => (t.pc, t.replies)) =
      some (.done, [{ g := none, elems := [], marker := some (.err .timeout) }]) :=
  ⟨_, reachable_replay (init 2 [.initFail .value false, .nextBatch 2]) [1, 1, 1, 2] (by decide),
    by decide, by decide, by decide, by decide, by decide, by decide⟩

/-- the hypotheses of `C15_installed_has_producer` are met in both of its cases: right after the installation
(the installing request is at `thread_start`) and after it (the prefetch thread is recorded) -/
example : ∃ c, Reachable (init 1 [.initIter ⟨[.val 7], 900⟩]) c ∧ c.sh.generator = some 0 ∧
    c.sh.enqThread = none ∧ c.ths.map (·.pc) = [.start, .iiSpawn] :=
  ⟨_, reachable_replay (init 1 [.initIter ⟨[.val 7], 900⟩]) [1, 1] (by decide), by decide, by decide, by decide⟩

example : ∃ c, Reachable (init 1 [.initIter ⟨[.val 7], 900⟩]) c ∧ c.sh.generator = some 0 ∧
    c.sh.enqThread = some 2 ∧ c.ths.map (·.prog) = [.main, .initIter ⟨[.val 7], 900⟩, .producer 0] :=
  ⟨_, reachable_replay (init 1 [.initIter ⟨[.val 7], 900⟩]) [1, 1, 1] (by decide), by decide, by decide, by decide⟩

/-- a failing `init_generator` AFTER a healthy one: it stops the live generator (locked stop, join) and installs
nothing — `self._generator` still is queue 0, now exhausted with the stop's `TimeoutError`, its prefetch thread
has ended -/
example : ∃ c, Reachable (init 1 [.initIter ⟨[.val 7, .val 8, .val 9], 900⟩, .initFail .type false]) c ∧
    c.sh.generator = some 0 ∧ c.sh.qs.length = 1 ∧ c.sh.exhaustedOf 0 = true ∧
    (c.sh.qs[0]?.map (·.exc)) = some (some .timeout) ∧
    obs c 2 = some (true, [], some (.err .type)) ∧ (c.ths[3]?.map (·.pc)) = some .done :=
  ⟨_, reachable_replay (init 1 [.initIter ⟨[.val 7, .val 8, .val 9], 900⟩, .initFail .type false])
      (List.replicate 7 1 ++ List.replicate 18 3 ++ List.replicate 7 2 ++ [3, 3] ++ List.replicate 5 2)
      (by decide),
    by decide, by decide, by decide, by decide, by decide, by decide⟩

/-- the hypotheses of `C15_skipped_stop_producer_past` are met: after a client has read its generator to the end
the generator lock is free, `self._generator` is exhausted and the recorded prefetch thread (thread 2) has ended —
the next `init_generator` / `stop_prefetch` / shutdown skips the stop -/
example : ∃ c, Reachable (init 1 [.client ⟨[.val 7], 900⟩ 1]) c ∧ c.sh.genOwner = none ∧
    c.sh.generator = some 0 ∧ c.sh.exhaustedOf 0 = true ∧ c.sh.enqThread = some 2 ∧
    c.ths.map (·.pc) = [.mnWake, .done, .done] :=
  ⟨_, reachable_replay (init 1 [.client ⟨[.val 7], 900⟩ 1]) schedOk (by decide),
    by decide, by decide, by decide, by decide, by decide⟩

/-- the hypotheses of `C15_multi_dead_shape_partial` are met, with two of its shapes: an `init_generator` of a
generator longer than the prefetch buffer and nobody reading — no thread is enabled, the server thread is idle and
the prefetch thread is parked inside `put` on the full queue (legitimately: it is the newest generator) -/
example : ∃ c, Reachable (init 1 [.initIter ⟨[.val 7, .val 8, .val 9], 900⟩]) c ∧ enabled c = [] ∧
    c.ths.map (·.pc) = [.mnWake, .done, .prod] ∧ c.ths.map (·.qt.pc) = [.done, .done, .pWake] :=
  ⟨_, reachable_replay (init 1 [.initIter ⟨[.val 7, .val 8, .val 9], 900⟩])
      (List.replicate 7 1 ++ List.replicate 18 2 ++ [0, 0, 0]) (by decide), by decide, by decide, by decide⟩

/-- the hypotheses of `C15_multi_no_request_blocked` are met, with both remaining shapes: a failing `init_generator`,
two `next_batch` requests and a healthy `init_generator` of a generator longer than the prefetch buffer — no thread is
enabled, all four requests have ended, the server thread is idle and the prefetch thread of the (live, unread)
generator is parked inside `put` -/
example : ∃ c, Reachable (init 1 [.initIter ⟨[.val 7, .val 8, .val 9], 900⟩, .nextBatch 1, .nextBatch 1,
      .initFail .value false]) c ∧ enabled c = [] ∧
    c.ths.map (·.pc) = [.mnWake, .done, .done, .done, .done, .prod] ∧
    (c.ths[5]?.map (·.qt.pc)) = some .pWake ∧ (c.sh.qs.map (·.enqueueDone)) = [false] :=
  ⟨_, reachable_replay (init 1 [.initIter ⟨[.val 7, .val 8, .val 9], 900⟩, .nextBatch 1, .nextBatch 1,
      .initFail .value false])
      [4, 4, 4, 3, 2, 1, 1, 1, 5, 5, 5, 5, 5, 5, 5, 5, 5, 5, 5, 5, 5, 5, 5, 5, 5, 5, 1, 1, 1, 1, 0, 0, 0] (by decide),
    by decide, by decide, by decide, by decide⟩

/-- … and with everything ended: two client loops racing (the second replaces the first one's generator) and a
shutdown request — no thread is enabled, every thread including both prefetch threads and the server thread has ended -/
example : ∃ c, Reachable (init 1 [.client ⟨[.val 7, .val 8], 900⟩ 1, .client ⟨[.val 5], 901⟩ 2, .shutdown]) c ∧
    enabled c = [] ∧ c.ths.map (·.pc) = [.done, .done, .done, .done, .done, .done] ∧
    (c.sh.qs.map (·.stopRequested)) = [true, true] :=
  ⟨_, reachable_replay (init 1 [.client ⟨[.val 7, .val 8], 900⟩ 1, .client ⟨[.val 5], 901⟩ 2, .shutdown])
      [0, 0, 0, 1, 1, 1, 1, 1, 1, 1, 0, 0, 0, 0, 1, 1, 1, 1, 1, 1, 2, 2, 2, 2, 2, 2, 2, 2, 2, 2, 1, 1, 1, 1, 1, 1, 1,
       3, 3, 3, 3, 0, 0, 0, 0, 0, 4, 4, 4, 2, 2, 2, 0, 0, 0, 0, 0, 0, 0, 0, 0, 2, 2, 2, 2, 2, 2, 2, 2, 2, 2, 5, 5, 5,
       0, 0, 0] (by decide),
    by decide, by decide, by decide⟩

/-! ### Termination for any number of concurrent requests (round 11)

`C15_multi_no_request_blocked` says what a configuration WITHOUT enabled step looks like; the theorems below say
that EVERY schedule reaches such a configuration after finitely many steps — for every request list (client loops
with their finite generators, healthy and failing `init_generator`, `next_batch`, `stop_prefetch`, `shutdown`
requests and further server threads, in any number), every prefetch size, every batch size, and without any
fairness assumption.  Together: "every request eventually ends under every schedule" is a theorem
(`C15_multi_every_request_ends`).

The measure (`Lemmas/PrefetchTermDefs.lean`, `PrefetchTerm.lean`) is the pair, in lexicographic order `MLt`, of
* `mHi` — the ONE-TIME server-level events all threads still have before them (bounded by program point), and
* `mLo` — 3 · Σ over ALL generator queues of the queue-level measure of the queue's view (`Queue.PsiN`: the measure of
  `C04_variant` with a fixed weight bound and silent inert slots; `Lemmas/QueueVariantN.lean`) + the replies' way
  back + the share a client loop carries from one `next_batch` call to the next + the server threads' way to their
  next wait with 4 per pending notification.

The obstacle named in round 8 — a request entering a view adds its consumer's share — is met by the lexicographic
order (entering a view is a one-time event of `mHi` for everything except a client loop's repeated calls) and, for
a client loop, by the share it CARRIES: what its consumer releases when it leaves the view of the queue it read
(`get_batch` returned without end marker, so the consumer is at `bAcq`, not `done`: `Queue.XOK`) is exactly what
its next call adds to the view of whatever `self._generator` is then — the same queue or a NEW one installed by a
racing `init_generator` (the C15-F27 situation).  No bound in terms of generator lengths is needed: each queue's
own measure already pays for every element of its generator.
-/

/-- **Variant for ANY list of concurrent requests** (every prefetch size, every batch size, every generator, every
schedule): `multiMeasure N c` with `N = termBound (init p progs)` strictly decreases, in the lexicographic order
`MLt`, on EVERY step of EVERY thread — the server thread(s), every request thread, every prefetch thread — in every
reachable configuration. -/
theorem C15_multi_variant (hreq : Requests progs) (h : Reachable (init p progs) c) {tid : Queue.Tid} {lbl : String}
    {c' : Cfg} (hs : step c tid = some (lbl, c')) :
    MLt (multiMeasure (termBound (init p progs)) c') (multiMeasure (termBound (init p progs)) c) :=
  mvar_reachable hreq h hs

/-- the one-time part of the measure never increases, and the weight bound stays a bound on the number of threads:
`threads + one-time events ≤ termBound (init p progs)` in every reachable configuration (a thread start is paid by
the one-time events of the request that starts it) -/
theorem C15_multi_thread_bound (hreq : Requests progs) (h : Reachable (init p progs) c) :
    c.ths.length + mHi c ≤ termBound (init p progs) :=
  bound_reachable hreq h

/-- **No infinite execution for ANY list of concurrent requests**: there is no infinite sequence of steps from a
reachable configuration — whatever the scheduler does, without any fairness assumption. -/
theorem C15_multi_terminates (hreq : Requests progs) {f : Nat → Cfg} (h0 : Reachable (init p progs) (f 0)) :
    ¬ IsRun f :=
  fun hrun => multi_no_infinite_run hreq h0 hrun

/-- **Every schedule ends** (any concurrent requests): let `f` be ANY sequence of configurations starting at the
initial one that follows the LTS as long as some thread is enabled.  Then there is a moment `n` at which NO thread
is enabled any more — the execution is finite —, and `f n` is reachable. -/
theorem C15_multi_run_ends (hreq : Requests progs) {f : Nat → Cfg} (h0 : f 0 = init p progs)
    (hmax : ∀ n, enabled (f n) ≠ [] → ∃ tid lbl, step (f n) tid = some (lbl, f (n + 1))) :
    ∃ n, Reachable (init p progs) (f n) ∧ enabled (f n) = [] := by
  by_cases hex : ∃ n, (∀ k < n, ∃ tid lbl, step (f k) tid = some (lbl, f (k + 1))) ∧ enabled (f n) = []
  · obtain ⟨n, hpre, hdead⟩ := hex
    have hreach : ∀ k ≤ n, Reachable (init p progs) (f k) := by
      intro k
      induction k with
      | zero => intro _; rw [h0]; exact .init
      | succ k ih =>
        intro hk
        obtain ⟨tid, lbl, hs⟩ := hpre k (by omega)
        exact .step (ih (by omega)) hs
    exact ⟨n, hreach n (Nat.le_refl n), hdead⟩
  · exfalso
    have hall : ∀ n, (∀ k < n, ∃ tid lbl, step (f k) tid = some (lbl, f (k + 1))) ∧ enabled (f n) ≠ [] := by
      intro n
      induction n with
      | zero =>
        refine ⟨fun k hk => absurd hk (Nat.not_lt_zero k), fun hd => hex ⟨0, fun k hk => absurd hk (Nat.not_lt_zero k), hd⟩⟩
      | succ n ih =>
        have hstep : ∀ k < n + 1, ∃ tid lbl, step (f k) tid = some (lbl, f (k + 1)) := by
          intro k hk
          rcases Nat.lt_succ_iff_lt_or_eq.mp hk with h | h
          · exact ih.1 k h
          · subst h; exact hmax k ih.2
        exact ⟨hstep, fun hd => hex ⟨n + 1, hstep, hd⟩⟩
    have hrun : IsRun f := fun n => hmax n (hall n).2
    exact C15_multi_terminates hreq (f := f) (by rw [h0]; exact .init) hrun

/-- **Every request eventually ends, under every schedule** (liveness for any number of concurrent requests — the
property's "never leaves a request blocked" at full strength): under EVERY scheduler the execution is finite, and at
its end every request thread — each client loop, each healthy or failing `init_generator`, each `next_batch`,
`stop_prefetch` and `shutdown` request — is at its final program point; the only threads that have not ended are
the server thread parked in `run_until_shutdown` when nobody requested a shutdown, and the prefetch thread of the
current generator parked on its full queue when that generator is live and nobody reads it
(`C15_multi_no_request_blocked`). -/
theorem C15_multi_every_request_ends (hreq : Requests progs) {f : Nat → Cfg} (h0 : f 0 = init p progs)
    (hmax : ∀ n, enabled (f n) ≠ [] → ∃ tid lbl, step (f n) tid = some (lbl, f (n + 1))) :
    ∃ n, enabled (f n) = [] ∧
      (∀ (i : Nat) (pr : Prog), progs[i]? = some pr → pr ≠ .main →
        ∃ t, (f n).ths[i + 1]? = some t ∧ t.prog = pr ∧ t.pc = .done) ∧
      (∀ (tid : Queue.Tid) (t : Thread), (f n).ths[tid]? = some t → t.pc = .done ∨ Stuck (f n) tid t) := by
  obtain ⟨n, hr, hdead⟩ := C15_multi_run_ends hreq h0 hmax
  exact ⟨n, hdead, fun i pr hi hm => C15_multi_requests_end hreq hr hdead hi hm,
    fun tid t ht => C15_multi_no_request_blocked hreq hr hdead ht⟩

/-- **A client loop among ANY concurrent requests ends** with an end marker, an exception, or the answer of a server
without generator / that has been stopped: under every scheduler the execution is finite and at its end the loop has
recorded how it ended (`outcome`).  (WHAT it has yielded by then is not determined when other requests replace its
generator: open finding C15-F27.) -/
theorem C15_multi_client_loop_ends (hreq : Requests progs) {f : Nat → Cfg} (h0 : f 0 = init p progs)
    (hmax : ∀ n, enabled (f n) ≠ [] → ∃ tid lbl, step (f n) tid = some (lbl, f (n + 1)))
    {i : Nat} {g : Gen} {b : Nat} (hi : progs[i]? = some (.client g b)) :
    ∃ n t, enabled (f n) = [] ∧ (f n).ths[i + 1]? = some t ∧ t.prog = .client g b ∧ t.pc = .done := by
  obtain ⟨n, hdead, hall, -⟩ := C15_multi_every_request_ends hreq h0 hmax
  obtain ⟨t, ht, hp, hd⟩ := hall i _ hi (by intro hh; cases hh)
  exact ⟨n, t, hdead, ht, hp, hd⟩

/-! non-vacuity of the termination theorems (tests of the definitions) -/

/-- the request lists of the examples above satisfy `Requests`; the weight bound of the three-request example: 4
threads + 20 one-time events each -/
example : Requests [.client ⟨[.val 7, .val 8], 900⟩ 1, .client ⟨[.val 5], 901⟩ 2, .shutdown] := by
  intro pr hpr k; simp at hpr; rcases hpr with rfl | rfl | rfl <;> simp

example : termBound (init 1 [.client ⟨[.val 7, .val 8], 900⟩ 1, .client ⟨[.val 5], 901⟩ 2, .shutdown]) = 84 := by
  decide

/-- the one-time part of the measure along the schedule of the example with two racing client loops and a shutdown:
80 at the start, 0 at the end (everything has ended), and the thread bound holds with room for the two prefetch
threads -/
example : mHi (init 1 [.client ⟨[.val 7, .val 8], 900⟩ 1, .client ⟨[.val 5], 901⟩ 2, .shutdown]) = 80 := by decide

example : (fun (r : List (Queue.Tid × String) × Cfg × Bool) => (r.2.2, mHi r.2.1, r.2.1.ths.length))
    (replay (init 1 [.client ⟨[.val 7, .val 8], 900⟩ 1, .client ⟨[.val 5], 901⟩ 2, .shutdown])
      [0, 0, 0, 1, 1, 1, 1, 1, 1, 1, 0, 0, 0, 0, 1, 1, 1, 1, 1, 1, 2, 2, 2, 2, 2, 2, 2, 2, 2, 2, 1, 1, 1, 1, 1, 1, 1,
       3, 3, 3, 3, 0, 0, 0, 0, 0, 4, 4, 4, 2, 2, 2, 0, 0, 0, 0, 0, 0, 0, 0, 0, 2, 2, 2, 2, 2, 2, 2, 2, 2, 2, 5, 5, 5,
       0, 0, 0] []) = (true, 0, 6) := by decide


end MlModel.C15
