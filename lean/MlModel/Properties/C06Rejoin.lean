import MlModel.Lemmas.SchedPend
/-!
# C06, round 13: a rejoined worker has capacity (the workers' `_pendings` made explicit)

`Model/SchedPend.lean` adds to the `as_completed` LTS the quantity the real code derives a worker's
capacity from: `len(worker.pendings)` (courier_utils.py:550-555, 646-649).  For the shipped code
(`failOrphan = true`: the "worker disconnected" branch fails the future of the call it abandons,
orchestrate.py:528-537) and EVERY fault assignment, pool size, task count and schedule:

* `C06_pendings_track_running` — `len(worker_w.pendings)` is exactly the number of calls in flight on `w`
  that the master still tracks in `running_tasks`;
* `C06_capacity_is_tracked_capacity` — hence the capacity the code computes from `_pendings` is the
  capacity `Model/Sched.lean` computes from `running_tasks` (`AC.hasCapacity`): the abstraction used by
  all other C06 theorems is justified; `C06_pend_model_adds_nothing`: every reachable state of the
  extended LTS projects to a reachable state of `AC` (so every `AReach` theorem of Properties/C06.lean
  holds for it; the converse - the extra `has_capacity` guard on `.submit` is implied - follows from
  the capacity equality but is not stated here);
* `C06_untracked_worker_has_capacity` — an ABANDONED attempt does not consume capacity: a worker on
  which the master tracks no task has capacity, however many of its calls were abandoned before;
* `C06_rejoined_worker_has_capacity` — after a rejoin the worker is alive and has capacity (so
  `next_idle_worker` offers it again: the guard of `.submit` on it holds as soon as it is acquired and
  work is left).

Without the `set_exception` (`failOrphan = false`, seeded change C06-m6) all of this fails:
`Witness/C06Rejoin.lean`.
-/
namespace MlModel.C06
open MlModel.Sched

theorem C06_hasCapacity_iff (s : AC) (w : Nat) : s.hasCapacity w = true ↔ s.flyingOn w = 0 := by
  simp only [AC.hasCapacity, AC.flyingOn, List.all_eq_true, List.countP_eq_zero]
  constructor
  · intro h r hr
    have := h r hr
    cases hst : r.st <;> simp_all [CallSt.isFlying]
  · intro h r hr
    have := h r hr
    cases hst : r.st <;> simp_all [CallSt.isFlying]

/-- `len(worker_w.pendings)` = number of tracked calls in flight on `w`, in every reachable state. -/
theorem C06_pendings_track_running {c : ACfg} {nw n : Nat} {p : ACP}
    (h : PReach true c (ACP.init nw n) p) (w : Nat) : p.pend w = p.ac.flyingOn w :=
  pendInv_reach h w

/-- The code's capacity (`len(pendings) < max_parallelism`) is the model's (`running_tasks`). -/
theorem C06_capacity_is_tracked_capacity {c : ACfg} {nw n : Nat} {p : ACP}
    (h : PReach true c (ACP.init nw n) p) (w : Nat) : p.hasCapacity w = p.ac.hasCapacity w := by
  rw [Bool.eq_iff_iff, C06_hasCapacity_iff, ← C06_pendings_track_running h w]
  simp [ACP.hasCapacity]

/-- An abandoned attempt does not consume capacity: a worker on which the master tracks no task has
capacity (whatever happened on it before: calls that hung on it and were abandoned included). -/
theorem C06_untracked_worker_has_capacity {c : ACfg} {nw n : Nat} {p : ACP}
    (h : PReach true c (ACP.init nw n) p) (w : Nat)
    (hw : p.ac.running.all (fun r => r.worker != w) = true) : p.hasCapacity w = true := by
  rw [C06_capacity_is_tracked_capacity h w]
  simp only [AC.hasCapacity, List.all_eq_true] at hw ⊢
  intro r hr
  simp [hw r hr]

/-- A rejoined worker is alive and HAS CAPACITY - for every fault plan and schedule. -/
theorem C06_rejoined_worker_has_capacity {c : ACfg} {nw n : Nat} {p p' : ACP} {w : Nat}
    (h : PReach true c (ACP.init nw n) p) (hs : acpStep true c p (.rejoin w) = some p') :
    aliveAt p'.ac.ws w = true ∧ p'.hasCapacity w = true := by
  have h' : PReach true c (ACP.init nw n) p' := .step _ h hs
  have hac := acpStep_ac hs
  simp only [acStep] at hac
  split at hac
  · rename_i ws' _ hrj
    split at hac
    · rename_i hcap
      simp at hac
      refine ⟨?_, ?_⟩
      · rw [← hac]
        simp only [rejoinW] at hrj
        split at hrj
        · simp at hrj
        · split at hrj
          · simp at hrj; subst hrj
            rename_i x hx _
            have hlt : w < p.ac.ws.length := by
              rcases Nat.lt_or_ge w p.ac.ws.length with h | h
              · exact h
              · simp [List.getElem?_eq_none h] at hx
            simp [aliveAt, hlt]
          · simp at hrj
      · rw [C06_capacity_is_tracked_capacity h' w, ← hac]
        exact hcap
    · simp at hac
  · simp at hac

/-- The extended LTS adds no behaviour (whatever `failOrphan` is): its bookkeeping component is a run of
`AC`, so the `AReach` theorems of Properties/C06.lean apply to it. -/
theorem C06_pend_model_adds_nothing {f : Bool} {c : ACfg} {nw n : Nat} {p : ACP}
    (h : PReach f c (ACP.init nw n) p) : AReach c (AC.init nw n) p.ac := by
  induction h with
  | refl => exact .refl
  | step l _ hs ih => exact .step l ih (acpStep_ac hs)

/-- non-vacuity: a reachable state of the shipped model in which worker 0 has died with a call in flight,
was abandoned by the master and has rejoined -/
example : ∃ p p', PReach true { env := fun w i => if w = 0 ∧ i = 0 then .restart else .ok } (ACP.init 2 2) p ∧
    acpStep true { env := fun w i => if w = 0 ∧ i = 0 then .restart else .ok } p (.rejoin 0) = some p' :=
  ⟨_, _, .step (.check 0) (.step (.submit 0) (.step (.acquire 0) .refl (by rfl)) (by rfl)) (by rfl), by rfl⟩

end MlModel.C06
