import MlModel.Lemmas.RemoteStateHist
/-!
# C14 — stateful remote objects observed over a history

"chains of attribute access, indexing and calls on a remote object behave like on the local object while
the object itself stays on the server" — for objects whose state CHANGES between two observations.

Model: `Model/RemoteState.lean` (a heap of mutable instances of `Counter` / `Account` / `Store`, generators
and tuple iterators over them; `RemoteObject.__getattr__/__getitem__/__call__/__iter__`, `RemoteIterator.__next__`
as builders of lazy expressions whose `cache_result` flag is explicit on every link; `evalC` = `LazyFn.result_`
under the `_maybe_lru_cache` wrapper).  The local reference `localStep` / `localRun` is ordinary Python
evaluation on the same heap: no lazy expression, no cache, no id.

The protocol around one evaluation (pickling, exception capture, transport fates, shutdown) is `C14_eval` in
`Properties/C14.lean`; here the transport is fault-free and the server is not shutting down.
-/
namespace MlModel.C14
open MlModel MlModel.Lazy MlModel.RemoteState

/-- **RemoteObject member access is un-cached** (courier_utils.py:267-279, lazy_fns.py:371-398): whatever
the object and the link, the expression node `RemoteObject.__getattr__ / __getitem__ / __call__` adds carries
neither `cache_result` nor `lazy_result`, so a chain built on a handle is cache-free.  The seeded change
C14-m3 (`getattr(self.value, name).set_(_cache_result=True)`) is `applyRMutant`, which differs exactly
here (`C14_state_mutant_differs`). -/
theorem C14_state_member_uncached (x : CExpr) (l : SLink) (ls : List SLink) :
    applyR x l = .link x l false false ∧ (chainR x ls).cacheFree = x.cacheFree ∧
    (chainR (.root 0) ls).cacheFree = true :=
  ⟨rfl, cacheFree_chainR ls x, by rw [cacheFree_chainR]; rfl⟩

/-- …and these are the very expressions of the C14 protocol model: `chainR` maps onto `Remote.chain`
(the expression `Remote.handleResult` sends), link by link. -/
theorem C14_state_member_expr (ls : List SLink) : ∀ x : CExpr,
    (chainR x ls).toExpr = Remote.chain x.toExpr (ls.map SLink.toLink) := by
  induction ls with
  | nil => intro x; rfl
  | cons l ls ih =>
    intro x
    rw [chainR_cons, ih]
    have : (applyR x l).toExpr = Remote.applyLink x.toExpr l.toLink := by
      cases l <;> simp [applyR, CExpr.toExpr, SLink.toLink, Remote.applyLink, Expr.getattr, Expr.getitem,
        Remote.constKw]
    simp [Remote.chain, this]

/-- every call node `Remote.applyLink` (the C14 protocol model's `RemoteObject`) builds has both flags off -/
theorem C14_member_access_uncached (x : Expr) (l : Remote.Link) :
    ∃ f as ks, Remote.applyLink x l = .call f as ks false false := by
  cases l <;> exact ⟨_, _, _, rfl⟩

/-- the seeded variant builds a different expression for every attribute link -/
theorem C14_state_mutant_differs (x : CExpr) (n : String) :
    applyRMutant x (.attr n) ≠ applyR x (.attr n) ∧ (applyRMutant x (.attr n)).cacheFree = false := by
  simp [applyRMutant, applyR, CExpr.cacheFree]

/-- **A remote chain reads the current state.**  From EVERY server state — whatever history produced it,
whatever the `LazyFn` cache holds — `remote.<links>.result_()` is ordinary Python evaluation of the links on
the object as it is NOW; the evaluation changes the heap exactly as the local evaluation does and touches
neither the cache nor the handle table. -/
theorem C14_state_chain (id : Nat) (ls : List SLink) (s : SSt) (v : PyVal) (h : s.hnd.lookup id = some v) :
    evalC (chainR (.root id) ls) s =
      ((pyChain v ls s.heap).1.map .val, { s with heap := (pyChain v ls s.heap).2 }) :=
  evalC_handle_chain id ls s v h

/-- In particular a data attribute: after any history, `remote.<n>.result_()` is the value the attribute is
bound to now. -/
theorem C14_state_attr_current (id r : Nat) (n : String) (s : SSt) (o : Obj) (p : PV)
    (hh : s.hnd.lookup id = some (.obj r)) (ho : s.heap.get r = some o) (hp : prop o n = none)
    (hf : o.fields.lookup n = some (.plain p)) :
    (remoteStep (.get id [.attr n] false) s).1 = .val p ∧ (remoteStep (.get id [.attr n] false) s).2 = s := by
  have h1 := evalC_handle_chain id [.attr n] s _ hh
  simp only [remoteStep, remoteStepWith, Bool.false_eq_true, if_false]
  rw [h1]
  simp [liftPy, pyChain, pyLink, getAttr, ho, hp, hf, obsOf, obsVal, Except.map]

/-- …and an item of a dict-like object: `remote[k].result_()` is what the dict holds under `k` now. -/
theorem C14_state_item_current (id r : Nat) (k x : PV) (s : SSt) (o : Obj)
    (hh : s.hnd.lookup id = some (.obj r)) (ho : s.heap.get r = some o) (hc : o.cls = .store)
    (hf : o.items.lookup k = some x) :
    (remoteStep (.get id [.item k] false) s).1 = .val x ∧ (remoteStep (.get id [.item k] false) s).2 = s := by
  have h1 := evalC_handle_chain id [.item k] s _ hh
  simp only [remoteStep, remoteStepWith, Bool.false_eq_true, if_false]
  rw [h1]
  simp [liftPy, pyChain, pyLink, getItem, ho, hc, hf, obsOf, obsVal, Except.map]

/-- **One operation.**  Creating a remote object, `remote.<links>.result_()` (also with `lazy_result_` on the
last call: a new handle), `iter(remote.<links>)`, `next(remote_iterator)`, `clear_cache()` on the server:
the client observes what the same operation gives on the local object, and the server's objects and handles
are afterwards what the local objects and variables are. -/
theorem C14_state_step (op : Op) (s : SSt) (hp : op.plain = true) :
    (remoteStep op s).1 = (localStep op s.loc).1 ∧ (remoteStep op s).2.loc = (localStep op s.loc).2 :=
  step_eq_local op s hp

/-- **Every history** of get / item / call / lazy-call / iter / next / clear operations, interleaved in any
order on any number of remote objects, handles aliasing the same object included: the client's observations
are those of the same history on local objects, step by step, and the objects end in the same state. -/
theorem C14_state_history (ops : List Op) (s : SSt) (hp : ∀ op ∈ ops, op.plain = true) :
    (remoteRun ops s).1 = (localRun ops s.loc).1 ∧ (remoteRun ops s).2.loc = (localRun ops s.loc).2 :=
  run_eq_local ops s hp

/-- The `LazyFn` cache is irrelevant to such a history: two servers that differ only in what their caches hold
(e.g. entries left by other clients' `cache_result_` calls on the same objects) answer identically. -/
theorem C14_state_cache_irrelevant (ops : List Op) (s : SSt) (c : Lru.Cache CExpr RV)
    (hp : ∀ op ∈ ops, op.plain = true) :
    (remoteRun ops { s with fnc := c }).1 = (remoteRun ops s).1 := by
  rw [(run_eq_local ops _ hp).1, (run_eq_local ops s hp).1]
  rfl

/-! ## Non-vacuity and witnesses (tests, `decide`) -/

/-- the history of `seeded/C14-m3-remote-attr-cached/demo.py`, on an `Account` -/
def histAccount : List Op :=
  [.mk .account [.str "alice"], .get 0 [.attr "balance"] false, .get 0 [.attr "last"] false,
   .get 0 [.attr "deposit", .call [.int 30]] false,
   .get 0 [.attr "balance"] false, .get 0 [.attr "last"] false, .get 0 [.attr "limits", .item (.str "daily")] false,
   .get 0 [.attr "set_limit", .call [.str "daily", .int 5]] false,
   .get 0 [.attr "limits", .item (.str "daily")] false]

example : (remoteRun histAccount (SSt.init 128)).1 =
    [.remote 0, .val (.int 0), .val .none, .val (.int 30), .val (.int 30), .val (.int 30), .val (.int 100),
     .val .none, .val (.int 5)] := by decide

example : ∀ op ∈ histAccount, op.plain = true := by decide

/-- **Witness against the seeded change.**  With `RemoteObject.__getattr__` marking the lookup `cache_result`
the same history answers the STALE balance (0 instead of 30) at the second read, and `last` stays `None`
(the nested `Store` under `limits` is pinned as an object and stays live):
the variant contradicts `C14_state_history` on a concrete history. -/
theorem C14_state_mutant_stale_witness :
    (remoteRunWith chainRMutant histAccount (SSt.init 128)).1 =
      [.remote 0, .val (.int 0), .val .none, .val (.int 30), .val (.int 0), .val .none, .val (.int 100),
       .val .none, .val (.int 5)] ∧
    (remoteRunWith chainRMutant histAccount (SSt.init 128)).1 ≠ (localRun histAccount (SSt.init 128).loc).1 := by
  decide

/-- a counter, its live generator, and a second handle aliasing a nested object -/
def histCounter : List Op :=
  [.mk .counter [.int 10, .int 2], .get 0 [.attr "total"] false, .iter 0 [.attr "ticks", .call [.int 2]],
   .next 1, .get 0 [.attr "add", .call [.int 5]] false, .next 1, .next 1, .get 0 [.attr "double"] false,
   .mk .account [.none], .get 2 [.attr "get_limits", .call []] true, .get 3 [.item (.str "daily")] false,
   .get 2 [.attr "set_limit", .call [.str "daily", .int 7]] false, .get 3 [.item (.str "daily")] false,
   .get 2 [.attr "new_limits", .call []] false, .get 2 [.attr "limits", .attr "size"] false,
   .get 3 [.attr "size"] false, .get 0 [.attr "missing"] false, .get 9 [.attr "total"] false]

example : (remoteRun histCounter (SSt.init 128)).1 =
    [.remote 0, .val (.int 10), .remote 1, .val (.int 12), .val (.int 17), .val (.int 19), .err (.py .stop),
     .val (.int 38), .remote 2, .remote 3, .val (.int 100), .val .none, .val (.int 7), .val .none, .val (.int 0),
     .val (.int 1), .err (.py .attr), .err .missing] := by decide

example : (remoteRun histCounter (SSt.init 128)).1 = (localRun histCounter (SSt.init 128).loc).1 := by decide

end MlModel.C14
