import MlModel.Lemmas.Piter2Shared
import MlModel.Lemmas.Piter2Frame
import MlModel.Lemmas.Piter2Live
/-!
# C13, the two-level composition `piter(iterator_fn, input_iterators=[i_1 … i_n], max_parallism=P)`

Theorems over the two-queue LTS `Model/Piter2.lean` (an INPUT queue fed by `n` first-level pool tasks, an OUTPUT queue
fed by `P` second-level tasks that consume the input queue through ONE `DequeueIterator` behind ONE lock, all tasks in
ONE pool, upstream stop of fix 091db8d).  Proved here (all schedules, all sizes):

* `C13_two_shared_steps` — the shared state of each queue changes ONLY by `Queue.stepThread` steps of the stepping
  thread's own part on that queue (plus the write `Q2._exception = e` of a failing second-level task and ghost
  bookkeeping): the formal content of "each thread steps on the queue it is currently operating on";
* `C13_two_sticky` — a recorded failure, a stop request and exhaustion of EITHER queue are never withdrawn;
* `C13_two_pool_gate` — a task of either level starts only through the one pool gate, and the gate is the only
  condition;
* `C13_two_no_task_waits`, `C13_two_own_pool_never_waits` — with a worker per task (in particular in the pool sized by
  fix b40a851) a submitted task of either level ALWAYS has its `start` step enabled, in every reachable configuration:
  the pool is never the reason a configuration is stuck (the ingredient of deadlock-freedom that fails in F-C13-pool-small);
* `C13_two_own_pool_size` — the pool `piter` creates itself (fix b40a851) has more workers than inputs and more workers
  than `iterator_fn` tasks, in fact one per task;
* witnesses (`Witness/C13.lean`): with `max_workers ≤ #inputs` a reachable configuration without any enabled step exists
  in which nothing is finished (finding F-C13-pool-small).

NOT proved (full statement, kept visible):
`theorem C13_two_no_deadlock : PoolOK c0 → Reachable F c0 c → c.quiescent F → c.allDone` with
`PoolOK c := c.maxWorkers = 0 ∨ (#inputs < c.maxWorkers ∧ (c.fifo ∨ P < c.maxWorkers))` — it needs the no-lost-wake-up
invariant of BOTH embedded queues plus the cross-queue argument (a parked first-level task waits for a started
second-level task, a parked second-level task for the caller or for a started first-level task).  The check explores ALL
schedules of small configurations exhaustively instead (driver op `explore`): stuck configurations exist exactly where
`PoolOK` fails.
-/
namespace MlModel.C13
open MlModel.Piter2
open MlModel.Queue (Tid Shared stepThread)

variable {F : Nat → Option (List Nat)}

/-- **each queue is stepped only by `Queue.stepThread`**: in one step of thread `tid` (state `t`) the shared state of
the input queue is unchanged or the result of a `Queue.stepThread` step of `t.a` on it, and the shared state of the
output queue is unchanged, or the result of a `Queue.stepThread` step of `t.b` on it (possibly with elements a stopped
`DequeueIterator` drops appended to the ghost `lost`), or — second-level tasks only — `Q2._exception = e`. -/
theorem C13_two_shared_steps {c c' : Piter2.Cfg} {tid : Tid} {alt : Bool} {lbl : String}
    (h : Piter2.step F c tid alt = some (lbl, c')) :
    ∃ t, c.ths[tid]? = some t ∧
      (c'.s1 = c.s1 ∨ ∃ l a', stepThread c.s1 t.a tid alt = some (l, c'.s1, a')) ∧
      (c'.s2 = c.s2 ∨
        (∃ l s2' b', stepThread c.s2 t.b tid alt = some (l, s2', b') ∧
          (c'.s2 = s2' ∨ ∃ extra, c'.s2 = { s2' with lost := s2'.lost ++ extra })) ∨
        (∃ e, t.role = .l2 ∧ c'.s2 = { c.s2 with exc := some e })) :=
  step_shared h

/-- **failure at either level is sticky, stop requests are final** (every schedule): along any execution the recorded
exception, the stop request (`_stop_requested`, set by the upstream stop of fix 091db8d on the input queue) and
`exhausted` of the input queue AND of the output queue, once set, stay set. -/
theorem C13_two_sticky {c0 c : Piter2.Cfg} (h : Reachable F c0 c) :
    ((c0.s1.exc.isSome = true → c.s1.exc.isSome = true) ∧ (c0.s1.stopRequested = true → c.s1.stopRequested = true) ∧
      (c0.s1.exhausted = true → c.s1.exhausted = true)) ∧
    ((c0.s2.exc.isSome = true → c.s2.exc.isSome = true) ∧ (c0.s2.stopRequested = true → c.s2.stopRequested = true) ∧
      (c0.s2.exhausted = true → c.s2.exhausted = true)) :=
  reachable_sticky h

/-- non-vacuity: a failing input is recorded in the input queue after 17 steps and stays recorded -/
example : ∃ c, Reachable (Piter.evalFn .ident none)
      (piterInit 1 none none false [⟨[.fail], 900, []⟩, ⟨[.val 3], 901, []⟩] [800]) c ∧ c.s1.exc.isSome = true := by
  have h : ((run (Piter.evalFn .ident none)
      (piterInit 1 none none false [⟨[.fail], 900, []⟩, ⟨[.val 3], 901, []⟩] [800])
      (List.replicate 5 0 ++ List.replicate 4 1)).map fun c => c.s1.exc.isSome) = some true := by decide +kernel
  obtain ⟨c, hr, hc⟩ := Option.map_eq_some_iff.mp h
  exact ⟨c, reachable_run _ _ _ hr, hc⟩

/-- **the pool gate is shared by both levels and is the only start condition**: a task (first- or second-level) that has
not started has an enabled step iff the pool lets it start — it was submitted, fewer than `max_workers` tasks OF EITHER
LEVEL run (0 = no bound), and (FIFO pools) every earlier task has started. -/
theorem C13_two_pool_gate {c : Piter2.Cfg} {tid : Tid} {t : Th} (ht : c.ths[tid]? = some t)
    (htask : t.isTask = true) (hns : t.started = false) :
    (Piter2.step F c tid false).isSome = c.gate tid ∧ Piter2.step F c tid true = none := by
  cases hr : t.role with
  | cons => simp [Th.isTask, hr] at htask
  | l1 =>
    have hpc : t.a.pc = .start := by simpa [Th.started, hr] using hns
    constructor
    · simp only [Piter2.step, ht, hr, stepL1, hpc]
      cases hg : c.gate tid
      · simp
      · cases hp : t.a.prog <;> simp [stepThread, hpc, hp]
    · simp [Piter2.step, ht, hr, stepL1, hpc]
  | l2 =>
    have hpc : t.b.pc = .start := by simpa [Th.started, hr] using hns
    constructor
    · simp only [Piter2.step, ht, hr, stepL2, hpc]
      cases hg : c.gate tid <;> simp
    · simp [Piter2.step, ht, hr, stepL2, hpc]

/-- the decidable side condition on the pool: unbounded, or more workers than inputs and (unless the pool is FIFO)
more workers than `iterator_fn` tasks -/
def PoolOK (nIn P : Nat) (c : Piter2.Cfg) : Prop :=
  c.maxWorkers = 0 ∨ (nIn < c.maxWorkers ∧ (c.fifo = true ∨ P < c.maxWorkers))

instance (nIn P : Nat) (c : Piter2.Cfg) : Decidable (PoolOK nIn P c) := by unfold PoolOK; infer_instance

/-- **the pool `piter` creates itself (fix b40a851) satisfies the side condition**, with one worker per task: no
submitted task of either level ever has to wait for a worker. -/
theorem C13_two_own_pool_size (bufferSize : Nat) (numSteps : Option Nat) (fwd : Bool)
    (inputs : List InSpec) (gens : List Nat) (hn : inputs ≠ []) :
    let c0 := piterInit bufferSize none numSteps fwd inputs gens
    c0.maxWorkers = inputs.length + max gens.length 1 ∧ c0.nTasks ≤ c0.maxWorkers ∧
      PoolOK inputs.length gens.length c0 := by
  have hl : 0 < inputs.length := List.length_pos_iff.mpr hn
  refine ⟨rfl, ?_, .inr ⟨?_, .inr ?_⟩⟩
  · simp only [piterInit, init, Piter2.Cfg.nTasks, List.length_cons, List.length_append, List.length_map]
    omega
  · simp only [piterInit, init]; omega
  · simp only [piterInit, init]; omega

/-- **with a worker per task no task ever waits for the pool** (every schedule, any-order pool; `max_workers = 0` = no
bound): in every configuration reachable from an initial configuration, a task of either level that was submitted and
has not started has its `start` step enabled. -/
theorem C13_two_no_task_waits {cap1 cap2 bm1 bm2 mw : Nat} {ns : Option Nat} {fwd : Bool} {inputs : List InSpec}
    {gens : List Nat} {c : Piter2.Cfg}
    (hw : mw = 0 ∨ inputs.length + gens.length ≤ mw)
    (h : Reachable F (Piter2.init cap1 cap2 bm1 bm2 mw ns fwd inputs gens) c)
    {tid : Tid} {t : Th} (ht : c.ths[tid]? = some t) (htask : t.isTask = true) (hns : t.started = false)
    (hsub : tid ≤ c.nsub) : (Piter2.step F c tid false).isSome = true := by
  rw [(C13_two_pool_gate ht htask hns).1]
  refine gate_of_enough_workers h (hd0 := mkCons bm2) (tl0 := inputs.map mkL1 ++ gens.map (mkL2 bm1)) rfl rfl rfl ?_
    ht htask hns hsub
  rcases hw with hw | hw
  · exact .inl hw
  · right
    simp only [Piter2.init, Piter2.Cfg.nTasks, List.length_cons, List.length_append, List.length_map]
    omega

/-- **piter's own pool (fix b40a851) never makes a task wait**: the instance of `C13_two_no_task_waits` for the
configuration `piter` builds when no pool is given. -/
theorem C13_two_own_pool_never_waits {bufferSize : Nat} {numSteps : Option Nat} {fwd : Bool} {inputs : List InSpec}
    {gens : List Nat} {c : Piter2.Cfg}
    (h : Reachable F (piterInit bufferSize none numSteps fwd inputs gens) c)
    {tid : Tid} {t : Th} (ht : c.ths[tid]? = some t) (htask : t.isTask = true) (hns : t.started = false)
    (hsub : tid ≤ c.nsub) : (Piter2.step F c tid false).isSome = true := by
  unfold piterInit at h
  exact C13_two_no_task_waits (.inr (by simp only []; omega)) h ht htask hns hsub

/-- non-vacuity of the hypotheses: after the caller's first `submit`, task 1 is submitted and not started -/
example : ∃ c t, Reachable (Piter.evalFn .ident none)
      (piterInit 1 none none false [⟨[.val 1], 900, []⟩, ⟨[.val 3], 901, []⟩] [800]) c ∧
      c.ths[1]? = some t ∧ t.isTask = true ∧ t.started = false ∧ 1 ≤ c.nsub := by
  have h : ((run (Piter.evalFn .ident none)
      (piterInit 1 none none false [⟨[.val 1], 900, []⟩, ⟨[.val 3], 901, []⟩] [800]) [0, 0]).map fun c =>
        (c.ths[1]?.map fun t => (t.isTask, t.started), decide (1 ≤ c.nsub))) = some (some (true, false), true) := by
    decide +kernel
  obtain ⟨c, hr, hc⟩ := Option.map_eq_some_iff.mp h
  simp only [Prod.mk.injEq, Option.map_eq_some_iff, decide_eq_true_eq] at hc
  obtain ⟨⟨t, ht, h1, h2⟩, h3⟩ := hc
  exact ⟨c, t, reachable_run _ _ _ hr, ht, h1, h2, h3⟩

/-- a caller's pool with `max_workers ≤ #inputs` violates the side condition (and `Witness/C13.lean` shows reachable
stuck configurations for such pools) -/
example : ¬ PoolOK 2 1 { piterInit 1 (some 2) none false [⟨[.val 1, .val 2], 900, []⟩, ⟨[.val 3, .val 4], 901, []⟩] [800]
                          with fifo := true } := by decide

/-! ## Round 8: the no-lost-wake-up invariant of BOTH queues (generator `iterator_fn`) -/

open MlModel.Queue (J1 J2 K1 K2) in
/-- **no lost wake-up in either queue of the two-level composition** (every schedule, every size, every pool, every
early-stop position, failing inputs and failing `iterator_fn` included; generator `iterator_fn`): in every reachable
configuration the no-lost-wake-up invariant J1 ∧ J2 ∧ K1 ∧ K2 of `Lemmas/QueueLiveDefs.lean` holds for the INPUT queue
seen through `q1cfg` (producers = first-level tasks, consumer = the second-level task inside `DequeueIterator(Q1).__next__`
behind `lock1`, stoppers = the upstream stops) AND for the OUTPUT queue seen through `q2cfg` (producers = second-level
tasks, consumer / stopper = the caller) — transferred from the queue LTS through the two views, not re-proved. -/
theorem C13_two_no_lost_wakeup {cap1 cap2 bm1 bm2 mw : Nat} {ns : Option Nat} {inputs : List InSpec} {gens : List Nat}
    {c : Piter2.Cfg} (h : Reachable F (Piter2.init cap1 cap2 bm1 bm2 mw ns false inputs gens) c) :
    (J1 (q1cfg c) ∧ J2 (q1cfg c) ∧ K1 (q1cfg c) ∧ K2 (q1cfg c)) ∧
    (J1 (q2cfg c) ∧ J2 (q2cfg c) ∧ K1 (q2cfg c) ∧ K2 (q2cfg c)) :=
  let g := good_reachable (good_init cap1 cap2 bm1 bm2 mw ns inputs gens) h
  ⟨⟨g.live1.j1, g.live1.j2, g.live1.k1, g.live1.k2⟩, ⟨g.live2.j1, g.live2.j2, g.live2.k1, g.live2.k2⟩⟩

/-- **`lock1` is held exactly by the second-level task inside `next(DequeueIterator(Q1))`**, and every thread is in the
phase its parts say (`Piter2.TI`): the structural invariant of the two-queue LTS. -/
theorem C13_two_input_lock {cap1 cap2 bm1 bm2 mw : Nat} {ns : Option Nat} {inputs : List InSpec} {gens : List Nat}
    {c : Piter2.Cfg} (h : Reachable F (Piter2.init cap1 cap2 bm1 bm2 mw ns false inputs gens) c)
    {tid : Tid} {t : Th} (ht : c.ths[tid]? = some t) :
    (c.ilock = some tid ↔ (t.role = .l2 ∧ (t.x = .deq ∨ t.x = .lockRel))) ∧ TI t :=
  let g := good_reachable (good_init cap1 cap2 bm1 bm2 mw ns inputs gens) h
  ⟨g.inv.ilock tid t ht, g.inv.ti t (List.mem_of_getElem? ht)⟩

end MlModel.C13
