import MlModel.Lemmas.Piter2Shared
import MlModel.Lemmas.Piter2Frame
import MlModel.Lemmas.Piter2Live
import MlModel.Lemmas.Piter2Final
import MlModel.Lemmas.Piter2Data
import MlModel.Lemmas.Piter2DataEq
import MlModel.Lemmas.Piter2Incl
import MlModel.Lemmas.Piter2Multiset
import MlModel.Lemmas.Piter2Fail
/-!
# C13, the two-level composition `piter(iterator_fn, input_iterators=[i_1 … i_n], max_parallism=P)`

Theorems over the two-queue LTS `Model/Piter2.lean` (an INPUT queue fed by `n` first-level pool tasks, an OUTPUT queue
fed by `P` second-level tasks that consume the input queue through ONE `DequeueIterator` behind ONE lock, all tasks in
ONE pool, upstream stop of fix 091db8d).  Proved here (all schedules, all sizes):

* `C13_two_shared_steps` — the shared state of each queue changes ONLY by `Queue.stepThread` steps of the stepping
  thread's own part on that queue (plus the write `Q2._exception = e` of a failing second-level task and ghost
  bookkeeping): the formal content of "each thread steps on the queue it is currently operating on";
* `C13_two_sticky` — a recorded failure, a stop request and exhaustion of EITHER queue are never withdrawn;
* `C13_two_pool_gate` — a task of either level starts only through the one pool gate, and the gate is the only
  condition;
* `C13_two_no_task_waits`, `C13_two_own_pool_never_waits` — with a worker per task (in particular in the pool sized by
  fix b40a851) a submitted task of either level ALWAYS has its `start` step enabled, in every reachable configuration:
  the pool is never the reason a configuration is stuck (the ingredient of deadlock-freedom that fails in F-C13-pool-small);
* `C13_two_own_pool_size` — the pool `piter` creates itself (fix b40a851) has more workers than inputs and more workers
  than `iterator_fn` tasks, in fact one per task;
* witnesses (`Witness/C13.lean`): with `max_workers ≤ #inputs` a reachable configuration without any enabled step exists
  in which nothing is finished (finding F-C13-pool-small).

Round 8 (package C13D2; `Lemmas/Piter2Queue/Inv/Live/Dead/Final.lean`), for BOTH kinds of `iterator_fn` (generator,
pass-through `fwd`):

* `C13_two_no_lost_wakeup` — the no-lost-wake-up invariant J1 ∧ J2 ∧ K1 ∧ K2 of BOTH queues in every reachable
  configuration (per-queue views `q1cfg` / `q2cfg`, transferred from the queue LTS).  The view of the output queue
  shows a second-level task that has seen the END of the input queue with the `_stop_enqueue` arguments `[0]`: a
  pass-through `iterator_fn` forwards the arguments of the input queue's `StopIteration`, which are EMPTY after an
  upstream stop, while `Queue.Live` recognises a producer that ran `_stop_enqueue` by its non-empty arguments; the
  arguments only flow into `returned`, which `Live` does not read (`Queue.stepThread_rets`, `live_returned`);
* `C13_two_input_lock` — `lock1` is held exactly by the second-level task inside `next(DequeueIterator(Q1))`;
* `C13_two_upstream_done` — a second-level task ends only after enqueueing on the INPUT queue is done (it saw the end
  of the input queue, or it / the caller stopped the input queue: fix 091db8d);
* `C13_two_stuck_all_parked` — in a quiescent configuration (ANY pool) all six queue locks are free and every thread
  is finished, an unstarted task the pool holds back, waiting for `lock1`, or parked on a condition variable;
* `C13_two_no_deadlock` — **deadlock freedom under `PoolOK`**: a reachable configuration without enabled step is
  final (every schedule, capacity, batch size, `num_steps`, failing inputs / `iterator_fn`, FIFO or any-order pool);
* `C13_two_stuck_no_unstarted` — under `PoolOK` no task is left unstarted in a quiescent configuration;
* `C13_two_fifo`, `C13_two_output_exactly_once`, `C13_two_second_level_exactly_once_partial`,
  `C13_two_input_exactly_once`, `C13_two_first_level_exactly_once_partial` — conservation, the part proved (every link of
  the chain input iterators → first level → input queue → cache / `lock1` → second level → output queue → caller, as an
  invariant of every reachable configuration; `Lemmas/Piter2Data.lean`): inside EACH queue nothing is duplicated,
  dropped or reordered (`produced = dequeued ++ q`); every element put into the OUTPUT queue is, exactly once, delivered to the caller / dropped by the caller's final raise or early
  stop / still queued; what the caller holds ++ dropped ++ queued is exactly what the second-level tasks have put, and
  what a task has put is — in order, without repetition — part of `iterator_fn`'s outputs for the values the task pulled
  from the input queue; the input queue's `produced` is exactly what the first-level tasks have put, which is — in
  order, without repetition — part of the prefix of its input the task has pulled; everything taken out of the input
  queue is, exactly once, pulled by a second-level task / on its way to one (result of the running `get_batch`, in hand)
  / in the shared cache / dropped by a raising `get_batch`.
* `C13_two_second_level_exact`, `C13_two_first_level_exact` (`Lemmas/Piter2DataEq.lean`) — the two inclusions are
  EQUALITIES while the task's output queue has neither failed nor been stopped: a producer gives up the value in its
  hand only when `enqueue_done` holds, which — without failure / stop request — cannot happen while a producer is
  inside `put` (producer counting of `Queue.Live`).
  (Round 11 composes the links: see below.)

Round 11 (package C13D3; `Lemmas/Piter2Sig/Incl/EndStep/Anat/Close/Close2/Multiset.lean`): the links COMPOSED —

* `C13_two_inclusion` — EVERY run (failures, early stop), every reachable configuration: as multisets
  delivered ⊆ `iterator_fn` over what the second-level tasks pulled, pulled ⊆ values of all inputs, hence
  delivered ⊆ `(all input values).flatMap F`: nothing duplicated, nothing invented, at either level;
* `C13_two_multiset` — runs WITHOUT failure and WITHOUT early stop: in every reachable final configuration whose two
  queues have no recorded exception / stop request and whose caller was not cut by `num_steps`, the delivered values are
  a PERMUTATION of `(all input values).flatMap F`, and both queues, the shared cache of `DequeueIterator(Q1)` and both
  `lost` lists are empty; `C13_two_multiset_quiescent` — the same for every configuration WITHOUT ENABLED STEP under
  `PoolOK` (through `C13_two_no_deadlock`).  New invariants: `End1` (input queue: `exhausted ⇒ empty`, no `get_batch`
  drops anything, once a task has seen the end of `Q1` the cache is empty and later calls dequeue nothing, a first-level
  task past `_stop_enqueue` has read ALL of its input) and `End2` (output queue: the same + a second-level task past
  `_stop_enqueue` has seen the end of `Q1` and holds no pending output), each conditional on the queue being neither
  failed nor stopped, proved over the inversion lemmas `step_shape` of `Piter2Anat.lean`.

NOT proved (full statements, kept visible):
* the return values: `theorem C13_two_returns : Reachable F c0 c → c.allDone → (clean run) → the caller's
  iterOutcome = some (.stop rets) ∧ rets ~ gens` (generator `iterator_fn`) `/ rets = (replicate P Q1.returned).flatten
  ∧ Q1.returned ~ inputs.flatMap (ret :: more)` (pass-through: every second-level task forwards
  `StopIteration(*input_queue.returned)`, so every input return value arrives P times — what the code does);
* the failure side is PROVED in round 12 (`C13_two_caller_outcome`, `C13_two_failure_surfaces_once`,
  `C13_two_stop_means_no_failure`, below) for a failure recorded in the OUTPUT queue (a failing `iterator_fn`, or an
  error `next(DequeueIterator(Q1))` hands to a second-level task); what is still missing is the link INPUT → OUTPUT:
  `theorem C13_two_input_failure_reaches_output : Reachable F c0 c → c.allDone → c.s1.exc.isSome → t0.early = false →
  c.s2.exc.isSome` (needs the same invariant one level down: a second-level task that has seen `StopIteration` of `Q1`
  ⇒ `Q1` exhausted without failure, under "no upstream stop while `Q2` is clean");
* the hypotheses of `C13_two_multiset` are on the FINAL configuration (no exception / stop request recorded, `early = false`),
  not derived from the inputs (`no Item.fail`, `F` total on the values, `num_steps = none`);
* termination: `theorem C13_two_terminates : ∃ bound, every execution from c0 has at most bound steps` (a variant over
  both queues' `Phi` + per-task cost).
  All covered by exhaustive exploration of small configurations + schedule replay on the real code + the oracle.
-/
namespace MlModel.C13
open MlModel.Piter2
open MlModel.Queue (Tid Shared stepThread)

variable {F : Nat → Option (List Nat)}

/-- **each queue is stepped only by `Queue.stepThread`**: in one step of thread `tid` (state `t`) the shared state of
the input queue is unchanged or the result of a `Queue.stepThread` step of `t.a` on it, and the shared state of the
output queue is unchanged, or the result of a `Queue.stepThread` step of `t.b` on it (possibly with elements a stopped
`DequeueIterator` drops appended to the ghost `lost`), or — second-level tasks only — `Q2._exception = e`. -/
theorem C13_two_shared_steps {c c' : Piter2.Cfg} {tid : Tid} {alt : Bool} {lbl : String}
    (h : Piter2.step F c tid alt = some (lbl, c')) :
    ∃ t, c.ths[tid]? = some t ∧
      (c'.s1 = c.s1 ∨ ∃ l a', stepThread c.s1 t.a tid alt = some (l, c'.s1, a')) ∧
      (c'.s2 = c.s2 ∨
        (∃ l s2' b', stepThread c.s2 t.b tid alt = some (l, s2', b') ∧
          (c'.s2 = s2' ∨ ∃ extra, c'.s2 = { s2' with lost := s2'.lost ++ extra })) ∨
        (∃ e, t.role = .l2 ∧ c'.s2 = { c.s2 with exc := some e })) :=
  step_shared h

/-- **failure at either level is sticky, stop requests are final** (every schedule): along any execution the recorded
exception, the stop request (`_stop_requested`, set by the upstream stop of fix 091db8d on the input queue) and
`exhausted` of the input queue AND of the output queue, once set, stay set. -/
theorem C13_two_sticky {c0 c : Piter2.Cfg} (h : Reachable F c0 c) :
    ((c0.s1.exc.isSome = true → c.s1.exc.isSome = true) ∧ (c0.s1.stopRequested = true → c.s1.stopRequested = true) ∧
      (c0.s1.exhausted = true → c.s1.exhausted = true)) ∧
    ((c0.s2.exc.isSome = true → c.s2.exc.isSome = true) ∧ (c0.s2.stopRequested = true → c.s2.stopRequested = true) ∧
      (c0.s2.exhausted = true → c.s2.exhausted = true)) :=
  reachable_sticky h

/-- non-vacuity: a failing input is recorded in the input queue after 17 steps and stays recorded -/
example : ∃ c, Reachable (Piter.evalFn .ident none)
      (piterInit 1 none none false [⟨[.fail], 900, []⟩, ⟨[.val 3], 901, []⟩] [800]) c ∧ c.s1.exc.isSome = true := by
  have h : ((run (Piter.evalFn .ident none)
      (piterInit 1 none none false [⟨[.fail], 900, []⟩, ⟨[.val 3], 901, []⟩] [800])
      (List.replicate 5 0 ++ List.replicate 4 1)).map fun c => c.s1.exc.isSome) = some true := by decide +kernel
  obtain ⟨c, hr, hc⟩ := Option.map_eq_some_iff.mp h
  exact ⟨c, reachable_run _ _ _ hr, hc⟩

/-- **the pool gate is shared by both levels and is the only start condition**: a task (first- or second-level) that has
not started has an enabled step iff the pool lets it start — it was submitted, fewer than `max_workers` tasks OF EITHER
LEVEL run (0 = no bound), and (FIFO pools) every earlier task has started. -/
theorem C13_two_pool_gate {c : Piter2.Cfg} {tid : Tid} {t : Th} (ht : c.ths[tid]? = some t)
    (htask : t.isTask = true) (hns : t.started = false) :
    (Piter2.step F c tid false).isSome = c.gate tid ∧ Piter2.step F c tid true = none := by
  cases hr : t.role with
  | cons => simp [Th.isTask, hr] at htask
  | l1 =>
    have hpc : t.a.pc = .start := by simpa [Th.started, hr] using hns
    constructor
    · simp only [Piter2.step, ht, hr, stepL1, hpc]
      cases hg : c.gate tid
      · simp
      · cases hp : t.a.prog <;> simp [stepThread, hpc, hp]
    · simp [Piter2.step, ht, hr, stepL1, hpc]
  | l2 =>
    have hpc : t.b.pc = .start := by simpa [Th.started, hr] using hns
    constructor
    · simp only [Piter2.step, ht, hr, stepL2, hpc]
      cases hg : c.gate tid <;> simp
    · simp [Piter2.step, ht, hr, stepL2, hpc]

/-- the decidable side condition on the pool: unbounded, or more workers than inputs and (unless the pool is FIFO)
more workers than `iterator_fn` tasks -/
def PoolOK (nIn P : Nat) (c : Piter2.Cfg) : Prop :=
  c.maxWorkers = 0 ∨ (nIn < c.maxWorkers ∧ (c.fifo = true ∨ P < c.maxWorkers))

instance (nIn P : Nat) (c : Piter2.Cfg) : Decidable (PoolOK nIn P c) := by unfold PoolOK; infer_instance

/-- **the pool `piter` creates itself (fix b40a851) satisfies the side condition**, with one worker per task: no
submitted task of either level ever has to wait for a worker. -/
theorem C13_two_own_pool_size (bufferSize : Nat) (numSteps : Option Nat) (fwd : Bool)
    (inputs : List InSpec) (gens : List Nat) (hn : inputs ≠ []) :
    let c0 := piterInit bufferSize none numSteps fwd inputs gens
    c0.maxWorkers = inputs.length + max gens.length 1 ∧ c0.nTasks ≤ c0.maxWorkers ∧
      PoolOK inputs.length gens.length c0 := by
  have hl : 0 < inputs.length := List.length_pos_iff.mpr hn
  refine ⟨rfl, ?_, .inr ⟨?_, .inr ?_⟩⟩
  · simp only [piterInit, init, Piter2.Cfg.nTasks, List.length_cons, List.length_append, List.length_map]
    omega
  · simp only [piterInit, init]; omega
  · simp only [piterInit, init]; omega

/-- **with a worker per task no task ever waits for the pool** (every schedule, any-order pool; `max_workers = 0` = no
bound): in every configuration reachable from an initial configuration, a task of either level that was submitted and
has not started has its `start` step enabled. -/
theorem C13_two_no_task_waits {cap1 cap2 bm1 bm2 mw : Nat} {ns : Option Nat} {fwd : Bool} {inputs : List InSpec}
    {gens : List Nat} {c : Piter2.Cfg}
    (hw : mw = 0 ∨ inputs.length + gens.length ≤ mw)
    (h : Reachable F (Piter2.init cap1 cap2 bm1 bm2 mw ns fwd inputs gens) c)
    {tid : Tid} {t : Th} (ht : c.ths[tid]? = some t) (htask : t.isTask = true) (hns : t.started = false)
    (hsub : tid ≤ c.nsub) : (Piter2.step F c tid false).isSome = true := by
  rw [(C13_two_pool_gate ht htask hns).1]
  refine gate_of_enough_workers h (hd0 := mkCons bm2) (tl0 := inputs.map mkL1 ++ gens.map (mkL2 bm1)) rfl rfl rfl ?_
    ht htask hns hsub
  rcases hw with hw | hw
  · exact .inl hw
  · right
    simp only [Piter2.init, Piter2.Cfg.nTasks, List.length_cons, List.length_append, List.length_map]
    omega

/-- **piter's own pool (fix b40a851) never makes a task wait**: the instance of `C13_two_no_task_waits` for the
configuration `piter` builds when no pool is given. -/
theorem C13_two_own_pool_never_waits {bufferSize : Nat} {numSteps : Option Nat} {fwd : Bool} {inputs : List InSpec}
    {gens : List Nat} {c : Piter2.Cfg}
    (h : Reachable F (piterInit bufferSize none numSteps fwd inputs gens) c)
    {tid : Tid} {t : Th} (ht : c.ths[tid]? = some t) (htask : t.isTask = true) (hns : t.started = false)
    (hsub : tid ≤ c.nsub) : (Piter2.step F c tid false).isSome = true := by
  unfold piterInit at h
  exact C13_two_no_task_waits (.inr (by simp only []; omega)) h ht htask hns hsub

/-- non-vacuity of the hypotheses: after the caller's first `submit`, task 1 is submitted and not started -/
example : ∃ c t, Reachable (Piter.evalFn .ident none)
      (piterInit 1 none none false [⟨[.val 1], 900, []⟩, ⟨[.val 3], 901, []⟩] [800]) c ∧
      c.ths[1]? = some t ∧ t.isTask = true ∧ t.started = false ∧ 1 ≤ c.nsub := by
  have h : ((run (Piter.evalFn .ident none)
      (piterInit 1 none none false [⟨[.val 1], 900, []⟩, ⟨[.val 3], 901, []⟩] [800]) [0, 0]).map fun c =>
        (c.ths[1]?.map fun t => (t.isTask, t.started), decide (1 ≤ c.nsub))) = some (some (true, false), true) := by
    decide +kernel
  obtain ⟨c, hr, hc⟩ := Option.map_eq_some_iff.mp h
  simp only [Prod.mk.injEq, Option.map_eq_some_iff, decide_eq_true_eq] at hc
  obtain ⟨⟨t, ht, h1, h2⟩, h3⟩ := hc
  exact ⟨c, t, reachable_run _ _ _ hr, ht, h1, h2, h3⟩

/-- a caller's pool with `max_workers ≤ #inputs` violates the side condition (and `Witness/C13.lean` shows reachable
stuck configurations for such pools) -/
example : ¬ PoolOK 2 1 { piterInit 1 (some 2) none false [⟨[.val 1, .val 2], 900, []⟩, ⟨[.val 3, .val 4], 901, []⟩] [800]
                          with fifo := true } := by decide

/-! ## Round 8: the no-lost-wake-up invariant of BOTH queues (generator `iterator_fn`) -/

open MlModel.Queue (J1 J2 K1 K2) in
/-- **no lost wake-up in either queue of the two-level composition** (every schedule, every size, every pool, every
early-stop position, failing inputs and failing `iterator_fn` included; generator or pass-through `iterator_fn`): in
every reachable
configuration the no-lost-wake-up invariant J1 ∧ J2 ∧ K1 ∧ K2 of `Lemmas/QueueLiveDefs.lean` holds for the INPUT queue
seen through `q1cfg` (producers = first-level tasks, consumer = the second-level task inside `DequeueIterator(Q1).__next__`
behind `lock1`, stoppers = the upstream stops) AND for the OUTPUT queue seen through `q2cfg` (producers = second-level
tasks, consumer / stopper = the caller) — transferred from the queue LTS through the two views, not re-proved. -/
theorem C13_two_no_lost_wakeup {cap1 cap2 bm1 bm2 mw : Nat} {ns : Option Nat} {inputs : List InSpec} {gens : List Nat}
    {fwd : Bool} {c : Piter2.Cfg} (h : Reachable F (Piter2.init cap1 cap2 bm1 bm2 mw ns fwd inputs gens) c) :
    (J1 (q1cfg c) ∧ J2 (q1cfg c) ∧ K1 (q1cfg c) ∧ K2 (q1cfg c)) ∧
    (J1 (q2cfg c) ∧ J2 (q2cfg c) ∧ K1 (q2cfg c) ∧ K2 (q2cfg c)) :=
  let g := good_reachable (good_init cap1 cap2 bm1 bm2 mw ns fwd inputs gens) h
  ⟨⟨g.live1.j1, g.live1.j2, g.live1.k1, g.live1.k2⟩, ⟨g.live2.j1, g.live2.j2, g.live2.k1, g.live2.k2⟩⟩

/-- **`lock1` is held exactly by the second-level task inside `next(DequeueIterator(Q1))`**, and every thread is in the
phase its parts say (`Piter2.TI`): the structural invariant of the two-queue LTS. -/
theorem C13_two_input_lock {cap1 cap2 bm1 bm2 mw : Nat} {ns : Option Nat} {inputs : List InSpec} {gens : List Nat}
    {fwd : Bool} {c : Piter2.Cfg} (h : Reachable F (Piter2.init cap1 cap2 bm1 bm2 mw ns fwd inputs gens) c)
    {tid : Tid} {t : Th} (ht : c.ths[tid]? = some t) :
    (c.ilock = some tid ↔ (t.role = .l2 ∧ (t.x = .deq ∨ t.x = .lockRel))) ∧ TI t :=
  let g := good_reachable (good_init cap1 cap2 bm1 bm2 mw ns fwd inputs gens) h
  ⟨g.inv.ilock tid t ht, g.inv.ti t (List.mem_of_getElem? ht)⟩

/-- **a second-level task ends only after enqueueing on the input queue is done** (every schedule): when a task `Q2.enqueue_from_iterator(iterator_fn(…))` has run to its end — cleanly, by a failure, or
because the output queue was stopped — the INPUT queue's `enqueue_done` holds: it was exhausted (the task saw its
`StopIteration`), or it was stopped by `_maybe_stop_upstream` (fix 091db8d).  This is what releases first-level tasks
parked in `Q1.put`. -/
theorem C13_two_upstream_done {cap1 cap2 bm1 bm2 mw : Nat} {ns : Option Nat} {fwd ff : Bool} {inputs : List InSpec}
    {gens : List Nat} {c : Piter2.Cfg} (h : Reachable F (initF cap1 cap2 bm1 bm2 mw ns fwd ff inputs gens) c)
    {t : Th} (ht : t ∈ c.ths) (hr : t.role = .l2) (hd : t.done = true) : c.s1.enqueueDone = true := by
  have g := good_reachable (good_initF cap1 cap2 bm1 bm2 mw ns fwd ff inputs gens) h
  have hd' : t.b.pc = .done ∧ t.x = .idle := by simpa [Th.done, hr] using hd
  exact g.inv.d1 t ht ⟨hr, .inr (.inr ⟨hd'.2, hd'.1⟩)⟩

open MlModel.Queue (consWakePc prodWakePc) in
/-- **stuck ⇒ every thread parked, unstarted or finished** (ANY pool, every schedule): in a
reachable configuration without enabled step the six queue locks are free and
* the caller is parked in `Q2.get_batch`, or waits in `shutdown()` for unfinished tasks, or has finished;
* a first-level task is held back by the pool, or parked in `Q1.put`, or finished;
* a second-level task is held back by the pool, or finished, or parked in `Q2.put`, or waits for `lock1` (held by
  another task), or is parked in `Q1.get_batch` holding `lock1`.
Without `PoolOK` this is all that can be said (`Witness/C13.lean`: F-C13-pool-small). -/
theorem C13_two_stuck_all_parked {cap1 cap2 bm1 bm2 mw : Nat} {ns : Option Nat} {fwd ff : Bool} {inputs : List InSpec}
    {gens : List Nat} {c : Piter2.Cfg} (hin : inputs ≠ []) (hgen : gens ≠ [])
    (h : Reachable F (initF cap1 cap2 bm1 bm2 mw ns fwd ff inputs gens) c) (hq : c.quiescent F) :
    (∀ l, c.s1.owner l = none) ∧ (∀ l, c.s2.owner l = none) ∧
    ∀ (tid : Tid) (t : Th), c.ths[tid]? = some t →
      (t.role = .cons → (t.cpc = .iter ∧ consWakePc t.b.pc = true) ∨ (t.cpc = .shutdown ∧ c.tasksDone = false) ∨
        t.cpc = .fin) ∧
      (t.role = .l1 → (t.a.pc = .start ∧ c.gate tid = false) ∨ t.a.pc = .done ∨ prodWakePc t.a.pc = true) ∧
      (t.role = .l2 → (t.b.pc = .start ∧ c.gate tid = false) ∨ (t.b.pc = .done ∧ t.x = .idle) ∨
        prodWakePc t.b.pc = true ∨ (t.b.pc = .eNext ∧ t.x = .lockAcq ∧ c.ilock ≠ none) ∨
        (t.b.pc = .eNext ∧ t.x = .deq ∧ consWakePc t.a.pc = true)) := by
  have hg := good_reachable (good_initF cap1 cap2 bm1 bm2 mw ns fwd ff inputs gens) h
  have hf := reachable_frame h
  have hroles : c.ths.map (·.role) =
      Role.cons :: (List.replicate inputs.length Role.l1 ++ List.replicate gens.length Role.l2) := by
    rw [hf.roles, initF_roles, map_const_replicate, map_const_replicate]
  obtain ⟨h1, h2, -, -, -⟩ := roles_facts hroles
  have ds1 := Queue.dead_shape hg.live1 (prod1_pos hg (h1 (List.length_pos_iff.mpr hin))) (dead_q1 hg hq)
  have ds2 := Queue.dead_shape hg.live2 (prod2_pos hg (h2 (List.length_pos_iff.mpr hgen))) (dead_q2 hg hq)
  refine ⟨ds1.free, ds2.free, fun tid t ht => ⟨fun hr => ?_, fun hr => stuck_l1 hg hq ds1 ht hr,
    fun hr => stuck_l2 hg hq ds1 ds2 ht hr⟩⟩
  have h0 := (hg.inv.role0 tid t ht).mp hr
  subst h0
  exact stuck_cons hg hq ds1 ds2 ht

/-- **No deadlock in the two-level composition under `PoolOK`**: for a generator or a pass-through `iterator_fn`,
every number of inputs ≥ 1 and of `iterator_fn` tasks ≥ 1, every capacity of both queues (0 = unbounded), every batch size, every `num_steps` (early stop at any position), failing inputs
and a failing `iterator_fn`, a FIFO or an any-order pool, and EVERY schedule: if the pool is unbounded or has more
workers than inputs and (unless FIFO) more workers than `iterator_fn` tasks, then a reachable configuration in which no
thread has an enabled step is FINAL — the caller has passed `shutdown()` and every task of both levels has run to its
end.  `Witness/C13.lean` shows that the pool condition cannot be dropped. -/
theorem C13_two_no_deadlock {cap1 cap2 bm1 bm2 mw : Nat} {ns : Option Nat} {fwd ff : Bool} {inputs : List InSpec}
    {gens : List Nat} {c : Piter2.Cfg} (hin : inputs ≠ []) (hgen : gens ≠ [])
    (hpool : PoolOK inputs.length gens.length (initF cap1 cap2 bm1 bm2 mw ns fwd ff inputs gens))
    (h : Reachable F (initF cap1 cap2 bm1 bm2 mw ns fwd ff inputs gens) c) (hq : c.quiescent F) :
    c.allDone = true :=
  Piter2.no_deadlock hin hgen hpool h hq

/-- under `PoolOK` **no task is left unstarted in a quiescent configuration**: the pool is never what a two-level
`piter` waits for in the end -/
theorem C13_two_stuck_no_unstarted {cap1 cap2 bm1 bm2 mw : Nat} {ns : Option Nat} {fwd ff : Bool} {inputs : List InSpec}
    {gens : List Nat} {c : Piter2.Cfg} (hin : inputs ≠ []) (hgen : gens ≠ [])
    (hpool : PoolOK inputs.length gens.length (initF cap1 cap2 bm1 bm2 mw ns fwd ff inputs gens))
    (h : Reachable F (initF cap1 cap2 bm1 bm2 mw ns fwd ff inputs gens) c) (hq : c.quiescent F)
    {t : Th} (ht : t ∈ c.ths) : t.started = true := by
  have hall := C13_two_no_deadlock hin hgen hpool h hq
  unfold Piter2.Cfg.allDone at hall
  rw [List.all_eq_true] at hall
  have hd := hall t ht
  cases hr : t.role with
  | cons => simp [Th.started, hr]
  | l1 =>
    have : t.a.pc = .done := by simpa [Th.done, hr] using hd
    simp [Th.started, hr, this]
  | l2 =>
    have : t.b.pc = .done ∧ t.x = .idle := by simpa [Th.done, hr] using hd
    simp [Th.started, hr, this.1]

/-- the pool `piter` creates itself satisfies the hypothesis of `C13_two_no_deadlock` -/
theorem C13_two_own_pool_ok (bufferSize : Nat) (numSteps : Option Nat) (fwd : Bool) (inputs : List InSpec)
    (gens : List Nat) (hn : inputs ≠ []) :
    PoolOK inputs.length gens.length
      (initF (if bufferSize == 0 then gens.length else bufferSize) bufferSize (if gens.length > 1 then 1 else maxBatch)
        maxBatch (inputs.length + max gens.length 1) numSteps fwd false inputs gens) := by
  have hl : 0 < inputs.length := List.length_pos_iff.mpr hn
  refine .inr ⟨?_, .inr ?_⟩ <;> simp only [initF, Piter2.init] <;> omega

/-- **FIFO conservation inside each queue of the composition** (every schedule): whatever was put into the input queue
(resp. the output queue) and has not been taken out is in the queue, in put order — `produced = dequeued ++ q` for
both queues in every reachable configuration. -/
theorem C13_two_fifo {cap1 cap2 bm1 bm2 mw : Nat} {ns : Option Nat} {fwd ff : Bool} {inputs : List InSpec}
    {gens : List Nat} {c : Piter2.Cfg} (h : Reachable F (initF cap1 cap2 bm1 bm2 mw ns fwd ff inputs gens) c) :
    c.s1.produced = c.s1.dequeued ++ c.s1.q ∧ c.s2.produced = c.s2.dequeued ++ c.s2.q :=
  fifo_reachable h rfl rfl

open MlModel.Queue (seqOf) in
/-- **exactly-once delivery out of the output queue** (every schedule, early stop and failures included): in every
reachable configuration the elements the second-level tasks have put into the OUTPUT queue are, as a multiset, exactly:
what the caller holds (delivered `received`, collected in the running `get_batch`, in hand) ++ what the caller dropped
(`lost`: the partial batch of a raising `get_batch`, the surplus of the batch that reached `num_steps`) ++ what is still
queued.  Nothing is delivered twice, nothing disappears silently. -/
theorem C13_two_output_exactly_once {cap1 cap2 bm1 bm2 mw : Nat} {ns : Option Nat} {fwd ff : Bool}
    {inputs : List InSpec} {gens : List Nat} {c : Piter2.Cfg}
    (h : Reachable F (initF cap1 cap2 bm1 bm2 mw ns fwd ff inputs gens) c) {t : Th} (ht : c.ths[0]? = some t) :
    List.Perm c.s2.produced (seqOf t.b ++ c.s2.lost ++ c.s2.q) := by
  have hg0 := good_initF cap1 cap2 bm1 bm2 mw ns fwd ff inputs gens
  have ho : OutInv (initF cap1 cap2 bm1 bm2 mw ns fwd ff inputs gens) := by
    intro u hu
    simp only [initF, Piter2.init, List.getElem?_cons_zero, Option.some.injEq] at hu
    subst hu
    simp [mkCons, seqOf, Queue.inHand, Queue.inHandPc, initF, Piter2.init]
  have := out_reachable h hg0 ho t ht
  rw [(C13_two_fifo h).2]
  exact this.append_right _

open MlModel.Queue (seqOf) in
/-- **second level, exactly-once on the producer side and delivery side** (every schedule, both kinds of
`iterator_fn`, failures and early stop included) — a `_partial` of conservation across both levels (see the file
header): in every reachable configuration
* the values the caller holds ++ dropped ++ still queued in the output queue are, as a multiset, exactly the values the
  second-level tasks have put (`emitted`), and
* for every second-level task, what it has put is a sublist of `iterator_fn`'s outputs over the values it pulled from
  the input queue, in pull order: no output is invented, none is put twice, the order is kept. -/
theorem C13_two_second_level_exactly_once_partial {cap1 cap2 bm1 bm2 mw : Nat} {ns : Option Nat} {fwd ff : Bool}
    {inputs : List InSpec} {gens : List Nat} {c : Piter2.Cfg}
    (h : Reachable F (initF cap1 cap2 bm1 bm2 mw ns fwd ff inputs gens) c) {t0 : Th} (ht0 : c.ths[0]? = some t0) :
    List.Perm ((seqOf t0.b ++ c.s2.lost ++ c.s2.q).map (·.2)) (c.ths.map em2).flatten ∧
    ∀ t ∈ c.ths, t.role = .l2 → t.emitted.Sublist (t.pulled.flatMap (Fp F)) := by
  have hg0 := good_initF cap1 cap2 bm1 bm2 mw ns fwd ff inputs gens
  have h0 : L2Inv F (initF cap1 cap2 bm1 bm2 mw ns fwd ff inputs gens) := by
    constructor
    · intro t ht _
      simp only [initF, Piter2.init, List.mem_cons, List.mem_append, List.mem_map] at ht
      rcases ht with rfl | ⟨i, _, rfl⟩ | ⟨g, _, rfl⟩ <;> simp [mkCons, mkL1, mkL2, inflight, Queue.putPc]
    · have : ∀ t ∈ (initF cap1 cap2 bm1 bm2 mw ns fwd ff inputs gens).ths, em2 t = [] := by
        intro t ht
        simp only [initF, Piter2.init, List.mem_cons, List.mem_append, List.mem_map] at ht
        rcases ht with rfl | ⟨i, _, rfl⟩ | ⟨g, _, rfl⟩ <;> simp [em2, mkCons, mkL1, mkL2]
      have hfl : ((initF cap1 cap2 bm1 bm2 mw ns fwd ff inputs gens).ths.map em2).flatten = [] := by
        rw [List.flatten_eq_nil_iff]
        intro l hl
        obtain ⟨t, ht, rfl⟩ := List.mem_map.mp hl
        exact this t ht
      rw [hfl]
      simp [initF, Piter2.init]
  have hv := l2inv_reachable h hg0 h0
  refine ⟨((C13_two_output_exactly_once h ht0).map (·.2)).symm.trans hv.prod, fun t ht hr => ?_⟩
  have := hv.bal t ht hr
  rw [List.append_assoc] at this
  exact (List.sublist_append_left _ _).trans this

/-- **exactly-once hand-over from the input queue to the second level** (every schedule, failures, stops): in every
reachable configuration the values taken out of the INPUT queue are, as a multiset, exactly: the values the second-level
tasks have pulled ++ the values on their way (the result of the running `Q1.get_batch`, the value in hand inside it, the
value `DequeueIterator.__next__` returned and `iterator_fn` has not consumed yet) ++ the shared cache of
`DequeueIterator(Q1)` ++ what a raising `get_batch` dropped.  No input value reaches two tasks, none disappears. -/
theorem C13_two_input_exactly_once {cap1 cap2 bm1 bm2 mw : Nat} {ns : Option Nat} {fwd ff : Bool}
    {inputs : List InSpec} {gens : List Nat} {c : Piter2.Cfg}
    (h : Reachable F (initF cap1 cap2 bm1 bm2 mw ns fwd ff inputs gens) c) :
    List.Perm (c.s1.dequeued.map (·.2)) ((c.ths.map own).flatten ++ c.cache.map (·.2) ++ c.s1.lost.map (·.2)) := by
  have hg0 := good_initF cap1 cap2 bm1 bm2 mw ns fwd ff inputs gens
  refine in1_reachable h hg0 ?_
  unfold In1Inv
  have hfl : ((initF cap1 cap2 bm1 bm2 mw ns fwd ff inputs gens).ths.map own).flatten = [] := by
    rw [List.flatten_eq_nil_iff]
    intro l hl
    obtain ⟨t, ht, rfl⟩ := List.mem_map.mp hl
    simp only [initF, Piter2.init, List.mem_cons, List.mem_append, List.mem_map] at ht
    rcases ht with rfl | ⟨i, _, rfl⟩ | ⟨g, _, rfl⟩ <;> simp [own, mkCons, mkL1, mkL2]
  rw [hfl]
  simp [initF, Piter2.init]

/-- **first level, exactly-once on the producer side** (every schedule, failing inputs and stops included) — a
`_partial` of conservation across both levels: in every reachable configuration the values in the INPUT queue's
`produced` are, as a multiset, exactly what the first-level tasks have put; for every first-level task what it has put
is a sublist of what it pulled from its input (a pulled value is put at most once, in order; it is dropped only when the
queue is done), and what it pulled is a PREFIX of the values of its input iterator. -/
theorem C13_two_first_level_exactly_once_partial {cap1 cap2 bm1 bm2 mw : Nat} {ns : Option Nat} {fwd ff : Bool}
    {inputs : List InSpec} {gens : List Nat} {c : Piter2.Cfg}
    (h : Reachable F (initF cap1 cap2 bm1 bm2 mw ns fwd ff inputs gens) c) :
    List.Perm (c.s1.produced.map (·.2)) (c.ths.map em1).flatten ∧
    ∀ t ∈ c.ths, t.role = .l1 → t.emitted.Sublist t.pulled ∧ t.pulled <+: valsOf (itemsOf t.a) := by
  have hg0 := good_initF cap1 cap2 bm1 bm2 mw ns fwd ff inputs gens
  have h0 : L1Inv (initF cap1 cap2 bm1 bm2 mw ns fwd ff inputs gens) := by
    have hall : ∀ t ∈ (initF cap1 cap2 bm1 bm2 mw ns fwd ff inputs gens).ths,
        t.emitted = [] ∧ t.pulled = [] ∧ (t.role = .l1 → t.a.pc = .start) := by
      intro t ht
      simp only [initF, Piter2.init, List.mem_cons, List.mem_append, List.mem_map] at ht
      rcases ht with rfl | ⟨i, _, rfl⟩ | ⟨g, _, rfl⟩ <;> simp [mkCons, mkL1, mkL2]
    refine ⟨fun t ht hr => ?_, fun t ht hr => ?_, ?_⟩
    · obtain ⟨e1, e2, e3⟩ := hall t ht
      simp [e1, e2, inflight1, e3 hr, Queue.putPc]
    · obtain ⟨e1, e2, e3⟩ := hall t ht
      simp [e3 hr, e2]
    · have hfl : ((initF cap1 cap2 bm1 bm2 mw ns fwd ff inputs gens).ths.map em1).flatten = [] := by
        rw [List.flatten_eq_nil_iff]
        intro l hl
        obtain ⟨t, ht, rfl⟩ := List.mem_map.mp hl
        simp [em1, (hall t ht).1]
      rw [hfl]
      simp [initF, Piter2.init]
  have hv := l1inv_reachable h hg0 h0
  refine ⟨hv.prod, fun t ht hr => ⟨(List.sublist_append_left _ _).trans (hv.bal t ht hr), ?_⟩⟩
  have := hv.src t ht hr
  split at this
  · rw [this]; exact List.nil_prefix
  · exact ⟨_, this⟩

/-- **second level, nothing is dropped while the output queue is neither failed nor stopped** (every schedule, both
kinds of `iterator_fn`): in every reachable configuration in which `Q2._exception` is unset and `Q2` has no stop request,
for every second-level task: what it has put into the output queue ++ the output in its hand ++ the outputs it still
holds pending = `iterator_fn`'s outputs over ALL the values it pulled from the input queue, in order — exactly once
each. -/
theorem C13_two_second_level_exact {cap1 cap2 bm1 bm2 mw : Nat} {ns : Option Nat} {fwd ff : Bool}
    {inputs : List InSpec} {gens : List Nat} {c : Piter2.Cfg}
    (h : Reachable F (initF cap1 cap2 bm1 bm2 mw ns fwd ff inputs gens) c) {t : Th} (ht : t ∈ c.ths)
    (hr : t.role = .l2) (hexc : c.s2.exc = none) (hstop : c.s2.stopRequested = false) :
    t.emitted ++ inflight t ++ t.pend = t.pulled.flatMap (Fp F) := by
  have hg0 := good_initF cap1 cap2 bm1 bm2 mw ns fwd ff inputs gens
  have h0 : L2Eq F (initF cap1 cap2 bm1 bm2 mw ns fwd ff inputs gens) := by
    intro u hu _
    simp only [initF, Piter2.init, List.mem_cons, List.mem_append, List.mem_map] at hu
    rcases hu with rfl | ⟨i, _, rfl⟩ | ⟨g, _, rfl⟩ <;> simp [mkCons, mkL1, mkL2, inflight, Queue.putPc]
  exact (l2eq_reachable h hg0 h0 t ht hr).2 ⟨hexc, hstop⟩

/-- **first level, nothing is dropped while the input queue is neither failed nor stopped**: in every reachable
configuration in which `Q1._exception` is unset and `Q1` has no stop request (no upstream stop yet), for every
first-level task: what it has put into the input queue ++ the value in its hand = what it pulled from its input. -/
theorem C13_two_first_level_exact {cap1 cap2 bm1 bm2 mw : Nat} {ns : Option Nat} {fwd ff : Bool}
    {inputs : List InSpec} {gens : List Nat} {c : Piter2.Cfg}
    (h : Reachable F (initF cap1 cap2 bm1 bm2 mw ns fwd ff inputs gens) c) {t : Th} (ht : t ∈ c.ths)
    (hr : t.role = .l1) (hexc : c.s1.exc = none) (hstop : c.s1.stopRequested = false) :
    t.emitted ++ inflight1 t = t.pulled := by
  have hg0 := good_initF cap1 cap2 bm1 bm2 mw ns fwd ff inputs gens
  have h0 : L1Eq (initF cap1 cap2 bm1 bm2 mw ns fwd ff inputs gens) := by
    intro u hu _ _
    simp only [initF, Piter2.init, List.mem_cons, List.mem_append, List.mem_map] at hu
    rcases hu with rfl | ⟨i, _, rfl⟩ | ⟨g, _, rfl⟩ <;> simp [mkCons, mkL1, mkL2, inflight1, Queue.putPc]
  exact l1eq_reachable h hg0 h0 t ht hr ⟨hexc, hstop⟩

/-- test (by `decide`), non-vacuity of `C13_two_no_deadlock` and `C13_two_stuck_all_parked`: two inputs, one
`iterator_fn` task, FIFO pool with 3 workers, both queues of capacity 1 — a complete run (100 steps) ends in a
reachable configuration without enabled step, and it is final -/
example : ∃ c, Reachable (Piter.evalFn .ident none)
      (initF 1 1 1 2 3 none false true [⟨[.val 1], 900, []⟩, ⟨[], 901, []⟩] [800]) c ∧
      c.quiescent (Piter.evalFn .ident none) ∧ c.allDone = true := by
  have h : ((run (Piter.evalFn .ident none)
      (initF 1 1 1 2 3 none false true [⟨[.val 1], 900, []⟩, ⟨[], 901, []⟩] [800])
      (List.replicate 2 0 ++ List.replicate 17 1 ++ [0] ++ List.replicate 16 2 ++ [0] ++ List.replicate 44 3 ++
        List.replicate 19 0)).map fun c => (enabled (Piter.evalFn .ident none) c == [], c.allDone)) =
      some (true, true) := by decide +kernel
  obtain ⟨c, hr, hc⟩ := Option.map_eq_some_iff.mp h
  simp only [Prod.mk.injEq, beq_iff_eq] at hc
  exact ⟨c, reachable_run _ _ _ hr, quiescent_of_enabled_nil hc.1, hc.2⟩

example : PoolOK 2 1 (initF 1 1 1 2 3 none false true [⟨[.val 1], 900, []⟩, ⟨[], 901, []⟩] [800]) := by decide

/-- test (by `decide`): the side condition `gens ≠ []` of `C13_two_no_deadlock` is needed — without an `iterator_fn`
task (unbounded pool) the first-level task fills the input queue and parks, the caller waits for ever (35 steps) -/
example : ((run (Piter.evalFn .ident none) (initF 1 1 1 2 0 none false false [⟨[.val 1], 900, []⟩] [])
      (List.replicate 8 0 ++ List.replicate 27 1)).map fun c =>
        (enabled (Piter.evalFn .ident none) c == [], c.allDone)) = some (true, false) := by decide +kernel

/-- test (by `decide`): the side condition `inputs ≠ []` is needed — without an input the input queue never ends, the
`iterator_fn` task parks in `Q1.get_batch` (18 steps) -/
example : ((run (Piter.evalFn .ident none) (initF 1 1 1 2 0 none false false [] [800])
      (List.replicate 8 0 ++ List.replicate 10 1)).map fun c =>
        (enabled (Piter.evalFn .ident none) c == [], c.allDone)) = some (true, false) := by decide +kernel

/-- test (by `decide`): the case that needs the normalising view.  Pass-through `iterator_fn`, `num_steps = 0`: the
second-level task parks in `Q1.get_batch`, the caller stops both queues (upstream stop), the task wakes up with
`StopIteration()` — NO arguments — and forwards them: it runs `_stop_enqueue()` with empty arguments (`rets = []`) and
ends; the run (52 steps) ends in a quiescent, final configuration. -/
example : ∃ c, Reachable (Piter.evalFn .ident none)
      (initF 1 1 1 2 0 (some 0) true false [⟨[.val 1, .val 2], 900, []⟩] [800]) c ∧
      c.quiescent (Piter.evalFn .ident none) ∧ c.allDone = true ∧
      (c.ths[2]?.map fun t => (t.b.rets, t.a.outcome)) = some ([], some (.stop [])) := by
  have h : ((run (Piter.evalFn .ident none)
      (initF 1 1 1 2 0 (some 0) true false [⟨[.val 1, .val 2], 900, []⟩] [800])
      (List.replicate 3 0 ++ List.replicate 10 2 ++ List.replicate 16 0 ++ List.replicate 19 2 ++ List.replicate 3 1 ++
        [0])).map fun c => (enabled (Piter.evalFn .ident none) c == [], c.allDone,
          c.ths[2]?.map fun t => (t.b.rets, t.a.outcome))) =
      some (true, true, some ([], some (.stop []))) := by decide +kernel
  obtain ⟨c, hr, hc⟩ := Option.map_eq_some_iff.mp h
  simp only [Prod.mk.injEq, beq_iff_eq] at hc
  exact ⟨c, reachable_run _ _ _ hr, quiescent_of_enabled_nil hc.1, hc.2.1, hc.2.2⟩

/-! ## Round 11 (package C13D3): the links composed -/

/-- **conservation across both levels, every run** (failures of inputs or of `iterator_fn`, early stop, every schedule,
every reachable configuration — not only final ones): as MULTISETS
* the values delivered to the caller are part of `iterator_fn`'s outputs over the values the second-level tasks have
  pulled out of the input queue;
* the values the second-level tasks have pulled are part of the values of the input iterators `inputs`;
* hence the delivered values are part of `iterator_fn`'s outputs over all input values.
`List.Subperm` is multiset inclusion: no value is delivered more often than the sequential evaluation produces it —
nothing is duplicated, nothing is invented, at either level.  (The composition of `C13_two_output_exactly_once`,
`_second_level_exactly_once_partial`, `_input_exactly_once`, `_fifo`, `_first_level_exactly_once_partial`.) -/
theorem C13_two_inclusion {cap1 cap2 bm1 bm2 mw : Nat} {ns : Option Nat} {fwd ff : Bool}
    {inputs : List InSpec} {gens : List Nat} {c : Piter2.Cfg}
    (h : Reachable F (initF cap1 cap2 bm1 bm2 mw ns fwd ff inputs gens) c) {t0 : Th} (ht0 : c.ths[0]? = some t0) :
    (t0.b.received.map (·.2)).Subperm ((c.ths.map pulled2).flatten.flatMap (Fp F)) ∧
    (c.ths.map pulled2).flatten.Subperm (inputs.flatMap fun i => valsOf i.items) ∧
    (t0.b.received.map (·.2)).Subperm ((inputs.flatMap fun i => valsOf i.items).flatMap (Fp F)) := by
  obtain ⟨hperm, hsub⟩ := C13_two_second_level_exactly_once_partial h ht0
  obtain ⟨hprod, hsub1⟩ := C13_two_first_level_exactly_once_partial h
  have h1 := delivered_subperm (F := F) hperm hsub
  have h2 := pulled_subperm (C13_two_fifo h).1 (C13_two_input_exactly_once h) hprod hsub1
  rw [inVals_reachable h] at h2
  exact ⟨h1, h2, h1.trans (subperm_flatMap _ h2)⟩

/-- test (by `decide`), non-vacuity: a complete run of two inputs through one `iterator_fn` task; the caller has
received both values -/
example : ∃ c t0, Reachable (Piter.evalFn .ident none)
      (initF 1 1 1 2 3 none false true [⟨[.val 1], 900, []⟩, ⟨[.val 2], 901, []⟩] [800]) c ∧
      c.ths[0]? = some t0 ∧ (t0.b.received.map (·.2)).length = 2 := by
  have h : ((run (Piter.evalFn .ident none)
      (initF 1 1 1 2 3 none false true [⟨[.val 1], 900, []⟩, ⟨[.val 2], 901, []⟩] [800])
      (List.replicate 10 0 ++ List.replicate 17 1 ++ List.replicate 7 2 ++ List.replicate 13 3 ++ List.replicate 23 2 ++
        List.replicate 9 3 ++ List.replicate 18 0 ++ List.replicate 22 3 ++ List.replicate 18 0 ++ List.replicate 14 3 ++
        List.replicate 6 0 ++ List.replicate 7 3 ++ [0])).map fun c =>
          c.ths[0]?.map fun t => (t.b.received.map (·.2)).length) = some (some 2) := by
    decide +kernel
  obtain ⟨c, hr, hc⟩ := Option.map_eq_some_iff.mp h
  obtain ⟨t0, ht0, hl⟩ := Option.map_eq_some_iff.mp hc
  exact ⟨c, t0, reachable_run _ _ _ hr, ht0, hl⟩

/-- **conservation across both levels, runs without failure and without early stop** (every schedule, every number of
inputs and of `iterator_fn` tasks ≥ 1, every capacity of both queues, every batch size of both `DequeueIterator`s, any
pool, generator or pass-through `iterator_fn`): in a reachable FINAL configuration (caller past `shutdown()`, every task
of both levels at its end — by `C13_two_no_deadlock` these are exactly the configurations without enabled step when the
pool satisfies `PoolOK`) in which neither queue has a recorded exception or a stop request and the caller's iteration
was not cut by `num_steps`,
* the values delivered to the caller are a PERMUTATION of `iterator_fn`'s outputs over the values of ALL input
  iterators (`(inputs.flatMap values).flatMap F`: flat-map for a generator `iterator_fn`, the identity for a pass-through);
* nothing is left anywhere: both queues are empty, the shared cache of `DequeueIterator(Q1)` is empty, neither queue
  has dropped an element.
Proof: the links of the chain (`C13_two_fifo`, `_output_exactly_once`, `_second_level_exact`, `_input_exactly_once`,
`_first_level_exact`) + the end-of-run invariants `End1` / `End2` (`Lemmas/Piter2Close.lean`, `Piter2Close2.lean`):
while a queue is neither failed nor stopped, `exhausted ⇒ queue empty`, no `get_batch` drops anything, once a task has
seen the `StopIteration` of the input queue the cache is empty and later `get_batch` calls dequeue nothing, a
first-level task past `_stop_enqueue` has read all of its input, a second-level task past `_stop_enqueue` holds no
pending output. -/
theorem C13_two_multiset {cap1 cap2 bm1 bm2 mw : Nat} {ns : Option Nat} {fwd ff : Bool}
    {inputs : List InSpec} {gens : List Nat} {c : Piter2.Cfg} (hgen : gens ≠ [])
    (h : Reachable F (initF cap1 cap2 bm1 bm2 mw ns fwd ff inputs gens) c) (hdone : c.allDone = true)
    (hexc1 : c.s1.exc = none) (hstop1 : c.s1.stopRequested = false)
    (hexc2 : c.s2.exc = none) (hstop2 : c.s2.stopRequested = false)
    {t0 : Th} (ht0 : c.ths[0]? = some t0) (hearly : t0.early = false) :
    List.Perm (t0.b.received.map (·.2)) ((inputs.flatMap fun i => valsOf i.items).flatMap (Fp F)) ∧
    c.s1.q = [] ∧ c.s2.q = [] ∧ c.cache = [] ∧ c.s1.lost = [] ∧ c.s2.lost = [] :=
  two_multiset hgen h hdone ⟨hexc1, hstop1⟩ ⟨hexc2, hstop2⟩ ht0 hearly
    (C13_two_second_level_exactly_once_partial h ht0).1 (C13_two_input_exactly_once h) (C13_two_fifo h).1

/-- the same for every reachable configuration WITHOUT ENABLED STEP, under the pool condition of
`C13_two_no_deadlock`: a run without failure and early stop cannot end in any other way than with the caller holding a
permutation of the sequential result. -/
theorem C13_two_multiset_quiescent {cap1 cap2 bm1 bm2 mw : Nat} {ns : Option Nat} {fwd ff : Bool}
    {inputs : List InSpec} {gens : List Nat} {c : Piter2.Cfg} (hin : inputs ≠ []) (hgen : gens ≠ [])
    (hpool : PoolOK inputs.length gens.length (initF cap1 cap2 bm1 bm2 mw ns fwd ff inputs gens))
    (h : Reachable F (initF cap1 cap2 bm1 bm2 mw ns fwd ff inputs gens) c) (hq : c.quiescent F)
    (hexc1 : c.s1.exc = none) (hstop1 : c.s1.stopRequested = false)
    (hexc2 : c.s2.exc = none) (hstop2 : c.s2.stopRequested = false)
    {t0 : Th} (ht0 : c.ths[0]? = some t0) (hearly : t0.early = false) :
    List.Perm (t0.b.received.map (·.2)) ((inputs.flatMap fun i => valsOf i.items).flatMap (Fp F)) :=
  (C13_two_multiset hgen h (C13_two_no_deadlock hin hgen hpool h hq) hexc1 hstop1 hexc2 hstop2 ht0 hearly).1

/-- test (by `decide`), non-vacuity of the hypotheses of `C13_two_multiset`: the complete run of the example above ends
in a final configuration without exception, stop request or early stop -/
example : ∃ c t0, Reachable (Piter.evalFn .ident none)
      (initF 1 1 1 2 3 none false true [⟨[.val 1], 900, []⟩, ⟨[.val 2], 901, []⟩] [800]) c ∧
      c.allDone = true ∧ c.s1.exc = none ∧ c.s1.stopRequested = false ∧ c.s2.exc = none ∧
      c.s2.stopRequested = false ∧ c.ths[0]? = some t0 ∧ t0.early = false := by
  have h : ((run (Piter.evalFn .ident none)
      (initF 1 1 1 2 3 none false true [⟨[.val 1], 900, []⟩, ⟨[.val 2], 901, []⟩] [800])
      (List.replicate 10 0 ++ List.replicate 17 1 ++ List.replicate 7 2 ++ List.replicate 13 3 ++ List.replicate 23 2 ++
        List.replicate 9 3 ++ List.replicate 18 0 ++ List.replicate 22 3 ++ List.replicate 18 0 ++ List.replicate 14 3 ++
        List.replicate 6 0 ++ List.replicate 7 3 ++ [0])).map fun c =>
          (c.allDone, c.s1.exc.isNone, c.s1.stopRequested, c.s2.exc.isNone, c.s2.stopRequested,
            c.ths[0]?.map (·.early))) =
      some (true, true, false, true, false, some false) := by decide +kernel
  obtain ⟨c, hr, hc⟩ := Option.map_eq_some_iff.mp h
  simp only [Prod.mk.injEq, Option.map_eq_some_iff, Option.isNone_iff_eq_none] at hc
  obtain ⟨h1, h2, h3, h4, h5, t0, ht0, h6⟩ := hc
  exact ⟨c, t0, reachable_run _ _ _ hr, h1, h2, h3, h4, h5, ht0, h6⟩

/-! ## Round 12 (package C13D4): a failure of the output queue reaches the caller, exactly as a failure -/

open MlModel.Queue (Raise) in
/-- **how the caller's iteration ends** (every schedule, every size, any pool, generator or pass-through `iterator_fn`,
failing inputs and failing `iterator_fn` included): in every reachable configuration in which the caller's iteration
over the output queue has ended (`cpc` = `shutdown` or `fin`) and was not cut by `num_steps` (`early = false`), the
caller holds EXACTLY ONE exception `r` out of `next(DequeueIterator(Q2))` (`iterOutcome`, written by the one step that
leaves the iteration), and
* `r` is never `queue.Empty` (no internal exception leaks);
* no stop request was ever made on the output queue;
* if `r` is a `StopIteration` then the output queue is exhausted and has NO recorded failure — now and in every later
  configuration (the invariant is over all reachable configurations): by producer counting every second-level task
  is past its `_stop_enqueue`, so none can fail any more;
* if `r` is an error then a failure IS recorded in the output queue (the caller never sees an error out of nothing).
Proof: the invariant `FS` of `Lemmas/Piter2Fail.lean` over all 16 step shapes; `Queue.stepThread_exc` (only
`maybe_stop`, a failing `next(iterator)` and a timed-out `put` write `_exception` / `_stop_requested`),
`stepThread_close` (a consumer arms `self.exception or StopIteration(*returned)` as evaluated AFTER `_set_exhausted()`),
`XOK` (armed ⇒ exhausted), `not_done_by_count`. -/
theorem C13_two_caller_outcome {cap1 cap2 bm1 bm2 mw : Nat} {ns : Option Nat} {fwd ff : Bool}
    {inputs : List InSpec} {gens : List Nat} {c : Piter2.Cfg}
    (h : Reachable F (initF cap1 cap2 bm1 bm2 mw ns fwd ff inputs gens) c)
    {t0 : Th} (ht0 : c.ths[0]? = some t0) (hearly : t0.early = false)
    (hend : t0.cpc = .shutdown ∨ t0.cpc = .fin) :
    c.s2.stopRequested = false ∧
    ∃ r, t0.iterOutcome = some r ∧ r ≠ Raise.empty ∧
      (∀ rets, r = Raise.stop rets → c.s2.exc = none ∧ c.s2.exhausted = true) ∧
      (∀ e, r = Raise.err e → c.s2.exc.isSome = true) := by
  have f := fs_reachable (good_initF cap1 cap2 bm1 bm2 mw ns fwd ff inputs gens)
    (fs_init cap1 cap2 bm1 bm2 mw ns fwd ff inputs gens) h t0 ht0 hearly
  obtain ⟨r, hr, ho⟩ := f.out hend
  exact ⟨f.nostop, r, hr, ho.1, fun rets e => ho.2.1 (by rw [e]; rfl), fun e' e => ho.2.2 (by rw [e]; rfl)⟩

open MlModel.Queue (Raise) in
/-- **a failure of the output queue surfaces, once, as a failure** (every schedule, every size; the second half of
C13's "fails ⇒ the failure is observed"): in a reachable FINAL configuration (caller past `shutdown()`, every task of
both levels at its end — under `PoolOK` exactly the configurations without enabled step, `C13_two_no_deadlock`) whose
output queue has a recorded exception — `iterator_fn` raised on some value, or `next(DequeueIterator(Q1))` raised in a
second-level task — and whose caller was not cut by `num_steps`, the caller's iteration ended with an ERROR: never
with a clean `StopIteration`, never with `queue.Empty`; and it ended once (`iterOutcome` is the single exception that
left the `for` loop). -/
theorem C13_two_failure_surfaces_once {cap1 cap2 bm1 bm2 mw : Nat} {ns : Option Nat} {fwd ff : Bool}
    {inputs : List InSpec} {gens : List Nat} {c : Piter2.Cfg}
    (h : Reachable F (initF cap1 cap2 bm1 bm2 mw ns fwd ff inputs gens) c) (hdone : c.allDone = true)
    {t0 : Th} (ht0 : c.ths[0]? = some t0) (hearly : t0.early = false) (hexc : c.s2.exc.isSome = true) :
    ∃ e, t0.iterOutcome = some (Raise.err e) := by
  have g := good_reachable (good_initF cap1 cap2 bm1 bm2 mw ns fwd ff inputs gens) h
  have hfin : t0.cpc = .fin := by
    unfold Piter2.Cfg.allDone at hdone
    rw [List.all_eq_true] at hdone
    have := hdone t0 (List.mem_of_getElem? ht0)
    simpa [Th.done, (g.inv.role0 0 t0 ht0).mpr rfl] using this
  obtain ⟨-, r, hr, hne, hstop, -⟩ := C13_two_caller_outcome h ht0 hearly (.inr hfin)
  cases r with
  | empty => exact absurd rfl hne
  | stop rets =>
    have := (hstop rets rfl).1
    rw [this] at hexc; cases hexc
  | err e => exact ⟨e, hr⟩

open MlModel.Queue (Raise) in
/-- the converse reading, for EVERY reachable configuration (not only final ones): once the caller has left its
iteration with a clean `StopIteration` (not its own early stop), the output queue has no recorded exception — a
second-level task cannot fail "behind the caller's back" after the end of the stream was delivered. -/
theorem C13_two_stop_means_no_failure {cap1 cap2 bm1 bm2 mw : Nat} {ns : Option Nat} {fwd ff : Bool}
    {inputs : List InSpec} {gens : List Nat} {c : Piter2.Cfg}
    (h : Reachable F (initF cap1 cap2 bm1 bm2 mw ns fwd ff inputs gens) c)
    {t0 : Th} (ht0 : c.ths[0]? = some t0) (hearly : t0.early = false)
    (hend : t0.cpc = .shutdown ∨ t0.cpc = .fin) {rets : List Nat} (hout : t0.iterOutcome = some (Raise.stop rets)) :
    c.s2.exc = none ∧ c.s2.stopRequested = false ∧ c.s2.exhausted = true := by
  obtain ⟨hns, r, hr, -, hstop, -⟩ := C13_two_caller_outcome h ht0 hearly hend
  rw [hout] at hr
  obtain rfl := Option.some.inj hr
  exact ⟨(hstop rets rfl).1, hns, (hstop rets rfl).2⟩

/-- test (by `decide`), non-vacuity of `C13_two_failure_surfaces_once`, failing `iterator_fn`: two inputs, `iterator_fn`
raises on the value 2; a complete run (110 steps) ends in a final configuration with `Q2._exception` set, no early
stop, and the caller holding the error -/
example : ∃ c t0, Reachable (fun v => if v = 2 then none else some [v])
      (initF 1 1 1 2 3 none false true [⟨[.val 1], 900, []⟩, ⟨[.val 2], 901, []⟩] [800]) c ∧
      c.allDone = true ∧ c.ths[0]? = some t0 ∧ t0.early = false ∧ c.s2.exc.isSome = true ∧ c.s1.exc = none := by
  have h : ((run (fun v => if v = 2 then none else some [v])
      (initF 1 1 1 2 3 none false true [⟨[.val 1], 900, []⟩, ⟨[.val 2], 901, []⟩] [800])
      (List.replicate 2 0 ++ List.replicate 17 1 ++ [0] ++ List.replicate 7 2 ++ [0] ++ List.replicate 31 3 ++
        List.replicate 8 2 ++ List.replicate 30 3 ++ List.replicate 2 2 ++ List.replicate 11 0)).map fun c =>
          (c.allDone, c.ths[0]?.map (·.early), c.s2.exc.isSome, c.s1.exc.isNone)) =
      some (true, some false, true, true) := by decide +kernel
  obtain ⟨c, hr, hc⟩ := Option.map_eq_some_iff.mp h
  simp only [Prod.mk.injEq, Option.map_eq_some_iff, Option.isNone_iff_eq_none] at hc
  obtain ⟨h1, ⟨t0, ht0, h2⟩, h3, h4⟩ := hc
  exact ⟨c, t0, reachable_run _ _ _ hr, h1, ht0, h2, h3, h4⟩

/-- test (by `decide`), non-vacuity, failing INPUT: the first input iterator raises; the error travels through the
input queue to the second-level task and from there into the output queue (61 steps) -/
example : ∃ c t0, Reachable (Piter.evalFn .ident none)
      (initF 1 1 1 2 3 none false true [⟨[.fail], 900, []⟩, ⟨[.val 2], 901, []⟩] [800]) c ∧
      c.allDone = true ∧ c.ths[0]? = some t0 ∧ t0.early = false ∧ c.s2.exc.isSome = true ∧ c.s1.exc.isSome = true := by
  have h : ((run (Piter.evalFn .ident none)
      (initF 1 1 1 2 3 none false true [⟨[.fail], 900, []⟩, ⟨[.val 2], 901, []⟩] [800])
      (List.replicate 2 0 ++ List.replicate 16 1 ++ [0] ++ List.replicate 3 2 ++ [0] ++ List.replicate 31 3 ++
        List.replicate 7 0)).map fun c =>
          (c.allDone, c.ths[0]?.map (·.early), c.s2.exc.isSome, c.s1.exc.isSome)) =
      some (true, some false, true, true) := by decide +kernel
  obtain ⟨c, hr, hc⟩ := Option.map_eq_some_iff.mp h
  simp only [Prod.mk.injEq, Option.map_eq_some_iff] at hc
  obtain ⟨h1, ⟨t0, ht0, h2⟩, h3, h4⟩ := hc
  exact ⟨c, t0, reachable_run _ _ _ hr, h1, ht0, h2, h3, h4⟩

/-- **without `num_steps` the caller never stops early and the output queue is never stopped** (every schedule,
every size, failures included) — the first of the clean-run hypotheses of `C13_two_multiset` DERIVED FROM THE INPUTS:
for `num_steps = None`, in every reachable configuration the caller's `early` flag is unset and no stop request was
made on the output queue (only `DequeueIterator.__next__` reaching `num_steps` calls `Q2.maybe_stop()`). -/
theorem C13_two_no_early_stop {cap1 cap2 bm1 bm2 mw : Nat} {fwd ff : Bool}
    {inputs : List InSpec} {gens : List Nat} {c : Piter2.Cfg}
    (h : Reachable F (initF cap1 cap2 bm1 bm2 mw none fwd ff inputs gens) c)
    {t0 : Th} (ht0 : c.ths[0]? = some t0) : t0.early = false ∧ c.s2.stopRequested = false := by
  have he := early_reachable h t0 ht0
  exact ⟨he, (fs_reachable (good_initF cap1 cap2 bm1 bm2 mw none fwd ff inputs gens)
    (fs_init cap1 cap2 bm1 bm2 mw none fwd ff inputs gens) h t0 ht0 he).nostop⟩

/-- `C13_two_multiset` for `num_steps = None` with two of its hypotheses discharged (`early = false`, no stop request on
the output queue): in a reachable final configuration in which no exception is recorded in either queue and the input
queue was not stopped, the delivered values are a permutation of `iterator_fn` over all input values.
Still `_partial` with respect to "for clean inputs": `Q1._exception = Q2._exception = None` and "no upstream stop" are
hypotheses on the final configuration, not yet derived from `no Item.fail` / `F` total on the input values (the
failure theorems above give the other direction: a recorded `Q2` failure always surfaces). -/
theorem C13_two_multiset_no_num_steps_partial {cap1 cap2 bm1 bm2 mw : Nat} {fwd ff : Bool}
    {inputs : List InSpec} {gens : List Nat} {c : Piter2.Cfg} (hgen : gens ≠ [])
    (h : Reachable F (initF cap1 cap2 bm1 bm2 mw none fwd ff inputs gens) c) (hdone : c.allDone = true)
    (hexc1 : c.s1.exc = none) (hstop1 : c.s1.stopRequested = false) (hexc2 : c.s2.exc = none)
    {t0 : Th} (ht0 : c.ths[0]? = some t0) :
    List.Perm (t0.b.received.map (·.2)) ((inputs.flatMap fun i => valsOf i.items).flatMap (Fp F)) ∧
    (∃ rets, t0.iterOutcome = some (Queue.Raise.stop rets)) := by
  obtain ⟨he, hs2⟩ := C13_two_no_early_stop h ht0
  refine ⟨(C13_two_multiset hgen h hdone hexc1 hstop1 hexc2 hs2 ht0 he).1, ?_⟩
  have g := good_reachable (good_initF cap1 cap2 bm1 bm2 mw none fwd ff inputs gens) h
  have hfin : t0.cpc = .fin := by
    unfold Piter2.Cfg.allDone at hdone
    rw [List.all_eq_true] at hdone
    have := hdone t0 (List.mem_of_getElem? ht0)
    simpa [Th.done, (g.inv.role0 0 t0 ht0).mpr rfl] using this
  obtain ⟨-, r, hr, hne, -, herr⟩ := C13_two_caller_outcome h ht0 he (.inr hfin)
  cases r with
  | empty => exact absurd rfl hne
  | stop rets => exact ⟨rets, hr⟩
  | err e =>
    -- an error in the caller's hand means `Q2._exception` is set
    have := herr e rfl
    rw [hexc2] at this; cases this

end MlModel.C13
