import MlModel.Lemmas.RemoteMulti
/-!
# C14 — several clients of one server, and what `clear_cache` may drop

"chains of attribute access, indexing and calls on a remote object behave like on the local object while the
object itself stays on the server … for all client call orders and concurrent clients" — for histories that
interleave the requests of ANY number of clients (each with its own options) on one server, the maintenance
methods `clear_cache` / `cache_info` / `heartbeat` included (`Model/RemoteMulti.lean`).

`clear_cache` (courier method → `lazy_fns.clear_cache()`) drops the memoised results of `cache_result_` calls and
nothing else: the id-addressed object table every client's handles point into, the objects and the generators are
untouched — whoever calls it.  The seeded change C14-m6 (the method also calls `lazy_fns.clear_object()`) is
`mstepMutant`: after it EVERY handle of EVERY client is missing.
-/
namespace MlModel.C14
open MlModel MlModel.Lazy MlModel.RemoteState MlModel.RemoteOpts MlModel.RemoteMulti

/-- **Every history of any number of clients.**  Requests of clients `0, 1, 2, …` (options `cfgs c`, arbitrary)
interleaved in any order on one server — new remote objects, attribute / item / call chains, lazy calls (second
handles), iterators over live objects, generators with a return value or a failure iterated through
`RemoteIterator`, and the maintenance methods `clear_cache`, `cache_info`, `heartbeat` at any position by any
client: what the clients observe (forgetting which client and which options) is the same history on local
objects by ordinary Python, step by step, and the server's objects and generators end in the state of the local
ones.  (Server not shutting down: `C14_shutdown*` cover that.) -/
theorem C14_multi_client_history (cfgs : Nat → ClientCfg) (ops : List COp) (s : MSrv)
    (hs : s.shutdown = false) (hd : s.dead = false) (hp : ∀ o ∈ ops, o.op.plain = true) :
    (mrun cfgs ops s).1.map MObs.erase = (mlocalRun (ops.map (·.op)) s.loc).1 ∧
    (mrun cfgs ops s).2.loc = (mlocalRun (ops.map (·.op)) s.loc).2 :=
  mrun_eq_local cfgs ops s hs hd hp

/-- In particular WHICH client sends a request, and with which options (`iterate_batch_size`, `call_timeout`,
`max_parallelism`, `heartbeat_threshold_secs`), changes nothing: two histories with the same requests show the
same observations and leave the same objects. -/
theorem C14_multi_client_irrelevant (cfgs cfgs' : Nat → ClientCfg) (ops ops' : List COp) (s : MSrv)
    (hs : s.shutdown = false) (hd : s.dead = false) (hp : ∀ o ∈ ops, o.op.plain = true)
    (hsame : ops.map (·.op) = ops'.map (·.op)) :
    (mrun cfgs ops s).1.map MObs.erase = (mrun cfgs' ops' s).1.map MObs.erase ∧
    (mrun cfgs ops s).2.loc = (mrun cfgs' ops' s).2.loc := by
  have hp' : ∀ o ∈ ops', o.op.plain = true := by
    intro o ho
    have : o.op ∈ ops'.map (·.op) := List.mem_map.mpr ⟨o, ho, rfl⟩
    rw [← hsame] at this
    obtain ⟨o2, h2, e2⟩ := List.mem_map.mp this
    rw [← e2]; exact hp o2 h2
  obtain ⟨a1, a2⟩ := mrun_eq_local cfgs ops s hs hd hp
  obtain ⟨b1, b2⟩ := mrun_eq_local cfgs' ops' s hs hd hp'
  rw [a1, a2, b1, b2, hsame]
  exact ⟨rfl, rfl⟩

/-- **`clear_cache` keeps every handle.**  The courier method `clear_cache`, called by ANY client in ANY server
state, answers `None`, empties the memoisation cache of `cache_result_` calls, and leaves untouched: the
id-addressed object table (every id still denotes the object it denoted), the objects themselves, the id counter,
the generators and their handles, the shutdown flag. -/
theorem C14_clear_cache_keeps_handles (cfgs : Nat → ClientCfg) (c : Nat) (s : MSrv) :
    (mstep cfgs ⟨c, .clearCache⟩ s).1 = .none ∧
    (mstep cfgs ⟨c, .clearCache⟩ s).2.st.hnd = s.st.hnd ∧
    (mstep cfgs ⟨c, .clearCache⟩ s).2.st.heap = s.st.heap ∧
    (mstep cfgs ⟨c, .clearCache⟩ s).2.st.nextId = s.st.nextId ∧
    (mstep cfgs ⟨c, .clearCache⟩ s).2.pool = s.pool ∧ (mstep cfgs ⟨c, .clearCache⟩ s).2.gh = s.gh ∧
    (mstep cfgs ⟨c, .clearCache⟩ s).2.shutdown = s.shutdown ∧
    (mstep cfgs ⟨c, .clearCache⟩ s).2.st.fnc.data = [] ∧ (mstep cfgs ⟨c, .clearCache⟩ s).2.st.fnc.currsize = 0 :=
  ⟨rfl, rfl, rfl, rfl, rfl, rfl, rfl, rfl, rfl⟩

/-- …so a handle obtained by one client keeps working after another client's `clear_cache`: the very next
request on ANY handle `h` (chain of any links) answers exactly what it answers without the `clear_cache`, and
leaves the same objects. -/
theorem C14_clear_cache_then_handle (cfgs : Nat → ClientCfg) (c c' : Nat) (h : Nat) (ls : List SLink) (lazy : Bool)
    (s : MSrv) :
    (mstep cfgs ⟨c', .ev (.get h ls lazy)⟩ (mstep cfgs ⟨c, .clearCache⟩ s).2).1 =
      (mstep cfgs ⟨c', .ev (.get h ls lazy)⟩ s).1 ∧
    (mstep cfgs ⟨c', .ev (.get h ls lazy)⟩ (mstep cfgs ⟨c, .clearCache⟩ s).2).2.st.heap =
      (mstep cfgs ⟨c', .ev (.get h ls lazy)⟩ s).2.st.heap := by
  have key : ∀ e : CExpr, e.cacheFree = true →
      evalC e (RemoteState.clearCache s.st) = ((evalC e s.st).1, { (evalC e s.st).2 with fnc := s.st.fnc.clear }) :=
    fun e he => (evalC_cacheFree e s.st s.st.fnc.clear he).2
  have hstep : remoteStep (.get h ls lazy) (RemoteState.clearCache s.st) =
      ((remoteStep (.get h ls lazy) s.st).1,
       { (remoteStep (.get h ls lazy) s.st).2 with fnc := s.st.fnc.clear }) := by
    cases lazy with
    | false =>
      simp only [remoteStep, remoteStepWith, Bool.false_eq_true, if_false]
      rw [key _ (by simp [cacheFree_chainR, CExpr.cacheFree])]
      simp [obsOf]
    | true =>
      simp only [remoteStep, remoteStepWith, if_true]
      cases hl : ls.getLast? with
      | none =>
        simp only []
        rw [key _ (by simp [CExpr.cacheFree])]
        simp [obsOf]
      | some l =>
        simp only []
        rw [key _ (by simp [cacheFree_chainR, CExpr.cacheFree])]
        simp [obsOf]
  simp only [mstep, evalStep, hstep]
  by_cases hd : s.dead = true
  · simp [hd, RemoteState.clearCache]
  · by_cases hc : (s.shutdown && (wrapObs (cfgs c') (remoteStep (.get h ls lazy) s.st).1).isErr) = true
    · simp [hd, hc]
    · simp [hd, hc]

/-- **`clear_cache` is transparent in every history**: take any history of any clients (flag-free requests) and
insert a `clear_cache` by any client at any position — every OTHER request is answered as before, and the objects
end in the same state. -/
theorem C14_clear_cache_transparent (cfgs : Nat → ClientCfg) (c : Nat) (pre post : List COp) (s : MSrv)
    (hs : s.shutdown = false) (hd : s.dead = false) (hp : ∀ o ∈ pre ++ post, o.op.plain = true) :
    ((mrun cfgs (pre ++ ⟨c, .clearCache⟩ :: post) s).1.map MObs.erase).eraseIdx pre.length =
      (mrun cfgs (pre ++ post) s).1.map MObs.erase ∧
    (mrun cfgs (pre ++ ⟨c, .clearCache⟩ :: post) s).2.loc = (mrun cfgs (pre ++ post) s).2.loc := by
  have hp' : ∀ o ∈ pre ++ ⟨c, .clearCache⟩ :: post, o.op.plain = true := by
    intro o ho
    simp only [List.mem_append, List.mem_cons] at ho
    rcases ho with ho | ho | ho
    · exact hp o (by simp [ho])
    · subst ho; rfl
    · exact hp o (by simp [ho])
  obtain ⟨a1, a2⟩ := mrun_eq_local cfgs _ s hs hd hp'
  obtain ⟨b1, b2⟩ := mrun_eq_local cfgs _ s hs hd hp
  rw [a1, a2, b1, b2]
  simp only [List.map_append, List.map_cons]
  have := mlocalRun_clear (pre.map (·.op)) (post.map (·.op)) s.loc
  simp only [List.length_map] at this
  exact this

/-- **The seeded change C14-m6 breaks every handle of every client**: once the `clear_cache` method also clears
the object table, a request of ANY client `c'` on ANY handle `h` — whatever links — answers
`LazyObjectMissingError`, from every server state. -/
theorem C14_clear_cache_mutant_breaks_every_handle (cfgs : Nat → ClientCfg) (c c' : Nat) (h : Nat) (ls : List SLink)
    (s : MSrv) (hs : s.shutdown = false) (hd : s.dead = false) :
    (mstep cfgs ⟨c', .ev (.get h ls false)⟩ (mstepMutant cfgs ⟨c, .clearCache⟩ s).2).1 = .st (.err .missing) := by
  have hm := evalC_handle_chain_missing h ls { clearCache s.st with hnd := [] } (by simp)
  simp only [mstep, mstepMutant, evalStep, remoteStep, remoteStepWith, hs, hd, Bool.false_eq_true, if_false,
    Bool.false_and]
  rw [hm]
  rfl

/-! ## Non-vacuity and witnesses (tests, `decide`) -/

/-- client 1 has `iterate_batch_size = 4`, `call_timeout = 30`; client 0 the defaults -/
def cfgs2 : Nat → ClientCfg
  | 1 => { iterateBatchSize := 4, callTimeout := 30, maxParallelism := 3 }
  | _ => {}

/-- the history of `seeded/C14-m6-clear-cache-drops-remote-objects/demo.py`: client 1 creates a counter and uses it,
client 0 memoises a read and calls `clear_cache`, client 1 goes on using its handle; plus a failing generator
iterated by client 1 across the `clear_cache` -/
def histClear : List COp :=
  [⟨1, .ev (.mk .counter [.int 10])⟩, ⟨1, .ev (.get 0 [.attr "add", .call [.int 1]] false)⟩,
   ⟨0, .ev (.getF 0 [{ l := .attr "total", cache := true }])⟩,
   ⟨1, .gen [.int 7, .int 8] (.fail { kind := .py .value, msg := "boom" })⟩, ⟨1, .giter 1⟩, ⟨1, .gnext 2⟩,
   ⟨1, .ev (.get 0 [.attr "add", .call [.int 5]] false)⟩,
   ⟨0, .ev (.getF 0 [{ l := .attr "total", cache := true }])⟩,
   ⟨0, .clearCache⟩,
   ⟨0, .ev (.getF 0 [{ l := .attr "total", cache := true }])⟩,
   ⟨1, .ev (.get 0 [.attr "add", .call [.int 1]] false)⟩, ⟨1, .ev (.get 0 [.attr "total"] false)⟩,
   ⟨1, .gnext 2⟩, ⟨1, .gnext 2⟩, ⟨1, .gnext 1⟩, ⟨0, .cacheInfo⟩]

example : (mrun cfgs2 histClear (MSrv.init 128)).1 =
    [.handle 0 (cfgs2 1), .st (.val (.int 11)), .st (.val (.int 11)), .handle 1 (cfgs2 1), .handle 2 (cfgs2 1),
     .elem (.int 7), .st (.val (.int 16)), .st (.val (.int 11)) /- memoised: stale by design -/, .none,
     .st (.val (.int 16)) /- recomputed after clear_cache -/, .st (.val (.int 17)), .st (.val (.int 17)),
     .elem (.int 8), .raised { kind := .py .value, msg := "boom" }, .raised (Remote.stopExc []),
     .info 0 1 1] := by decide

/-- with the seeded change the same history answers `LazyObjectMissingError` for every request on the counter
after client 0's `clear_cache` (the generator, which the model keeps outside the object table, is unaffected
here; in the real code its handle is lost as well — the check's oracle sees that) -/
theorem C14_clear_cache_mutant_witness :
    ((mrunMutant cfgs2 histClear (MSrv.init 128)).1.drop 9).take 3 =
      [.st (.err .missing), .st (.err .missing), .st (.err .missing)] ∧
    ((mrun cfgs2 histClear (MSrv.init 128)).1.drop 9).take 3 =
      [.st (.val (.int 16)), .st (.val (.int 17)), .st (.val (.int 17))] := by decide

end MlModel.C14
