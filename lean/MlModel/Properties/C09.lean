import MlModel.Model.Shard
import MlModel.Model.Merged
import MlModel.Lemmas.Merged
import MlModel.Lemmas.RangeIter
import MlModel.Lemmas.MergedChain
import MlModel.Lemmas.Shard
import MlModel.Lemmas.RoundRobin
import MlModel.Lemmas.ShardRecv
import MlModel.Lemmas.ShardResumeBridge
/-!
# C09 — Sharding partitions a data source exactly; merged sequences = concatenation

Models: `Model/Shard.lean` (`SequenceDataSource.shard/from_state/__len__`, `ShardedIterable`/`DataIterator`),
`Model/Merged.lean` (`MergedSequences._index/slice/__getitem__/__iter__`, `_RangeIterator`, `itertools.chain`),
both of the code *after* the `fix:` commits for findings F10a-d.

Conventions: a data source `d` is well-formed (`d.WF`) when `0 <= start <= end <= len(data)`; this holds
for `SequenceDataSource(data)` and is preserved by `shard(i, k, offset)` for `0 <= i < k`,
`0 <= offset <= size` (`C09_shard_wf`).  `d.elems xs` is `list(d)` when `list(d.data) = xs`.
Python list semantics are the small specification functions `Merged.pyIndex` / `Merged.pySlice`.
-/
namespace MlModel.C09
open MlModel.Shard MlModel.Merged

/-! ## Contiguous sharding of a sequence data source -/

/-- `shard` validates exactly `num_shards >= 1`. -/
theorem C09_shard_ok (d : DS) (i k off : Int) (hk : 1 ≤ k) :
    d.shard i k off = .ok (d.shardCore i k off) := by
  unfold DS.shard; rw [if_neg (by omega)]

theorem C09_shard_invalid (d : DS) (i k off : Int) (hk : k < 1) :
    d.shard i k off = .error .value := by
  unfold DS.shard; rw [if_pos hk]

/-- The root data source is well-formed, and so is every shard `0 <= i < k` with an offset within
the shard (so the theorems below apply to shards of shards of shards …). -/
theorem C09_root_wf (n : Nat) : (DS.root n).WF := by
  simp [DS.WF, DS.root, DS.end]

theorem C09_shard_wf (d : DS) (hwf : d.WF) (i k : Nat) (hk : 1 ≤ k) (hi : i < k) (off : Nat)
    (hoff : (off : Int) ≤ shardSize (d.end - d.start) k i) :
    (d.shardCore i k off).WF :=
  shardCore_wf d hwf i k hk hi off (by omega) hoff

/-- **Partition.**  For every well-formed data source (any nesting depth, any offsets so far), every
`k >= 1`: the concatenation of `list(d.shard(i, k))` for `i = 0..k-1` is `list(d)`.  Hence the shards
are complete, order preserving, and (positions being disjoint consecutive intervals) pairwise disjoint. -/
theorem C09_partition {α : Type} (d : DS) (hwf : d.WF) (xs : List α) (hlen : xs.length = d.dataLen)
    (k : Nat) (hk : 1 ≤ k) :
    (List.range k).flatMap (fun (i : Nat) => (d.shardCore (i : Int) (k : Int) 0).elems xs) = d.elems xs :=
  partition_elems d hwf xs hlen k hk

/-- The shards occupy consecutive index intervals `[b i, b (i+1))` with `b 0 = start`, `b k = end`
(explicit form of "pairwise disjoint and complete"). -/
theorem C09_intervals (d : DS) (hwf : d.WF) (k : Nat) (hk : 1 ≤ k) :
    (d.shardCore (0 : Nat) k 0).start = d.start ∧
    (d.shardCore ((k - 1 : Nat) : Int) k 0).end = d.end ∧
    ∀ i : Nat, i + 1 < k → (d.shardCore (i : Int) k 0).end = (d.shardCore ((i + 1 : Nat) : Int) k 0).start := by
  obtain ⟨_, _, hz, hl, _, _, _⟩ := bounds_facts d hwf k hk
  refine ⟨?_, ?_, ?_⟩
  · rw [shardCore_start d 0 k hk 0, hz]; omega
  · rw [shardCore_end d (k - 1) k hk 0]
    have : k - 1 + 1 = k := by omega
    rw [this, hl]
  · intro i _
    rw [shardCore_end d i k hk 0, shardCore_start d (i + 1) k hk 0]; omega

/-- **Balanced.**  Shard `i` of `k` over `n = len(d)` elements has `n / k + (1 if i < n % k else 0)` elements. -/
theorem C09_balanced (d : DS) (i k : Nat) (hk : 1 ≤ k) :
    (d.shardCore i k 0).rawLen = shardSize (d.end - d.start) k i := by
  rw [shardCore_rawLen d i k hk 0]; omega

/-- Sizes differ by at most one and are non-increasing in the shard index. -/
theorem C09_balanced_diff (n : Int) (k i j : Nat) :
    shardSize n k i - shardSize n k j ≤ 1 ∧ shardSize n k j - shardSize n k i ≤ 1 := by
  unfold shardSize
  constructor <;> split <;> split <;> omega

theorem C09_balanced_mono (n : Int) (k i j : Nat) (hij : i ≤ j) : shardSize n k j ≤ shardSize n k i := by
  unfold shardSize
  split <;> split <;> omega

/-- More shards than elements: `n` singletons, then empty shards. -/
theorem C09_more_shards_than_elements (n k i : Nat) (hk : n < k) :
    shardSize (n : Int) k i = if i < n then 1 else 0 := by
  unfold shardSize
  have h1 : (n : Int) / (k : Int) = 0 := Int.ediv_eq_zero_of_lt (by omega) (by omega)
  have h2 : (n : Int) % (k : Int) = n := Int.emod_eq_of_lt (by omega) (by omega)
  rw [h1, h2]
  split <;> split <;> omega

/-- **Length.**  `len(d)` is the number of elements `d` yields. -/
theorem C09_len {α : Type} (d : DS) (hwf : d.WF) (xs : List α) (hlen : xs.length = d.dataLen) :
    d.len = .ok (d.elems xs).length :=
  len_wf d hwf xs hlen

/-- **Offsets.**  `shard(i, k, offset)` is `shard(i, k)` without its first `offset` elements. -/
theorem C09_offset {α : Type} (d : DS) (hwf : d.WF) (xs : List α) (hlen : xs.length = d.dataLen)
    (i k : Nat) (hk : 1 ≤ k) (hi : i < k) (off : Nat)
    (hoff : (off : Int) ≤ shardSize (d.end - d.start) k i) :
    (d.shardCore i k off).elems xs = ((d.shardCore i k 0).elems xs).drop off :=
  offset_elems d hwf xs hlen i k hk hi off hoff

/-- **Nested shards**, by induction on the chain of shard counts: all depth-`ks.length` shards of
shards, in order, concatenate to the source; each is well-formed (so `C09_len`, `C09_partition`, …
apply to it again). -/
theorem C09_nested {α : Type} (ks : List Nat) (hks : ∀ k ∈ ks, 1 ≤ k) (d : DS) (hwf : d.WF)
    (xs : List α) (hlen : xs.length = d.dataLen) :
    (d.allShards ks).flatMap (fun s => s.elems xs) = d.elems xs ∧
    ∀ s ∈ d.allShards ks, s.WF ∧ s.dataLen = d.dataLen :=
  allShards_spec ks hks d hwf xs hlen

/-- **State round trip.**  For *every* chain of `shard` calls from the root (any indices, counts,
offsets for which the calls succeed): `root.from_state(s.state)` succeeds and has the same interval
over the same data — hence the same elements and the same length.  (Its `state` is `s.state` with one
more default `ShardConfig()` layer at the root, which replays to the same interval again.) -/
theorem C09_state_roundtrip (n : Nat) (chain : List (Int × Int × Int)) (s : DS)
    (hs : (DS.root n).shardChain chain = .ok s) :
    ∃ s', fromState n s.state = .ok s' ∧ s'.start = s.start ∧ s'.end = s.end ∧ s'.dataLen = s.dataLen := by
  obtain ⟨d0, h0, hi⟩ := fromState_root n
  exact roundtrip_chain n chain (DS.root n) d0 s h0 hi hs

theorem C09_state_roundtrip_elems {α : Type} (n : Nat) (chain : List (Int × Int × Int)) (s : DS)
    (hs : (DS.root n).shardChain chain = .ok s) (xs : List α) :
    ∃ s', fromState n s.state = .ok s' ∧ s'.elems xs = s.elems xs ∧ s'.len = s.len := by
  obtain ⟨s', h1, h2, h3, _⟩ := C09_state_roundtrip n chain s hs
  refine ⟨s', h1, ?_, ?_⟩
  · unfold DS.elems; rw [h2, h3]
  · unfold DS.len DS.rawLen; rw [h2, h3]

/-! ## Round-robin sharding of an iterable -/

/-- The indices delivered by shard `i` of `k` resumed at `start`. -/
def rrIndices (n : Nat) (i k start : Int) : List Nat :=
  (List.range n).filter fun j => rrSel i k start j

/-- **Round robin.**  For every iterable `xs`, shard index, shard count and resume position, *any* number
`m` of `next` calls on `ShardedIterable(xs, ShardConfig(i, k, start))` returns exactly the elements at the
indices `j >= start`, `j % k == i`, in order, then `StopIteration` for ever. -/
theorem C09_round_robin {α : Type} (xs : List α) (i k start : Int) (m : Nat) :
    rrNexts xs i k start m 0
      = (((rrIndices xs.length i k start).filterMap (xs[·]?)).map some ++ List.replicate m none).take m := by
  rw [rrNexts_spec xs i k start m 0 (Nat.zero_le _)]
  congr 3
  unfold rrRem rrIndices
  rw [Nat.sub_zero, ← List.range_eq_range', List.filterMap_filter]

/-- The `k` shards partition the iterable: every index `j < n` is delivered by exactly the shard `j % k`;
each shard's index list is a sublist of `0..n-1` (ascending, no repetition). -/
theorem C09_round_robin_partition (n k : Nat) (i j : Nat) (hj : j < n) :
    j ∈ rrIndices n i k 0 ↔ i = j % k := by
  unfold rrIndices rrSel
  simp only [List.mem_filter, List.mem_range, hj, true_and, decide_eq_true_eq]
  constructor
  · intro ⟨_, h⟩; omega
  · intro h; exact ⟨by omega, by omega⟩

theorem C09_round_robin_sublist (n : Nat) (i k start : Int) :
    (rrIndices n i k start).Sublist (List.range n) :=
  List.filter_sublist

theorem C09_round_robin_invalid (k : Int) : rrMake k = .error .value ↔ k < 1 := by
  unfold rrMake; split <;> simp_all

/-! ## Merged sequences = concatenation -/

theorem C09_merged_len {α : Type} (parts : List (List α)) :
    total (parts.map List.length) = parts.flatten.length :=
  total_map_length parts

/-- **Index.**  For every split into (possibly empty) parts and *every* Python int `i` — in range,
negative, or out of range — `merged[i]` is `concatenation[i]` (the element, or `IndexError`). -/
theorem C09_merged_index {α : Type} (parts : List (List α)) (i : Int) :
    getitem parts i = pyIndex parts.flatten i :=
  getitem_eq_pyIndex parts i

/-- **Slice.**  For every split and every pair of bounds (`None`, negative, out of range, inverted):
`list(merged[a:b]) = concatenation[a:b]`. -/
theorem C09_merged_slice {α : Type} (parts : List (List α)) (a b : Option Int) :
    sliceElems parts a b = pySlice parts.flatten a b :=
  sliceElems_eq_pySlice parts a b

/-- **Iteration.**  `list(iter(merged))` is the concatenation. -/
theorem C09_merged_iter {α : Type} (parts : List (List α)) : iterElems parts = parts.flatten := by
  unfold iterElems
  rw [sliceElems_eq_pySlice]
  simp only [pySlice, clampBound, List.drop_zero, Nat.sub_zero]
  exact List.take_of_length_le (Nat.le_refl _)

/-- A data source over merged parts yields the Python slice `[start:end]` of the concatenation
(composition of `C09_merged_slice` with the interval arithmetic above). -/
theorem C09_merged_datasource {α : Type} (parts : List (List α)) (d : DS) :
    sliceElems parts (some d.start) (some d.end) = d.elems parts.flatten :=
  sliceElems_eq_pySlice parts _ _

/-- **Range iterator.**  For every source honouring the slice contract (a successful `data[i:j]` returns
exactly what element access returns), *every failure pattern* of its element accesses, every read-ahead
size `bs >= 1` and every state reached: any number `n` of `next` calls returns, index by index in order,
the element or one raise for that index, then `StopIteration` for ever — independently of `bs`. -/
theorem C09_range_iterator {α : Type} (src : Src α) (len : Nat) (hs : SliceOK src len) (start stop : Nat)
    (hstop : stop ≤ len) (bs : Nat) (hbs : 1 ≤ bs) (n : Nat) :
    nexts src stop n ⟨start, bs, []⟩
      = ((List.range' start (stop - start)).map (fun j => Merged.ofExcept (src.get j))
          ++ List.replicate n Outcome.stop).take n := by
  rw [nexts_spec src len hs stop hstop n ⟨start, bs, []⟩ hbs]
  simp [remaining, pending]

/-- The sources used by the correspondence (per-index outcome lists, sliceable or not) honour the contract. -/
theorem C09_range_iterator_src {α : Type} (outs : List (Except ErrKind α)) (sliceable : Bool) :
    SliceOK (srcOf outs sliceable) outs.length :=
  srcOf_sliceOK outs sliceable

/-- **Merged slice over failing sources**, every `max_batch_size`: any number of `next` calls on
`MergedSequences(parts, max_batch)[a:b]` returns the Python slice of the concatenated per-index
outcomes (element or raise), then `StopIteration` for ever. -/
theorem C09_merged_failing {α : Type} (parts : List (List (Except ErrKind α) × Bool)) (maxBatch : Nat)
    (a b : Option Int) (n : Nat) :
    chainNexts n (mkChain parts maxBatch a b)
      = ((pySlice (parts.map (fun (p : List (Except ErrKind α) × Bool) => p.1)).flatten a b).map Merged.ofExcept
          ++ List.replicate n Outcome.stop).take n := by
  obtain ⟨hok, hrem⟩ := mkChain_spec parts maxBatch a b
  rw [chainNexts_spec n _ hok, hrem]

/-! ## `from_state` through ANY receiver (`Model/ShardRecv.lean`)

`from_state` is a method: `receiver.from_state(state)`.  The theorems above rebuild through the unsharded
source only.  A worker restoring its own checkpoint, `SequenceIterator.from_state` on a sharded iterator, a
sibling or sub-shard, `MultiplexIterator.from_state` over per-thread shards all call it on a NON-root
receiver.  `Source` carries every field of `SequenceDataSource`; `Reach n ie r` = "`r` is obtainable from
`SequenceDataSource(data, ignore_error=ie)` by any sequence of `shard` / `from_state` calls". -/

/-- **Which fields `from_state` reads**: two receivers over the same data with the same `ignore_error`
rebuild the same source from every state — `_shard_state`, `_start`, `_end` of the receiver are irrelevant. -/
theorem C09_from_state_reads_data_only (r1 r2 : Source) (hd : r1.ds.dataLen = r2.ds.dataLen)
    (hi : r1.ignoreError = r2.ignoreError) (s : ShardConfig) : r1.fromState s = r2.fromState s :=
  Source.fromState_congr r1 r2 hd hi s

/-- **Receiver independence.**  For every receiver obtained from the root by any chain of `shard` /
`from_state` operations and EVERY state `s` (also ones that make `from_state` raise):
`receiver.from_state(s) = root.from_state(s)`. -/
theorem C09_from_state_receiver_independent (n : Nat) (ie : Bool) (r : Source) (hr : Reach n ie r)
    (s : ShardConfig) : r.fromState s = (Source.root n ie).fromState s :=
  hr.fromState_eq s

/-- The receiver-explicit `from_state` agrees with the receiver-free one of `Model/Shard.lean` (so
`C09_state_roundtrip` and the C10 theorems, stated with the latter, are about the same function). -/
theorem C09_from_state_root (n : Nat) (ie : Bool) (s : ShardConfig) :
    (Source.root n ie).fromState s = liftDS ie (fromState n s) :=
  Source.fromState_lift (Source.root n ie) s

/-- Every receiver is a chain of `shard` calls on the root (a `from_state` result is the replayed chain),
and conversely — so `C09_partition`, `C09_len`, `C09_nested`, … apply to restored sources as well. -/
theorem C09_receiver_iff_shard_chain (n : Nat) (ie : Bool) (r : Source) :
    Reach n ie r ↔ ∃ chain, (Source.root n ie).shardChain chain = .ok r := by
  constructor
  · intro h
    obtain ⟨chain, hc⟩ := h.chain
    refine ⟨chain, ?_⟩
    show (⟨DS.root n, ie⟩ : Source).shardChain chain = _
    rw [Source.shardChain_lift, hc]
    obtain ⟨_, h2⟩ := h.fields
    cases r; simp only at h2; subst h2; rfl
  · intro ⟨chain, hc⟩
    exact Reach.of_chain n ie chain _ r Reach.root hc

/-- **State round trip, any receiver × any origin.**  For every origin `o` and every receiver `r` (root,
shard, nested shard, restored source, sibling, `o` itself): `r.from_state(o.state)` succeeds and has `o`'s
interval over the same data, with the same `ignore_error`. -/
theorem C09_state_roundtrip_any_receiver (n : Nat) (ie : Bool) (r o : Source) (hr : Reach n ie r)
    (ho : Reach n ie o) :
    ∃ s', r.fromState o.ds.state = .ok s' ∧ s'.ds.start = o.ds.start ∧ s'.ds.end = o.ds.end ∧
      s'.ds.dataLen = o.ds.dataLen ∧ s'.ignoreError = o.ignoreError := by
  obtain ⟨chain, hc⟩ := ho.chain
  obtain ⟨d', h1, h2, h3, h4⟩ := C09_state_roundtrip n chain o.ds hc
  refine ⟨⟨d', ie⟩, ?_, h2, h3, h4, ho.fields.2.symm⟩
  rw [hr.fromState_eq, Source.fromState_lift]
  show liftDS ie (fromState n _) = _
  rw [h1]; rfl

theorem C09_state_roundtrip_any_receiver_elems {α : Type} (n : Nat) (ie : Bool) (r o : Source)
    (hr : Reach n ie r) (ho : Reach n ie o) (xs : List α) :
    ∃ s', r.fromState o.ds.state = .ok s' ∧ s'.ds.elems xs = o.ds.elems xs ∧ s'.ds.len = o.ds.len := by
  obtain ⟨s', h1, h2, h3, _⟩ := C09_state_roundtrip_any_receiver n ie r o hr ho
  refine ⟨s', h1, ?_, ?_⟩
  · unfold DS.elems; rw [h2, h3]
  · unfold DS.len DS.rawLen; rw [h2, h3]

/-- `SequenceIterator.from_state` reads only `config` of the receiving iterator (not its position), and of
that only data / `ignore_error`: any iterator of any receiver = a fresh iterator of the root. -/
theorem C09_iter_from_state_receiver_independent (n : Nat) (ie : Bool) (it : SeqIter)
    (hr : Reach n ie it.config) (s : ShardConfig) :
    it.fromState s = (Source.root n ie).iterate.fromState s := by
  unfold SeqIter.fromState
  rw [hr.fromState_eq]
  rfl

/-- **Iterator state through any receiver** (`SequenceIterator.state`, io.py:126-130): for every origin
`o` (well-formed: `0 <= start <= end <= len(data)`, see `C09_shard_wf`), after ANY number `m` of `next`
calls on `o.iterate()`, restoring the iterator's state through ANY receiver `r` yields a source whose
elements are exactly what the iterator had left: delivered ++ rebuilt = `list(o)`, nothing repeated,
nothing skipped; the rebuilt source is well-formed (so `len` is right: `C09_len`) and a receiver again. -/
theorem C09_iter_restore_any_receiver {α : Type} (n : Nat) (ie : Bool) (xs : List α) (hlen : xs.length = n)
    (r o : Source) (hr : Reach n ie r) (ho : Reach n ie o) (hwf : o.ds.WF) (m : Nat) :
    ∃ s', r.fromState (SeqIter.nexts xs m o.iterate).2.state = .ok s' ∧
      (SeqIter.nexts xs m o.iterate).1.flatMap Option.toList ++ s'.ds.elems xs = o.ds.elems xs ∧
      s'.ds.elems xs = (SeqIter.nexts xs m o.iterate).2.rest xs ∧
      s'.ds.WF ∧ Reach n ie s' := by
  have hl : xs.length = o.iterate.config.ds.dataLen := by
    show xs.length = o.ds.dataLen
    rw [ho.fields.1]; exact hlen
  obtain ⟨hc, hi, hrest⟩ := SeqIter.nexts_spec xs m o.iterate hwf hl (o.iterate_inv hwf)
  have hgood : (SeqIter.nexts xs m o.iterate).2.Good n ie :=
    ⟨by rw [hc]; exact ho, by rw [hc]; exact hwf, hi⟩
  obtain ⟨s', h1, _, _, _, _, hwf', hel⟩ := SeqIter.restore_any n ie xs hlen _ hgood r hr
  refine ⟨s', h1, ?_, hel, hwf', Reach.fromState _ hr h1⟩
  rw [hel, hrest, Source.iterate_rest]

/-- The same through a receiving ITERATOR (a worker's `it.from_state(it.state)`, a sibling's iterator):
the restored iterator has exactly the origin's remaining elements. -/
theorem C09_iter_restore_any_receiver_iter {α : Type} (n : Nat) (ie : Bool) (xs : List α)
    (hlen : xs.length = n) (rit : SeqIter) (o : Source) (hr : Reach n ie rit.config) (ho : Reach n ie o)
    (hwf : o.ds.WF) (m : Nat) :
    ∃ it', rit.fromState (SeqIter.nexts xs m o.iterate).2.state = .ok it' ∧
      it'.rest xs = (SeqIter.nexts xs m o.iterate).2.rest xs := by
  obtain ⟨s', h1, _, h3, _, _⟩ := C09_iter_restore_any_receiver n ie xs hlen rit.config o hr ho hwf m
  refine ⟨s'.iterate, ?_, ?_⟩
  · unfold SeqIter.fromState; rw [h1]
  · rw [Source.iterate_rest, h3]

/-- **Round robin**: `ShardedIterable.from_state` / `DataIterator.from_state` keep only `data` of the
receiver: every receiver = the unsharded iterable. -/
theorem C09_rr_from_state_receiver_independent (n : Nat) (r : RRSource) (hr : RRReach n r) (i k s : Int) :
    r.fromState i k s = (RRSource.root n).fromState i k s := by
  have hd : r.dataLen = n := by
    induction hr with
    | root => rfl
    | shard i k _ hs ih =>
      unfold RRSource.shard RRSource.replaceState at hs
      split at hs
      · simp only [Except.ok.injEq] at hs; subst hs; exact ih
      · simp at hs
    | fromState i k s _ hs ih =>
      unfold RRSource.fromState RRSource.replaceState at hs
      split at hs
      · simp only [Except.ok.injEq] at hs; subst hs; exact ih
      · simp at hs
  unfold RRSource.fromState RRSource.replaceState RRSource.root
  cases rrMake k <;> simp [hd]

/-- … and restoring the state of a `DataIterator` (shard `i` of `k`, resumed at `start`, after any number
`m` of `next` calls) through any receiver continues exactly: every further `next` returns what the
original iterator would have returned. -/
theorem C09_rr_restore_any_receiver {α : Type} (xs : List α) (r : RRSource) (hr : RRReach xs.length r)
    (i k start : Int) (hk : 1 ≤ k) (m m' : Nat) :
    ∃ r', r.fromState i k (rrStateIndex start (rrIndexAfter xs i k start m 0)) = .ok r' ∧
      r'.dataLen = xs.length ∧
      rrNexts xs r'.shardIndex r'.numShards r'.startIndex m' 0
        = rrNexts xs i k start m' (rrIndexAfter xs i k start m 0) := by
  have hidx : ∀ (m idx : Nat), idx ≤ xs.length → rrIndexAfter xs i k start m idx ≤ xs.length := by
    intro m
    induction m with
    | zero => intro idx h; exact h
    | succ m ih => intro idx h; exact ih _ (rrNext_spec xs i k start idx h).1
  have hle := hidx m 0 (Nat.zero_le _)
  rw [C09_rr_from_state_receiver_independent xs.length r hr]
  refine ⟨⟨xs.length, i, k, rrStateIndex start (rrIndexAfter xs i k start m 0)⟩, ?_, rfl, ?_⟩
  · unfold RRSource.fromState RRSource.replaceState rrMake RRSource.root
    rw [if_neg (by omega)]
  · rw [rrNexts_spec xs i k _ m' 0 (Nat.zero_le _), rrNexts_spec xs i k start m' _ hle,
      rrRem_restore xs i k start _ hle]

/-- **`MultiplexIterator.from_state`** zips the RECEIVER's data sources with the states: whatever shards /
restored sources / siblings the receiving multiplexer was built over, the result is what a multiplexer over
copies of the root rebuilds (also the error, also on a length mismatch). -/
theorem C09_mux_from_state_receiver_independent (n : Nat) (ie : Bool) (recvs : List Source)
    (hr : ∀ r ∈ recvs, Reach n ie r) (states : List ShardConfig) :
    muxFromState recvs states = muxFromState (recvs.map fun _ => Source.root n ie) states :=
  muxFromState_congr n ie recvs hr states

/-- … and for a multiplexer over ANY list of (well-formed) origins — e.g. the per-thread shards
`[root.shard(i, k) for i in range(k)]` — after ANY number `m` of `next` calls, restoring its state
through a multiplexer over ANY equally long list of receivers rebuilds sources that deliver exactly the
rest: delivered ++ rebuilt = everything, in order. -/
theorem C09_mux_restore_any_receivers {α : Type} (n : Nat) (ie : Bool) (xs : List α) (hlen : xs.length = n)
    (origins recvs : List Source) (ho : ∀ o ∈ origins, Reach n ie o ∧ o.ds.WF)
    (hr : ∀ r ∈ recvs, Reach n ie r) (hl : recvs.length = origins.length) (m : Nat) :
    ∃ rebuilt, muxFromState recvs (muxState (muxNexts xs m (origins.map Source.iterate)).2) = .ok rebuilt ∧
      (muxNexts xs m (origins.map Source.iterate)).1.flatMap Option.toList
          ++ rebuilt.flatMap (fun s => s.ds.elems xs)
        = origins.flatMap (fun o => o.ds.elems xs) := by
  have hg : ∀ it ∈ origins.map Source.iterate, it.Good n ie := by
    intro it hit
    obtain ⟨o, ho', rfl⟩ := List.mem_map.1 hit
    exact ⟨(ho o ho').1, (ho o ho').2, o.iterate_inv (ho o ho').2⟩
  obtain ⟨a, b, c⟩ := muxNexts_spec n ie xs hlen m _ hg
  obtain ⟨rb, h1, _, _, h4⟩ := muxFromState_restore n ie xs hlen _ b recvs hr
    (by rw [a, List.length_map]; exact hl)
  refine ⟨rb, h1, ?_⟩
  rw [h4, c]
  simp only [muxRest, List.flatMap_map, Source.iterate_rest]

/-- A length mismatch between the receiver's sources and the states is a `ValueError` (`zip(strict=True)`). -/
theorem C09_mux_from_state_length (recvs : List Source) (states : List ShardConfig)
    (h : recvs.length ≠ states.length) : ∀ x, muxFromState recvs states ≠ .ok x := by
  induction recvs generalizing states with
  | nil =>
    cases states with
    | nil => simp at h
    | cons s ss => intro x; simp [muxFromState]
  | cons r rs ih =>
    cases states with
    | nil => intro x; simp [muxFromState]
    | cons s ss =>
      intro x hx
      simp only [muxFromState] at hx
      cases h1 : r.fromState s with
      | error e => rw [h1] at hx; simp [bind, Except.bind] at hx
      | ok d =>
        rw [h1] at hx
        simp only [bind, Except.bind] at hx
        cases h2 : muxFromState rs ss with
        | error e => rw [h2] at hx; simp at hx
        | ok y => exact ih ss (by simpa using h) y h2

/-- **Interface with C10.**  C10's theorems (`C10_source`, `C10_refinement_seq`, …) are stated over the
source model of `Model/Resume.lean` (naturals, intervals only), whose `from_state` / `restore` has no
receiver.  On every chain of shard calls whose intervals are never inverted (offsets inside the shards —
the domain of both properties) that model computes exactly the interval of the C09 model, and the source is
a receiver in the sense of `Reach`: so restoring through the running iterator, a worker shard or a sibling
(`C09_from_state_receiver_independent`) is restoring through the fresh root C10 reasons about. -/
theorem C09_resume_source_model_agrees (n : Nat) (ie : Bool) (chain : Resume.Chain) (s : Resume.Src)
    (hs : chain.foldlM Resume.Src.shard (Resume.Src.root n) = .ok s)
    (hmono : ∀ pre s', pre <+: chain → pre.foldlM Resume.Src.shard (Resume.Src.root n) = .ok s' →
      s'.start ≤ s'.stop) :
    ∃ r, Reach n ie r ∧ (Source.root n ie).shardChain (chain.map cfgTriple) = .ok r ∧
      (s.start : Int) = r.ds.start ∧ (s.stop : Int) = r.ds.end := by
  obtain ⟨d, hd, h1, h2⟩ := chain_sim chain (Resume.Src.root n) s (DS.root n) (root_sim n) hs hmono
  have hc : (Source.root n ie).shardChain (chain.map cfgTriple) = .ok ⟨d, ie⟩ := by
    show (⟨DS.root n, ie⟩ : Source).shardChain _ = _
    rw [Source.shardChain_lift, hd]; rfl
  exact ⟨⟨d, ie⟩, (C09_receiver_iff_shard_chain n ie _).2 ⟨_, hc⟩, hc, h1, h2⟩

/-! ## Non-vacuity and sanity examples (tests, `decide`d) -/

example : (DS.root 7).WF := by decide
example : ((DS.root 7).shardCore 1 3 1).WF := by decide
example : (List.range 3).map (fun (i : Nat) => ((DS.root 7).shardCore i 3 0).elems [0, 1, 2, 3, 4, 5, 6])
    = [[0, 1, 2], [3, 4], [5, 6]] := by decide
example : (List.range 4).map (fun (i : Nat) => ((DS.root 3).shardCore i 4 0).elems [0, 1, 2])
    = [[0], [1], [2], []] := by decide
example : ((DS.root 10).allShards [2, 2]).map (fun s => s.elems (List.range 10))
    = [[0, 1, 2], [3, 4], [5, 6, 7], [8, 9]] := by decide
example : (DS.root 4).shardChain [(1, 2, 0), (0, 2, 1)] = .ok ⟨4, .child 0 2 1 (.child 1 2 0 .dflt), 3, some 3⟩ := rfl
/-- (well-founded definitions do not reduce by `decide`: the example goes through the theorem) -/
example : rrNexts [10, 11, 12, 13, 14] 1 2 0 4 0 = [some 11, some 13, none, none] := by
  rw [C09_round_robin]; decide
example : getitem [[], [7]] 0 = .ok 7 := rfl
example : getitem [[1, 2], [], [3]] (-1) = .ok 3 := rfl
example : getitem [[1, 2], [], [3]] 3 = .error .index := rfl
example : sliceElems [[0], [1]] (some 1) (some 0) = [] := by decide
example : sliceElems [[0, 1], [], [2, 3]] (some (-3)) none = [1, 2, 3] := by decide
example : sliceElems [[0, 1], [], [2, 3]] (some (-9)) (some 9) = [0, 1, 2, 3] := by decide
/-- a failing element is raised once and skipped, for read-ahead 4 on a sliceable source -/
example : nexts (srcOf [.ok 0, .error .value, .ok 2] true) 3 5 ⟨0, 4, []⟩
    = [.val 0, .raise .value, .val 2, .stop, .stop] := by
  rw [C09_range_iterator _ 3 (C09_range_iterator_src [.ok 0, .error .value, .ok 2] true) 0 3 (Nat.le_refl _) 4
    (by decide) 5]
  decide

/-- receivers exist and are not the root: shard 1/2 of 10 elements; its sub-shard; a restored source -/
example : Reach 10 false ⟨(DS.root 10).shardCore 1 2 0, false⟩ :=
  Reach.shard 1 2 0 Reach.root rfl
example : ∃ r, Reach 10 false r ∧ r.ds.start = 7 ∧ r.ds.end = 10 :=
  ⟨_, Reach.fromState (.child 1 2 2 .dflt) (Reach.shard 0 2 0 (Reach.shard 1 2 0 Reach.root rfl) rfl) rfl,
    by decide, by decide⟩
/-- the worker of the seeded regression: shard 1/2 of range(10), two taken, restored through ITSELF -/
example : ((⟨(DS.root 10).shardCore 1 2 0, false⟩ : Source).fromState (.child 1 2 2 .dflt)).toOption.map
    (fun s => s.ds.elems (List.range 10)) = some [7, 8, 9] := by decide
example : (SeqIter.nexts (List.range 10) 2 (⟨(DS.root 10).shardCore 1 2 0, false⟩ : Source).iterate).2.state
    = .child 1 2 2 .dflt := by decide

/-- the hypothesis of `C09_resume_source_model_agrees` holds for shard 1/2 (offset 1) of 10 elements -/
example : ∀ pre s', pre <+: [(⟨1, 2, 1⟩ : Resume.Cfg)] →
    pre.foldlM Resume.Src.shard (Resume.Src.root 10) = .ok s' → s'.start ≤ s'.stop := by
  intro pre s' hp hf
  rcases List.prefix_cons_iff.1 hp with rfl | ⟨t, rfl, ht⟩
  · simp only [List.foldlM_nil, pure, Except.pure, Except.ok.injEq] at hf
    subst hf; decide
  · have : t = [] := List.prefix_nil.1 ht
    subst this
    have : [(⟨1, 2, 1⟩ : Resume.Cfg)].foldlM Resume.Src.shard (Resume.Src.root 10)
        = .ok ⟨[Resume.Cfg.dflt, ⟨1, 2, 1⟩], 6, 10⟩ := rfl
    rw [this] at hf
    simp only [Except.ok.injEq] at hf
    subst hf; decide

end MlModel.C09
