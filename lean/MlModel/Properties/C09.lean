import MlModel.Model.Shard
import MlModel.Model.Merged
namespace MlModel.C09
open MlModel.Shard MlModel.Merged
theorem C09_tmp : bisectRight [0, 0, 3] 0 = 2 := by decide
end MlModel.C09
