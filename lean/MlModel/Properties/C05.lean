import MlModel.Model.Queue
namespace MlModel.C05
open MlModel.Queue
theorem C05_placeholder : (init 0 1 false false []).allDone = true := by decide
end MlModel.C05
