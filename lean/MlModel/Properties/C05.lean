import MlModel.Lemmas.QueueFault
import MlModel.Properties.C04
/-!
# C05 — failures and stop requests propagate through queues (safety part)

The LTS of `Model/Queue.lean` contains the three fault events of the property: a producer's
source raises at any position (`Item.fail`), a `stopper` thread calls `maybe_stop(exc?)` at any
point of any schedule, and — when a timeout is configured — every parked wait may expire (the
`alt = true` scheduler choice).  All statements hold in every reachable configuration / for
every step, for all thread counts, capacities and schedules.

The no-hang half (every blocked thread is eventually released; termination) is in
`Properties/C04Live.lean` / `C05Live.lean`.
-/
namespace MlModel.C05
open MlModel.Queue

variable {cap maxEnq : Nat} {to ig : Bool} {progs : List Prog} {c c' : Cfg}

/-- A recorded failure, a stop request and the exhausted flag are never cleared again. -/
theorem C05_sticky (h : Reachable c c') :
    (c.sh.exc.isSome = true → c'.sh.exc.isSome = true) ∧
    (c.sh.stopRequested = true → c'.sh.stopRequested = true) ∧
    (c.sh.exhausted = true → c'.sh.exhausted = true) := by
  induction h with
  | init => exact ⟨id, id, id⟩
  | step _ hs ih =>
    obtain ⟨t, s', t', _, hst, rfl⟩ := step_inv hs
    obtain ⟨h1, h2, h3, _, _⟩ := stepThread_fault _ s' t' hst
    exact ⟨fun h => h1 (ih.1 h), fun h => h2 (ih.2.1 h), fun h => h3 (ih.2.2 h)⟩

/-- **Consumers observe the failure, never a clean end-of-stream**: from the moment an exception
is recorded (a producer's iterator raised, a `put` timed out, or `maybe_stop(exc)` was called),
no step of any thread arms `StopIteration` as the end of a `get`/`get_batch` call — whatever is
armed is the recorded exception (or a `TimeoutError` of an expired wait). -/
theorem C05_error_observed {tid : Tid} {alt : Bool} {lbl : String} {t t' : Thread}
    (hs : step c tid alt = some (lbl, c')) (hexc : c.sh.exc.isSome = true)
    (ht : c.ths[tid]? = some t) (ht' : c'.ths[tid]? = some t') (hx : t'.x ≠ t.x) :
    (∃ e, t'.x = .err e) ∧ ∀ r, t'.x ≠ .stop r := by
  obtain ⟨t0, s', t1, ht0, hst, rfl⟩ := step_inv hs
  rw [ht] at ht0
  obtain rfl := Option.some.inj ht0
  have htid : tid < c.ths.length := by
    rcases List.getElem?_eq_some_iff.mp ht with ⟨h1, _⟩; exact h1
  simp only [List.getElem?_set_self htid, Option.some.injEq] at ht'
  subst ht'
  obtain ⟨h1, _, _, hxs, _⟩ := stepThread_fault _ s' t1 hst
  have hfin : ∃ e, s'.final = .err e := by
    have := h1 hexc
    unfold Shared.final
    cases he : s'.exc with
    | none => simp [he] at this
    | some e => exact ⟨e, rfl⟩
  rcases hxs with h | h | h | ⟨_, h⟩
  · exact absurd h hx
  · -- `Empty` is internal to the queue: the caller waits and retries
    -- (it cannot be newly armed while an exception is recorded: `enqueue_done` holds)
    have : False := by
      have hd : c.sh.enqueueDone = true := by
        unfold Shared.enqueueDone; simp [hexc]
      clear hfin h1
      obtain ⟨e0, he0⟩ : ∃ e, c.sh.exc = some e := Option.isSome_iff_exists.mp hexc
      unfold stepThread at hst
      cases hpc : t.pc <;> simp only [hpc] at hst <;>
        (try simp only [acquire, release, notify, waitPark, waitWake, goto, enqLoop, putLoop,
          batchLoop, afterRaise, afterValue] at hst) <;>
        (repeat' split at hst) <;>
        (try simp only [Option.some.injEq, Prod.mk.injEq, reduceCtorEq] at hst) <;>
        (try (obtain ⟨-, rfl, rfl⟩ := hst)) <;>
        simp_all [Shared.final]
    exact this.elim
  · obtain ⟨e, he⟩ := hfin
    rw [h, he]
    exact ⟨⟨e, rfl⟩, by intro r; simp⟩
  · rw [h]
    exact ⟨⟨_, rfl⟩, by intro r; simp⟩

/-- Already queued elements are never duplicated, also when producers fail, stop requests
arrive or waits time out: the conservation equation of C04 holds in every reachable
configuration of the LTS with faults. -/
theorem C05_no_duplication (h : Reachable (init cap maxEnq to ig progs) c) :
    c.sh.produced.Perm (c.sh.q ++ sumSeq c.ths ++ c.sh.lost) :=
  MlModel.C04.C04_exactly_once h

/-- With a timeout configured, a consumer parked in `get` whose wait can re-acquire the lock and
has not been notified may time out, and then raises `TimeoutError` (after releasing the lock). -/
theorem C05_timeout_get {s : Shared} {t : Thread} {tid : Tid} (hpc : t.pc = .gWake)
    (hto : s.timeout = true) (hfree : s.deqOwner = none) (hn : tid ∉ s.deqNotified) :
    ∃ lbl s' t', stepThread s t tid true = some (lbl, s', t') ∧
      t'.pc = .gRaise ∧ t'.x = .err .timeout ∧ s'.deqOwner = some tid := by
  unfold stepThread
  simp only [hpc, waitWake, Shared.owner, hfree, hto, Shared.setOwner, Option.isSome_none,
    Bool.false_eq_true, ↓reduceIte, List.contains_eq_mem, hn, decide_false, Bool.not_true,
    Bool.or_false]
  exact ⟨_, _, _, rfl, rfl, rfl, rfl⟩

theorem C05_timeout_get_batch {s : Shared} {t : Thread} {tid : Tid} (hpc : t.pc = .bWake)
    (hto : s.timeout = true) (hfree : s.deqOwner = none) (hn : tid ∉ s.deqNotified) :
    ∃ lbl s' t', stepThread s t tid true = some (lbl, s', t') ∧
      t'.pc = .bRaise ∧ t'.x = .err .timeout ∧ s'.deqOwner = some tid := by
  unfold stepThread
  simp only [hpc, waitWake, Shared.owner, hfree, hto, Shared.setOwner, Option.isSome_none,
    Bool.false_eq_true, ↓reduceIte, List.contains_eq_mem, hn, decide_false, Bool.not_true,
    Bool.or_false]
  exact ⟨_, _, _, rfl, rfl, rfl, rfl⟩

theorem C05_timeout_put {s : Shared} {t : Thread} {tid : Tid} (hpc : t.pc = .pWake)
    (hto : s.timeout = true) (hfree : s.enqOwner = none) (hn : tid ∉ s.enqNotified) :
    ∃ lbl s' t', stepThread s t tid true = some (lbl, s', t') ∧
      t'.pc = .pRaiseT ∧ s'.enqOwner = some tid := by
  unfold stepThread
  simp only [hpc, waitWake, Shared.owner, hfree, hto, Shared.setOwner, Option.isSome_none,
    Bool.false_eq_true, ↓reduceIte, List.contains_eq_mem, hn, decide_false, Bool.not_true,
    Bool.or_false, goto]
  exact ⟨_, _, _, rfl, rfl, rfl⟩

/-- the released `put` then records the `TimeoutError` and stops enqueueing -/
theorem C05_timeout_put_raises {s : Shared} {t : Thread} {tid : Tid} (hpc : t.pc = .pRaiseT)
    (hown : s.enqOwner = some tid) (hig : s.ignoreError = false) :
    ∃ lbl s' t', stepThread s t tid false = some (lbl, s', t') ∧
      s'.exc = some .timeout ∧ t'.pc = .tAcq ∧ t'.reraise = some .timeout := by
  unfold stepThread
  simp only [hpc, release, Shared.owner, hown, Shared.setOwner, Bool.false_eq_true, ↓reduceIte,
    BEq.rfl, hig]
  exact ⟨_, _, _, rfl, rfl, rfl, rfl⟩

/-- **A stop request wakes every parked producer and consumer**: `maybe_stop`'s two `notify_all`
steps move every thread parked on the enqueue condition, resp. the dequeue condition, to the
notified set (so its wake-up is enabled as soon as the lock is free). -/
theorem C05_stop_unblocks_producers {s : Shared} {t : Thread} {tid : Tid} {lbl : String}
    {s' : Shared} {t' : Thread} (hpc : t.pc = .mE1)
    (h : stepThread s t tid false = some (lbl, s', t')) :
    s'.enqWait = [] ∧ s'.enqNotified = s.enqNotified ++ s.enqWait := by
  unfold stepThread at h
  simp only [hpc, notify, goto] at h
  split at h <;> simp_all
  obtain ⟨-, -, rfl, -⟩ := h
  exact ⟨rfl, rfl⟩

theorem C05_stop_unblocks_consumers {s : Shared} {t : Thread} {tid : Tid} {lbl : String}
    {s' : Shared} {t' : Thread} (hpc : t.pc = .mD1)
    (h : stepThread s t tid false = some (lbl, s', t')) :
    s'.deqWait = [] ∧ s'.deqNotified = s.deqNotified ++ s.deqWait := by
  unfold stepThread at h
  simp only [hpc, notify, goto] at h
  split at h <;> simp_all
  obtain ⟨-, -, rfl, -⟩ := h
  exact ⟨rfl, rfl⟩

/-- the same for the end of enqueueing (`_stop_enqueue` when `enqueue_done` became true,
including the repaired wake-up of parked producers, finding F6) -/
theorem C05_done_unblocks {s : Shared} {t : Thread} {tid : Tid} {lbl : String}
    {s' : Shared} {t' : Thread} (h : stepThread s t tid false = some (lbl, s', t')) :
    (t.pc = .tR2 → s'.deqWait = [] ∧ s'.deqNotified = s.deqNotified ++ s.deqWait) ∧
    (t.pc = .tS2 → s'.enqWait = [] ∧ s'.enqNotified = s.enqNotified ++ s.enqWait) := by
  constructor <;> intro hpc <;> unfold stepThread at h <;> simp only [hpc, notify, goto] at h <;>
    split at h <;> simp_all <;> (obtain ⟨-, -, rfl, -⟩ := h; exact ⟨rfl, rfl⟩)

/-! ### Non-vacuity (tests of the definitions) -/

/-- a producer whose source fails at once: the failure is recorded and the consumer ends with it -/
example : ∃ c, Reachable (init 1 1 false false [.producer [.fail] 9, .getLoop]) c ∧
    c.sh.exc = some .value ∧ c.allDone = true ∧
    c.ths.map (·.outcome) = [some (.err .value), some (.err .value)] :=
  ⟨_, MlModel.C04.reachable_replay (init 1 1 false false [.producer [.fail] 9, .getLoop])
    (([0,0,0,0, 0,0,0,0,0,0, 0,0,0,0,0, 0] ++ [1,1,1,1,1,1,1]).map (·, false)) (by decide), by decide⟩

end MlModel.C05
