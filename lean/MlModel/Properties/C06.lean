import MlModel.Model.Sched
import MlModel.Model.Agg.Core
import MlModel.Lemmas.AggCore
import MlModel.Lemmas.SchedAC
import MlModel.Lemmas.SchedIT
import MlModel.Lemmas.SchedITInv
import MlModel.Properties.C09
import MlModel.Lemmas.SchedRun
import MlModel.Lemmas.SchedLive
/-!
# C06 — Distributed runs survive worker timeouts and deaths: no lost or doubled work

Models (`Model/Sched.lean`): `AC` = `orchestrate.as_completed`; `IT` = `WorkerPool.iterate` + the
per-task coroutine `async_iterate` + the `compute_result` merger of
`sharded_pipelines_as_iterator` — both of the code *after* the `fix:` commits for F19
(release in `finally`), F23 (`random.sample` crash), F21 (shard state handed over by the
bookkeeping loop only), F24 (TimeoutError instead of CancelledError) and F20 (strict count).

Every theorem quantifies over **every** fault assignment `env : worker → call index → fate`,
every pool size `nw`, every number of tasks/shards `n`, every number of batches per shard,
every retry threshold and **every** schedule (`AReach` / `IReach` = any finite sequence of
main-loop, coroutine, merger and environment steps).  The asyncio event loop and RPC timing
are not modelled (one step = one main-loop examination / one coroutine step, see the model file).

"one worker stays usable / the budget is not exhausted" are *not* needed for the safety
statements below (they hold on every run); they decide which terminal verdict is reached:
`C06_errors_surface` says exactly when the run ends normally, with RuntimeError or with
TimeoutError, and `C06_no_deadlock` that a run with a usable worker never gets stuck.
-/
namespace MlModel.C06
open MlModel.Sched MlModel.Agg

/-! ## `as_completed` -/

section AsCompleted
variable {c : ACfg} {nw n : Nat} {s : AC}

/-- **Conservation.**  At every point of every run every task is in exactly one of
{not yet drawn, `tasks`, `running_tasks`, yielded, failed}: the five lists together are a
permutation of the task set - nothing is duplicated, nothing vanishes. -/
theorem C06_conservation_tasks (h : AReach c (AC.init nw n) s) :
    (s.pending ++ s.tasks ++ s.running.map (·.task) ++ s.yielded ++ s.failed).Perm (List.range n) :=
  (ainv_reach h).cons

theorem C06_conservation_tasks_nodup (h : AReach c (AC.init nw n) s) :
    (s.pending ++ s.tasks ++ s.running.map (·.task) ++ s.yielded ++ s.failed).Nodup ∧
    ∀ t, t ∈ s.pending ++ s.tasks ++ s.running.map (·.task) ++ s.yielded ++ s.failed ↔ t < n := by
  have hp := C06_conservation_tasks h
  exact ⟨hp.nodup_iff.mpr List.nodup_range, fun t => by rw [hp.mem_iff, List.mem_range]⟩

/-- **Results exactly once.**  No result is ever yielded twice; when `as_completed` returns
normally every task's result has been yielded (exactly once), unless the caller asked to ignore
failures, in which case exactly the failed tasks are missing. -/
theorem C06_results_once (h : AReach c (AC.init nw n) s) :
    s.yielded.Nodup ∧
    (s.outcome = some .returned → (s.yielded ++ s.failed).Perm (List.range n)) ∧
    (s.outcome = some .returned → c.ignoreFailures = false → s.yielded.Perm (List.range n)) := by
  have inv := ainv_reach h
  have hnd := (C06_conservation_tasks_nodup h).1
  refine ⟨?_, ?_, ?_⟩
  · have : s.yielded.Sublist (s.pending ++ s.tasks ++ s.running.map (·.task) ++ s.yielded ++ s.failed) :=
      (List.sublist_append_right _ _).trans (List.sublist_append_left _ _)
    exact this.nodup hnd
  · intro hr
    obtain ⟨he, ht, hrun⟩ := inv.ret hr
    have := inv.cons
    simpa [AC.all, inv.exh he, ht, hrun] using this
  · intro hr hi
    obtain ⟨he, ht, hrun⟩ := inv.ret hr
    have hf : s.failed = [] := by
      cases hfl : s.failed with
      | nil => rfl
      | cons a l =>
        have := inv.fail hi (by simp [hfl]); rw [hr] at this; cases this
    have := inv.cons
    simpa [AC.all, inv.exh he, ht, hrun, hf] using this

/-- **Errors surface** (`as_completed`).  A task whose evaluation failed with a non-retriable
error is never silently dropped: unless failures are to be ignored, as soon as one is recorded
the generator has raised it. -/
theorem C06_errors_surface_tasks (h : AReach c (AC.init nw n) s) (hi : c.ignoreFailures = false) :
    s.failed ≠ [] → s.outcome = some .raisedTask :=
  (ainv_reach h).fail hi

/-- **Released.**  When `as_completed` has returned, raised or been closed early, the pool has
no acquired worker left (`release_all` in the `finally`; for the code before the F19 repair only
the normal return releases, see `Witness.C06.F19_not_released`). -/
theorem C06_released (h : AReach c (AC.init nw n) s) (hfix : c.releaseOnRaise = true)
    (hdone : s.outcome ≠ none) : ∀ x ∈ s.ws, x.acquired = false :=
  (ainv_reach h).rel hdone (Or.inl hfix)

theorem C06_released_on_return (h : AReach c (AC.init nw n) s) (hdone : s.outcome = some .returned) :
    ∀ x ∈ s.ws, x.acquired = false :=
  (ainv_reach h).rel (by simp [hdone]) (Or.inr hdone)

end AsCompleted

/-! ## `WorkerPool.iterate` + coroutine + merger -/

section Iterate
variable {c : ICfg} {nw : Nat} {s : IT}

/-- **Conservation** for shards: every shard is in exactly one of {not yet drawn, `tasks`,
`running_tasks`, finished, failed}. -/
theorem C06_conservation (h : IReach c (IT.init nw c.n) s) :
    (s.pending ++ s.tasks ++ s.running.map (·.shard) ++ s.finished ++ s.failed).Perm (List.range c.n) :=
  (iinv_reach h).1.cons

theorem C06_conservation_nodup (h : IReach c (IT.init nw c.n) s) :
    (s.pending ++ s.tasks ++ s.running.map (·.shard) ++ s.finished ++ s.failed).Nodup ∧
    ∀ t, t ∈ s.pending ++ s.tasks ++ s.running.map (·.shard) ++ s.finished ++ s.failed ↔ t < c.n := by
  have hp := C06_conservation h
  exact ⟨hp.nodup_iff.mpr List.nodup_range, fun t => by rw [hp.mem_iff, List.mem_range]⟩

/-- The verdict of `iterate` is a function of the bookkeeping: RuntimeError iff a task failed
non-retriably, otherwise TimeoutError iff more than `retry_threshold` timeouts were counted,
otherwise a normal return - and a normal return happens only when the task iterator is exhausted
and no task is queued or running any more. -/
theorem C06_verdict (h : IReach c (IT.init nw c.n) s) (o : Outcome) (ho : s.outcome = some o) :
    o = (if s.failed ≠ [] then .raisedRuntime
         else if c.threshold < s.timeoutCnt then .raisedTimeout else .returned) ∧
    (o = .returned → s.exhausted = true ∧ s.pending = [] ∧ s.tasks = [] ∧ s.running = []) := by
  have inv := (iinv_reach h).1
  obtain ⟨hv, hb⟩ := inv.out o ho
  refine ⟨?_, ?_⟩
  · rw [hv]; unfold IT.verdict
    cases hf : s.failed <;> simp [hf]
  · intro hr
    rw [hr] at hv
    unfold IT.verdict at hv
    have hnb : s.broken c = false := by
      unfold IT.broken
      cases hf : s.failed with
      | cons a l => simp [hf] at hv
      | nil =>
        simp only [hf, List.isEmpty_nil, Bool.not_true, Bool.false_eq_true, if_false] at hv
        by_cases hlt : c.threshold < s.timeoutCnt
        · simp [hlt] at hv
        · simp [hlt]
    rcases hb with hb | hb
    · rw [hnb] at hb; cases hb
    · simp [IT.loopOver] at hb
      exact ⟨hb.1.1, inv.exh hb.1.1, hb.1.2, hb.2⟩

/-- **Errors surface** (`iterate`): the iteration never ends normally with a shorter result.
If it returns normally then no task failed, the budget was not exceeded and *every* shard
finished; a non-retriable task error ends it with RuntimeError, an exhausted budget with
TimeoutError; there is no other way to end. -/
theorem C06_errors_surface (h : IReach c (IT.init nw c.n) s) (o : Outcome) (ho : s.outcome = some o) :
    (o = .returned ∨ o = .raisedRuntime ∨ o = .raisedTimeout) ∧
    (o = .returned → s.failed = [] ∧ s.timeoutCnt ≤ c.threshold ∧ s.finished.Perm (List.range c.n)) ∧
    (s.failed ≠ [] → o = .raisedRuntime) ∧
    (s.failed = [] → c.threshold < s.timeoutCnt → o = .raisedTimeout) := by
  obtain ⟨hv, hret⟩ := C06_verdict h o ho
  refine ⟨?_, ?_, ?_, ?_⟩
  · rw [hv]; split
    · exact Or.inr (Or.inl rfl)
    · split
      · exact Or.inr (Or.inr rfl)
      · exact Or.inl rfl
  · intro hr
    obtain ⟨_, hp, ht, hrun⟩ := hret hr
    rw [hr] at hv
    have hf : s.failed = [] := by
      by_cases hf : s.failed = []
      · exact hf
      · simp [hf] at hv
    have hcnt : s.timeoutCnt ≤ c.threshold := by
      by_cases hlt : c.threshold < s.timeoutCnt
      · simp [hf, hlt] at hv
      · omega
    refine ⟨hf, hcnt, ?_⟩
    have := C06_conservation h
    simpa [hp, ht, hrun, hf] using this
  · intro hf; rw [hv]; simp [hf]
  · intro hf hlt; rw [hv]; simp [hf, hlt]

/-- **States exactly once.**  At every point of every run the states that have reached the merger
(consumed + still queued) are exactly the finished shards, each once, in finishing order; an
attempt that was abandoned (timeout, dead worker, cancelled) contributes nothing. -/
theorem C06_states_once (h : IReach c (IT.init nw c.n) s) (hfix : c.directPut = false) :
    s.merged ++ statesOf s.statesQ = s.finished ∧ (s.merged ++ statesOf s.statesQ).Nodup := by
  have hst := ((iinv_reach h).2.2 hfix).st
  refine ⟨hst, ?_⟩
  rw [hst]
  have hnd := (C06_conservation_nodup h).1
  have : s.finished.Sublist (s.pending ++ s.tasks ++ s.running.map (·.shard) ++ s.finished ++ s.failed) :=
    (List.sublist_append_right _ _).trans (List.sublist_append_left _ _)
  exact this.nodup hnd

/-- What `compute_result` puts on `result_queue`: at most one item ever; after a normal return it
is the merge of exactly one state per shard (a permutation of all shards); after a failed run
(strict count, F20 repaired) nothing is published. -/
theorem C06_result (h : IReach c (IT.init nw c.n) s) (hfix : c.directPut = false)
    (x : Option (List Nat)) (hx : s.result = some x) :
    (s.outcome = some .returned → ∃ l, x = some l ∧ l.Perm (List.range c.n)) ∧
    (c.strict = true → s.outcome ≠ some .returned → x = none) := by
  obtain ⟨hb, _, hs⟩ := iinv_reach h
  have hs := hs hfix
  obtain ⟨hxe, _⟩ := hs.res x hx
  have hout : s.outcome ≠ none := by
    intro ho; have := (hs.run ho).2; rw [hx] at this; cases this
  refine ⟨?_, ?_⟩
  · intro hr
    have hperm := ((C06_errors_surface h _ hr).2.1 rfl).2.2
    refine ⟨s.finished, ?_, hperm⟩
    rw [hxe]
    have : s.finished.length = c.n := by simpa using hperm.length_eq
    simp [this]
  · intro hstrict hnr
    rw [hxe]
    have hlen : s.finished.length ≠ c.n := by
      intro hlen
      cases ho : s.outcome with
      | none => exact hout ho
      | some o =>
        obtain ⟨hv, _⟩ := hb.out o ho
        have hlen2 := hb.cons.length_eq
        simp [IT.all] at hlen2
        have hf : s.failed = [] := List.eq_nil_of_length_eq_zero (by omega)
        have ht : s.tasks = [] := List.eq_nil_of_length_eq_zero (by omega)
        have hnb : ¬ c.threshold < s.timeoutCnt := fun hlt => hb.bud hlt ht
        apply hnr
        rw [ho, hv]
        simp [IT.verdict, hf, hnb]
    simp [hstrict, hlen]


/-- **Batches at least once.**  When the iteration returns normally every output batch of every
shard has been yielded to the caller (a retried shard restarts from its beginning, so a batch may
be yielded more than once - never less). -/
theorem C06_batches_at_least_once (h : IReach c (IT.init nw c.n) s) (hr : s.outcome = some .returned) :
    ∀ sh, sh < c.n → ∀ b, b < c.nb sh → (sh, b) ∈ s.yieldedB := by
  intro sh hsh b hb
  have hperm := ((C06_errors_surface h _ hr).2.1 rfl).2.2
  have hmem : sh ∈ s.finished := by rw [hperm.mem_iff, List.mem_range]; exact hsh
  exact (iinv_reach h).2.1.finOut (by simp [hr]) sh hmem b hb

/-- `iterate` never acquires a worker (it only reads `idle_workers()`), so none is left acquired
however it ends. -/
theorem C06_released_iterate (h : IReach c (IT.init nw c.n) s) : ∀ x ∈ s.ws, x.acquired = false :=
  noAcquire_reach h

/-- **Final aggregate = fault-free in-process result.**  Let the data source `d` (any well-formed
`SequenceDataSource`, C09) be cut into `c.n` shards, shard `i` delivered by its pipeline in any
batching `bat i`; let `m` be a lawful mergeable metric whose one-batch state does not depend on the
order of the rows.  Whatever the faults and the schedule, if the run returns normally then the
single AggregateResult that `compute_result` publishes - the merge, in arrival order `l`, of one
accumulator per shard - has the same result as one in-process accumulator fed the whole data
source.  (`C06_states_once` + `Lawful.sharded_result` + `C09_partition`.) -/
theorem C06_aggregate {X S R : Type} (m : Mergeable X S R) (Eqv : S → S → Prop) (hl : Lawful m Eqv)
    (hperm : ∀ xs ys : List X, xs.Perm ys → Eqv (m.ofBatch xs) (m.ofBatch ys))
    (d : Shard.DS) (hwf : d.WF) (xs : List X) (hlen : xs.length = d.dataLen) (hk : 1 ≤ c.n)
    (bat : Nat → List (List X))
    (hbat : ∀ i : Nat, i < c.n → (bat i).flatten = (d.shardCore (i : Int) (c.n : Int) 0).elems xs)
    (h : IReach c (IT.init nw c.n) s) (hfix : c.directPut = false)
    (hr : s.outcome = some .returned) (l : List Nat) (hx : s.result = some (some l)) :
    m.result (m.mergeStates (l.map fun i => m.feed (bat i))) = m.result (m.ofBatch (d.elems xs)) := by
  obtain ⟨l', hl', hp⟩ := (C06_result h hfix _ hx).1 hr
  cases hl'
  have h1 := hl.sharded_eq (l.map bat)
  have e1 : m.sharded (l.map bat) = m.mergeStates (l.map fun i => m.feed (bat i)) := by
    simp [Mergeable.sharded, List.map_map, Function.comp_def]
  have e2 : ((l.map bat).map List.flatten).flatten = l.flatMap (fun i => (bat i).flatten) := by
    simp [List.flatMap, List.map_map, Function.comp_def]
  rw [e1, e2] at h1
  have p1 : (l.flatMap fun i => (bat i).flatten).Perm ((List.range c.n).flatMap fun i => (bat i).flatten) :=
    hp.flatMap_right _
  have e3 : ((List.range c.n).flatMap fun i => (bat i).flatten) =
      (List.range c.n).flatMap (fun (i : Nat) => (d.shardCore (i : Int) (c.n : Int) 0).elems xs) := by
    have hc : ∀ (l : List Nat), (∀ i ∈ l, i < c.n) →
        (l.flatMap fun i => (bat i).flatten) =
          l.flatMap (fun (i : Nat) => (d.shardCore (i : Int) (c.n : Int) 0).elems xs) := by
      intro l
      induction l with
      | nil => intro _; rfl
      | cons a l ih =>
        intro hl
        simp only [List.flatMap_cons]
        rw [hbat a (hl a List.mem_cons_self), ih (fun i hi => hl i (List.mem_cons_of_mem _ hi))]
    exact hc _ (fun i hi => List.mem_range.mp hi)
  rw [e3, C09.C09_partition d hwf xs hlen c.n hk] at p1
  exact hl.result_congr (hl.trans h1 (hperm _ _ p1))


/-- **No deadlock** ("as long as one worker stays usable").  At every point of every run at which
the iteration has not ended and some worker is alive - or dead but able to rejoin - a progress
step (submission, coroutine step, examination of a task, loop exit, rejoin) is enabled: the
bookkeeping never waits for something that cannot happen.  (A call that will never be answered
belongs to a worker the master sees dead, so its task is re-queued; an answered call lets its
coroutine advance; with nothing running a usable worker takes the next task.)  Conversely a pool
whose workers are all dead for good can only spin - the real code then hangs, outside the
hypothesis of C06; `as_completed` raises TimeoutError there. -/
theorem C06_no_deadlock (h : IReach c (IT.init nw c.n) s) (ho : s.outcome = none)
    (hw : ∃ (w : Nat) (x : Worker), s.ws[w]? = some x ∧ (x.alive = true ∨ x.canRejoin = true)) :
    ∃ l s', l.progress = true ∧ itStep c s l = some s' :=
  it_progress (liveInv_reach h) ho hw

end Iterate

/-! ## Non-vacuity: the hypotheses are met by runs that really contain faults -/

section NonVacuity

/-- two shards of one batch, two workers; worker 0's second call times out and worker 1 dies at
its third call for good -/
def exCfg : ICfg :=
  { env := fun w i => if w = 0 ∧ i = 1 then .deadline else if w = 1 ∧ i = 2 then .die else .ok,
    n := 2, nb := fun _ => 1, threshold := 3 }

/-- a run with one timeout and one retry that still returns normally with both states merged once
and all batches yielded (tests `C06_errors_surface`/`C06_result`/`C06_batches_at_least_once` are
not vacuous: `outcome = some .returned` is reachable under faults) -/
example : ∃ s, IReach exCfg (IT.init 2 2) s ∧
    (s.outcome == some .returned && s.timeoutCnt == 1 && s.result == some (some [1, 0])
      && s.yieldedB.contains (0, 0) && s.yieldedB.contains (1, 0)) = true :=
  ireach_witness
    [.submit 0, .submit 1, .co 0 0 false, .co 0 0 false, .co 0 0 false, .check 0,  -- shard 0: init ok, next: deadline -> retry
     .co 0 0 false, .co 0 0 false, .co 0 1 true, .co 0 0 false, .check 0,           -- shard 1 finishes on worker 1
     .submit 0, .co 0 0 false, .co 0 0 false, .co 0 1 true, .co 0 0 false, .check 0,  -- shard 0 again on worker 0
     .submit 0, .finish, .merge, .merge, .mergeStop] _ (by decide)

/-- the budget verdict is reachable as well: threshold 0 and one timeout -/
example : ∃ s, IReach { exCfg with threshold := 0 } (IT.init 2 2) s ∧
    (s.outcome == some .raisedTimeout && s.result == some none) = true :=
  ireach_witness
    [.submit 0, .co 0 0 false, .co 0 0 false, .co 0 0 false, .check 0, .finish, .mergeStop] _ (by decide)

/-- `as_completed` under faults: a deadline, a death, three tasks, all results once -/
example : ∃ s, AReach { env := fun w i => if w = 0 ∧ i = 0 then .deadline else if w = 1 ∧ i = 1 then .die else .ok }
      (AC.init 2 3) s ∧
    (s.outcome == some .returned && s.yielded == [1, 0, 2] && !s.ws.any (·.acquired)) = true :=
  areach_witness
    [.acquire 0, .submit 0, .acquire 1, .submit 1, .complete 0, .check 0, .complete 0, .check 0,
     .submit 0, .submit 1, .complete 0, .check 0, .check 0, .submit 0, .complete 0, .check 0,
     .submit 0, .exit] _ (by decide)

end NonVacuity

end MlModel.C06
