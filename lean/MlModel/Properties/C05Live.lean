import MlModel.Properties.C04Live
import MlModel.Properties.C05
/-!
# C05 — failures and stop requests propagate without hanging (liveness part)

The LTS contains the fault events of the property: failing source items (`Item.fail`), stopper
threads calling `maybe_stop(exc?)` at any point, and — with a timeout configured — the timeout
alternative of every parked wait.  As in `C04Live.lean`, `WF_enq` is assumed.
-/
namespace MlModel.C05
open MlModel.Queue

variable {cap maxEnq : Nat} {to ig : Bool} {progs : List Prog} {c c' : Cfg}

/-- **No deadlock with faults**, with or without a timeout: every reachable configuration —
whatever producers failed at whatever position, whenever `maybe_stop` was called, whichever waits
timed out — is final or has an enabled step.  With a timeout configured the side conditions
`hP`/`hC` of `C04_no_deadlock` are not needed (a starved wait raises `TimeoutError` instead). -/
theorem C05_no_deadlock (hwf : WF_enq maxEnq progs)
    (hPC : to = true ∨
      ((0 < maxEnq ∨ (∃ p ∈ progs, p.isStopper = true) ∨ ¬ ∃ p ∈ progs, p.isCons = true) ∧
       (cap = 0 ∨ (∃ p ∈ progs, p.isCons = true) ∨ ∃ p ∈ progs, p.isStopper = true)))
    (h : Reachable (init cap maxEnq to ig progs) c) :
    c.allDone = true ∨ enabled c ≠ [] := by
  cases to with
  | false =>
    rcases hPC with h0 | ⟨hP, hC⟩
    · cases h0
    · exact MlModel.C04.C04_no_deadlock hwf hP hC h
  | true =>
    by_cases hdead : enabled c = []
    · left
      exact no_deadlock_timeout (lockInv_reachable (lockInv_init cap maxEnq true ig progs) h)
        (timeout_reachable h) hdead
    · exact Or.inr hdead

/-- **After a failure or a stop request every parked thread has a pending notifier**: in every
reachable configuration in which `enqueue_done` holds (in particular from the moment an exception
is recorded or `maybe_stop` was called — `C05_done_of_fault`), if a consumer is parked on the
dequeue condition (or has decided to park) some thread still owes `notify_all cond1`, and if a
producer is parked on the enqueue condition (or has decided to park) some thread still owes
`notify_all cond2`.  Those threads are never parked themselves (`C05_debtor_not_parked`), so by
lock-order acyclicity one of them, or the owner of the lock it waits for, is enabled. -/
theorem C05_parked_has_notifier (hwf : WF_enq maxEnq progs)
    (h : Reachable (init cap maxEnq false ig progs) c) (hd : c.sh.enqueueDone = true) :
    ((c.sh.deqWait ≠ [] ∨ anyT c sawEmpty) → anyT c debtDAll) ∧
    ((c.sh.enqWait ≠ [] ∨ anyT c sawFull) → anyT c debtEAll) := by
  obtain ⟨_, j2, _, k2⟩ := MlModel.C04.C04_no_lost_wakeup hwf h
  exact ⟨fun a => j2 a hd, fun a => k2 a hd⟩

theorem C05_done_of_fault (hf : c.sh.exc.isSome = true ∨ c.sh.stopRequested = true) :
    c.sh.enqueueDone = true := by
  rw [enqueueDone_iff]
  rcases hf with h | h
  · exact Or.inl h
  · exact Or.inr (Or.inl h)

theorem C05_debtor_not_parked (t : Thread) (h : debtDAll t = true ∨ debtEAll t = true) :
    t.pc ≠ .done ∧ consWakePc t.pc = false ∧ prodWakePc t.pc = false := by
  cases hp : t.pc <;> simp_all [debtDAll, debtEAll, consWakePc, prodWakePc]

/-- **Producers return**: in a configuration in which nothing is enabled, no producer is parked in
`put` (nor anywhere else): every producer has left `enqueue_from_iterator` — after a failure of
another producer, after a stop request, after a timeout, or normally.  (This is the statement that
finding F6 violated before the repair.) -/
theorem C05_producers_return (hwf : WF_enq maxEnq progs)
    (hPC : to = true ∨
      ((0 < maxEnq ∨ (∃ p ∈ progs, p.isStopper = true) ∨ ¬ ∃ p ∈ progs, p.isCons = true) ∧
       (cap = 0 ∨ (∃ p ∈ progs, p.isCons = true) ∨ ∃ p ∈ progs, p.isStopper = true)))
    (h : Reachable (init cap maxEnq to ig progs) c) (hdead : enabled c = []) :
    ∀ t ∈ c.ths, isProd t = true → t.pc = .done ∧ c.sh.enqWait = [] := by
  intro t ht _
  have hall : c.allDone = true := by
    rcases C05_no_deadlock hwf hPC h with h1 | h1
    · exact h1
    · exact absurd hdead h1
  unfold Cfg.allDone at hall
  rw [List.all_eq_true] at hall
  refine ⟨by simpa using hall t ht, ?_⟩
  have hb := base_reachable (base_init cap maxEnq to ig progs hwf) h
  obtain ⟨_, _, _, memE⟩ := hb.wait
  rw [List.eq_nil_iff_forall_not_mem]
  intro x hx
  obtain ⟨u, hu, hc⟩ := (memE x).mp (by unfold wlE; exact List.mem_append_right _ hx)
  have := hall u (List.mem_of_getElem? hu)
  simp only [beq_iff_eq] at this
  rw [this] at hc; simp [prodWakePc] at hc

/-- **Every execution with faults terminates** (no fairness needed): from a reachable configuration
`c` no execution has more than `Phi c` steps, and an execution that cannot be extended has all
threads done — failing items at any position, `maybe_stop` at any point, with or without timeout.
(`ignore_error = False`, positive batch sizes: see `C04_variant`.) -/
theorem C05_terminates (hwf : WF_enq maxEnq progs) (hmax : ∀ m b, Prog.batchLoop m b ∈ progs → 0 < m)
    (hPC : to = true ∨
      ((0 < maxEnq ∨ (∃ p ∈ progs, p.isStopper = true) ∨ ¬ ∃ p ∈ progs, p.isCons = true) ∧
       (cap = 0 ∨ (∃ p ∈ progs, p.isCons = true) ∨ ∃ p ∈ progs, p.isStopper = true)))
    (h : Reachable (init cap maxEnq to false progs) c) {n : Nat} (hn : StepsN c n c') :
    n ≤ Phi c ∧ (enabled c' = [] → c'.allDone = true) := by
  have hr : Reachable (init cap maxEnq to false progs) c' := by
    clear hmax hPC
    induction hn with
    | zero => exact h
    | succ hs _ ih => exact ih (.step h hs)
  refine ⟨MlModel.C04.C04_bounded_executions hwf hmax h hn, fun hdead => ?_⟩
  rcases C05_no_deadlock hwf hPC hr with h1 | h1
  · exact h1
  · exact absurd hdead h1

/-! ### Non-vacuity (tests) -/

/-- F6's scenario on the repaired model: capacity 1, three producers, one fails while the others
are parked on the full queue; every schedule ends with all threads done (here: one concrete
schedule ends, and the hypotheses of `C05_no_deadlock` hold for the configuration) -/
example : WF_enq 3 [.producer [.val 0, .val 1] 900, .producer [.val 100] 901, .producer [.fail] 902, .getLoop] ∧
    ((0 < 3 ∨ (∃ p ∈ [Prog.producer [.val 0, .val 1] 900, .producer [.val 100] 901, .producer [.fail] 902, .getLoop],
        p.isStopper = true) ∨ ¬ ∃ p ∈ [Prog.producer [.val 0, .val 1] 900, .producer [.val 100] 901,
        .producer [.fail] 902, .getLoop], p.isCons = true)) := by
  constructor
  · decide
  · exact Or.inl (by decide)

end MlModel.C05
