import MlModel.Lemmas.RemoteBasic
import MlModel.Properties.C17
/-!
# C14 — remote evaluation is observationally the same as local evaluation

Model: `Model/Remote.lean` over `Model/Lazy.lean` (C17).

Vocabulary
* `Prog`            – the lazy programs a client sends: `expr e` for **every** C17 expression tree (nested
                      calls, attrs, items, cached and lazy results, handles), and the traced calls outside the
                      C17 callable library (exception-instance constructor, raising function, generator /
                      queue constructors, `iter(H)`, `next(H)`, `H.get()`, `H.get_batch()`).
* `run p srv`       – **local evaluation** `lazy_fns.maybe_make(p)` in the process with state `srv`:
                      `Except Exc PVal` (value, or exception with type, message, `code`, `args`) and the new state.
* `getResult p env srv` – `CourierClient.get_result(p)` against the server whose process state is `srv`,
                      under the transport fate and worker aliveness in `env` (`{}` = fault-free).
* `wrap`            – how a local result corresponds to what the client holds: a top-level `LazyObject`
                      handle is a `RemoteObject` carrying the same id; everything else is itself.
-/
namespace MlModel.C14
open MlModel MlModel.Lazy MlModel.Remote
set_option linter.unusedSimpArgs false
set_option linter.unusedVariables false

/-! ## C14_eval — `client.get_result p = local p` in `Except` -/

/-- For every program (hence every expression tree), every value and every exception, every process
state and whatever the aliveness reading: if the call is delivered, the client's `get_result` returns
what local evaluation returns (same value; a lazy result as a handle with the same id) or raises the
same exception — same type, same message, same `code`, same `args` — and leaves the server in the
state local evaluation leaves the process in.  WF: the server is not shutting down, the value is not
itself an exception instance, the raised exception has no `code == 4` attribute (see the witnesses). -/
theorem C14_eval (p : Prog) (env : Env) (srv : Srv) (ha : env.alive0 = true) (hf : env.fate = .ok)
    (hs : srv.shutdown = false)
    (hv : ∀ x, (run p srv).1 ≠ .ok (.exc x)) (hc : ∀ x, (run p srv).1 = .error x → x.code ≠ 4) :
    getResult p env srv = ((run p srv).1.map wrap, (run p srv).2) := by
  cases ht : p.traceError with
  | some x => rw [getResult_traceError ht, run_traceError ht]; rfl
  | none =>
  simp only [getResult_traced ht, ha, hf, handle_getRequest, hs, Bool.not_true, Bool.false_eq_true, if_false]
  cases h : (run p srv).1 with
  | error x =>
    simp only [decode_exc, onError, hc x h, if_false, Except.map]
  | ok v =>
    simp only [decode_payload, Except.map]
    cases v with
    | exc x => exact absurd h (hv x)
    | plain v => rfl
    | list xs => rfl

/-- For C17 expression trees the two WF conditions hold by construction (the values of the callable
library are never exception instances, its exceptions carry no `code`): remote evaluation of **every**
expression tree, from every state, is `maybe_make` of that expression. -/
theorem C14_eval_expr (e : Expr) (env : Env) (srv : Srv) (ha : env.alive0 = true) (hf : env.fate = .ok)
    (hs : srv.shutdown = false) :
    getResult (.expr e) env srv =
      ((liftLazy (maybeMake e srv.lz).1).map wrap, { srv with lz := (maybeMake e srv.lz).2 }) := by
  have h := C14_eval (.expr e) env srv ha hf hs
  simp only [run, runExpr] at h
  apply h
  · intro x
    cases (maybeMake e srv.lz).1 <;> simp [liftLazy]
  · intro x hx
    cases hm : (maybeMake e srv.lz).1 with
    | ok rv => rw [hm] at hx; simp [liftLazy] at hx
    | error err =>
      rw [hm] at hx
      simp only [liftLazy, Except.error.injEq] at hx
      subst hx
      simp [Exc.ofErr]

/-- Composition with `C17_eval`: for expressions over pure callables with any cache flags the client
obtains exactly the value (or error) of ordinary eager evaluation, started in any world. -/
theorem C14_eval_eager (e : Expr) (env : Env) (srv : Srv) (ha : env.alive0 = true) (hf : env.fate = .ok)
    (hs : srv.shutdown = false) (hplain : e.Plain) (hpure : e.Pure) (hsound : Sound srv.lz.fnc) (w : World) :
    (getResult (.expr e) env srv).1 =
      match (eager e w).1 with
      | .ok rv => .ok (.val (.plain rv.1))
      | .error err => .error (Exc.ofErr err) := by
  rw [C14_eval_expr e env srv ha hf hs]
  have h17 := (C17.C17_eval e srv.lz hplain hpure hsound w).1
  cases hm : (maybeMake e srv.lz).1 with
  | error err =>
    rw [hm] at h17
    cases he : (eager e w).1 with
    | error err' => rw [he] at h17; simp only [Except.map, Except.error.injEq] at h17; subst h17; rfl
    | ok rv => rw [he] at h17; simp [Except.map] at h17
  | ok rv =>
    rw [hm] at h17
    cases he : eager e w with
    | mk r w' =>
      rw [he] at h17
      cases r with
      | error err' => simp [Except.map] at h17
      | ok rv' =>
        simp only [Except.map, Except.ok.injEq] at h17
        have hnh := eager_leafAll noHandleP e w w' rv' hplain.1 he
        have hne := leafAll_noHandle_ne hnh
        simp only [liftLazy, Except.map, h17]
        cases hv : rv'.1 <;> first | rfl | exact absurd hv (hne _)

/-- Witness for the first WF condition: a program whose **value** is an exception instance
(`trace(ValueError)('boom')`).  Locally it returns that instance; the client *raises* it — exactly what
it does for the program that raises the same exception: the two are indistinguishable remotely. -/
theorem C14_eval_exc_witness (x : Exc) (srv : Srv) (hs : srv.shutdown = false) (hx : x.code ≠ 4) :
    (run (.excValue x) srv).1 = .ok (.exc x) ∧
    (getResult (.excValue x) {} srv).1 = .error x ∧
    getResult (.excValue x) {} srv = getResult (.raise x) {} srv := by
  refine ⟨rfl, ?_, ?_⟩ <;>
    simp [getResult, Prog.traceError, handle_getRequest, run, hs, decode_exc, decode_payload, onError, hx]

/-- Witness for the second WF condition: an application exception that happens to have an attribute
`code == 4` is taken for the transport's deadline error and replaced by `TimeoutError`. -/
theorem C14_eval_code4_witness (x : Exc) (srv : Srv) (hs : srv.shutdown = false) (hx : x.code = 4) :
    (run (.raise x) srv).1 = .error x ∧ (getResult (.raise x) {} srv).1 = .error tryLongerExc := by
  refine ⟨rfl, ?_⟩
  simp [getResult, Prog.traceError, handle_getRequest, run, hs, decode_exc, onError, hx]

/-- Whatever the fate of the call, the aliveness of the worker and the shutdown flag: if `get_result`
returns at all, the call was delivered and it returns the (non-exception) value of local evaluation —
a transport fault, a dead worker or a shutdown never produce a value of their own. -/
theorem C14_never_wrong_value (p : Prog) (env : Env) (srv : Srv) (c : CRes)
    (h : (getResult p env srv).1 = .ok c) :
    env.alive0 = true ∧ env.fate = .ok ∧
    ∃ v, (run p srv).1 = .ok v ∧ v.isExc = false ∧ c = wrap v ∧ (getResult p env srv).2 = (run p srv).2 := by
  have ht : p.traceError = none := by
    cases ht : p.traceError with
    | none => rfl
    | some x => rw [getResult_traceError ht] at h; cases h
  rw [getResult_traced ht] at h ⊢
  have ha : env.alive0 = true := by
    cases ha : env.alive0 with
    | false => simp [ha] at h
    | true => rfl
  have hf : env.fate = .ok := by
    cases hf : env.fate <;> first | rfl | (simp [ha, hf] at h)
  refine ⟨ha, hf, ?_⟩
  simp only [ha, hf, handle_getRequest, Bool.not_true, Bool.false_eq_true, if_false] at h ⊢
  cases hr : (run p srv).1 with
  | error x => rw [hr] at h; simp [decode_exc] at h
  | ok v =>
    rw [hr] at h
    simp only [decode_payload] at h
    cases v with
    | exc x => simp at h
    | plain v => simp only [Except.ok.injEq] at h; exact ⟨_, rfl, rfl, h.symm, trivial⟩
    | list xs => simp only [Except.ok.injEq] at h; exact ⟨_, rfl, rfl, h.symm, trivial⟩

/-! ## Transport faults: the deadline → `TimeoutError` mapping -/

/-- A call that fails with the transport's deadline error (before or after the handler ran) raises
`TimeoutError` when the worker is alive and the original error otherwise; a non-deadline transport
error surfaces as it is; an unreachable worker is a `RuntimeError`.  The handler's effect happened
exactly when the fate says it ran. -/
theorem C14_fates (p : Prog) (env : Env) (srv : Srv) (ht : p.traceError = none) (ha : env.alive0 = true) :
    (env.fate = .deadline → getResult p env srv =
      (.error (if env.aliveAtError then tryLongerExc else deadlineStatus), srv)) ∧
    (env.fate = .deadlineAfter → getResult p env srv =
      (.error (if env.aliveAtError then tryLongerExc else deadlineStatus), (run p srv).2)) ∧
    (env.fate = .appError → getResult p env srv = (.error appStatus, srv)) ∧
    (env.fate = .lost → getResult p env srv = (.error disconnectedExc, srv)) := by
  refine ⟨?_, ?_, ?_, ?_⟩ <;> intro hf <;>
    simp [getResult_traced ht, ha, hf, onError, deadlineStatus, appStatus, handle_getRequest]

theorem C14_dead_worker (p : Prog) (env : Env) (srv : Srv) (ht : p.traceError = none)
    (ha : env.alive0 = false) : getResult p env srv = (.error connectExc, srv) := by
  simp [getResult_traced ht, ha]

/-- An error of *tracing* (the flags `cache_result_` and `lazy_result_` together) is raised on the client
before anything is sent: whatever the server state, shutdown flag, fate or aliveness, the client raises
it, the server is untouched — and local evaluation raises the same. -/
theorem C14_trace_error (p : Prog) (x : Exc) (env : Env) (srv : Srv) (ht : p.traceError = some x) :
    getResult p env srv = (.error x, srv) ∧ run p srv = (.error x, srv) :=
  ⟨getResult_traceError ht env srv, run_traceError ht srv⟩

/-! ## C14_shutdown — a server that is shutting down answers with a retriable timeout error -/

/-- Once shutdown is requested: a call whose evaluation fails — with whatever exception, including the
`StopIteration` of an exhausted iterator — answers `TimeoutError` (the retriable kind); a call whose
evaluation succeeds answers its value; the server state is that of local evaluation either way. -/
theorem C14_shutdown (p : Prog) (env : Env) (srv : Srv) (hs : srv.shutdown = true)
    (ht : p.traceError = none) (ha : env.alive0 = true) (hf : env.fate = .ok) :
    (∀ x, (run p srv).1 = .error x → (getResult p env srv).1 = .error shutdownExc) ∧
    (∀ v, (run p srv).1 = .ok v → v.isExc = false → (getResult p env srv).1 = .ok (wrap v)) ∧
    (getResult p env srv).2 = (run p srv).2 ∧
    shutdownExc.kind = .py .timeout := by
  refine ⟨?_, ?_, ?_, rfl⟩
  · intro x hx
    simp [getResult_traced ht, ha, hf, handle_getRequest, hx, hs, decode_exc, onError, shutdownExc]
  · intro v hv hne
    simp only [getResult_traced ht, ha, hf, handle_getRequest, hv, Bool.not_true, Bool.false_eq_true, if_false,
      decode_payload]
    cases v with
    | exc x => simp [PVal.isExc] at hne
    | plain v => rfl
    | list xs => rfl
  · simp [getResult_traced ht, ha, hf, handle_getRequest]

/-- Iterator initialisation (`PrefetchedCourierServer._init_iterator`) after a shutdown request answers
`TimeoutError` and takes nothing: the state is unchanged, the program is not evaluated. -/
theorem C14_shutdown_init (w : WProg) (srv : Srv) (hs : srv.shutdown = true) :
    initIterator w srv = (.refused initShutdownExc, srv) ∧ initShutdownExc.kind = .py .timeout := by
  simp [initIterator, hs, initShutdownExc]

/-- The request is sticky: no evaluation, remote call or background task clears it. -/
theorem C14_shutdown_sticky (p : Prog) (env : Env) (srv : Srv) :
    (requestShutdown srv).shutdown = true ∧
    (srv.shutdown = true → (getResult p env srv).2.shutdown = true ∧ (run p srv).2.shutdown = true ∧
      (runBg srv).shutdown = true) := by
  refine ⟨rfl, fun hs => ⟨?_, ?_, ?_⟩⟩
  · unfold getResult
    split
    · exact hs
    · split
      · exact hs
      · split <;> simp [handle_getRequest, run_shutdown, hs]
  · rw [run_shutdown]; exact hs
  · unfold runBg
    split
    · exact hs
    · rw [run_shutdown]; exact hs

end MlModel.C14
