import MlModel.Lemmas.RemoteBasic
import MlModel.Lemmas.RemoteChain
import MlModel.Lemmas.RemoteIter
import MlModel.Lemmas.RemoteConc
import MlModel.Lemmas.RemoteFlight
import MlModel.Properties.C17
/-!
# C14 — remote evaluation is observationally the same as local evaluation

Model: `Model/Remote.lean` over `Model/Lazy.lean` (C17).

Vocabulary
* `Prog`            – the lazy programs a client sends: `expr e` for **every** C17 expression tree (nested
                      calls, attrs, items, cached and lazy results, handles), and the traced calls outside the
                      C17 callable library (exception-instance constructor, raising function, generator /
                      queue constructors, `iter(H)`, `next(H)`, `H.get()`, `H.get_batch()`).
* `run p srv`       – **local evaluation** `lazy_fns.maybe_make(p)` in the process with state `srv`:
                      `Except Exc PVal` (value, or exception with type, message, `code`, `args`) and the new state.
* `getResult p env srv` – `CourierClient.get_result(p)` against the server whose process state is `srv`,
                      under the transport fate and worker aliveness in `env` (`{}` = fault-free).
* `wrap`            – how a local result corresponds to what the client holds: a top-level `LazyObject`
                      handle is a `RemoteObject` carrying the same id; everything else is itself.
-/
namespace MlModel.C14
open MlModel MlModel.Lazy MlModel.Remote
set_option linter.unusedSimpArgs false
set_option linter.unusedVariables false

/-! ## C14_eval — `client.get_result p = local p` in `Except` -/

/-- For every program (hence every expression tree), every value and every exception, every process
state and whatever the aliveness reading: if the call is delivered, the client's `get_result` returns
what local evaluation returns (same value; a lazy result as a handle with the same id) or raises the
same exception — same type, same message, same `code`, same `args` — and leaves the server in the
state local evaluation leaves the process in.  WF: the server is not shutting down and the value is not
itself an exception instance (see the witness).  (Before the repair of finding C14-F2 a third condition was
needed: the raised exception has no `code == 4` attribute — see `C14_eval_code4`.) -/
theorem C14_eval (p : Prog) (env : Env) (srv : Srv) (ha : env.alive0 = true) (hf : env.fate = .ok)
    (hs : srv.shutdown = false)
    (hv : ∀ x, (run p srv).1 ≠ .ok (.exc x)) :
    getResult p env srv = ((run p srv).1.map wrap, (run p srv).2) := by
  cases ht : p.traceError with
  | some x => rw [getResult_traceError ht, run_traceError ht]; rfl
  | none =>
  simp only [getResult_traced ht, ha, hf, handle_getRequest, hs, Bool.not_true, Bool.false_eq_true, if_false]
  cases h : (run p srv).1 with
  | error x =>
    simp only [decode_exc, Except.map]
  | ok v =>
    simp only [decode_payload, Except.map]
    cases v with
    | exc x => exact absurd h (hv x)
    | plain v => rfl
    | list xs => rfl

/-- For C17 expression trees the WF condition holds by construction (the values of the callable
library are never exception instances): remote evaluation of **every**
expression tree, from every state, is `maybe_make` of that expression. -/
theorem C14_eval_expr (e : Expr) (env : Env) (srv : Srv) (ha : env.alive0 = true) (hf : env.fate = .ok)
    (hs : srv.shutdown = false) :
    getResult (.expr e) env srv =
      ((liftLazy (maybeMake e srv.lz).1).map wrap, { srv with lz := (maybeMake e srv.lz).2 }) := by
  have h := C14_eval (.expr e) env srv ha hf hs
  simp only [run, runExpr] at h
  apply h
  intro x
  cases (maybeMake e srv.lz).1 <;> simp [liftLazy]

/-- Composition with `C17_eval`: for expressions over pure callables with any cache flags the client
obtains exactly the value (or error) of ordinary eager evaluation, started in any world. -/
theorem C14_eval_eager (e : Expr) (env : Env) (srv : Srv) (ha : env.alive0 = true) (hf : env.fate = .ok)
    (hs : srv.shutdown = false) (hplain : e.Plain) (hpure : e.Pure) (hsound : Sound srv.lz.fnc) (w : World) :
    (getResult (.expr e) env srv).1 =
      match (eager e w).1 with
      | .ok rv => .ok (.val (.plain rv.1))
      | .error err => .error (Exc.ofErr err) := by
  rw [C14_eval_expr e env srv ha hf hs]
  have h17 := (C17.C17_eval e srv.lz hplain hpure hsound w).1
  cases hm : (maybeMake e srv.lz).1 with
  | error err =>
    rw [hm] at h17
    cases he : (eager e w).1 with
    | error err' => rw [he] at h17; simp only [Except.map, Except.error.injEq] at h17; subst h17; rfl
    | ok rv => rw [he] at h17; simp [Except.map] at h17
  | ok rv =>
    rw [hm] at h17
    cases he : eager e w with
    | mk r w' =>
      rw [he] at h17
      cases r with
      | error err' => simp [Except.map] at h17
      | ok rv' =>
        simp only [Except.map, Except.ok.injEq] at h17
        have hnh := eager_leafAll noHandleP e w w' rv' hplain.1 he
        have hne := leafAll_noHandle_ne hnh
        simp only [liftLazy, Except.map, h17]
        cases hv : rv'.1 <;> first | rfl | exact absurd hv (hne _)

/-- Witness for the WF condition: a program whose **value** is an exception instance
(`trace(ValueError)('boom')`).  Locally it returns that instance; the client *raises* it — exactly what
it does for the program that raises the same exception: the two are indistinguishable remotely. -/
theorem C14_eval_exc_witness (x : Exc) (srv : Srv) (hs : srv.shutdown = false) :
    (run (.excValue x) srv).1 = .ok (.exc x) ∧
    (getResult (.excValue x) {} srv).1 = .error x ∧
    getResult (.excValue x) {} srv = getResult (.raise x) {} srv := by
  refine ⟨rfl, ?_, ?_⟩ <;>
    simp [getResult, Prog.traceError, handle_getRequest, run, hs, decode_exc, decode_payload]

/-- **Repaired (finding C14-F2).**  An application exception that happens to have an attribute `code == 4`
used to be taken for the transport's deadline error and replaced by `TimeoutError` (the former
`C14_eval_code4_witness`); `get_result` now applies the deadline mapping only to a failure of the call itself,
so the exception reaches the caller unchanged — type, message, `code`, `args`. -/
theorem C14_eval_code4 (x : Exc) (env : Env) (srv : Srv) (ha : env.alive0 = true) (hf : env.fate = .ok)
    (hs : srv.shutdown = false) :
    (run (.raise x) srv).1 = .error x ∧ (getResult (.raise x) env srv).1 = .error x := by
  refine ⟨rfl, ?_⟩
  rw [C14_eval (.raise x) env srv ha hf hs (by intro y; simp [run])]
  rfl

/-- Whatever the fate of the call, the aliveness of the worker and the shutdown flag: if `get_result`
returns at all, the call was delivered and it returns the (non-exception) value of local evaluation —
a transport fault, a dead worker or a shutdown never produce a value of their own. -/
theorem C14_never_wrong_value (p : Prog) (env : Env) (srv : Srv) (c : CRes)
    (h : (getResult p env srv).1 = .ok c) :
    env.alive0 = true ∧ env.fate = .ok ∧
    ∃ v, (run p srv).1 = .ok v ∧ v.isExc = false ∧ c = wrap v ∧ (getResult p env srv).2 = (run p srv).2 := by
  have ht : p.traceError = none := by
    cases ht : p.traceError with
    | none => rfl
    | some x => rw [getResult_traceError ht] at h; cases h
  rw [getResult_traced ht] at h ⊢
  have ha : env.alive0 = true := by
    cases ha : env.alive0 with
    | false => simp [ha] at h
    | true => rfl
  have hf : env.fate = .ok := by
    cases hf : env.fate <;> first | rfl | (simp [ha, hf] at h)
  refine ⟨ha, hf, ?_⟩
  simp only [ha, hf, handle_getRequest, Bool.not_true, Bool.false_eq_true, if_false] at h ⊢
  cases hr : (run p srv).1 with
  | error x => rw [hr] at h; simp [decode_exc] at h
  | ok v =>
    rw [hr] at h
    simp only [decode_payload] at h
    cases v with
    | exc x => simp at h
    | plain v => simp only [Except.ok.injEq] at h; exact ⟨_, rfl, rfl, h.symm, trivial⟩
    | list xs => simp only [Except.ok.injEq] at h; exact ⟨_, rfl, rfl, h.symm, trivial⟩

/-! ## C14_handle — a lazy result stays on the server; the client works through a handle -/

/-- Whenever local evaluation yields a `LazyObject` handle (a `lazy_result_` program), the pickled reply
is `href id` — a form that has an id and **no value field** — and the client holds `RemoteObject id`.
Holds whatever the shutdown flag and the aliveness reading. -/
theorem C14_handle_only_id (p : Prog) (env : Env) (srv : Srv) (id : Nat) (ht : p.traceError = none)
    (ha : env.alive0 = true) (hf : env.fate = .ok) (h : (run p srv).1 = .ok (.plain (.handle id))) :
    (handle (getRequest p) srv).1 = .payload (.plain (.href id)) true ∧
    (getResult p env srv).1 = .ok (.remote id) := by
  refine ⟨?_, ?_⟩
  · simp only [handle_getRequest, h, PVal.dumps, Val.dumps]
  · have h2 := decode_payload env (.plain (.handle id))
    simp only [getResult_traced ht, ha, hf, handle_getRequest, h, Bool.not_true, Bool.false_eq_true, if_false]
    simpa [wrap] using h2

/-- **Every** uncached call marked `lazy_result_` — whatever its function, arguments and nesting — that
evaluates at all gives the client a `RemoteObject` whose id is fresh (not below the server's id counter
before the call), and the pickled reply is that id alone. -/
theorem C14_handle_lazy_call (f : Expr) (as : List Expr) (ks : List (String × Expr)) (env : Env) (srv : Srv)
    (rv : RVal) (st : St) (hb : (Expr.call f as ks false true).badFlags = false) (hg : Good srv.lz)
    (ha : env.alive0 = true) (hf : env.fate = .ok)
    (h : eval (.call f as ks false true) srv.lz = (.ok rv, st)) :
    ∃ id, srv.lz.nextId ≤ id ∧
      (getResult (.expr (.call f as ks false true)) env srv).1 = .ok (.remote id) ∧
      (handle (getRequest (.expr (.call f as ks false true))) srv).1 = .payload (.plain (.href id)) true := by
  obtain ⟨id, hid, hle, _⟩ := eval_lazy_call_handle f as ks srv.lz st rv hg h
  have ht : (Prog.expr (.call f as ks false true)).traceError = none := by simp [Prog.traceError, hb]
  have hrun : (run (.expr (.call f as ks false true)) srv).1 = .ok (.plain (.handle id)) := by
    simp only [run, runExpr, maybeMake, hb, Bool.false_eq_true, if_false, h, liftLazy, hid]
  obtain ⟨h1, h2⟩ := C14_handle_only_id _ env srv id ht ha hf hrun
  exact ⟨id, hle, h2, h1⟩

/-- The value never crosses: the bytes sent back for `trace(v, lazy_result=True)` are the same for any
two values — the reply is a function of the server's id counter only. -/
theorem C14_handle_value_stays (v v' : Val) (srv : Srv) :
    (handle (getRequest (.expr (.traced v true))) srv).1 =
      (handle (getRequest (.expr (.traced v' true))) srv).1 ∧
    (handle (getRequest (.expr (.traced v true))) srv).1 = .payload (.plain (.href srv.lz.nextId)) true := by
  simp [handle_getRequest, run, runExpr, maybeMake, Expr.badFlags, eval, newHandle, liftLazy, PVal.dumps,
    Val.dumps]

/-- …while the object itself is on the server, under that id (object capacity ≥ 1): dereferencing the
handle there yields exactly the value the program evaluated to. -/
theorem C14_handle_object_on_server (v : Val) (srv : Srv) (hg : Good srv.lz) (hm : 1 ≤ srv.lz.obj.maxsize) :
    (run (.expr (.traced v true)) srv).1 = .ok (.plain (.handle srv.lz.nextId)) ∧
    (run (.expr (.const (.handle srv.lz.nextId))) (run (.expr (.traced v true)) srv).2).1 = .ok (.plain v) := by
  have h := C17.C17_lazy_root (v, 0) srv.lz hg hm
  refine ⟨?_, ?_⟩
  · simp [run, runExpr, maybeMake, Expr.badFlags, eval, newHandle, liftLazy]
  · have h2 := h.2
    have hst : (maybeMake (.traced v true) srv.lz).2 = (newHandle (v, 0) srv.lz).2 := by
      simp [maybeMake, Expr.badFlags, eval]
    simp only [run, runExpr, hst, h2, liftLazy]

/-- **Chains.**  Any chain of attribute accesses, item accesses and calls built on a remote handle and
finished by `result_()` gives what the same chain gives on the local object by ordinary Python
evaluation (`getattr(v, n)`, `v[k]`, `v(*args, **kw)`): same value, or the same error at the same link,
and the same effects on the world (call log, stateful counter).  `v` is the object the server holds
under the handle's id.  WF: no `LazyObject` handle inside the object or among the arguments (the server
would dereference it, plain Python would not). -/
theorem C14_handle_chain (id : Nat) (ls : List Link) (env : Env) (srv : Srv) (v : Val) (r : Nat)
    (ha : env.alive0 = true) (hf : env.fate = .ok) (hs : srv.shutdown = false)
    (hobj : Lru.find? srv.lz.obj.data id = some (v, r))
    (hv : v.leafAll noHandleP = true) (hls : ∀ l ∈ ls, l.noHandle = true) :
    (handleResult id ls env srv).1 =
      (match (localChain v ls srv.lz.w).1 with
       | .ok v' => .ok (.val (.plain v'))
       | .error e => .error (Exc.ofErr e)) ∧
    (handleResult id ls env srv).2.lz.w = (localChain v ls srv.lz.w).2 := by
  have hroot : eval (.const (.handle id)) srv.lz = (.ok (v, r), { srv.lz with obj := (srv.lz.obj.getitem id).2 }) := by
    rw [eval_handle]; exact objGet_found hobj
  obtain ⟨h1, h2⟩ := eval_chain ls (.const (.handle id)) srv.lz _ v r (by simp) hv hls hroot
  simp only at h1 h2
  have hmm : maybeMake (chain (.const (.handle id)) ls) srv.lz = eval (chain (.const (.handle id)) ls) srv.lz := by
    simp [maybeMake, badFlags_chain, Expr.badFlags]
  unfold handleResult
  rw [C14_eval_expr _ env srv ha hf hs, hmm]
  refine ⟨?_, ?_⟩
  · cases hl : localChain v ls srv.lz.w with
    | mk res w' =>
      rw [hl] at h1
      simp only at h1 ⊢
      cases hev : (eval (chain (.const (.handle id)) ls) srv.lz).1 with
      | error e =>
        rw [hev] at h1
        cases res with
        | error e' => simp only [Except.map, Except.error.injEq] at h1; subst h1; rfl
        | ok v' => simp [Except.map] at h1
      | ok rv =>
        rw [hev] at h1
        cases res with
        | error e' => simp [Except.map] at h1
        | ok v' =>
          simp only [Except.map, Except.ok.injEq] at h1
          have hne := leafAll_noHandle_ne (localChain_leafAll ls v v' _ _ hv hls hl)
          simp only [liftLazy, Except.map, h1]
          cases hv' : v' <;> first | rfl | exact absurd hv' (hne _)
  · simp only [h2, St.withW_w]

/-! ## C14_iter — remote iterators and remote queues -/

/-- what the caller of `next(remote_iterator)` / `remote_queue.get()` sees for a local outcome -/
def seen (r : Except Exc Val) : Except Exc CRes := r.map (fun a => wrap (.plain a))

/-- One `next` on a remote iterator is `next` on the underlying iterator: same element or same
exception, and the server-side iterator advances exactly as the local one. -/
theorem C14_iter_next (id : Nat) (srv : Srv) (g : Gen) (hs : srv.shutdown = false)
    (hg : sGet srv.objs (resolve srv.objs id) = some (.iter g)) :
    getResult (.next id) {} srv =
      (seen (genNext g).1,
       { srv with objs := sSet srv.objs (resolve srv.objs id) (.iter (genNext g).2) }) := by
  have hrun : run (.next id) srv = ((genNext g).1.map .plain,
      { srv with objs := sSet srv.objs (resolve srv.objs id) (.iter (genNext g).2) }) := by
    simp only [run, runNext, hg]
  rw [C14_eval (.next id) {} srv rfl rfl hs, hrun]
  · cases (genNext g).1 <;> rfl
  · intro x; rw [hrun]; cases (genNext g).1 <;> simp [Except.map]

/-- `k` successive `next` calls through the client are `k` successive `next` calls on the iterator. -/
theorem C14_iter_run (id : Nat) (k : Nat) : ∀ (srv : Srv) (g : Gen), srv.shutdown = false →
    sGet srv.objs (resolve srv.objs id) = some (.iter g) →
    (remoteNexts id k srv).1 = (genRun k g).1.map seen ∧
    sGet (remoteNexts id k srv).2.objs (resolve (remoteNexts id k srv).2.objs id) = some (.iter (genRun k g).2) := by
  induction k with
  | zero => intro srv g _ hg; exact ⟨rfl, hg⟩
  | succ k ih =>
    intro srv g hs hg
    simp only [remoteNexts, genRun, List.map_cons]
    rw [C14_iter_next id srv g hs hg]
    have hres : resolve (sSet srv.objs (resolve srv.objs id) (.iter (genNext g).2)) id = resolve srv.objs id :=
      resolve_sSet_iter _ _ _ _ _ hg
    have hg' : sGet (sSet srv.objs (resolve srv.objs id) (.iter (genNext g).2))
        (resolve (sSet srv.objs (resolve srv.objs id) (.iter (genNext g).2)) id) = some (.iter (genNext g).2) := by
      rw [hres]; exact sGet_sSet_same _ _ _ _ hg
    obtain ⟨h1, h2⟩ := ih { srv with objs := sSet srv.objs (resolve srv.objs id) (.iter (genNext g).2) }
      (genNext g).2 hs hg'
    exact ⟨by rw [h1], h2⟩

/-- **Remote iterator.**  Iterating a remote iterator over elements `xs` that ends with `fin`
(`StopIteration`, possibly with a return value, or a failure) yields, for every number `m` of further
calls: exactly `xs` in order, then the end signal **once**, then a bare `StopIteration` on each of the
`m` later calls — never a value after exhaustion. -/
theorem C14_iter (id : Nat) (m : Nat) (srv : Srv) (g : Gen) (hs : srv.shutdown = false)
    (hg : sGet srv.objs (resolve srv.objs id) = some (.iter g)) :
    (remoteNexts id (g.items.length + 1 + m) srv).1 =
      g.items.map (fun a => .ok (wrap (.plain a))) ++ [.error g.fin.exc] ++
        List.replicate m (.error (stopExc [])) := by
  rw [(C14_iter_run id _ srv g hs hg).1, genRun_trace, genTrace_full]
  simp [seen, Except.map, List.map_replicate]

/-- One `get` on a remote queue is `get` on the queue. -/
theorem C14_iter_queue_get (id : Nat) (srv : Srv) (q : QObj) (hs : srv.shutdown = false)
    (hq : sGet srv.objs id = some (.queue q)) :
    getResult (.qget id) {} srv =
      (seen (qGet q).1, { srv with objs := sSet srv.objs id (.queue (qGet q).2) }) := by
  have hrun : run (.qget id) srv = ((qGet q).1.map .plain,
      { srv with objs := sSet srv.objs id (.queue (qGet q).2) }) := by
    simp only [run, runQGet, hq]
  rw [C14_eval (.qget id) {} srv rfl rfl hs, hrun]
  · cases (qGet q).1 <;> rfl
  · intro x; rw [hrun]; cases (qGet q).1 <;> simp [Except.map]

theorem C14_iter_queue_run (id : Nat) (k : Nat) : ∀ (srv : Srv) (q : QObj), srv.shutdown = false →
    sGet srv.objs id = some (.queue q) →
    (remoteGets id k srv).1 = (qRun k q).1.map seen := by
  induction k with
  | zero => intro srv q _ _; rfl
  | succ k ih =>
    intro srv q hs hq
    simp only [remoteGets, qRun, List.map_cons]
    rw [C14_iter_queue_get id srv q hs hq]
    rw [ih { srv with objs := sSet srv.objs id (.queue (qGet q).2) } (qGet q).2 hs
      (sGet_sSet_same _ _ _ _ hq)]

/-- **Remote queue.**  `get` on a remote (finished) queue yields exactly the buffered elements in
order and then the end — `StopIteration(*returned)` or the producer's failure — on every later call. -/
theorem C14_iter_queue (id : Nat) (m : Nat) (srv : Srv) (q : QObj) (hs : srv.shutdown = false)
    (hq : sGet srv.objs id = some (.queue q)) :
    (remoteGets id (q.buf.length + m) srv).1 =
      q.buf.map (fun a => .ok (wrap (.plain a))) ++ List.replicate m (.error q.fin.exc) := by
  rw [C14_iter_queue_run id _ srv q hs hq, qRun_trace, qTrace_full]
  simp [seen, Except.map, List.map_replicate]

/-- `get_batch` on a remote queue is `get_batch` on the queue: a list of the next buffered elements in
order; for a queue that ended normally and holds fewer than the batch bound, all of them at once, and
the end afterwards. -/
theorem C14_iter_queue_batch (id : Nat) (srv : Srv) (q : QObj) (hs : srv.shutdown = false)
    (hq : sGet srv.objs id = some (.queue q)) :
    getResult (.qbatch id) {} srv =
      ((qGetBatch srv.maxBatch q).1.map (fun xs => .val (.list xs)),
       { srv with objs := sSet srv.objs id (.queue (qGetBatch srv.maxBatch q).2) }) ∧
    (∀ r a rest, q.fin = .stop r → q.buf = a :: rest → q.buf.length < srv.maxBatch →
      qGetBatch srv.maxBatch q = (.ok q.buf, { q with buf := [] }) ∧
      (qGetBatch srv.maxBatch { q with buf := [] }).1 = .error (stopExc r)) := by
  have hrun : run (.qbatch id) srv = ((qGetBatch srv.maxBatch q).1.map .list,
      { srv with objs := sSet srv.objs id (.queue (qGetBatch srv.maxBatch q).2) }) := by
    simp only [run, runQBatch, hq]
  refine ⟨?_, ?_⟩
  · rw [C14_eval (.qbatch id) {} srv rfl rfl hs, hrun]
    · cases (qGetBatch srv.maxBatch q).1 <;> rfl
    · intro x; rw [hrun]; cases (qGetBatch srv.maxBatch q).1 <;> simp [Except.map]
  · intro r a rest hf hb hlt
    refine ⟨?_, ?_⟩
    · unfold qGetBatch
      rw [hb] at hlt ⊢
      simp only [hf, Nat.not_le.mpr hlt, if_false]
    · simp [qGetBatch, hf, Fin.exc]

/-- Creating the iterator through the public route: `mk_gen` (a `lazy_result_` generator) followed by
`iter(handle)` gives the client two handles with fresh ids that denote the one server-side generator
holding exactly the given elements and end; so `C14_iter` applies to it. -/
theorem C14_iter_init (items : List Val) (fin : Fin) (srv : Srv) (hs : srv.shutdown = false)
    (hfresh : ∀ p ∈ srv.objs, p.1 < srv.lz.nextId) :
    let r1 := getResult (.mkGen items fin) {} srv
    let r2 := getResult (.iterOf srv.lz.nextId) {} r1.2
    r1.1 = .ok (.remote srv.lz.nextId) ∧ r2.1 = .ok (.remote (srv.lz.nextId + 1)) ∧
    r2.2.shutdown = false ∧
    sGet r2.2.objs (resolve r2.2.objs (srv.lz.nextId + 1)) = some (.iter ⟨items, fin⟩) := by
  have hne : ∀ p ∈ srv.objs, p.1 ≠ srv.lz.nextId := fun p hp e => by have := hfresh p hp; omega
  have e1 : getResult (.mkGen items fin) {} srv = (.ok (.remote srv.lz.nextId), (allocObj (.iter ⟨items, fin⟩) srv).2) := by
    rw [C14_eval _ {} srv rfl rfl hs] <;> simp [run, allocObj, Except.map, wrap]
  have hget : sGet (allocObj (.iter ⟨items, fin⟩) srv).2.objs srv.lz.nextId = some (.iter ⟨items, fin⟩) :=
    sGet_append_new _ _ _ hne
  have hres : resolve (allocObj (.iter ⟨items, fin⟩) srv).2.objs srv.lz.nextId = srv.lz.nextId := by
    unfold resolve; rw [hget]
  have hrun2 : run (.iterOf srv.lz.nextId) (allocObj (.iter ⟨items, fin⟩) srv).2 =
      allocObj (.alias srv.lz.nextId) (allocObj (.iter ⟨items, fin⟩) srv).2 := by
    simp only [run, runIterOf, hres, hget]
  have e2 : getResult (.iterOf srv.lz.nextId) {} (allocObj (.iter ⟨items, fin⟩) srv).2 =
      (.ok (.remote (srv.lz.nextId + 1)), (allocObj (.alias srv.lz.nextId) (allocObj (.iter ⟨items, fin⟩) srv).2).2) := by
    rw [C14_eval _ {} _ rfl rfl (by exact hs), hrun2]
    · rfl
    · intro x; rw [hrun2]; simp [allocObj]
  simp only [e1, e2]
  refine ⟨trivial, trivial, hs, ?_⟩
  have hne2 : ∀ p ∈ (allocObj (.iter ⟨items, fin⟩) srv).2.objs, p.1 ≠ srv.lz.nextId + 1 := by
    intro p hp
    simp only [allocObj, List.mem_append, List.mem_singleton] at hp
    rcases hp with hp | rfl
    · have := hfresh p hp; omega
    · simp
  have hal : sGet (allocObj (.alias srv.lz.nextId) (allocObj (.iter ⟨items, fin⟩) srv).2).2.objs (srv.lz.nextId + 1)
      = some (.alias srv.lz.nextId) := sGet_append_new _ _ _ hne2
  have hres2 : resolve (allocObj (.alias srv.lz.nextId) (allocObj (.iter ⟨items, fin⟩) srv).2).2.objs (srv.lz.nextId + 1)
      = srv.lz.nextId := by
    unfold resolve; rw [hal]
  rw [hres2]
  show sGet ((allocObj (.iter ⟨items, fin⟩) srv).2.objs ++ [(srv.lz.nextId + 1, .alias srv.lz.nextId)]) srv.lz.nextId = _
  rw [sGet_append_old _ _ _ _ (by omega)]
  exact hget

/-! ## Transport faults: the deadline → `TimeoutError` mapping -/

/-- A call that fails with the transport's deadline error (before or after the handler ran) raises
`TimeoutError` when the worker is alive and the original error otherwise; a non-deadline transport
error surfaces as it is; an unreachable worker is a `RuntimeError`.  The handler's effect happened
exactly when the fate says it ran. -/
theorem C14_fates (p : Prog) (env : Env) (srv : Srv) (ht : p.traceError = none) (ha : env.alive0 = true) :
    (env.fate = .deadline → getResult p env srv =
      (.error (if env.aliveAtError then tryLongerExc else deadlineStatus), srv)) ∧
    (env.fate = .deadlineAfter → getResult p env srv =
      (.error (if env.aliveAtError then tryLongerExc else deadlineStatus), (run p srv).2)) ∧
    (env.fate = .appError → getResult p env srv = (.error appStatus, srv)) ∧
    (env.fate = .lost → getResult p env srv = (.error disconnectedExc, srv)) := by
  refine ⟨?_, ?_, ?_, ?_⟩ <;> intro hf <;>
    simp [getResult_traced ht, ha, hf, onError, deadlineStatus, appStatus, handle_getRequest]

theorem C14_dead_worker (p : Prog) (env : Env) (srv : Srv) (ht : p.traceError = none)
    (ha : env.alive0 = false) : getResult p env srv = (.error connectExc, srv) := by
  simp [getResult_traced ht, ha]

/-- An error of *tracing* (the flags `cache_result_` and `lazy_result_` together) is raised on the client
before anything is sent: whatever the server state, shutdown flag, fate or aliveness, the client raises
it, the server is untouched — and local evaluation raises the same. -/
theorem C14_trace_error (p : Prog) (x : Exc) (env : Env) (srv : Srv) (ht : p.traceError = some x) :
    getResult p env srv = (.error x, srv) ∧ run p srv = (.error x, srv) :=
  ⟨getResult_traceError ht env srv, run_traceError ht srv⟩

/-! ## C14_shutdown — a server that is shutting down answers with a retriable timeout error -/

/-- Once shutdown is requested: a call whose evaluation fails — with whatever exception, including the
`StopIteration` of an exhausted iterator — answers `TimeoutError` (the retriable kind); a call whose
evaluation succeeds answers its value; the server state is that of local evaluation either way. -/
theorem C14_shutdown (p : Prog) (env : Env) (srv : Srv) (hs : srv.shutdown = true)
    (ht : p.traceError = none) (ha : env.alive0 = true) (hf : env.fate = .ok) :
    (∀ x, (run p srv).1 = .error x → (getResult p env srv).1 = .error shutdownExc) ∧
    (∀ v, (run p srv).1 = .ok v → v.isExc = false → (getResult p env srv).1 = .ok (wrap v)) ∧
    (getResult p env srv).2 = (run p srv).2 ∧
    shutdownExc.kind = .py .timeout := by
  refine ⟨?_, ?_, ?_, rfl⟩
  · intro x hx
    simp [getResult_traced ht, ha, hf, handle_getRequest, hx, hs, decode_exc, onError, shutdownExc]
  · intro v hv hne
    simp only [getResult_traced ht, ha, hf, handle_getRequest, hv, Bool.not_true, Bool.false_eq_true, if_false,
      decode_payload]
    cases v with
    | exc x => simp [PVal.isExc] at hne
    | plain v => rfl
    | list xs => rfl
  · simp [getResult_traced ht, ha, hf, handle_getRequest]

/-- Iterator initialisation (`PrefetchedCourierServer._init_iterator`) after a shutdown request answers
`TimeoutError` and takes nothing: the state is unchanged, the program is not evaluated. -/
theorem C14_shutdown_init (w : WProg) (srv : Srv) (hs : srv.shutdown = true) :
    initIterator w srv = (.refused initShutdownExc, srv) ∧ initShutdownExc.kind = .py .timeout := by
  simp [initIterator, hs, initShutdownExc]

/-- The request is sticky: no evaluation, remote call or background task clears it. -/
theorem C14_shutdown_sticky (p : Prog) (env : Env) (srv : Srv) :
    (requestShutdown srv).shutdown = true ∧
    (srv.shutdown = true → (getResult p env srv).2.shutdown = true ∧ (run p srv).2.shutdown = true ∧
      (runBg srv).shutdown = true) := by
  refine ⟨rfl, fun hs => ⟨?_, ?_, ?_⟩⟩
  · unfold getResult
    split
    · exact hs
    · split
      · exact hs
      · split <;> simp [handle_getRequest, run_shutdown, hs]
  · rw [run_shutdown]; exact hs
  · unfold runBg
    split
    · exact hs
    · rw [run_shutdown]; exact hs

/-! ## C14_shutdown for calls in flight — every interleaving -/

/-- **Every interleaving.**  Take any history of server steps (`start` / `finish` of any requests,
background tasks, further shutdown requests) that contains a shutdown request — `a ++ shutdown :: b` —
and any request `i` still in flight after it, *whether its handler started before or after the shutdown
was requested*.  When that handler finishes, its reply is built from the flag **at that moment**: if the
evaluation fails (with whatever exception) the reply is the retriable `TimeoutError`, never the raw
exception; if it succeeds the reply is the value (or `None` under `return_none`). -/
theorem C14_shutdown_inflight (sys : Sys) (a b : List Step) (i : Nat) (rq : Request)
    (hin : (sys.run (a ++ .shutdown :: b)).inflight.lookup i = some rq)
    (hre : rq.returnException = true) (hni : rq.returnImmediately = false) :
    ((sys.run (a ++ .shutdown :: b)).step (.finish i)).replies =
      (sys.run (a ++ .shutdown :: b)).replies ++
        [(i, match (run rq.wire.loads (sys.run (a ++ .shutdown :: b)).srv).1 with
             | .ok v => Reply.payload (if rq.returnNone then PVal.plain .none else v).dumps rq.compress
             | .error _ => Reply.payload (.exc shutdownExc.dumps) rq.compress)] := by
  have hs := run_after_shutdown sys a b
  simp only [Sys.step, hin, handle_reply rq _ hre hni, hs, if_true]
  cases (run rq.wire.loads (sys.run (a ++ .shutdown :: b)).srv).1 <;> rfl

/-- …and the client of such a call (`get_result`'s request) raises `TimeoutError` resp. returns the value. -/
theorem C14_shutdown_inflight_client (sys : Sys) (a b : List Step) (i : Nat) (p : Prog) (env : Env)
    (hin : (sys.run (a ++ .shutdown :: b)).inflight.lookup i = some (getRequest p)) :
    ∃ rep, ((sys.run (a ++ .shutdown :: b)).step (.finish i)).replies =
        (sys.run (a ++ .shutdown :: b)).replies ++ [(i, rep)] ∧
      (∀ x, (run p (sys.run (a ++ .shutdown :: b)).srv).1 = .error x → decode env rep = .error shutdownExc) ∧
      (∀ v, (run p (sys.run (a ++ .shutdown :: b)).srv).1 = .ok v → v.isExc = false →
        decode env rep = .ok (wrap v)) := by
  have h := C14_shutdown_inflight sys a b i (getRequest p) hin rfl rfl
  have hw : (getRequest p).wire.loads = p := Prog.loads_dumps p
  have hc : (getRequest p).compress = true := rfl
  have hn : (getRequest p).returnNone = false := rfl
  rw [hw, hc, hn] at h
  refine ⟨_, h, ?_, ?_⟩
  · intro x hx
    simp only [hx, decode_exc, onError, shutdownExc]
  · intro v hv hne
    simp only [hv, Bool.false_eq_true, if_false, decode_payload]
    cases v with
    | exc x => simp [PVal.isExc] at hne
    | plain v => rfl
    | list xs => rfl

/-- Without interleaving the two steps are the atomic handler of the other theorems. -/
theorem C14_inflight_atomic (sys : Sys) (i : Nat) (rq : Request) (hnew : sys.inflight.lookup i = none) :
    ((sys.step (.start i rq)).step (.finish i)).replies = sys.replies ++ [(i, (handle rq sys.srv).1)] ∧
    ((sys.step (.start i rq)).step (.finish i)).srv = (handle rq sys.srv).2 := by
  have hl : ∀ l : List (Nat × Request), l.lookup i = none → (l ++ [(i, rq)]).lookup i = some rq := by
    intro l
    induction l with
    | nil => intro _; simp [List.lookup]
    | cons p rest ih =>
      intro hn
      obtain ⟨k, x⟩ := p
      simp only [List.lookup] at hn
      cases hk : (i == k) with
      | true => rw [hk] at hn; cases hn
      | false => rw [hk] at hn; simp only [List.cons_append, List.lookup, hk]; exact ih hn
  have hl := hl sys.inflight hnew
  simp only [Sys.step, hl, and_self]

/-- The flag is monotone: no step of any interleaving clears a shutdown request. -/
theorem C14_shutdown_monotone (sys : Sys) (steps : List Step) (h : sys.srv.shutdown = true) :
    (sys.run steps).srv.shutdown = true := run_shutdown_mono steps sys h

/-! ## C14_concurrent — requests on distinct objects commute -/

/-- **Concurrent clients.**  Two requests served by distinct server-side objects (two remote iterators,
two remote queues, an iterator and a queue; `Served` names the cell each one works on) commute: each
client receives the reply it would receive alone, whichever request the server handles first, and both
orders leave the server in the same state.  Holds with or without a pending shutdown. -/
theorem C14_concurrent (p q : Prog) (srv : Srv) (tp tq : Nat) (hp : Served srv p tp) (hq : Served srv q tq)
    (hne : tp ≠ tq) :
    (getResult q {} (getResult p {} srv).2).1 = (getResult q {} srv).1 ∧
    (getResult p {} (getResult q {} srv).2).1 = (getResult p {} srv).1 ∧
    (getResult q {} (getResult p {} srv).2).2 = (getResult p {} (getResult q {} srv).2).2 := by
  obtain ⟨h1, h2, h3⟩ := run_commute p q srv tp tq hp hq hne
  simp only [getResult_ok_form _ _ (served_traceError hp), getResult_ok_form _ _ (served_traceError hq),
    h1, h2, h3, run_shutdown, and_self]

/-- An expression evaluation and a request on a stateful object commute as well (they act on different
components of the process state). -/
theorem C14_concurrent_expr (e : Expr) (q : Prog) (srv : Srv) (tq : Nat) (he : e.badFlags = false)
    (hq : Served srv q tq) :
    (getResult q {} (getResult (.expr e) {} srv).2).1 = (getResult q {} srv).1 ∧
    (getResult (.expr e) {} (getResult q {} srv).2).1 = (getResult (.expr e) {} srv).1 ∧
    (getResult q {} (getResult (.expr e) {} srv).2).2 = (getResult (.expr e) {} (getResult q {} srv).2).2 := by
  obtain ⟨h1, h2, h3⟩ := run_expr_commute e q srv tq hq
  have hte : (Prog.expr e).traceError = none := by simp [Prog.traceError, he]
  simp only [getResult_ok_form _ _ hte, getResult_ok_form _ _ (served_traceError hq),
    h1, h2, h3, run_shutdown, and_self]

/-- Store frame for plain objects (from C17): whatever another client has the server evaluate, an
existing handle keeps denoting the same object — or is gone (evicted); its id is never reused for
another object. -/
theorem C14_concurrent_frame (e : Expr) (env : Env) (srv : Srv) (hg : Good srv.lz) (id : Nat)
    (hid : id < srv.lz.nextId) (rv : RVal) (h : Lru.find? srv.lz.obj.data id = some rv) :
    Lru.find? (getResult (.expr e) env srv).2.lz.obj.data id = some rv ∨
    Lru.find? (getResult (.expr e) env srv).2.lz.obj.data id = none ∨
    (getResult (.expr e) env srv).2 = srv := by
  have hst := C17.C17_handle_stable e srv.lz hg id hid rv h
  unfold getResult
  split
  · exact Or.inr (Or.inr rfl)
  · split
    · exact Or.inr (Or.inr rfl)
    · split
      · simp only [handle_getRequest, run, runExpr]
        rcases hst with h1 | h1
        · exact Or.inl h1
        · exact Or.inr (Or.inl h1)
      · exact Or.inr (Or.inr rfl)
      · simp only [handle_getRequest, run, runExpr]
        rcases hst with h1 | h1
        · exact Or.inl h1
        · exact Or.inr (Or.inl h1)
      · exact Or.inr (Or.inr rfl)
      · exact Or.inr (Or.inr rfl)

/-! ## Non-vacuity: concrete instances of the hypotheses and of the behaviours -/

def s0 : Srv := Srv.init 4 4
/-- `mkrec(x=1, f=add)` with `lazy_result_=True` -/
def exRec : Expr :=
  .call (.traced (.fn "mkrec") false) [] [("x", .const (.int 1)), ("f", .const (.fn "add"))] false true
/-- the server after the client obtained a handle (id 0) to the record -/
def s1 : Srv := (getResult (.expr exRec) {} s0).2
/-- …and after it created a generator `1, 2, return 9` (id 1) and took `iter()` of it (id 2) -/
def s2 : Srv := (getResult (.iterOf 1) {} (getResult (.mkGen [.int 1, .int 2] (.stop [.int 9])) {} s1).2).2
def boom : Exc := { kind := .py .value, msg := "boom" }

-- C14_eval: hypotheses hold, value and exception cross unchanged
example : s0.shutdown = false ∧ (run (.expr C17.ex1) s0).1 = .ok (.plain (.int 7)) := by decide
example : (getResult (.expr C17.ex1) {} s0).1 = .ok (.val (.plain (.int 7))) := by decide
example : (getResult (.raise boom) {} s0).1 = .error boom ∧ boom.code ≠ 4 := by decide
example : (getResult (.expr (.call (.traced (.fn "failneg") false) [.const (.int (-1))] [] false false)) {} s0).1
    = .error (Exc.ofErr (.py .value)) := by decide
-- the witnesses
example : (run (.excValue boom) s0).1 = .ok (.exc boom) ∧ (getResult (.excValue boom) {} s0).1 = .error boom := by decide
example : (getResult (.raise { boom with code := 4 }) {} s0).1 = .error { boom with code := 4 } := by decide
-- C14_handle: only the id comes back; chains on the handle; the hypotheses of C14_handle_chain hold
example : (getResult (.expr exRec) {} s0).1 = .ok (.remote 0) := by decide
example : Lru.find? s1.lz.obj.data 0 = some (.record [("x", .int 1), ("f", .fn "add")], 1) := by decide
example : (handleResult 0 [.attr "x"] {} s1).1 = .ok (.val (.plain (.int 1))) := by decide
example : (handleResult 0 [.attr "f", .call [.int 3, .int 4] []] {} s1).1 = .ok (.val (.plain (.int 7))) := by decide
example : (handleResult 0 [.item (.str "x")] {} s1).1 = .ok (.val (.plain (.int 1))) := by decide
example : (handleResult 0 [.attr "q"] {} s1).1 = .error (Exc.ofErr (.py .attr)) := by decide
example : (localChain (.record [("x", .int 1), ("f", .fn "add")]) [.attr "f", .call [.int 3, .int 4] []] {}).1
    = .ok (.int 7) := by decide
-- C14_iter: elements in order, the end once (with the return value), then bare StopIteration
example : sGet s2.objs (resolve s2.objs 2) = some (.iter ⟨[.int 1, .int 2], .stop [.int 9]⟩) := by decide
example : (remoteNexts 2 5 s2).1 =
    [.ok (.val (.plain (.int 1))), .ok (.val (.plain (.int 2))), .error (stopExc [.int 9]),
     .error (stopExc []), .error (stopExc [])] := by decide
-- two handles (1 and 2) of one generator share it
example : (getResult (.next 1) {} (getResult (.next 2) {} s2).2).1 = .ok (.val (.plain (.int 2))) := by decide
-- C14_shutdown
example : (getResult (.raise boom) {} (requestShutdown s0)).1 = .error shutdownExc := by decide
example : (getResult (.expr C17.ex1) {} (requestShutdown s0)).1 = .ok (.val (.plain (.int 7))) := by decide
example : (remoteNexts 2 3 (requestShutdown s2)).1 =
    [.ok (.val (.plain (.int 1))), .ok (.val (.plain (.int 2))), .error shutdownExc] := by decide
example : (initIterator (Prog.expr (.traced (.tup [.int 1]) false)).dumps (requestShutdown s0)).1
    = .refused initShutdownExc := by decide
-- a failing call in flight across the shutdown request (started before, finished after) answers TimeoutError
example : ((({ srv := s0 } : Sys).run [.start 0 (getRequest (.raise boom)), .start 1 (getRequest (.expr C17.ex1)),
      .shutdown, .finish 0, .finish 1]).replies.map (fun p => decode {} p.2)) =
    [.error shutdownExc, .ok (.val (.plain (.int 7)))] := by decide
example : (({ srv := s0 } : Sys).run ([.start 0 (getRequest (.raise boom))] ++ .shutdown :: [])).inflight.map (·.1)
    = [0] := by decide
-- fates
example : (getResult (.expr C17.ex1) { fate := .deadline } s0).1 = .error tryLongerExc := by decide
example : (getResult (.expr C17.ex1) { fate := .deadline, aliveAtError := false } s0).1 = .error deadlineStatus := by decide
example : (getResult (.expr C17.ex1) { fate := .lost } s0).1 = .error disconnectedExc := by decide
-- tracing error: raised on the client even when the server is shutting down
example : (getResult (.expr (.call (.traced (.fn "pair") false) [] [] true true)) {} (requestShutdown s0)).1
    = .error (Exc.ofErr (.py .value)) := by decide
-- C14_concurrent: an iterator (cell 1) and a queue (cell 3) on one server
def s3 : Srv := (getResult (.mkQueue [.int 5, .int 6] (.stop [])) {} s2).2
example : Served s3 (.next 2) 1 := ⟨by decide, ⟨⟨[.int 1, .int 2], .stop [.int 9]⟩, by decide⟩⟩
example : Served s3 (.qget 3) 3 := ⟨by decide, ⟨⟨[.int 5, .int 6], .stop []⟩, by decide⟩⟩
example : (getResult (.qget 3) {} (getResult (.next 2) {} s3).2).1 = .ok (.val (.plain (.int 5))) := by decide

end MlModel.C14
