import MlModel.Model.SchedVal
import MlModel.Lemmas.SchedClean
import MlModel.Lemmas.SchedVal
import MlModel.Properties.C06
/-!
# C06 — results are delivered whatever their VALUE; "shutdown requested" is a RETRIABLE answer

Deepens `Properties/C06.lean` at the two places where the bookkeeping model abstracts the code
(`Model/SchedVal.lean`): the hand-over of a generator task's return value by `async_iterate`, and the
classification of the worker's replies into the environment alphabet.
-/
namespace MlModel.C06
open MlModel.Sched

/-! ## the value of a result plays no role -/

section Values
variable {B V : Type}

/-- **A finished generator task's return value is forwarded exactly once, WHATEVER the value.**  For every
type of values and every value `v` (no hypothesis on `v`: `0`, `''`, `[]`, `{}`, `None` are values like any
other): processing a reply that consists of output batches (and skipped "already executing" markers)
followed by the end marker `StopIteration(v)` puts exactly `[v]` on the result queue, yields exactly the
batches, marks the generator exhausted and raises nothing. -/
theorem C06_return_value_forwarded_once (items : List (Elem B V)) (v : V)
    (hitems : ∀ e ∈ items, e.isExc = false ∧ e.stopVal = none) :
    (asyncIterBatch {} (items ++ [.stop v])).put = [v] ∧
    (asyncIterBatch {} (items ++ [.stop v])).yielded = items.filterMap Elem.itemVal ∧
    (asyncIterBatch {} (items ++ [.stop v])).exhausted = true ∧
    (asyncIterBatch {} (items ++ [.stop v])).raised = none := by
  have hex : ∀ e ∈ items ++ [Elem.stop v], e.isExc = false := by
    intro e he
    simp only [List.mem_append, List.mem_singleton] at he
    rcases he with he | rfl
    · exact (hitems e he).1
    · rfl
  obtain ⟨h1, h2, h3, h4⟩ := asyncIterBatch_noexc ({} : IterAcc B V) (items ++ [.stop v]) rfl hex
  have hnil : items.filterMap Elem.stopVal = [] := by
    rw [List.filterMap_eq_nil_iff]; exact fun e he => (hitems e he).2
  refine ⟨?_, ?_, ?_, h3⟩
  · simp [h1, List.filterMap_append, hnil, Elem.stopVal]
  · simp [h2, List.filterMap_append, Elem.itemVal]
  · simp [h4, Elem.stopVal]

/-- test: the falsy values are forwarded like any other -/
example : (asyncIterBatch ({} : IterAcc Nat (List Nat)) [.item 1, .busy, .item 2, .stop []]).put = [[]] := rfl
example : (asyncIterBatch ({} : IterAcc Nat Nat) [.stop 0]).put = [0] := rfl

variable {c : ICfg} {nw : Nat} {s : IT}

/-- **Every task's result is delivered exactly once - as a statement about VALUES.**  Let `ret i` be the
return value of generator task / shard `i`, of any type and with no restriction (values may be falsy, values
of different tasks may coincide).  Whatever the faults and the schedule, when the iteration has returned
normally the values that have reached the caller's result queue (consumed + still queued) are, as a
multiset, exactly `ret 0, …, ret (n-1)` - one per task.  At every earlier moment they are the values of the
finished tasks, each once. -/
theorem C06_results_whatever_value (ret : Nat → V) (h : IReach c (IT.init nw c.n) s) (hfix : c.directPut = false) :
    (s.merged ++ statesOf s.statesQ).map ret = s.finished.map ret ∧
    (s.outcome = some .returned →
      ((s.merged ++ statesOf s.statesQ).map ret).Perm ((List.range c.n).map ret)) := by
  have hst := (C06_states_once h hfix).1
  refine ⟨by rw [hst], ?_⟩
  intro hr
  rw [hst]
  exact (((C06_errors_surface h _ hr).2.1 rfl).2.2).map ret

end Values

/-! ## replies: "shutdown requested" is retriable -/

/-- The classification of replies agrees with the test `WorkerPool.iterate` applies to the coroutine's
exception: a reply is in the `deadline` class iff the client ends with a retriable exception, in the
`appError` class iff with a non-retriable one. -/
theorem C06_classify_retriable (r : Reply) :
    (r.classify = .deadline ↔ ∃ e, r.clientExc = some e ∧ e.retriable = true) ∧
    (r.classify = .appError ↔ ∃ e, r.clientExc = some e ∧ e.retriable = false) := by
  cases r with
  | lost b => cases b <;> simp [Reply.classify, Reply.clientExc]
  | _ => simp [Reply.classify, Reply.clientExc, ClientExc.retriable]

/-- **The shutdown reply of `_init_iterator` is a retriable outcome**: a handler that RETURNS the
`TimeoutError` is classified `deadline`; the same handler RAISING it would be classified `appError`
(non-retriable: the class of the seeded change C06-m2). -/
theorem C06_shutdown_reply_retriable :
    (serverInitReply true).classify = .deadline ∧ (serverInitReply false).classify = .ok ∧
    (serverInitReplyRaising true).classify = .appError := by
  refine ⟨rfl, rfl, rfl⟩

/-- ... and so is the reply of `next_batch_from_generator` of a worker that is shutting down: the client
raises a `TimeoutError`, nothing is yielded, nothing is put on the result queue. -/
theorem C06_shutdown_next_reply_retriable (B V : Type) :
    (asyncIterBatch ({} : IterAcc B V) (serverNextReplyOnShutdown B V)).raised = some true ∧
    (asyncIterBatch ({} : IterAcc B V) (serverNextReplyOnShutdown B V)).put = [] ∧
    (asyncIterBatch ({} : IterAcc B V) (serverNextReplyOnShutdown B V)).yielded = [] :=
  ⟨rfl, rfl, rfl⟩

section Replies
variable {c : ICfg} {nw : Nat} {s : IT}

/-- **A run that meets only retriable events never aborts with RuntimeError.**  If the environment never
answers with a non-retriable error (every answer is ok / deadline / the worker dies / restarts), then on
every schedule no task ever lands in `failed_tasks`, no attempt - running or abandoned - ever waits for or
holds a non-retriable error, and the iteration never ends with `RuntimeError('Failed at ...')`: it can only
return normally or exhaust the retry budget. -/
theorem C06_retriable_only_never_fails (hna : ∀ w i, c.env w i ≠ .appError) (h : IReach c (IT.init nw c.n) s) :
    s.failed = [] ∧ (∀ r ∈ s.running ++ s.zombies, r.co ≠ .raisedErr) ∧
    (∀ o, s.outcome = some o → o = .returned ∨ o = .raisedTimeout) := by
  have inv := cleanInv_reach (c := c) hna h
  refine ⟨inv.nf, ?_, ?_⟩
  · intro r hr hco
    simp only [List.mem_append] at hr
    have := hr.elim (inv.run r) (inv.zom r)
    rw [hco] at this; simp [CoSt.noAppErr] at this
  · intro o ho
    have hv := (C06_verdict h o ho).1
    rw [hv]
    simp only [inv.nf, ne_eq, not_true_eq_false, if_false]
    split
    · exact Or.inr rfl
    · exact Or.inl rfl

/-- **Shutdown replies keep the run alive.**  Let the environment be given at the level of REPLIES
(`renv : worker → call index → Reply`) and contain only values, transport deadlines, "shutdown requested"
answers (a returned `TimeoutError`) and lost calls (worker gone, for good or until it rejoins).  Then
`WorkerPool.iterate` under `classify ∘ renv` never aborts with RuntimeError - a worker that is shutting down
costs retries, never the run. -/
theorem C06_shutdown_replies_never_abort (renv : Nat → Nat → Reply)
    (hr : ∀ w i, renv w i = .value ∨ renv w i = .deadline ∨ renv w i = .returnedTimeout ∨ ∃ b, renv w i = .lost b)
    (henv : c.env = fun w i => (renv w i).classify) (h : IReach c (IT.init nw c.n) s) :
    s.failed = [] ∧ (∀ o, s.outcome = some o → o = .returned ∨ o = .raisedTimeout) := by
  have hna : ∀ w i, c.env w i ≠ .appError := by
    intro w i
    rw [henv]
    show (renv w i).classify ≠ .appError
    rcases hr w i with h | h | h | ⟨b, h⟩ <;> rw [h]
    · simp [Reply.classify, Reply.clientExc]
    · simp [Reply.classify, Reply.clientExc, ClientExc.retriable]
    · simp [Reply.classify, Reply.clientExc, ClientExc.retriable]
    · cases b <;> simp [Reply.classify]
  have := C06_retriable_only_never_fails hna h
  exact ⟨this.1, this.2.2⟩

/-- worker 0 answers its first `next` and the re-submitted `init` with "shutdown requested" and is then gone -/
def exShutdownReplies : Nat → Nat → Reply
  | 0, 0 => .value
  | 0, 1 => .returnedTimeout
  | 0, 2 => .returnedTimeout
  | 0, _ => .lost false
  | _, _ => .value

def exShutdownCfg : ICfg :=
  { env := fun w i => (exShutdownReplies w i).classify, n := 2, nb := fun _ => 1, threshold := 5 }

/-- non-vacuity / test: the run still returns normally with both shards merged once (2 retries counted) -/
example : ∃ s, IReach exShutdownCfg (IT.init 2 2) s ∧
    (s.outcome == some .returned && s.timeoutCnt == 2 && s.result == some (some [1, 0])) = true :=
  ireach_witness
    [.submit 0, .submit 1, .co 0 0 false, .co 0 0 false, .co 0 0 false, .check 0,   -- shard 0 on worker 0: init ok, next: shutdown
     .submit 0, .co 1 0 false, .co 1 0 false, .check 1,                             -- re-submitted to worker 0: init answers shutdown
     .co 0 0 false, .co 0 0 false, .co 0 1 true, .co 0 0 false, .check 0,           -- shard 1 finishes on worker 1
     .crash 0, .submit 1, .co 0 0 false, .co 0 0 false, .co 0 1 true, .co 0 0 false, .check 0,
     .submit 1, .finish, .merge, .merge, .mergeStop] _ (by decide)

end Replies

end MlModel.C06
