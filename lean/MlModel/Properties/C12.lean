import MlModel.Lemmas.Pipe
import MlModel.Lemmas.PipeBatch
import MlModel.Lemmas.Iter
import MlModel.Lemmas.PipeSource
import MlModel.Lemmas.PipeFinal
/-!
# C12 — error skipping drops only failing elements; otherwise the first error surfaces

Same vocabulary as `Properties/C08.lean`.  `Iter.terminal ignore e`: with skipping off every error
is terminal; with skipping on exactly the errors outside `_IGNORE_ERROR_TYPES` are.
`Ref.opEvents ignore op s src` — the reference for one operator (`sem` lifted to streams).
-/
set_option linter.unusedSimpArgs false
namespace MlModel.C12
open MlModel.Pipe MlModel.Iter

/-! ## the two kinds of iterator -/

/-- **C12_iter_kinds.**  The iterator model (DESIGN §3): `drain next fuel s` is what successive
`next()` calls return before `StopIteration`.  A *resumable* iterator (class based, `map`, `zip`,
`itertools`) delivers every event, also those behind an error; a *generator* object ends at the
first exception that passes through it (its events are cut after the first error) — this is where
finding F5 lives; and the `iter_ignore_error` generator (`ignoreNext`) turns skippable errors into
nothing (or into its `error_return`) and ends at the first other error.  The pipeline model composes
the event-list functions on the right-hand sides. -/
theorem C12_iter_kinds {α : Type} (evs : List (Ev α)) (fuel : Nat) (h : evs.length < fuel) :
    drain cursorNext fuel evs = evs ∧
    drain (genNext cursorNext) fuel (some evs) = cutAfterErr evs ∧
    (∀ f : α → Ev α, drain (mapNext f) fuel evs = mapEv f evs) ∧
    (∀ r, drain (ignoreNext r) fuel evs = ignoreErr r evs) :=
  ⟨drain_cursor evs fuel h, by rw [drain_gen, drain_cursor evs fuel h],
   fun f => drain_map f evs fuel h, fun r => drain_ignore r evs fuel h⟩

/-! ## skipping on -/

/-- **C12_skip_partial.**  With skipping on, what the caller of the real runner observes is the
reference run, in which a record whose inputs cannot be read or whose function raises a skippable
error is left out and *nothing else changes* (`Ref.opEvents`).

Full-strength statement (for all operators, also with `fn_batch_size` / `batch_size`, and for
every source): **false** on the real code —
* `assign` with batch sizes loses every record after the first failing call (finding F5,
  `Witness/C12.lean: C12_F5_witness`) — excluded here by `OpOK.unbatched`.
`CleanRun` (no skippable error is *passed on* between operators) is no longer needed for the real
runner to behave — finding F-C12-passed-on is repaired —: `C12_skip_any_partial` below is this theorem
without it, against the reference `Ref.chainEventsS` that says what becomes of a passed-on error;
under `CleanRun` the two references coincide (`C12_skip_any_extends`). -/
theorem C12_skip_partial (ops : List Op) (hops : ∀ op ∈ ops, OpOK op)
    (src : List (Ev Val)) (hc : Ref.CleanRun true ops src) :
    ((Impl.run true ops src).out, (Impl.run true ops src).err)
      = observe (Ref.chainEvents true ops src) := by
  simp only [Impl.run, topEvents_spec true ops hops src hc]

/-- **C12_skip_any_partial** (every source, every passed-on error; the repaired
`processed_with_inputs`, finding F-C12-passed-on).  For every chain of un-batched operators of ANY kind
and EVERY finite stream of source outcomes — any number and position of failing reads, any error kind,
no `Clean` / `CleanRun` condition: with skipping on, what the caller of the real runner observes is
the reference run `Ref.chainEventsS true`: every operator first leaves out the skippable errors that
are passed on to it (`Ref.skipNT`: failing reads of the data source in front of the first operator,
skippable errors of the previous operator's output routing in front of the others) and then processes
the remaining records one by one (`Ref.opEvents`: a record whose inputs cannot be read or whose
function raises a skippable error is left out, nothing else changes).  So an element behind a failing
one is never lost and never mis-paired, whatever the kind of the operator that meets the failure.

Partial: operators without batch sizes (`OpOK`); batched `apply` / `select`: `C12_skip_batched_partial`;
`assign` with batch sizes: false (F5). -/
theorem C12_skip_any_partial (ops : List Op) (hops : ∀ op ∈ ops, OpOK op) (src : List (Ev Val)) :
    ((Impl.run true ops src).out, (Impl.run true ops src).err)
      = observe (Ref.chainEventsS true ops src) := by
  simp only [Impl.run, topEventsS_spec true ops hops src]

/-- `C12_skip_any_partial` extends `C12_skip_partial`: on a run in which no skippable error is passed
on, `Ref.chainEventsS` is `Ref.chainEvents` -/
theorem C12_skip_any_extends (ignore : Bool) (ops : List Op) (src : List (Ev Val))
    (hc : Ref.CleanRun ignore ops src) :
    Ref.chainEventsS ignore ops src = Ref.chainEvents ignore ops src :=
  chainEventsS_of_cleanRun ignore ops src hc

/-- **C12_passed_on_uniform** (the statement finding F-C12-passed-on violated).  Every un-batched
operator — `apply`, `select`, `assign`, `filter`, `sink` alike — treats a skippable error that reaches
it from upstream as if the failing element were not there: its iterator over any source produces
exactly what it produces over the source without the skippable failing reads; all successful reads
are still there, in order.  (Before the repair an `assign` / `filter` / `sink` ended the run with
`IndexError('No element left')` here while an `apply` skipped the element.)  With skipping off
nothing is removed (`Ref.skipNT false` keeps every event). -/
theorem C12_passed_on_uniform (ignore : Bool) (op : Op) (h : OpOK op) (src : List (Ev Val)) :
    (Impl.opIterate ignore op src).evs.map (·.ev)
        = (Impl.opIterate ignore op (Ref.skipNT ignore src)).evs.map (·.ev) ∧
    (Impl.opIterate ignore op src).evs.map (·.ev)
        = Ref.opEvents ignore op op.s0 (Ref.skipNT ignore src) ∧
    oks (Ref.skipNT ignore src) = oks src := by
  refine ⟨?_, opIterate_src_spec ignore op h src, oks_skipNT ignore src⟩
  rw [opIterate_src_spec ignore op h src, opIterate_src_spec ignore op h _, skipNT_idem]

/-- **C12_skip** (one operator whose function keeps no state): the run with skipping on is the
run with skipping *off* over the stream from which exactly the skipped elements have been removed —
each survivor once, in order, computed from its own input.  (`hroute`: the output routing raises
no skippable error, see `C12_skip_partial`.) -/
theorem C12_skip (op : Op) (s : Nat) (src : List (Ev Val))
    (hpure : ∀ r, (Ref.semCall op s r).2 = s)
    (hroute : ∀ r v e, Ref.semWrite op r v = .error e → e.ignorable = false)
    (hc : Ref.Clean true src) :
    Ref.opEvents true op s src = Ref.opEvents false op s (src.filter fun ev => !skipped op s ev) := by
  induction src with
  | nil => simp [Ref.opEvents]
  | cons ev rest ih =>
    have ih := ih (clean_tail hc)
    cases ev with
    | error e =>
      have ht := clean_head hc
      have hi : e.ignorable = false := by simpa [terminal] using ht
      simp [Ref.opEvents, skipped, hi, terminal]
    | ok r =>
      have hp := hpure r
      rcases hs : Ref.semCall op s r with ⟨res, s'⟩
      rw [hs] at hp
      simp only at hp
      subst hp
      cases res with
      | error e =>
        by_cases hi : e.ignorable = true
        · simp [Ref.opEvents, skipped, hs, hi, terminal, ih]
        · simp [Ref.opEvents, skipped, hs, hi, terminal]
      | ok v =>
        cases hw : Ref.semWrite op r v with
        | error e =>
          have := hroute r v e hw
          simp [Ref.opEvents, skipped, hs, hw, this, terminal]
        | ok o =>
          cases o with
          | none => simp [Ref.opEvents, skipped, hs, hw, ih]
          | some x => simp [Ref.opEvents, skipped, hs, hw, ih]

/-- **C12_none_lost_after_partial.**  A record whose processing raises a skippable error vanishes
and the rest of the stream is processed exactly as if the stream had started behind it (only the
function's private state has moved on): nothing after a failing element is dropped.  Stated for the
real runner's iterator of one un-batched operator.

Full-strength statement (every operator, also with batch sizes): **false** on the real code for
`assign` with `batch_size` — every record after the first failing call is silently lost (finding
F5, `Witness/C12.lean: C12_F5_witness`); for `apply` / `select` with batch sizes (the failing call
drops its whole group of rows and the re-batchers stay alive) see `C12_skip_batched_partial`,
`C12_batched_none_lost_after`. -/
theorem C12_none_lost_after_partial (op : Op) (h : OpOK op) (r : Val) (rest : List (Ev Val))
    (hc : Ref.Clean true rest) (e : Err) (s' : Nat)
    (hfail : Ref.semCall op op.s0 r = (.error e, s')) (hskip : e.ignorable = true) :
    (Impl.opIterate true op (.ok r :: rest)).evs.map (·.ev)
      = (Impl.opIterate true { op with s0 := s' } rest).evs.map (·.ev) := by
  have h' : OpOK { op with s0 := s' } := ⟨h.unbatched, h.selfAlone, h.pred⟩
  have hc' : Ref.Clean true (.ok r :: rest) := by
    intro e' he'
    cases he' with
    | tail _ hm => exact hc e' hm
  rw [opIterate_spec true op h _ hc', opIterate_spec true _ h' _ hc]
  have hcall : ∀ s x, Ref.semCall { op with s0 := s' } s x = Ref.semCall op s x := fun _ _ => rfl
  have hwrite : ∀ x v, Ref.semWrite { op with s0 := s' } x v = Ref.semWrite op x v := fun _ _ => rfl
  have hev : ∀ s l, Ref.opEvents true { op with s0 := s' } s l = Ref.opEvents true op s l := by
    intro s l
    induction l generalizing s with
    | nil => simp [Ref.opEvents]
    | cons ev l ih =>
      cases ev with
      | error e => simp [Ref.opEvents, ih]
      | ok x => simp only [Ref.opEvents, hcall, hwrite, ih]
  simp [Ref.opEvents, hfail, terminal, hskip, hev]

/-! ## skipping off -/

/-- `_maybe_call_fn`: whatever the user function raises reaches the runner as a `ValueError` whose
`__cause__` is the original exception -/
theorem C12_cause (op : Op) (s : Nat) (ins : List Val) (e : Err) (s' : Nat)
    (h : callFn op s ins = (.error e, s')) :
    e.kind = .value ∧ ∃ k, e.cause = some k ∧
      ((if op.argNames.isEmpty then op.fn s ins [] else op.fn s [] (op.argNames.zip ins)).1 = .error k) := by
  unfold callFn at h
  generalize (if op.argNames.isEmpty then op.fn s ins [] else op.fn s [] (op.argNames.zip ins)) = res at h
  rcases res with ⟨r, s''⟩
  cases r with
  | ok v => simp at h
  | error k =>
    simp only [Prod.mk.injEq, Except.error.injEq] at h
    exact ⟨by rw [← h.1], k, by rw [← h.1], rfl⟩

/-- **C12_first_error_partial.**  (Partial: operators without batch sizes, `OpOK`; for `apply` /
`select` with batch sizes — where a re-batcher holds rows back — see `C12_first_error_batched_partial`.  "Helper threads end" is property C13: the
check observes it, the model has no threads.)  With skipping off, for every chain of un-batched operators and every
source: the caller observes exactly the reference's outputs up to its first error and then that
error (`C12_cause`: a failing function surfaces as `ValueError` with the original as cause);
nothing is produced after it (the runner's event list is the outputs followed by that one
error); and every sink has been closed exactly once (the model's reading of `finally:` in
`Sink.iterate`, tied to the code by the correspondence). -/
theorem C12_first_error_partial (ops : List Op) (hops : ∀ op ∈ ops, OpOK op) (src : List (Ev Val)) :
    ((Impl.run false ops src).out, (Impl.run false ops src).err)
        = observe (Ref.chainEvents false ops src) ∧
    Impl.topEvents false ops src
        = (Impl.run false ops src).out.map .ok ++
            (match (Impl.run false ops src).err with | some e => [.error e] | none => []) ∧
    (Impl.run false ops src).closed = (ops.filter fun op => op.kind = .sink).map fun _ => 1 := by
  have hspec := topEvents_spec false ops hops src (cleanRun_false ops src)
  refine ⟨by simp only [Impl.run, hspec], ?_, by simp [Impl.run]⟩
  have := observe_errLast _ (chainEvents_false_errLast ops src)
  simp only [Impl.run, hspec]
  exact this

/-! ## operators with batch sizes (`apply` / `select` / `batch`)

Vocabulary: see `Properties/C08.lean`, section "operators with batch sizes".  What the code really
guarantees for a batched `apply` under skipping: the function is called once per **group** of
`fn_batch_size` rows (per incoming record if `fn_batch_size = 0`); a call that raises drops exactly
the rows of its group; every other row is delivered exactly once, in order, aligned across the output
keys, regrouped into records of `batch_size` rows; both `rebatched_args` generators survive because
only `_maybe_call_fn` is guarded (`map_ignore_error` sits *between* them).  A record whose inputs
cannot be read with a skippable error is skipped as a whole (`Ref.skipNT` in `Ref.batchedCols`) —
the real code does that when `fn_batch_size = 0`; with `fn_batch_size > 0` it loses the rest of
the stream (finding F-C12-fnbatch-lost), which is why `BatchedOK.clean` is assumed there. -/

/-- **C12_skip_batched_partial.**  `C12_skip_partial` for chains that may contain `apply` / `select`
/ `batch` operators with batch sizes: with skipping on, what the caller of the real runner observes
is the reference run (`Ref.chainEventsG true`), in which a batched operator leaves out exactly the
groups whose call raised (`Ref.callGroups true`, `C12_batched_failing_groups`).

Missing from the full-strength statement: `assign` with batch sizes (false: F5); a record whose
inputs cannot be read with a skippable error in front of an operator with `fn_batch_size` (false on
the real code — that record finalises the first `rebatched_args` generator and every later record
is silently lost: finding F-C12-fnbatch-lost, `Witness/C12.lean: C12_fnbatch_lost_witness`;
excluded by `BatchedOK.clean`); the well-formedness conditions of `BatchedOK`; and the conditions of
`C12_skip_partial` for the un-batched operators. -/
theorem C12_skip_batched_partial (ops : List Op) (src : List (Ev Val)) (h : RunOKG true ops src) :
    ((Impl.run true ops src).out, (Impl.run true ops src).err)
      = observe (Ref.chainEventsG true ops src) := by
  simp only [Impl.run, topEventsG_spec true ops src h]

/-- **C12_batched_failing_groups** (which rows are skipped).  With skipping on, for a function that
keeps no state: the results that reach the second regrouping are exactly the results of the groups
whose call does not raise — each once, in order; a failing group contributes nothing and does not
disturb any other group; the error the stream of groups ended with (if any) is passed on. -/
theorem C12_batched_failing_groups (op : Op) (s : Nat) (tail : Option Err) (gs : List (List Val))
    (hpure : ∀ g, (callFn op s g).2 = s) :
    Ref.callGroups true op tail s gs =
      (gs.filterMap fun g => match (callFn op s g).1 with
         | .ok v => some (normOuts op v)
         | .error _ => none, tail) := by
  induction gs with
  | nil => rfl
  | cons g gs ih =>
    have hp := hpure g
    rcases hc : callFn op s g with ⟨r, s'⟩
    rw [hc] at hp
    simp only at hp
    subst hp
    cases r with
    | ok v => simp [Ref.callGroups, hc, ih]
    | error e =>
      have := callFn_err_ignorable hc
      simp [Ref.callGroups, hc, ih, terminal, this]

/-- **C12_batched_none_lost_after.**  Any function (with state): a group whose call raises vanishes
and the groups behind it are processed exactly as if the stream of groups had started behind it (only
the function's state has moved on) — nothing after a failing group is lost.  Stated for the real
runner's iterator of one batched `apply` with `fn_batch_size = 0` (groups = incoming records) via
`C08_batched_apply`; the reference equation holds for every `fn_batch_size`. -/
theorem C12_batched_none_lost_after (op : Op) (s : Nat) (tail : Option Err) (g : List Val)
    (gs : List (List Val)) (e : Err) (s' : Nat) (hfail : callFn op s g = (.error e, s')) :
    Ref.callGroups true op tail s (g :: gs) = Ref.callGroups true op tail s' gs := by
  have := callFn_err_ignorable hfail
  simp [Ref.callGroups, hfail, terminal, this]

/-- **C12_first_error_batched_partial.**  `C12_first_error_partial` for chains that may contain
`apply` / `select` / `batch` operators with batch sizes.  With skipping off: the caller observes
exactly the reference's outputs and then its first error — for a batched operator the records
completed by the groups *before* the failing call or the failing source element (`Rebatch.online`:
the rows held back by a re-batcher are not delivered), then that error; nothing after it; every sink
closed once.  (Partial: `assign` with batch sizes excluded; well-formedness conditions of
`BatchedOK`; threads are C13.) -/
theorem C12_first_error_batched_partial (ops : List Op) (src : List (Ev Val))
    (h : RunOKG false ops src) :
    ((Impl.run false ops src).out, (Impl.run false ops src).err)
        = observe (Ref.chainEventsG false ops src) ∧
    Impl.topEvents false ops src
        = (Impl.run false ops src).out.map .ok ++
            (match (Impl.run false ops src).err with | some e => [.error e] | none => []) ∧
    (Impl.run false ops src).closed = (ops.filter fun op => op.kind = .sink).map fun _ => 1 := by
  have hspec := topEventsG_spec false ops src h
  refine ⟨by simp only [Impl.run, hspec], ?_, by simp [Impl.run]⟩
  have := observe_errLast _ (chainEventsG_false_errLast ops src)
  simp only [Impl.run, hspec]
  exact this

/-! ## failing SOURCES behind the threaded runner's lock wrapper

With `num_threads ≥ 1` over one un-sharded source, `piter_fn` wraps the source in
`_ThreadSafeIterator` (`Iter.tsNext`: `with self._lock: return next(self._iterator)`) and every worker
thread pulls from that one wrapper.  The source is a *resumable* iterator when it is a class-based
iterator (`SequenceDataSource`'s `_RangeIterator`, a user iterator class): a read that raises a
skippable error is one event, the next read continues (`C12_iter_kinds`). -/

/-- **C12_threadsafe_transparent.**  For every wrapped iterator (any state machine `next`, any state):
the wrapper hands out exactly the results of the wrapped iterator's successive `next()` calls —
sequentially (`drain`), and under every schedule of worker threads (`tsServe`: the events in the order in
which the calls got the lock; each event goes to exactly one worker); and the lock is free again after
every call, also after one that raised (`with`), so the call after a failing read is never blocked. -/
theorem C12_threadsafe_transparent {α σ : Type} (next : σ → Step α σ) (s : σ) :
    (∀ fuel, drain (tsNext next) fuel { inner := s } = drain next fuel s) ∧
    (∀ sched : List Nat, (tsServe next sched { inner := s }).map (·.2) = drain next sched.length s) ∧
    tsFreeAfter next { inner := s } = true :=
  ⟨fun fuel => drain_ts next fuel s false, fun sched => tsServe_events next sched s false,
   tsFreeAfter_true next s⟩

/-- **C12_threadsafe_resumable.**  A RESUMABLE source behind the wrapper stays resumable: whichever
workers call in whichever order (at least as many calls as the source has outcomes), the events handed
out are *all* outcomes of the source, in order — the elements behind a failing read included; a
generator source behind the wrapper stays a generator (nothing after its first raise exists). -/
theorem C12_threadsafe_resumable {α : Type} (evs : List (Ev α)) (sched : List Nat)
    (h : evs.length < sched.length) :
    (tsServe cursorNext sched { inner := evs }).map (·.2) = evs ∧
    (tsServe (genNext cursorNext) sched { inner := some evs }).map (·.2) = cutAfterErr evs := by
  constructor
  · rw [tsServe_events, drain_cursor evs _ h]
  · rw [tsServe_events, drain_gen, drain_cursor evs _ h]

/-- **C12_skip_source_partial** (failing SOURCES, not failing functions).  A chain whose first operator is
ANY un-batched operator — `apply`, `select`, `assign`, `filter` or `sink` (the hypothesis "`apply` / `select`
first" of earlier rounds is gone with the repair of finding F-C12-passed-on) —, over ANY finite source —
every number and position of failing reads, every error kind, no `Clean` condition on the source: with
skipping on, what the caller observes is the reference run over the source *from which exactly the
skippable failing reads have been removed* (`Ref.skipNT true`: the successful reads all survive, in
order — `oks_skipNT` —, a non-skippable failing read stays and ends the run).  So an element behind a
failing read is never lost.

Partial: stated against `Ref.chainEvents`, so the operators behind the first must not pass skippable
errors on (`hc`; `C12_skip_any_partial` has no such condition, against `Ref.chainEventsS`); batched first
operators: `C12_skip_batched_partial` (`Ref.skipNT` is built into `Ref.batchedCols` there). -/
theorem C12_skip_source_partial (op : Op) (ops : List Op)
    (hop : OpOK op) (hops : ∀ o ∈ ops, OpOK o) (src : List (Ev Val))
    (hc : Ref.CleanRun true ops (Ref.opEvents true op op.s0 (Ref.skipNT true src))) :
    ((Impl.run true (op :: ops) src).out, (Impl.run true (op :: ops) src).err)
      = observe (Ref.chainEvents true (op :: ops) (Ref.skipNT true src)) ∧
    oks (Ref.skipNT true src) = oks src := by
  refine ⟨?_, oks_skipNT true src⟩
  have hall : ∀ o ∈ op :: ops, OpOK o := by
    intro o ho
    rcases List.mem_cons.mp ho with rfl | ho
    · exact hop
    · exact hops o ho
  simp only [Impl.run, topEventsS_spec true (op :: ops) hall src, Ref.chainEventsS, Ref.chainEvents,
    chainEventsS_of_cleanRun true ops _ hc]

/-- **C12_skip_threaded_source_partial.**  `C12_skip_source_partial` for the one-worker threaded runner
(`num_threads = 1` over one un-sharded, resumable source): the worker's operator chain reads the
source through the lock wrapper, i.e. it sees `drain (tsNext cursorNext)` of the source's outcomes —
and what it produces is the reference run over the source with exactly the skippable failing reads
removed.  (The queue between the worker and the caller is C04 / C13; with several workers each event
of the source still goes to exactly one of them: `C12_threadsafe_transparent`.) -/
theorem C12_skip_threaded_source_partial (op : Op) (ops : List Op)
    (hop : OpOK op) (hops : ∀ o ∈ ops, OpOK o)
    (src : List (Ev Val))
    (hc : Ref.CleanRun true ops (Ref.opEvents true op op.s0 (Ref.skipNT true src)))
    (fuel : Nat) (hf : src.length < fuel) :
    ((Impl.run true (op :: ops) (drain (tsNext cursorNext) fuel { inner := src })).out,
     (Impl.run true (op :: ops) (drain (tsNext cursorNext) fuel { inner := src })).err)
      = observe (Ref.chainEvents true (op :: ops) (Ref.skipNT true src)) := by
  rw [drain_ts, drain_cursor src fuel hf]
  exact (C12_skip_source_partial op ops hop hops src hc).1

/-! ## non-vacuity -/

/-- `apply(v_fail_on{3}, input_keys='v', output_keys='o', fn_batch_size=2, batch_size=2)`-like: the
call fails with a skippable error when a row of the group is 3 -/
def exFailB : Op :=
  { kind := .apply, inKeys := [.name "v"], outKeys := [.key (.name "o")], fnBatch := 2, batch := 2,
    fn := fun s args _ => (match args with
      | [.list xs] =>
        if xs.any (fun x => match x with | .int 3 => true | _ => false) then .error .value else .ok (.list xs)
      | _ => .error .type, s) }

/-- the integers of the one column of a record `{key: [..]}` (to read results in the examples) -/
def colInts : Val → List Int
  | .dict [(_, .list xs)] => xs.filterMap fun x => match x with | .int i => some i | _ => none
  | _ => []

/-- 7 one-row column batches -/
def exColSrc : List (Ev Val) := (List.range 7).map fun i => .ok (.dict [("v", .list [.int (Int.ofNat i)])])

example : RunOKG true [exFailB] exColSrc :=
  ⟨by unfold OpOKG
      simp only [exFailB]
      exact batchedOKB_sound _ _ _ _ (Or.inr rfl) (fun k k' rest h => by simp at h) (by decide +kernel),
   trivial⟩

/-- skipping on: the group `[2, 3]` is gone (rows 2 and 3), the five other rows arrive in order as
records of 2 rows — nothing behind the failing group is lost; skipping off: the one record completed
before the failing call, then the error with the original as cause -/
example : (Impl.run true [exFailB] exColSrc).out.map colInts = [[0, 1], [4, 5], [6]] ∧
    (Impl.run true [exFailB] exColSrc).err = none ∧
    (Impl.run false [exFailB] exColSrc).out.map colInts = [[0, 1]] ∧
    (Impl.run false [exFailB] exColSrc).err = some { kind := .value, cause := some .value } := by
  decide +kernel


/-- `apply(lambda a: 10 // a ...)`-like: fails with a skippable `ValueError` on `a = 0` -/
def exFail : Op :=
  { kind := .apply, inKeys := [.name "a"], outKeys := [.key (.name "y")],
    fn := fun s args _ => (match args with
      | [.int 0] => .error .value
      | [.int i] => .ok (.int (i + 1))
      | _ => .error .type, s) }

def exSrc : List (Ev Val) :=
  [.ok (.dict [("a", .int 3)]), .ok (.dict [("a", .int 0)]), .ok (.dict [("a", .int 7)])]

example : OpOK exFail :=
  ⟨⟨rfl, rfl⟩, fun k k' rest h => by simp [exFail] at h, fun h => by simp [exFail] at h⟩

example : Ref.CleanRun true [exFail] exSrc := cleanRunB_sound _ _ _ (by decide +kernel)

/-- skipping on: the failing middle element is gone, the one behind it is not;
skipping off: one output, then the error with the original as cause -/
example : (Impl.run true [exFail] exSrc).out.length = 2 ∧ (Impl.run true [exFail] exSrc).err.isNone = true ∧
    (Impl.run false [exFail] exSrc).out.length = 1 ∧
    (Impl.run false [exFail] exSrc).err = some { kind := .value, cause := some .value } := by
  decide +kernel

example : (Ref.semCall exFail 0 (.dict [("a", .int 0)])).2 = 0 := by decide +kernel

/-- without `fn_batch_size` a record whose inputs cannot be read with a skippable error (here: a list
where a mapping is expected, `TypeError`) is inside the theorem's domain and is skipped as a whole -/
def exSrcUnreadable : List (Ev Val) :=
  [.ok (.dict [("v", .list [.int 0])]), .ok (.list []), .ok (.dict [("v", .list [.int 2])])]

example : RunOKG true [{ exFailB with fnBatch := 0 }] exSrcUnreadable :=
  ⟨by unfold OpOKG
      simp only [exFailB]
      exact batchedOKB_sound _ _ _ _ (Or.inr rfl) (fun k k' rest h => by simp at h) (by decide +kernel),
   trivial⟩

example : (Impl.run true [{ exFailB with fnBatch := 0 }] exSrcUnreadable).out.map colInts = [[0, 2]] ∧
    (Impl.run true [{ exFailB with fnBatch := 0 }] exSrcUnreadable).err = none := by decide +kernel

/-- a wrapper that is NOT the code's: it remembers "done" after ANY exception of the wrapped iterator
(`except BaseException: self._finished = True; raise`) — the class of change the transparency
theorem excludes -/
def latchNext {α σ : Type} (next : σ → Step α σ) : TS σ × Bool → Step α (TS σ × Bool)
  | (_, true) => .stop
  | (t, false) =>
    match tsNext next t with
    | .yield a t' => .yield a (t', false)
    | .stop => .stop
    | .raise e t' => .raise e (t', true)

/-- a source whose second read fails and that can be read further: behind the code's wrapper all
four outcomes are handed out (to workers 0 and 1 in turn); behind the latching wrapper the stream ends
at the failing read -/
example :
    (tsServe cursorNext [0, 1, 0, 1, 0] { inner := ([.ok 0, .error { kind := .value }, .ok 2, .ok 3] : List (Ev Nat)) })
      = [(0, .ok 0), (1, .error { kind := .value }), (0, .ok 2), (1, .ok 3)] ∧
    drain (latchNext cursorNext) 5 ({ inner := ([.ok 0, .error { kind := .value }, .ok 2, .ok 3] : List (Ev Nat)) }, false)
      = [.ok 0, .error { kind := .value }] :=
  ⟨rfl, rfl⟩

/-- a source with a skippable failing read in the middle, in front of an `apply` and an `assign`: the
hypotheses of `C12_skip_source_partial` hold, and the element behind the failing read arrives -/
def exSrcFail : List (Ev Val) :=
  [.ok (.dict [("a", .int 3)]), .error { kind := .value }, .ok (.dict [("a", .int 7)])]

def exAssignAfter : Op :=
  { kind := .assign, inKeys := [.name "y"], outKeys := [.key (.name "z")],
    fn := fun s args _ => (match args with | [.int i] => .ok (.int (i + 1)) | _ => .error .type, s) }

example : OpOK exAssignAfter :=
  ⟨⟨rfl, rfl⟩, fun k k' rest h => by simp [exAssignAfter] at h, fun h => by simp [exAssignAfter] at h⟩

example : Ref.CleanRun true [exAssignAfter] (Ref.opEvents true exFail exFail.s0 (Ref.skipNT true exSrcFail)) :=
  cleanRunB_sound _ _ _ (by decide +kernel)

example : (Impl.run true [exFail, exAssignAfter] exSrcFail).out.length = 2 ∧
    (Impl.run true [exFail, exAssignAfter] exSrcFail).err = none ∧
    (Impl.run true [exFail, exAssignAfter] (drain (tsNext cursorNext) 9 { inner := exSrcFail })).out.length = 2 := by
  decide +kernel

/-- the same failing source directly in front of an `assign` / a `filter` / a `sink` (the input class of
the repaired finding F-C12-passed-on): the hypotheses of `C12_skip_source_partial` hold, the element
behind the failing read arrives next to its own input, no error -/
def exAssignFirst : Op :=
  { kind := .assign, inKeys := [.name "a"], outKeys := [.key (.name "z")],
    fn := fun s args _ => (match args with | [.int i] => .ok (.int (i + 1)) | _ => .error .type, s) }

def exFilterFirst : Op :=
  { kind := .filter, inKeys := [.name "a"], outKeys := [],
    fn := fun s args _ => (match args with | [.int i] => .ok (.bool (i != 0)) | _ => .error .type, s) }

def exSinkFirst : Op :=
  { kind := .sink, inKeys := [.name "a"], outKeys := [.key .self],
    fn := fun s _ _ => (.ok .none, s + 1) }

/-- the integer under a name of a dict record (to read results in the examples) -/
def intAt (k : String) : Val → Int
  | .dict kvs => (match lookup k kvs with | some (.int i) => i | _ => -1)
  | _ => -1

example : OpOK exAssignFirst :=
  ⟨⟨rfl, rfl⟩, fun k k' rest h => by simp [exAssignFirst] at h, fun h => by simp [exAssignFirst] at h⟩

example : OpOK exFilterFirst := by
  refine ⟨⟨rfl, rfl⟩, fun k k' rest h => by simp [exFilterFirst] at h, fun _ => ?_⟩
  intro s ins v s' h xs hv
  subst hv
  simp only [callFn, exFilterFirst, List.isEmpty_nil, if_true] at h
  split at h
  · rename_i heq
    simp only [Prod.mk.injEq, Except.ok.injEq] at h
    obtain ⟨hv, _⟩ := h
    subst hv
    split at heq <;> simp at heq
  · simp at h

example : OpOK exSinkFirst :=
  ⟨⟨rfl, rfl⟩, fun k k' rest h => by simp [exSinkFirst] at h, fun h => by simp [exSinkFirst] at h⟩

example : Ref.CleanRun true [] (Ref.opEvents true exAssignFirst exAssignFirst.s0 (Ref.skipNT true exSrcFail)) :=
  cleanRunB_sound _ _ _ (by decide +kernel)

example :
    (Impl.run true [exAssignFirst] exSrcFail).out.map (fun r => (intAt "a" r, intAt "z" r)) = [(3, 4), (7, 8)] ∧
    (Impl.run true [exAssignFirst] exSrcFail).err = none ∧
    (Impl.run true [exFilterFirst] exSrcFail).out.length = 2 ∧
    (Impl.run true [exFilterFirst] exSrcFail).err = none ∧
    (Impl.run true [exSinkFirst, exAssignFirst] exSrcFail).out.length = 2 ∧
    (Impl.run true [exSinkFirst, exAssignFirst] exSrcFail).err = none ∧
    -- skipping off: the failing read surfaces, one record before it
    (Impl.run false [exAssignFirst] exSrcFail).out.length = 1 ∧
    (Impl.run false [exAssignFirst] exSrcFail).err = some { kind := .value } := by
  decide +kernel

/-! ## SC12c — the first error is FINAL: the pipeline iterator object after the error

The theorems above speak about what `list(it)` hands out.  These speak about the iterator OBJECT, which
the caller still holds after the error (`Impl.pipeNext` = the generator object that `iter_fn` returns,
`Impl.runPost`: `k` further `next()` calls, and the sinks, with the iterator still alive). -/

/-- **C12_generator_is_final.**  Kind level, for every body `next` and every state: a generator object
that has been finalised (an exception passed through it) answers `StopIteration` to every later
`next()`, and stays finalised. -/
theorem C12_generator_is_final {α σ : Type} (next : σ → Step α σ) (k : Nat) :
    calls (genNext next) k none = (List.replicate k none, none) :=
  calls_gen_none next k

/-- **C12_pipe_object_agrees.**  The object view and the list view of the pipeline iterator agree: the
caller's `for x in it` over the generator object hands out exactly `(Impl.run …).out`, ends with exactly
`(Impl.run …).err`, and leaves the object finalised iff an error ended the loop. -/
theorem C12_pipe_object_agrees (ignore : Bool) (ops : List Op) (src : List (Ev Val)) :
    consume Impl.pipeNext ((Impl.topEvents ignore ops src).length + 1) (some (Impl.topEvents ignore ops src))
      = ((Impl.run ignore ops src).out, (Impl.run ignore ops src).err,
         match (Impl.run ignore ops src).err with | some _ => none | none => some []) := by
  have h := consume_gen_cursor (Impl.topEvents ignore ops src) ((Impl.topEvents ignore ops src).length + 1) (by omega)
  simp only [Impl.pipeNext, h, Impl.run, genEnd]
  rfl

/-- **C12_first_error_is_final.**  For every chain of operators, every source, both skipping modes, and
every number `k` of further `next()` calls: if an error reaches the caller of the pipeline iterator
(skipping disabled: the first error; skipping enabled: the first unskippable one), then afterwards
every later `next()` on the same iterator answers `StopIteration` — nothing more is delivered, hence
nothing more is pulled through the operators and written to a sink — and every sink has been closed
exactly once, already while the iterator object is still alive, and still after the `k` calls.  And no
error reaching the caller is the only way for `runPost` to be `none`. -/
theorem C12_first_error_is_final (ignore : Bool) (ops : List Op) (src : List (Ev Val)) (k : Nat) :
    (∀ e, (Impl.run ignore ops src).err = some e →
      Impl.runPost ignore ops src k = some
        { calls := List.replicate k none,
          closedAtError := (Impl.run ignore ops src).closed,
          closedAfter := (Impl.run ignore ops src).closed }) ∧
    ((Impl.run ignore ops src).err = none → Impl.runPost ignore ops src k = none) := by
  have h := C12_pipe_object_agrees ignore ops src
  constructor
  · intro e he
    rw [he] at h
    simp only [Impl.runPost, h]
    simp [Impl.pipeNext, calls_gen_none, Impl.closedOf, Impl.run]
  · intro he
    rw [he] at h
    simp only [Impl.runPost, h]

/-- `C12_first_error_is_final` read off for the later calls alone: none of them hands out a value. -/
theorem C12_nothing_after_first_error (ignore : Bool) (ops : List Op) (src : List (Ev Val)) (k : Nat) (e : Err)
    (he : (Impl.run ignore ops src).err = some e) (p : Impl.Post) (hp : Impl.runPost ignore ops src k = some p) :
    ∀ c ∈ p.calls, c = none := by
  rw [(C12_first_error_is_final ignore ops src k).1 e he] at hp
  cases hp
  intro c hc
  exact (List.mem_replicate.mp hc).2

/-- **C12_bare_chain_resumes.**  The same caller over a RESUMABLE outermost object (the bare chain of
`map` / `zip` objects, `Impl.bareNext`): the loop hands out the same values and the same error, but the
object is left alive BEHIND the failing element, and the next `k` calls deliver whatever is there — the
first error is not final.  (Seeded change C12-m5: `return iter(result)` instead of `yield from result`.) -/
theorem C12_bare_chain_resumes (evs : List (Ev Val)) (k : Nat) :
    consume Impl.bareNext (evs.length + 1) evs = ((observe evs).1, (observe evs).2, afterErr evs) ∧
    (calls Impl.bareNext k (afterErr evs)).1
      = ((afterErr evs).take k).map some ++ List.replicate (k - (afterErr evs).length) none := by
  refine ⟨consume_cursor evs _ (by omega), ?_⟩
  simp only [Impl.bareNext, calls_cursor]

-- non-vacuity / test: sink → failing apply over three records, skipping off: the error surfaces after one
-- record, two more calls answer StopIteration, the sink (in front of the failing operator) is closed once
example :
    (Impl.run false [exSinkFirst, exAssignFirst] exSrcFail).err = some { kind := .value } ∧
    (Impl.runPost false [exSinkFirst, exAssignFirst] exSrcFail 2).map (fun p => (p.calls.map Option.isSome, p.closedAtError, p.closedAfter))
      = some ([false, false], [1], [1]) := by
  decide +kernel

end MlModel.C12
