import MlModel.Properties.C16
import MlModel.Properties.C03
import MlModel.Lemmas.PipeAggShardPerm
/-!
# C16 — SLICED aggregations: sharded + merged (in ANY order of arrival) = in-process, per key (package SC16c)

With `add_slice` a runner's state has one entry per slice value SEEN, so the states of the shards (of the
workers of an interleaved stage) carry different key sets, and `sharded_pipelines_as_iterator` hands them to
`merge_states` in the order in which the shards FINISH.  `Model/PipeAggShard.lean` (package SC03) is
`TransformRunner.merge_states` over such state maps; `C03_shards_sliced_result` is "merged in SHARD order =
the whole run".  Here:

* `C16_sliced_any_arrival_order` — the states merged in any permuted order, with the strict count = number of
  shards: `get_result` exists and reports, under every output key of every aggregate and every slice key,
  what the in-process run over the whole stream reports (aggregates lawful and insensitive to the order of
  their rows — the ASSUMPTION of C16);
* `C16_sharded_sliced` — the same for the order `l` in which the scheduler LTS of `sharded_pipelines_as_iterator`
  (`Model/Sched.lean: IT`, fault-free or not: whenever the run returned and published a result) delivered the
  shard states: `C16_sharded_one_result` (every shard exactly once) composed with the above;
* `C16_sharded_sliced_make` — … for the partition `SequenceDataSource.shard(i, n)` cuts (`shardParts`, C09),
  `n` = the run's number of shards: distributed = in-process over the unsharded data source;
* `C16_sliced_no_key_lost` — the merged map (any order of arrival) has an entry under a key of a runner's
  aggregate iff the in-process state has one (the seeded change C16-m5 — keys of the FIRST arriving state
  only — contradicts it).

Not covered in Lean: the interleaved mode with slices (the workers' shares are a partition of a PERMUTATION of
the stream; the bridge needs the in-process run to be insensitive to the order of the BATCHES, which is not
proved for `Model/PipeAgg.lean`) — sampled by the check (`harness/lib_c16_sliced.py`).
-/
namespace MlModel.C16
open MlModel MlModel.Agg MlModel.PipeAgg MlModel.Sched MlModel.Strategy MlModel.Shard

section Sliced
variable {X S Rv : Type}

/-- **No slice key lost or invented, whatever the order of arrival**: under every key `(a.out, k)` the map
merged in arrival order has an entry iff the in-process state has one.  (Stated under the same hypotheses as
the value theorem below, through which it is proved; `C03_shards_sliced_keys` is the law-free version for the
shard order.) -/
theorem C16_sliced_no_key_lost {P : Pipeline X S Rv} (hWF : P.WF) {parts : List (List Batch)} (hne : parts ≠ [])
    {sts : List (State S)} (hruns : mapE (run P) parts = .ok sts)
    {sts' : List (State S)} (hp : sts'.Perm sts)
    {st : State S} (hwhole : run P parts.flatten = .ok st)
    {a : Agg X S Rv} (ha : a ∈ P.aggs) {Eqv : S → S → Prop} (hL : Lawful a.m Eqv)
    (hperm : ∀ xs ys : List X, xs.Perm ys → Eqv (a.m.ofBatch xs) (a.m.ofBatch ys)) (k : SliceKey) :
    (AList.get? (mergeStates P sts') ⟨a.out, k⟩).isSome = (AList.get? st ⟨a.out, k⟩).isSome := by
  have h1 := mergeStates_get?_perm hWF hruns hp ha hL hperm k
  have h2 := C03.C03_shards_sliced_state hWF hne hruns hwhole ha hL k
  cases hm' : AList.get? (mergeStates P sts') ⟨a.out, k⟩ <;>
    cases hm : AList.get? (mergeStates P sts) ⟨a.out, k⟩ <;>
    cases hw : AList.get? st ⟨a.out, k⟩ <;>
    simp_all [OptEqv]

/-- **Sliced, sharded + merged in any order of arrival = in-process, per output key × slice key.** -/
theorem C16_sliced_any_arrival_order {P : Pipeline X S Rv} (hWF : P.WF) {parts : List (List Batch)} (hne : parts ≠ [])
    {sts : List (State S)} (hruns : mapE (run P) parts = .ok sts)
    {sts' : List (State S)} (hp : sts'.Perm sts)
    {res : Result Rv} (hrun : aggResult P parts.flatten = .ok res)
    {Eqv : S → S → Prop} (hL : ∀ a ∈ P.aggs, Lawful a.m Eqv)
    (hperm : ∀ a ∈ P.aggs, ∀ xs ys : List X, xs.Perm ys → Eqv (a.m.ofBatch xs) (a.m.ofBatch ys)) :
    ∃ res', mergeStatesStrict P sts' parts.length = .ok (mergeStates P sts') ∧
      getResult P (mergeStates P sts') = .ok res' ∧
      ∀ a ∈ P.aggs, ∀ (k : SliceKey) (i : Nat) (hi : i < a.out.length),
        AList.get? res' ⟨a.out[i], k⟩ = AList.get? res ⟨a.out[i], k⟩ := by
  obtain ⟨st, hst, hres⟩ := aggResult_ok hrun
  obtain ⟨res0, hres0⟩ := getResult_mergeStates_ok hWF hne hruns hst hL hres
  obtain ⟨res', hres'⟩ := getResult_mergeStates_perm_ok hWF hruns hp hL hperm hres0
  have hlen : sts'.length = parts.length := by rw [hp.length_eq]; exact mapE_ok_length hruns
  refine ⟨res', ?_, hres', ?_⟩
  · simp [mergeStatesStrict, hlen]
  · intro a ha k i hi
    rw [getResult_mergeStates_perm hWF hruns hp hres0 hres' ha (hL a ha) (hperm a ha) k hi]
    exact C03.C03_shards_sliced hWF hne hruns hst hres hres0 ha (hL a ha) k hi

/-- the states in the order `l` of their arrival (`l` = shard indexes) -/
def arrived (sts : List (State S)) (l : List Nat) : List (State S) := l.map fun i => sts.getD i []

theorem C16_arrived_perm (sts : List (State S)) {l : List Nat} (hl : l.Perm (List.range sts.length)) :
    (arrived sts l).Perm sts := by
  have h1 : (arrived sts l).Perm ((List.range sts.length).map fun i => sts.getD i []) := hl.map _
  have h2 : ((List.range sts.length).map fun i => sts.getD i []) = sts := by
    apply List.ext_getElem
    · simp
    · intro i h1 h2
      simp at h1
      simp [h1]
  rw [h2] at h1
  exact h1

variable {c : ICfg} {nw : Nat} {s : IT}

/-- **Sharded mode, sliced aggregation = in-process.**  Whenever a run of `sharded_pipelines_as_iterator` over
`c.n` shards (any pool size, any schedule) has returned and published its result — the merge of the shard
states in the order `l` in which they arrived —, for every pipeline the builder accepts, every partition of the
stream into the `c.n` shards (slice values absent from the first / a middle / the last arriving state, empty
shards): the strict count passes, `get_result` of the merged state exists and equals the in-process
`agg_result` under every output key × slice key. -/
theorem C16_sharded_sliced {P : Pipeline X S Rv} (hWF : P.WF) {parts : List (List Batch)}
    (hk : 1 ≤ c.n) (hparts : parts.length = c.n)
    {sts : List (State S)} (hruns : mapE (run P) parts = .ok sts)
    {res : Result Rv} (hrun : aggResult P parts.flatten = .ok res)
    {Eqv : S → S → Prop} (hL : ∀ a ∈ P.aggs, Lawful a.m Eqv)
    (hperm : ∀ a ∈ P.aggs, ∀ xs ys : List X, xs.Perm ys → Eqv (a.m.ofBatch xs) (a.m.ofBatch ys))
    (h : IReach c (IT.init nw c.n) s) (hfix : c.directPut = false)
    (hr : s.outcome = some .returned) (l : List Nat) (hx : s.result = some (some l)) :
    ∃ res', mergeStatesStrict P (arrived sts l) c.n = .ok (mergeStates P (arrived sts l)) ∧
      getResult P (mergeStates P (arrived sts l)) = .ok res' ∧
      ∀ a ∈ P.aggs, ∀ (k : SliceKey) (i : Nat) (hi : i < a.out.length),
        AList.get? res' ⟨a.out[i], k⟩ = AList.get? res ⟨a.out[i], k⟩ := by
  obtain ⟨l', hl', hlp⟩ := C16_sharded_one_result h hfix hr (some l) hx
  cases hl'
  have hlen : sts.length = c.n := by rw [mapE_ok_length hruns, hparts]
  have hne : parts ≠ [] := by intro e; rw [e] at hparts; simp at hparts; omega
  have hp := C16_arrived_perm sts (l := l) (by rw [hlen]; exact hlp)
  have := C16_sliced_any_arrival_order hWF hne hruns hp hrun hL hperm
  rw [hparts] at this
  exact this

/-- … for the partition `SequenceDataSource(batches).shard(i, n)` cuts: distributed over `c.n` shards =
in-process over the unsharded data source. -/
theorem C16_sharded_sliced_make {P : Pipeline X S Rv} (hWF : P.WF) (bs : List Batch) (hk : 1 ≤ c.n)
    {sts : List (State S)} (hruns : mapE (run P) (shardParts (DS.root bs.length) c.n bs) = .ok sts)
    {res : Result Rv} (hrun : aggResult P bs = .ok res)
    {Eqv : S → S → Prop} (hL : ∀ a ∈ P.aggs, Lawful a.m Eqv)
    (hperm : ∀ a ∈ P.aggs, ∀ xs ys : List X, xs.Perm ys → Eqv (a.m.ofBatch xs) (a.m.ofBatch ys))
    (h : IReach c (IT.init nw c.n) s) (hfix : c.directPut = false)
    (hr : s.outcome = some .returned) (l : List Nat) (hx : s.result = some (some l)) :
    ∃ res', mergeStatesStrict P (arrived sts l) c.n = .ok (mergeStates P (arrived sts l)) ∧
      getResult P (mergeStates P (arrived sts l)) = .ok res' ∧
      ∀ a ∈ P.aggs, ∀ (k : SliceKey) (i : Nat) (hi : i < a.out.length),
        AList.get? res' ⟨a.out[i], k⟩ = AList.get? res ⟨a.out[i], k⟩ := by
  have hwf : (DS.root bs.length).WF := by
    simp only [DS.WF, DS.root, DS.end, Option.getD_none]
    omega
  have hflat : (shardParts (DS.root bs.length) c.n bs).flatten = bs := by
    have h := partition_elems (DS.root bs.length) hwf bs rfl c.n hk
    rw [List.flatMap_def] at h
    unfold shardParts
    rw [h]
    simp only [DS.elems, DS.root, DS.end, Option.getD_none]
    rw [pySlice_nat bs 0 (bs.length : Int) (Int.le_refl 0) (by omega) (Int.le_refl _)]
    simp
  have hlen : (shardParts (DS.root bs.length) c.n bs).length = c.n := by simp [shardParts]
  rw [← hflat] at hrun
  exact C16_sharded_sliced hWF hk hlen hruns hrun hL hperm h hfix hr l hx

end Sliced

/-! ## non-vacuity of the hypotheses (`Lawful` + insensitive to the order of the rows) -/

/-- the numeric sufficient statistics agree (the list-valued components `vals` / `bag`, which DO depend on the
order of the rows, are ignored) -/
def numEqv (s t : Stat) : Prop :=
  s.rows = t.rows ∧ s.n0 = t.n0 ∧ s.s0 = t.s0 ∧ s.q0 = t.q0 ∧ s.n1 = t.n1 ∧ s.s1 = t.s1 ∧ s.dot = t.dot

/-- every `Stat` aggregate whose reported value reads the numeric statistics only (mean, mean+variance,
sum/count, dot, precision/recall) is lawful for `numEqv` … -/
theorem C16_numEqv_lawful {R : Type} (view : Stat → List R) (hview : ∀ s t, numEqv s t → view s = view t) :
    Lawful (statM view) numEqv where
  refl _ := ⟨rfl, rfl, rfl, rfl, rfl, rfl, rfl⟩
  symm h := by unfold numEqv at *; omega
  trans h1 h2 := by unfold numEqv at *; omega
  merge_congr h1 h2 := by
    unfold numEqv at *
    simp only [statM, Stat.add]
    omega
  result_congr h := hview _ _ h
  empty_eq := ⟨rfl, rfl, rfl, rfl, rfl, rfl, rfl⟩
  hom xs ys := by
    show numEqv ((Stat.ofBatch xs).add (Stat.ofBatch ys)) (Stat.ofBatch (xs ++ ys))
    rw [Stat.ofBatch_append]
    exact ⟨rfl, rfl, rfl, rfl, rfl, rfl, rfl⟩

/-- … and its one-batch state does not depend on the order of the rows -/
theorem C16_numEqv_perm {xs ys : List (List Val)} (h : xs.Perm ys) : numEqv (Stat.ofBatch xs) (Stat.ofBatch ys) := by
  induction h with
  | nil => exact ⟨rfl, rfl, rfl, rfl, rfl, rfl, rfl⟩
  | cons x _ ih =>
    unfold numEqv at *
    simp only [Stat.ofBatch, Stat.add]
    omega
  | swap x y l =>
    unfold numEqv
    simp only [Stat.ofBatch, Stat.add]
    omega
  | trans _ _ ih1 ih2 => unfold numEqv at *; omega

/-- the hypotheses of `C16_sharded_sliced` hold for C02's example pipeline (two aggregates, three slicers) -/
example : exPipeline.WF ∧ (∀ a ∈ exPipeline.aggs, Lawful a.m numEqv) ∧
    (∀ a ∈ exPipeline.aggs, ∀ xs ys : List (List Val), xs.Perm ys → numEqv (a.m.ofBatch xs) (a.m.ofBatch ys)) := by
  refine ⟨exPipeline_WF, ?_, ?_⟩
  · intro a ha
    simp only [exPipeline, List.mem_cons, List.not_mem_nil, or_false] at ha
    rcases ha with rfl | rfl
    · exact C16_numEqv_lawful _ (fun s t h => by unfold numEqv at h; show List.cons _ _ = List.cons _ _; rw [h.2.1, h.2.2.1])
    · exact C16_numEqv_lawful _ (fun s t h => by unfold numEqv at h; show List.cons _ _ = List.cons _ _; rw [h.2.1, h.2.2.1])
  · intro a ha xs ys h
    simp only [exPipeline, List.mem_cons, List.not_mem_nil, or_false] at ha
    rcases ha with rfl | rfl <;> exact C16_numEqv_perm h

/-! ## tests of the definitions (`decide`d) -/

/-- C02's example pipeline, three shards `[b0] [b1] [b2]` (slice `a = 2` only in the LAST shard, the middle
shard empty), the states arriving in the order 2, 0, 1 and 1, 2, 0: the merged result exists and reports the
in-process value under the slice key that the first-arriving state does not have -/
example :
    (∀ l ∈ [[2, 0, 1], [1, 2, 0], [0, 1, 2]],
      ((mapE (run exPipeline) (exStream.map ([·]))).toOption.bind fun sts =>
        (getResult exPipeline (mergeStates exPipeline (arrived sts l))).toOption.bind
          (AList.get? · ⟨"o", ⟨["a"], [1]⟩⟩))
      = (aggResult exPipeline exStream).toOption.bind (AList.get? · ⟨"o", ⟨["a"], [1]⟩⟩)) ∧
    ((aggResult exPipeline exStream).toOption.bind (AList.get? · ⟨"o", ⟨["a"], [1]⟩⟩)).isSome = true := by
  decide

end MlModel.C16
