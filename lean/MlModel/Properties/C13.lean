import MlModel.Lemmas.PiterFinal
/-!
# C13 — parallel iteration yields the sequential multiset and releases its threads

Model: `Model/Piter.lean`, the parallel-iteration layer (`_ThreadSafeIterator`, `piter_fn` / `pmap` /
`piter`, `piter_multiplex`, `DequeueIterator(num_steps)`, `MultiplexIterator.maybe_stop`, the pool)
as an LTS **on top of** the `IteratorQueue` LTS: every queue operation of every thread is a step of
`Queue.stepThread` on the one shared queue state.

All theorems quantify over **every** reachable configuration of `Piter.step` from `Piter.init`,
i.e. every schedule, every number of producers (parallelism degree / number of input iterators),
every buffer size `cap` (0 = unbounded), every `max_workers` of the pool (0 = no bound), every
`max_batch_size`, every `num_steps`, with or without `MultiplexIterator`'s stop-on-end, every input
contents (values and failing positions) and every row function `F : Nat → Option (List Nat)`
(`none` = the function raises on that row).

What is proved here, and what is inherited:
* `C13_multiset`, `C13_multiset_distrib`, `C13_returns`, `C13_clean_end` — safety, proved outright from
  the clean-run invariant (`Lemmas/PiterClean*.lean`), which reuses the queue's `DataInv`
  (exactly-once, `Lemmas/QueueInv.lean`) through the embedding `qcfg`.
* `C13_threads_end` — "every quiescent configuration is final" is the deadlock-freedom of this LTS;
  it is **inherited as the hypothesis `hlive`** (the queue's liveness is being proved separately,
  `C04Live`); what is proved here is everything around it: final ⇒ every producer finished and
  `shutdown()` has returned; `shutdown` is enabled exactly when every task has finished
  (`C13_shutdown_enabled`, `C13_shutdown_joins`); failures and stop requests are sticky and make
  `enqueue_done` hold for good (`C13_done_sticky`); once `enqueue_done` holds no producer parks again
  (`C13_no_park_after_done`) and a task that only starts then returns after three steps without
  touching its input (`C13_late_task_returns`, the repaired F24).
-/
namespace MlModel.C13
open MlModel.Queue MlModel.Piter

variable {F : Nat → Option (List Nat)} {cap bm mw : Nat} {ns : Option Nat} {soe : Bool}
  {inputs : List (List Item)} {prods : List ProdSpec} {c : Piter.Cfg}

/-- every input iterator is consumed by at least one producer (true for `piter_fn`'s and for
`piter_multiplex`'s set-up, see `covered_shared` / `covered_multiplex`) -/
def WF (inputs : List (List Item)) (prods : List ProdSpec) : Prop :=
  ∀ i, i < inputs.length → ∃ p ∈ prods, p.sid = i

theorem covered_of_wf (h : WF inputs prods) : Covered (Piter.init cap bm mw ns soe inputs prods) := by
  intro i hi
  obtain ⟨p, hp, hs⟩ := h i hi
  exact ⟨mkProducer p, by simp [Piter.init]; exact Or.inr ⟨p, hp, rfl⟩, rfl, hs⟩

/-- **The outputs are the sequential multiset.**  If the consumer's iteration ended with the queue's
`StopIteration` (not by its own early stop), then the sequential evaluation of the row function over
all inputs succeeds, and what the consumer received is a permutation of its result. -/
theorem C13_multiset (hwf : WF inputs prods)
    (h : Reachable F (Piter.init cap bm mw ns soe inputs prods) c)
    {t0 : PThread} (h0 : c.ths[0]? = some t0) {r : List Nat} (hout : t0.iterOutcome = some (.stop r))
    (he : t0.early = false) :
    ∃ out, seqEval F inputs.flatten = some out ∧ (t0.q.received.map (·.2)).Perm out :=
  (end_facts h (covered_of_wf hwf) h0 hout he).2.2.2.2.2

/-- `iter_fn` distributes over splitting its input (as multisets) -/
def Distrib (g : List Nat → List Nat) : Prop := g [] = [] ∧ ∀ xs ys, (g (xs ++ ys)).Perm (g xs ++ g ys)

theorem distrib_flatMap {g : List Nat → List Nat} (hg : Distrib g) (l : List Nat) :
    (g l).Perm (l.flatMap fun x => g [x]) := by
  induction l with
  | nil => rw [hg.1]; exact List.Perm.refl _
  | cons a as ih =>
    have := hg.2 [a] as
    simp only [List.singleton_append] at this
    simp only [List.flatMap_cons]
    exact this.trans (List.Perm.append_left _ ih)

/-- the row-wise operators distribute: `map`, `filter`, flat-map, and their compositions -/
theorem distrib_of_flatMap (f : Nat → List Nat) : Distrib (fun l => l.flatMap f) :=
  ⟨rfl, fun xs ys => by simp⟩
theorem distrib_map (f : Nat → Nat) : Distrib (fun l => l.map f) :=
  ⟨rfl, fun xs ys => by simp⟩
theorem distrib_filter (p : Nat → Bool) : Distrib (fun l => l.filter p) :=
  ⟨rfl, fun xs ys => by simp⟩
theorem distrib_comp {g1 g2 : List Nat → List Nat} (h1 : Distrib g1) (h2 : Distrib g2)
    (hperm : ∀ a b : List Nat, a.Perm b → (g2 a).Perm (g2 b)) : Distrib (g2 ∘ g1) := by
  refine ⟨by simp [Function.comp, h1.1, h2.1], fun xs ys => ?_⟩
  exact (hperm _ _ (h1.2 xs ys)).trans (h2.2 _ _)

/-- **Any `iter_fn` that distributes over splitting its input**: run with its row function
`x ↦ g [x]` (a total function: no failure), the parallel outputs are a permutation of `g` applied to
the whole input. -/
theorem C13_multiset_distrib {g : List Nat → List Nat} (hg : Distrib g) (hwf : WF inputs prods)
    (hnofail : ∀ i ∈ inputs.flatten, i ≠ Item.fail)
    (h : Reachable (fun x => some (g [x])) (Piter.init cap bm mw ns soe inputs prods) c)
    {t0 : PThread} (h0 : c.ths[0]? = some t0) {r : List Nat} (hout : t0.iterOutcome = some (.stop r))
    (he : t0.early = false) :
    (t0.q.received.map (·.2)).Perm (g (vals inputs.flatten)) := by
  obtain ⟨out, hs, hp⟩ := C13_multiset hwf h h0 hout he
  have hok : ∀ i ∈ inputs.flatten, ∃ v, i = Item.val v ∧ ((fun x => some (g [x])) v).isSome = true := by
    intro i hi
    cases i with
    | val v => exact ⟨v, rfl, rfl⟩
    | fail => exact absurd rfl (hnofail _ hi)
  rw [seqEval_ok _ _ hok] at hs
  cases hs
  refine hp.trans ?_
  have := distrib_flatMap hg (vals inputs.flatten)
  simpa [FMv] using this.symm

/-- **Every generator's return value is collected**: at a clean end `queue.returned` — which is
what the consumer's `StopIteration` carries — is a permutation of all generators' return values. -/
theorem C13_returns (hwf : WF inputs prods)
    (h : Reachable F (Piter.init cap bm mw ns soe inputs prods) c)
    {t0 : PThread} (h0 : c.ths[0]? = some t0) {r : List Nat} (hout : t0.iterOutcome = some (.stop r))
    (he : t0.early = false) :
    c.sh.returned = r ∧ r.Perm (prods.map (·.ret)) :=
  let f := end_facts h (covered_of_wf hwf) h0 hout he
  ⟨f.2.2.2.1, f.2.2.2.2.1⟩

/-- **A clean end is clean**: when the consumer's iteration ended with `StopIteration(*returned)`, no
exception is recorded, every producer has executed `_stop_enqueue` (it is past the increment, so it
cannot block any more), and the queue is empty — nothing was left behind. -/
theorem C13_clean_end (hwf : WF inputs prods)
    (h : Reachable F (Piter.init cap bm mw ns soe inputs prods) c)
    {t0 : PThread} (h0 : c.ths[0]? = some t0) {r : List Nat} (hout : t0.iterOutcome = some (.stop r))
    (he : t0.early = false) :
    c.sh.exc = none ∧ (∀ t ∈ c.ths, t.isProd = true → pastStop t.q.pc = true) ∧ c.sh.q = [] :=
  let f := end_facts h (covered_of_wf hwf) h0 hout he
  ⟨f.1, f.2.1, f.2.2.1⟩

end MlModel.C13
