import MlModel.Lemmas.PiterFinal
import MlModel.Lemmas.PiterLock
import MlModel.Lemmas.PiterDead
import MlModel.Lemmas.PiterVariantStep
/-!
# C13 — parallel iteration yields the sequential multiset and releases its threads

Model: `Model/Piter.lean`, the parallel-iteration layer (`_ThreadSafeIterator`, `piter_fn` / `pmap` /
`piter`, `piter_multiplex`, `DequeueIterator(num_steps)`, `MultiplexIterator.maybe_stop`, the pool)
as an LTS **on top of** the `IteratorQueue` LTS: every queue operation of every thread is a step of
`Queue.stepThread` on the one shared queue state.

All theorems quantify over **every** reachable configuration of `Piter.step` from `Piter.init`,
i.e. every schedule, every number of producers (parallelism degree / number of input iterators),
every buffer size `cap` (0 = unbounded), every `max_workers` of the pool (0 = no bound), every
`max_batch_size`, every `num_steps`, with or without `MultiplexIterator`'s stop-on-end, every input
contents (values and failing positions) and every row function `F : Nat → Option (List Nat)`
(`none` = the function raises on that row).

What is proved here, and what is inherited:
* `C13_multiset`, `C13_multiset_distrib`, `C13_returns`, `C13_clean_end` — safety, proved outright from
  the clean-run invariant (`Lemmas/PiterClean*.lean`), which reuses the queue's `DataInv`
  (exactly-once, `Lemmas/QueueInv.lean`) through the embedding `qcfg`.
* `C13_no_deadlock`, `C13_threads_end` — **deadlock freedom of this LTS is a theorem** (it used to be the
  hypothesis `hlive` of `C13_threads_end_partial`): every reachable configuration in which no thread has an
  enabled step is final — every pool task has run to its end and `shutdown()` has returned — for every
  capacity, batch size, `max_workers` (≥ 1 or unbounded), `num_steps`, stop-on-end flag, inputs, row function
  and every non-empty list of producers (`piter_multiplex` raises `ValueError` on an empty one).  The queue's
  no-lost-wake-up invariant J1 ∧ J2 ∧ K1 ∧ K2 (`Lemmas/QueueLiveDefs.lean`) is **transferred through the
  embedding** `qcfg` (`C13_no_lost_wakeup`; `Lemmas/QueueLiveTweak.lean`, `Lemmas/PiterLive.lean`): each step
  of this LTS is a queue step, a change of fields the invariant does not read, an outcome of
  `next(iterator)` that the queue LTS simulates on an adjusted source, or the only consumer turning into a
  stopper.  On top: control invariants (`Lemmas/PiterCtl.lean`) and the lock-order / pool-gate / shutdown
  argument (`Lemmas/PiterDead.lean`; `C13_stuck_all_parked`, `C13_pool_gate`).
  **On `max_workers`**: in this one-queue LTS no relation between `max_workers` and the number of tasks is
  needed — a running task never waits for a queued one (it waits only for the consumer, which is not a
  pool task), so `max_workers = 1` with any number of tasks is covered.  The open finding F-C13-pool-small
  needs TWO queues in one pool (tasks of the first level block on the bounded input queue that only the
  not yet started tasks of the second level drain) and is outside this LTS (see manifest `level_note`).
* `C13_variant`, `C13_bounded_executions`, `C13_terminates` — **termination**: an explicit measure `Psi`
  (the queue's `Phi` on the embedded configuration + the cost of the inputs, of the pending outputs and of the
  consumer's phase) strictly decreases on every step, so no execution is infinite, and every execution that
  cannot be extended has all helper threads finished and the pool shut down.
* around it: `shutdown` is enabled exactly when every task has finished
  (`C13_shutdown_enabled`, `C13_shutdown_joins`); failures and stop requests are sticky and make
  `enqueue_done` hold for good (`C13_done_sticky`); once `enqueue_done` holds no producer parks again
  (`C13_no_park_after_done`) and a task that only starts then returns after three steps without
  touching its input (`C13_late_task_returns`, the repaired F24).
-/
namespace MlModel.C13
open MlModel.Queue MlModel.Piter

variable {F : Nat → Option (List Nat)} {cap bm mw : Nat} {ns : Option Nat} {soe : Bool}
  {inputs : List (List Item)} {prods : List ProdSpec} {c : Piter.Cfg}

/-- every input iterator is consumed by at least one producer (true for `piter_fn`'s and for
`piter_multiplex`'s set-up, see `C13_wf_shared` / `C13_wf_multiplex`) -/
def WF (inputs : List (List Item)) (prods : List ProdSpec) : Prop :=
  ∀ i, i < inputs.length → ∃ p ∈ prods, p.sid = i

theorem C13_covered_of_wf (h : WF inputs prods) : Covered (Piter.init cap bm mw ns soe inputs prods) := by
  intro i hi
  obtain ⟨p, hp, hs⟩ := h i hi
  exact ⟨mkProducer p, by simp [Piter.init]; exact Or.inr ⟨p, hp, rfl⟩, rfl, hs⟩

/-- **The outputs are the sequential multiset.**  If the consumer's iteration ended with the queue's
`StopIteration` (not by its own early stop), then the sequential evaluation of the row function over
all inputs succeeds, and what the consumer received is a permutation of its result. -/
theorem C13_multiset (hwf : WF inputs prods)
    (h : Reachable F (Piter.init cap bm mw ns soe inputs prods) c)
    {t0 : PThread} (h0 : c.ths[0]? = some t0) {r : List Nat} (hout : t0.iterOutcome = some (.stop r))
    (he : t0.early = false) :
    ∃ out, seqEval F inputs.flatten = some out ∧ (t0.q.received.map (·.2)).Perm out :=
  (end_facts h (C13_covered_of_wf hwf) h0 hout he).2.2.2.2.2

/-- `iter_fn` distributes over splitting its input (as multisets) -/
def Distrib (g : List Nat → List Nat) : Prop := g [] = [] ∧ ∀ xs ys, (g (xs ++ ys)).Perm (g xs ++ g ys)

theorem C13_distrib_flatMap {g : List Nat → List Nat} (hg : Distrib g) (l : List Nat) :
    (g l).Perm (l.flatMap fun x => g [x]) := by
  induction l with
  | nil => rw [hg.1]; exact List.Perm.refl _
  | cons a as ih =>
    have := hg.2 [a] as
    simp only [List.singleton_append] at this
    simp only [List.flatMap_cons]
    exact this.trans (List.Perm.append_left _ ih)

/-- the row-wise operators distribute: `map`, `filter`, flat-map, and their compositions -/
theorem C13_distrib_of_flatMap (f : Nat → List Nat) : Distrib (fun l => l.flatMap f) :=
  ⟨rfl, fun xs ys => by simp⟩
theorem C13_distrib_map (f : Nat → Nat) : Distrib (fun l => l.map f) :=
  ⟨rfl, fun xs ys => by simp⟩
theorem C13_distrib_filter (p : Nat → Bool) : Distrib (fun l => l.filter p) :=
  ⟨rfl, fun xs ys => by simp⟩
theorem C13_distrib_comp {g1 g2 : List Nat → List Nat} (h1 : Distrib g1) (h2 : Distrib g2)
    (hperm : ∀ a b : List Nat, a.Perm b → (g2 a).Perm (g2 b)) : Distrib (g2 ∘ g1) := by
  refine ⟨by simp [Function.comp, h1.1, h2.1], fun xs ys => ?_⟩
  exact (hperm _ _ (h1.2 xs ys)).trans (h2.2 _ _)

/-- **Any `iter_fn` that distributes over splitting its input**: run with its row function
`x ↦ g [x]` (a total function: no failure), the parallel outputs are a permutation of `g` applied to
the whole input. -/
theorem C13_multiset_distrib {g : List Nat → List Nat} (hg : Distrib g) (hwf : WF inputs prods)
    (hnofail : ∀ i ∈ inputs.flatten, i ≠ Item.fail)
    (h : Reachable (fun x => some (g [x])) (Piter.init cap bm mw ns soe inputs prods) c)
    {t0 : PThread} (h0 : c.ths[0]? = some t0) {r : List Nat} (hout : t0.iterOutcome = some (.stop r))
    (he : t0.early = false) :
    (t0.q.received.map (·.2)).Perm (g (vals inputs.flatten)) := by
  obtain ⟨out, hs, hp⟩ := C13_multiset hwf h h0 hout he
  have hok : ∀ i ∈ inputs.flatten, ∃ v, i = Item.val v ∧ ((fun x => some (g [x])) v).isSome = true := by
    intro i hi
    cases i with
    | val v => exact ⟨v, rfl, rfl⟩
    | fail => exact absurd rfl (hnofail _ hi)
  rw [seqEval_ok _ _ hok] at hs
  cases hs
  refine hp.trans ?_
  have := C13_distrib_flatMap hg (vals inputs.flatten)
  simpa [FMv] using this.symm

/-- **Every generator's return value is collected**: at a clean end `queue.returned` — which is
what the consumer's `StopIteration` carries — is a permutation of all the values carried by the
`StopIteration`s that ended the producers' iterators: `ret` for a generator's `return ret`, `ret :: more`
for an iterator that forwards an upstream queue's `StopIteration(*returned)` (every argument is kept, not
only the first — `enqueue_from_iterator`'s `_stop_enqueue(*e.args)`). -/
theorem C13_returns (hwf : WF inputs prods)
    (h : Reachable F (Piter.init cap bm mw ns soe inputs prods) c)
    {t0 : PThread} (h0 : c.ths[0]? = some t0) {r : List Nat} (hout : t0.iterOutcome = some (.stop r))
    (he : t0.early = false) :
    c.sh.returned = r ∧ r.Perm (prods.flatMap (fun p => p.ret :: p.more)) :=
  let f := end_facts h (C13_covered_of_wf hwf) h0 hout he
  ⟨f.2.2.2.1, f.2.2.2.2.1⟩

/-- **A clean end is clean**: when the consumer's iteration ended with `StopIteration(*returned)`, no
exception is recorded, every producer has executed `_stop_enqueue` (it is past the increment, so it
cannot block any more), and the queue is empty — nothing was left behind. -/
theorem C13_clean_end (hwf : WF inputs prods)
    (h : Reachable F (Piter.init cap bm mw ns soe inputs prods) c)
    {t0 : PThread} (h0 : c.ths[0]? = some t0) {r : List Nat} (hout : t0.iterOutcome = some (.stop r))
    (he : t0.early = false) :
    c.sh.exc = none ∧ (∀ t ∈ c.ths, t.isProd = true → pastStop t.q.pc = true) ∧ c.sh.q = [] :=
  let f := end_facts h (C13_covered_of_wf hwf) h0 hout he
  ⟨f.1, f.2.1, f.2.2.1⟩

/-! ### the shared input is pulled under its lock -/

/-- **Mutual exclusion on the shared input**: at most one producer is between `acquire lock1` and
`release lock1` (so `next(input)` is never executed concurrently: a generator would raise
"already executing", a plain iterator could hand out an element twice). -/
theorem C13_input_mutex (h : Reachable F (Piter.init cap bm mw ns soe inputs prods) c)
    {i j : Tid} {ti tj : PThread} (hi : c.ths[i]? = some ti) (hj : c.ths[j]? = some tj)
    (hhi : holdsI ti = true) (hhj : holdsI tj = true) : i = j := by
  have inv := ilock_reachable (ilock_init cap bm mw ns soe inputs prods) h
  have h1 := (inv.own i ti hi).mpr hhi
  have h2 := (inv.own j tj hj).mpr hhj
  rw [h1] at h2
  exact Option.some.inj h2

/-- the recorded owner of the input lock is exactly the producer inside the locked section -/
theorem C13_input_owner (h : Reachable F (Piter.init cap bm mw ns soe inputs prods) c)
    {i : Tid} {ti : PThread} (hi : c.ths[i]? = some ti) : c.ilock = some i ↔ holdsI ti = true :=
  (ilock_reachable (ilock_init cap bm mw ns soe inputs prods) h).own i ti hi

/-! ### the helper threads end -/

/-- no thread has an enabled step -/
def Quiescent (F : Nat → Option (List Nat)) (c : Piter.Cfg) : Prop := ∀ tid alt, Piter.step F c tid alt = none

/-- final configurations are quiescent (nothing runs after the end) -/
theorem C13_final_quiescent (hd : c.allDone = true) : Quiescent F c := by
  intro tid alt
  unfold Piter.step
  cases ht : c.ths[tid]? with
  | none => rfl
  | some t =>
    have : t.done = true := by
      simp only [Piter.Cfg.allDone, List.all_eq_true] at hd
      exact hd t (List.mem_of_getElem? ht)
    unfold PThread.done at this
    cases hp : t.isProd with
    | true => simp only [hp, if_true, beq_iff_eq] at this; simp [hp, this]
    | false => simp only [hp, Bool.false_eq_true, if_false, beq_iff_eq] at this; simp [hp, this]

/-! #### deadlock freedom -/

/-- **The queue's no-lost-wake-up invariant holds in every reachable configuration of the
parallel-iteration LTS** (on the embedded queue configuration `qcfg c`: same shared state, the queue part
of every thread) — transferred from the queue LTS, not re-proved. -/
theorem C13_no_lost_wakeup (h : Reachable F (Piter.init cap bm mw ns soe inputs prods) c) :
    J1 (qcfg c) ∧ J2 (qcfg c) ∧ K1 (qcfg c) ∧ K2 (qcfg c) :=
  let v := (invs_reachable h).2.1.live
  ⟨v.j1, v.j2, v.k1, v.k2⟩

/-- **Lock-order acyclicity**: in a quiescent reachable configuration the three queue locks and the input
lock are free, no producer is inside `next(iterator)`, and every thread is done, or a pool task that has
not started, or parked on a condition variable without having been notified (the consumer in `get_batch`,
a producer in `put`). -/
theorem C13_stuck_all_parked (h : Reachable F (Piter.init cap bm mw ns soe inputs prods) c) (hq : Quiescent F c) :
    (∀ l, c.sh.owner l = none) ∧ c.ilock = none ∧
    ∀ (tid : Tid) (t : PThread), c.ths[tid]? = some t →
      t.q.pc = .done ∨ (t.q.pc = .start ∧ t.isProd = true) ∨
      (consWakePc t.q.pc = true ∧ tid ∉ c.sh.deqNotified ∧ t.isProd = false ∧ t.cpc = .iter) ∨
      (prodWakePc t.q.pc = true ∧ tid ∉ c.sh.enqNotified ∧ t.isProd = true) := by
  obtain ⟨hb, hql, hc, hil⟩ := invs_reachable h
  have hl := hql.live.base.lock
  exact ⟨stuck_locks_free hb.static hl hq, (stuck_no_enext hc hil hq).1,
    fun tid t ht => stuck_shape hb hc hil hl hq ht⟩

/-- **The pool gate**: a submitted task that has not started can start whenever fewer than `max_workers`
tasks are running (always, for an unbounded pool) — in particular as soon as a running one has ended. -/
theorem C13_pool_gate {tid : Tid} {t : PThread} (ht : c.ths[tid]? = some t) (hp : t.isProd = true)
    (hpc : t.q.pc = .start) (hsub : tid ≤ c.nsub) (hfree : c.maxWorkers = 0 ∨ c.running < c.maxWorkers) :
    (Piter.step F c tid false).isSome = true := by
  unfold Piter.step
  simp only [ht, hp, if_true, hpc]
  rcases hfree with h | h <;> simp [hsub, h]

/-- **No deadlock.**  Every reachable configuration — any schedule, any capacity (bounded or not), any
`max_batch_size`, any `max_workers` (0 = unbounded, or ≥ 1, **smaller than the number of tasks or not**), any
`num_steps`, with or without stop-on-end, any inputs with failing items at any position, any row function —
is final or has an enabled step.  `hne`: there is at least one producer (`piter_multiplex` raises
`ValueError` otherwise; with none the consumer waits for ever, see the example below — the specified
behaviour of `max_enqueuer = 0`). -/
theorem C13_no_deadlock (hne : prods ≠ [])
    (h : Reachable F (Piter.init cap bm mw ns soe inputs prods) c) :
    c.allDone = true ∨ ∃ tid alt, (Piter.step F c tid alt).isSome = true := by
  by_cases hq : ∀ tid alt, Piter.step F c tid alt = none
  · left
    obtain ⟨hb, hql, hc, hil⟩ := invs_reachable h
    refine stuck_final hb hql hc hil ?_ hq
    rw [nProd_reachable h, nProd_init]
    exact List.length_pos_iff.mpr hne
  · right
    obtain ⟨tid, hq⟩ := Classical.not_forall.mp hq
    obtain ⟨alt, hs⟩ := Classical.not_forall.mp hq
    exact ⟨tid, alt, by cases hst : Piter.step F c tid alt with
      | none => exact absurd hst hs
      | some _ => rfl⟩

/-- **Every helper thread finishes and the pool is shut down** — in every quiescent configuration
reachable under any schedule: on exhaustion, after a failure at any position of the input or of the row
function, after an early stop after any number of steps.  No liveness hypothesis: deadlock freedom is
`C13_no_deadlock`.  In a quiescent configuration every producer task has run to its end — so
`shutdown()`, which is only enabled then (`C13_shutdown_joins`), has returned — and the consumer is past
`shutdown`.

("There is no infinite execution" is `C13_variant` / `C13_bounded_executions` / `C13_terminates` below.) -/
theorem C13_threads_end (hne : prods ≠ [])
    (h : Reachable F (Piter.init cap bm mw ns soe inputs prods) c) (hq : Quiescent F c) :
    (∀ t ∈ c.ths, t.isProd = true → t.q.pc = .done) ∧ (∀ t0, c.ths[0]? = some t0 → t0.cpc = .fin) ∧
    c.producersDone = true := by
  have hd : c.allDone = true := by
    rcases C13_no_deadlock hne h with h1 | ⟨tid, alt, h1⟩
    · exact h1
    · rw [hq tid alt] at h1; cases h1
  have hb := base_reachable (base_init cap bm mw ns soe inputs prods) h
  simp only [Piter.Cfg.allDone, List.all_eq_true] at hd
  refine ⟨?_, ?_, ?_⟩
  · intro t ht hp
    have := hd t ht
    simpa [PThread.done, hp] using this
  · intro t0 h0
    have hp : t0.isProd = false := by
      cases hpp : t0.isProd with
      | false => rfl
      | true => exact absurd rfl ((hb.static.role 0 t0 h0).mp hpp)
    have := hd t0 (List.mem_of_getElem? h0)
    simpa [PThread.done, hp] using this
  · simp only [Piter.Cfg.producersDone, List.all_eq_true]
    intro t ht
    have := hd t ht
    cases hp : t.isProd with
    | false => simp
    | true => simpa [PThread.done, hp] using this

/-! #### termination -/

/-- **Variant.**  The measure `Psi` (`Lemmas/PiterVariantDefs.lean`: the queue's measure `Phi` on the
embedded configuration + per producer `wA` per pending output, the cost of the items still in its input —
3 lock steps and `wA` per output of the row function —, of the item in hand and of the current pull + a
rank of the consumer's phase that pre-pays its `maybe_stop()`) strictly decreases on **every** step of every
thread, for every capacity, `max_workers`, `num_steps`, stop-on-end flag, inputs (failing items included),
row function (any number of outputs per row, failures) and producers.  `hbm`: the batch size is positive
(as in `C04_variant`: the real `get_batch(0)` means "the default"). -/
theorem C13_variant (hbm : 0 < bm) (h : Reachable F (Piter.init cap bm mw ns soe inputs prods) c)
    {tid : Tid} {alt : Bool} {lbl : String} {c' : Piter.Cfg} (hs : Piter.step F c tid alt = some (lbl, c')) :
    Psi F c' < Psi F c :=
  psi_step_init hbm h hs

/-- **No infinite execution**: from a reachable configuration `c` no execution has more than `Psi F c`
steps (no fairness assumption, every scheduler). -/
theorem C13_bounded_executions (hbm : 0 < bm) (h : Reachable F (Piter.init cap bm mw ns soe inputs prods) c)
    {n : Nat} {c' : Piter.Cfg} (hn : StepsN F c n c') : n ≤ Psi F c := by
  have := stepsN_bound hbm h hn
  omega

/-- **Every execution ends with all helper threads finished and the pool shut down**: executions are
bounded (`C13_bounded_executions`), and an execution that cannot be extended is final
(`C13_no_deadlock`): every pool task has run to its end, `shutdown()` has returned. -/
theorem C13_terminates (hbm : 0 < bm) (hne : prods ≠ [])
    (h : Reachable F (Piter.init cap bm mw ns soe inputs prods) c) {n : Nat} {c' : Piter.Cfg}
    (hn : StepsN F c n c') :
    n ≤ Psi F c ∧ (Quiescent F c' → c'.allDone = true ∧ c'.producersDone = true ∧
      ∀ t0, c'.ths[0]? = some t0 → t0.cpc = .fin) := by
  refine ⟨C13_bounded_executions hbm h hn, fun hq => ?_⟩
  have hr := reachable_stepsN h hn
  obtain ⟨-, h2, h3⟩ := C13_threads_end hne hr hq
  refine ⟨?_, h3, h2⟩
  rcases C13_no_deadlock hne hr with h1 | ⟨tid, alt, h1⟩
  · exact h1
  · rw [hq tid alt] at h1; cases h1

/-- non-vacuity of `hbm` and a value of the measure (test): `pmap(inc, [1,2], max_parallism=2,
buffer_size=1)` cannot run for more than `Psi` steps from its initial configuration -/
example : Psi (evalFn .inc none) (Piter.init 1 4096 3 none false [[.val 1, .val 2]] (sharedSpecs [900, 900])) = 2902 := by
  decide

/-- non-vacuity of `hne`: the set-ups of the entry points have producers -/
example : sharedSpecs [900, 900] ≠ [] ∧ multiplexSpecs [900, 901, 902] ≠ [] := by decide

/-- `hne` is necessary (test of the definitions): with no producer the consumer parks in `get_batch` for
ever — a reachable configuration without enabled step that is not final.  (The real `piter_multiplex`
rejects an empty list of iterators with `ValueError`.) -/
example : ∃ c, Reachable (evalFn .ident none) (Piter.init 0 4 0 none false [] []) c ∧
    Piter.enabled (evalFn .ident none) c = [] ∧ c.allDone = false :=
  ⟨_, reachable_exec (Piter.init 0 4 0 none false [] []) [0, 0, 0, 0, 0, 0, 0] (by decide), by decide⟩

/-- `max_workers = 1` with three tasks on a bounded queue of capacity 1: covered by `C13_no_deadlock`
(one-queue LTS: no relation between `max_workers` and the number of tasks is needed) -/
example {c : Piter.Cfg}
    (h : Reachable (evalFn .dup none) (Piter.init 1 4096 1 none false [[.val 1], [.val 2], [.val 3]]
      (multiplexSpecs [900, 901, 902])) c) :
    c.allDone = true ∨ ∃ tid alt, (Piter.step (evalFn .dup none) c tid alt).isSome = true :=
  C13_no_deadlock (by decide) h

/-- The earlier form of `C13_threads_end`, under an explicit deadlock-freedom hypothesis `hlive` — kept
(it also covers `prods = []` for schedules on which the consumer stops by itself); `hlive` is now
discharged by `C13_no_deadlock` whenever `prods ≠ []`. -/
theorem C13_threads_end_partial
    (hlive : ∀ c, Reachable F (Piter.init cap bm mw ns soe inputs prods) c → Quiescent F c → c.allDone = true)
    (h : Reachable F (Piter.init cap bm mw ns soe inputs prods) c) (hq : Quiescent F c) :
    (∀ t ∈ c.ths, t.isProd = true → t.q.pc = .done) ∧ (∀ t0, c.ths[0]? = some t0 → t0.cpc = .fin) ∧
    c.producersDone = true := by
  have hd := hlive c h hq
  have hb := base_reachable (base_init cap bm mw ns soe inputs prods) h
  simp only [Piter.Cfg.allDone, List.all_eq_true] at hd
  refine ⟨?_, ?_, ?_⟩
  · intro t ht hp
    have := hd t ht
    simpa [PThread.done, hp] using this
  · intro t0 h0
    have hp : t0.isProd = false := by
      cases hpp : t0.isProd with
      | false => rfl
      | true => exact absurd rfl ((hb.static.role 0 t0 h0).mp hpp)
    have := hd t0 (List.mem_of_getElem? h0)
    simpa [PThread.done, hp] using this
  · simp only [Piter.Cfg.producersDone, List.all_eq_true]
    intro t ht
    have := hd t ht
    cases hp : t.isProd with
    | false => simp
    | true => simpa [PThread.done, hp] using this

/-- `shutdown()` is enabled exactly when every submitted task has finished -/
theorem C13_shutdown_enabled {t0 : PThread} (h0 : c.ths[0]? = some t0) (hp : t0.isProd = false)
    (hcp : t0.cpc = .shutdown) : (Piter.step F c 0 false).isSome = true ↔ c.producersDone = true := by
  unfold Piter.step
  simp only [h0, hp, Bool.false_eq_true, if_false, hcp]
  cases c.producersDone <;> simp

/-- `shutdown()` joins: the consumer gets past it only when every producer task is done -/
theorem C13_shutdown_joins {t0 : PThread} {alt : Bool} {lbl : String} {c' : Piter.Cfg}
    (h0 : c.ths[0]? = some t0) (hp : t0.isProd = false) (hcp : t0.cpc = .shutdown)
    (hs : Piter.step F c 0 alt = some (lbl, c')) : c.producersDone = true ∧ lbl = "shutdown" := by
  unfold Piter.step at hs
  simp only [h0, hp, Bool.false_eq_true, if_false, hcp] at hs
  split at hs
  · cases hs
  · split at hs
    · simp only [Option.some.injEq, Prod.mk.injEq] at hs
      exact ⟨by assumption, hs.1.symm⟩
    · cases hs

/-- a recorded failure and a stop request are never withdrawn -/
theorem C13_sticky_step {tid : Tid} {alt : Bool} {lbl : String} {c' : Piter.Cfg}
    (hs : Piter.step F c tid alt = some (lbl, c')) :
    (c.sh.exc.isSome = true → c'.sh.exc.isSome = true) ∧
    (c.sh.stopRequested = true → c'.sh.stopRequested = true) := by
  obtain ⟨t, ht, hk⟩ := step_inv hs
  cases hk with
  | pstart => exact ⟨id, id⟩
  | iacq => exact ⟨id, id⟩
  | inextL => exact ⟨id, id⟩
  | inextU =>
    refine ⟨?_, ?_⟩ <;> intro h <;> revert h <;>
      (unfold afterPull failPull; (repeat' split) <;> simp)
  | irel =>
    refine ⟨?_, ?_⟩ <;> intro h <;> revert h <;>
      (unfold afterPull failPull; (repeat' split) <;> simp)
  | @pq lbl s' q' _ _ _ _ hst =>
    obtain ⟨h1, h2, -⟩ := stepThread_fault lbl s' q' hst
    exact ⟨h1, h2⟩
  | cboot0 => exact ⟨id, id⟩
  | cboot => exact ⟨id, id⟩
  | csubmit => exact ⟨id, id⟩
  | @citer lbl s' q' _ _ hst =>
    obtain ⟨h1, h2, -⟩ := stepThread_fault lbl s' q' hst
    have e : (afterIter c t.q.pc s' { t with q := q' }).1.exc = s'.exc ∧
        (afterIter c t.q.pc s' { t with q := q' }).1.stopRequested = s'.stopRequested := by
      unfold afterIter; (repeat' split) <;> simp
    exact ⟨fun h => by show (afterIter c t.q.pc s' { t with q := q' }).1.exc.isSome = true; rw [e.1]; exact h1 h,
      fun h => by show (afterIter c t.q.pc s' { t with q := q' }).1.stopRequested = true; rw [e.2]; exact h2 h⟩
  | @cstop lbl s' q' _ _ hst =>
    obtain ⟨h1, h2, -⟩ := stepThread_fault lbl s' q' hst
    exact ⟨h1, h2⟩
  | cshutdown => exact ⟨id, id⟩

/-- **After a failure or a stop request `enqueue_done` holds for good** (so every producer that
looks at it leaves `put` / `enqueue_from_iterator`), in every later configuration of every schedule. -/
theorem C13_done_sticky {c c' : Piter.Cfg} (h : Reachable F c c')
    (hd : c.sh.exc.isSome = true ∨ c.sh.stopRequested = true) : c'.sh.enqueueDone = true := by
  have : c'.sh.exc.isSome = true ∨ c'.sh.stopRequested = true := by
    induction h with
    | init => exact hd
    | step _ hs ih =>
      obtain ⟨h1, h2⟩ := C13_sticky_step hs
      exact ih.imp h1 h2
  unfold Shared.enqueueDone
  rcases this with h | h <;> simp [h]

/-- **Once `enqueue_done` holds no producer parks on the full queue again**: `put` leaves through its
exit (`pExit`), and the loop heads of `enqueue_from_iterator` return. -/
theorem C13_no_park_after_done {s s' : Shared} {t t' : Queue.Thread} {tid : Tid} {alt : Bool} {lbl : String}
    (hs : stepThread s t tid alt = some (lbl, s', t')) (hd : s.enqueueDone = true) :
    t'.pc ≠ .pWait ∧ (t.pc = .sRel ∨ t.pc = .pRet ∨ t.pc = .pExit → t'.pc = .done) :=
  let f := stepThread_nopark lbl s' t' hs hd
  ⟨f.1, f.2.2⟩

/-- **A task that starts late returns at once** (the hazard of `piter_multiplex` submitting more tasks
than the pool has workers; finding F24 repaired): once a failure or a stop request is recorded, a task
that has just registered (`_start_enqueue`, holding the state lock) releases it and is done — it never
touches its input, whatever the rest of the configuration. -/
theorem C13_late_task_returns {tid : Tid} {t : PThread} (ht : c.ths[tid]? = some t) (hp : t.isProd = true)
    (hpc : t.q.pc = .sRel) (hown : c.sh.stOwner = some tid)
    (hd : c.sh.exc.isSome = true ∨ c.sh.stopRequested = true) :
    ∃ c' t', Piter.step F c tid false = some ("release rlock1", c') ∧ c'.ths[tid]? = some t' ∧
      t'.q.pc = .done ∧ t'.q.outcome = none ∧ t'.pulled = t.pulled ∧ c'.inputs = c.inputs := by
  have htid : tid < c.ths.length := by
    rcases List.getElem?_eq_some_iff.mp ht with ⟨h, _⟩; exact h
  have hdone : (c.sh.setOwner .st none).enqueueDone = true := by
    rw [enqueueDone_setOwner]; unfold Shared.enqueueDone
    rcases hd with h | h <;> simp [h]
  have hst : stepThread c.sh t.q tid false =
      some ("release rlock1", c.sh.setOwner .st none, { t.q with pc := .done, outcome := none }) := by
    unfold stepThread
    simp only [hpc]
    simp [release, Shared.owner, hown, enqLoop, hdone, Lk.name]
    rfl
  have hstep : Piter.step F c tid false = some ("release rlock1",
      { c with sh := c.sh.setOwner .st none,
               ths := c.ths.set tid (postProd tid t { t.q with pc := .done, outcome := none }) }) := by
    unfold Piter.step
    simp only [ht, hp, if_true, hpc, hst]
  refine ⟨_, postProd tid t { t.q with pc := .done, outcome := none }, hstep,
    List.getElem?_set_self htid, ?_, ?_, ?_, rfl⟩ <;> simp [postProd]

/-! ### Non-vacuity: concrete schedules (tests of the definitions; the schedules were produced by the
REAL code under the deterministic scheduler and are replayed here on the model) -/

/-- `pmap(inc, [1,2], max_parallism=2, buffer_size=1)`: a complete schedule (84 steps) of the real code.
The hypotheses of `C13_multiset` / `C13_returns` hold in its final configuration: the consumer ended
with `StopIteration(900, 900)`, received `[2, 3]`, and everything is done. -/
example : ∃ c, Reachable (evalFn .inc none) (Piter.init 1 4096 3 none false [[.val 1, .val 2]] (sharedSpecs [900, 900])) c ∧
    c.ths[0]?.map (·.iterOutcome) = some (some (.stop [900, 900])) ∧ c.ths[0]?.map (·.early) = some false ∧
    c.ths[0]?.map (fun t => t.q.received.map (·.2)) = some [2, 3] ∧ c.allDone = true :=
  ⟨_, reachable_exec (Piter.init 1 4096 3 none false [[.val 1, .val 2]] (sharedSpecs [900, 900]))
      [0,0,0,0,0,0,0,0,0,2,2,2,2,2,2,2,2,2,2,2,2,2,2,0,0,0,0,0,2,2,2,2,2,2,2,2,2,2,1,1,1,1,1,1,1,1,0,0,0,0,0,0,0,0,
       2,2,2,2,2,2,2,2,2,2,2,2,2,2,2,2,2,2,2,2,0,0,0,0,0,0,0,0,0,0] (by decide), by decide⟩

/-- `MultiplexIterator(data_sources=[[1,2,3,4],[101]], parallism=1)` stopped after one element: the second
source's task only starts after the stop request and returns without pulling anything (late task, F24);
all threads end and the pool is shut down. A complete schedule (41 steps) of the real code. -/
example : ∃ c, Reachable (evalFn .ident none)
      (Piter.init 3 4096 1 (some 1) true [[.val 1, .val 2, .val 3, .val 4], [.val 101]] (multiplexSpecs [900, 901])) c ∧
    c.ths[0]?.map (·.early) = some true ∧ c.ths[0]?.map (fun t => t.q.received.map (·.2)) = some [101] ∧
    c.ths[1]?.map (·.pulled) = some [] ∧ c.sh.stopRequested = true ∧ c.allDone = true :=
  ⟨_, reachable_exec
      (Piter.init 3 4096 1 (some 1) true [[.val 1, .val 2, .val 3, .val 4], [.val 101]] (multiplexSpecs [900, 901]))
      [0,0,0,2,2,2,2,2,2,2,2,2,2,2,2,0,0,0,0,0,0,0,0,0,0,0,0,0,0,0,0,0,0,0,0,2,2,1,1,1,0] (by decide), by decide⟩

/-- `piter_fn(dup, [1,2,3], parallism=2, buffer_size=1)` on a one-worker pool with `dup` failing on 2: the
failure is recorded, the consumer ends with it, both tasks end, the pool is shut down (70 steps). -/
example : ∃ c, Reachable (evalFn .dup (some 2))
      (Piter.init 1 4096 1 none false [[.val 1, .val 2, .val 3]] (sharedSpecs [800, 801])) c ∧
    c.sh.exc = some .value ∧ c.ths[0]?.map (·.iterOutcome) = some (some (.err .value)) ∧ c.allDone = true :=
  ⟨_, reachable_exec (Piter.init 1 4096 1 none false [[.val 1, .val 2, .val 3]] (sharedSpecs [800, 801]))
      [0,0,0,0,2,2,2,2,2,2,2,2,2,2,2,0,0,0,0,0,0,0,0,2,2,2,2,2,2,2,2,2,2,2,2,2,2,2,2,2,2,2,2,2,2,2,2,2,2,2,2,2,2,
       1,1,1,0,0,0,0,0,0,0,0,0,0,0,0,0,0] (by decide), by decide⟩

/-- the set-ups of the entry points satisfy `WF`: `piter_fn` / `pmap` (producers share input 0) … -/
theorem C13_wf_shared (input : List Item) (r : Nat) (rets : List Nat) : WF [input] (sharedSpecs (r :: rets)) := by
  intro i hi
  have : i = 0 := by simpa using hi
  subst this
  exact ⟨{ sid := 0, useLock := true, ret := r }, by simp [sharedSpecs], rfl⟩

/-- … and `piter_multiplex` (producer `i` owns input `i`) -/
theorem C13_wf_multiplex (inputs : List (List Item)) (rets : List Nat) (h : rets.length = inputs.length) :
    WF inputs (multiplexSpecs rets) := by
  intro i hi
  rw [← h] at hi
  refine ⟨{ sid := i, useLock := false, ret := rets[i] }, ?_, rfl⟩
  simp only [multiplexSpecs, List.mem_map]
  exact ⟨(rets[i], i), by simp [List.mk_mem_zipIdx_iff_getElem?, hi], rfl⟩

/-- the row functions used in the correspondence are total or fail exactly where asked -/
example : Distrib (fun l => l.flatMap fun x => if x % 2 == 1 then [x, x + 500] else []) := C13_distrib_of_flatMap _

end MlModel.C13
