import MlModel.Lemmas.GenWiringLemmas
import MlModel.Properties.C07.Classification
/-!
# C07 — the wiring of the classification metrics, read off the source on every run

`Generated/Wiring.lean` (translate/wiring.py) holds, as data, every public function of
`metrics/classification.py` (parameters, defaults, the `utils.verify_input` call, the aggregate constructed, every
keyword passed, what the aggregate is applied to), the decision tree of `ClassificationAggFn.__init__`, of
`utils.verify_input` and of the three `_calculate_confusion_matrix` methods, the dataclass defaults, and the
`get_result` shape.  `Lemmas/GenWiring.lean` gives the tables a meaning (an interpreter over the hand model's
values).  The theorems below say that the interpreted tables ARE the hand model:

* `C07_gen_wiring_init`        `ClassificationAggFn.__init__`  = `constructWrapper`
* `C07_gen_wiring_verify`      `utils.verify_input`            = `verifyInput`
* `C07_gen_fnapi_classification`   every single-metric function `f` = `oneShot` with metric `m` (read off the code), bare
  result, every keyword passed through unchanged; with `C07_classification_function_api` = the accumulator API
* `…_own_metric`, `…_covers`, `…_defaults`, `…_delegates`, `C07_gen_wiring_class_defaults`, `…_enums`
* `C07_gen_wiring_calc_cm / _samplewise / _topk`   `_calculate_confusion_matrix` = `batchCM`
* `C07_gen_wiring_get_result(_order)`   the result dict lists the configured metrics in their order

The tables are finite: `decide` over them is a proof about the whole generated table.
-/
set_option linter.unusedSimpArgs false
namespace MlModel.C07
open MlModel.Generated MlModel.Generated.Wiring MlModel.GenWiring MlModel.Agg.Confusion

/-! ## `ClassificationAggFn.__init__` and `utils.verify_input` -/

/-- **`ClassificationAggFn.__init__` as translated = the hand model's `constructWrapper`**: `average == SAMPLES`
selects the samplewise aggregate (a `k_list` is refused), otherwise a truthy `k_list` selects the top-k aggregate,
and every keyword reaches the constructor unchanged -/
theorem C07_gen_wiring_init (a : RawCfg) : evalInit a initTree = constructWrapper a := by
  cases a with
  | mk metrics single posLabel inputType average vocab kList =>
    by_cases hs : average = "samples"
    · subst hs
      cases kList <;>
        simp [initTree, evalInit, evalCond, evalSrc, rawEnv, truthy, kwRaw, setKw, ctorDefault, construct,
          constructWrapper, errOf, List.foldlM, Option.bind, constructSamplewise]
    · have hb : (average == "samples") = false := by simpa using hs
      cases kList <;>
        simp [initTree, evalInit, evalCond, evalSrc, rawEnv, truthy, kwRaw, setKw, ctorDefault, construct,
          constructWrapper, errOf, List.foldlM, Option.bind, hb]

/-- **`utils.verify_input` as translated = `verifyInput`** -/
theorem C07_gen_wiring_verify (r : RawCfg) (b : Batch) : evalVerify r b verifyTree = verifyInput r b := by
  cases r with
  | mk metrics single posLabel inputType average vocab kList =>
    by_cases ha : average = "binary" <;> by_cases hi : inputType = "binary"
    · subst ha; subst hi
      simp [verifyTree, evalVerify, evalCond, evalSrc, rawEnv, kwRaw, setKw, verifyInput, List.foldlM, Option.bind]
    · have hb : (inputType == "binary") = false := by simpa using hi
      subst ha
      simp [verifyTree, evalVerify, evalCond, evalSrc, rawEnv, kwRaw, setKw, verifyInput, List.foldlM, Option.bind, hb]
    · have hb : (average == "binary") = false := by simpa using ha
      simp [verifyTree, evalVerify, evalCond, evalSrc, rawEnv, kwRaw, setKw, verifyInput, List.foldlM, Option.bind, hb]
    · have hb : (average == "binary") = false := by simpa using ha
      simp [verifyTree, evalVerify, evalCond, evalSrc, rawEnv, kwRaw, setKw, verifyInput, List.foldlM, Option.bind, hb]

/-! ## the one-shot functions -/

/-- every public function of `metrics/classification.py` has the standard shape (whatever it passes as `metrics`) -/
theorem C07_gen_fnapi_classification_plumbing : ∀ w ∈ wrappers, StdWrapper w (metricsSrc w) := by
  decide +kernel

/-- **every single-metric function requests the metric that carries its own name** (`precision(..)` passes
`ConfusionMatrixMetric.PRECISION`, …); only `classification_metrics` passes the caller's `metrics` -/
theorem C07_gen_fnapi_classification_own_metric :
    ∀ w ∈ wrappers, (w.name = "classification_metrics" ∧ metricsSrc w = .param "metrics") ∨
      (Metric.ofValue? w.name).map Src.member = some (metricsSrc w) := by
  decide +kernel

/-- **coverage**: every enum member is requested by the function of its name, except `CONFUSION_MATRIX` (the raw
counts: only through `classification_metrics`) and `MEAN_AVERAGE_PRECISION` (not implemented by `derive_metric`:
`C07_classification_dispatch`); function names are distinct -/
theorem C07_gen_fnapi_classification_covers :
    (∀ m ∈ Metric.all, m = .CONFUSION_MATRIX ∨ m = .MEAN_AVERAGE_PRECISION ∨
      wrappers.any (fun w => w.name == m.value && metricsSrc w == .member m)) ∧
    (wrappers.map (·.name)).Nodup ∧
    wrappers.any (fun w => w.name == "classification_metrics") := by
  decide +kernel

/-- **defaults**: every function declares the defaults of the hand model's `RawCfg` (`pos_label=1`,
`input_type=BINARY`, `average=BINARY`, `vocab=None`, `dtype=None`, `k_list=None`), so does
`ClassificationAggFn.__init__`; `y_true, y_pred` come first (`classification_metrics`: keyword-only) -/
theorem C07_gen_fnapi_classification_defaults :
    (∀ w ∈ wrappers, w.defaults = [("pos_label", .int 1), ("input_type", .str "binary"), ("average", .str "binary"),
        ("vocab", .none), ("dtype", .none), ("k_list", .none)] ∧
      (w.params ++ w.kwonly).filter (· != "metrics")
        = ["y_true", "y_pred", "pos_label", "input_type", "average", "vocab", "dtype", "k_list"]) ∧
    initDefaults = [("pos_label", .int 1), ("input_type", .str "binary"), ("average", .str "binary"),
        ("vocab", .none), ("dtype", .none), ("k_list", .none)] ∧
    (initDefault.posLabel = 1 ∧ initDefault.inputType = "binary" ∧ initDefault.average = "binary" ∧
      initDefault.vocab = Option.none ∧ initDefault.kList = []) := by
  refine ⟨by decide +kernel, by decide +kernel, rfl, rfl, rfl, rfl, rfl⟩

/-- **function API = accumulator API with the configuration read off the source.**  For every public single-metric
function `w` of `metrics/classification.py` and the enum member `m` it passes as `metrics=`: called with the
arguments `a` (whatever the caller's `a.metrics`), `w` returns what the hand model's `oneShot` returns for
`metrics = m` (bare result), all other arguments unchanged — hence (`C07_classification_function_api`) exactly what the
accumulator `create_state → update_state → get_result` configured that way returns whenever `verify_input` lets
the call through, and `ValueError` otherwise. -/
theorem C07_gen_fnapi_classification (sqrt : Rat → Rat) (w : Wrapper) (hw : w ∈ wrappers) (m : Metric)
    (hm : metricsSrc w = .member m) (a : RawCfg) (b : Batch) :
    let r : RawCfg := { a with metrics := [m.value], single := true }
    evalWrapper sqrt w a b = oneShot sqrt r b ∧
    (verifyInput r b = .ok () → evalWrapper sqrt w a b = (constructWrapper r >>= fun c => accumulate sqrt c b)) ∧
    (verifyInput r b ≠ .ok () → evalWrapper sqrt w a b = .error .value) := by
  intro r
  have hstd := C07_gen_fnapi_classification_plumbing w hw
  rw [hm] at hstd
  have h1 : evalWrapper sqrt w a b = oneShot sqrt r b :=
    evalWrapper_std sqrt w _ hstd a b [m.value] true C07_gen_wiring_init C07_gen_wiring_verify rfl
  have h2 := C07_classification_function_api sqrt r b
  exact ⟨h1, fun h => h1.trans (h2.1 h), fun h => h1.trans (h2.2 h)⟩

/-- `classification_metrics(metrics, y_true=.., y_pred=.., ..)` is `oneShot` on the caller's own `metrics` -/
theorem C07_gen_fnapi_classification_metrics (sqrt : Rat → Rat) (w : Wrapper) (hw : w ∈ wrappers)
    (hm : metricsSrc w = .param "metrics") (a : RawCfg) (b : Batch) :
    evalWrapper sqrt w a b = oneShot sqrt a b := by
  have hstd := C07_gen_fnapi_classification_plumbing w hw
  rw [hm] at hstd
  have := evalWrapper_std sqrt w _ hstd a b a.metrics a.single C07_gen_wiring_init C07_gen_wiring_verify rfl
  simpa using this

/-- non-vacuity: `precision` is in the table and requests `PRECISION`; `classification_metrics` passes `metrics` -/
example : ∃ w ∈ wrappers, w.name = "precision" ∧ metricsSrc w = .member .PRECISION := by decide +kernel
example : ∃ w ∈ wrappers, w.name = "classification_metrics" ∧ metricsSrc w = .param "metrics" := by
  decide +kernel

/-- the `AggregateFn` methods of the wrapper class hand their own arguments, in order, to the same method of the
aggregate chosen by `__init__` -/
theorem C07_gen_fnapi_classification_delegates :
    (∀ d ∈ delegates, d.2.1 = d.1 ∧ d.2.2.2 = d.2.2.1) ∧
    delegates.map (·.1) = ["create_state", "update_state", "get_result", "merge_states"] := by
  decide +kernel

/-! ## the aggregates' own defaults and enums -/

/-- the dataclass defaults the interpreter assumes for keywords a constructor is not given (`ctorDefault`), the
inheritance of `TopKConfusionMatrixAggFn`, and `SamplewiseClassification` having no `average` / `k_list` parameter -/
theorem C07_gen_wiring_class_defaults :
    (∀ c ∈ classes, fieldDefault c "pos_label" = some (.int 1) ∧ fieldDefault c "input_type" = some (.str "binary") ∧
      fieldDefault c "vocab" = some .none ∧ fieldDefault c "dtype" = some .none) ∧
    (∀ c ∈ classes, c.name ≠ "SamplewiseClassification" →
      fieldDefault c "metrics" = some (.str Metric.CONFUSION_MATRIX.value) ∧
      fieldDefault c "average" = some (.str "binary")) ∧
    (∀ c ∈ classes, c.name = "TopKConfusionMatrixAggFn" →
      c.bases = ["ConfusionMatrixAggFn"] ∧ fieldDefault c "k_list" = some .none) ∧
    (∀ c ∈ classes, c.name = "SamplewiseClassification" →
      c.fields.lookup "metrics" = some none ∧ c.fields.lookup "average" = none ∧ c.fields.lookup "k_list" = none) ∧
    classes.map (·.name) = ["ConfusionMatrixAggFn", "TopKConfusionMatrixAggFn", "SamplewiseClassification"] := by
  decide +kernel

/-- `SamplewiseConfusionMatrixAggFn(**kw)` defers construction through `as_agg_fn`, which re-builds the same class
from its own `metrics, pos_label, input_type, vocab, dtype` -/
theorem C07_gen_wiring_samplewise_alias :
    samplewiseAsAggFn = [("cls", .selfClass), ("metrics", .field "metrics"), ("pos_label", .field "pos_label"),
      ("input_type", .field "input_type"), ("vocab", .field "vocab"), ("dtype", .field "dtype")] := by
  decide +kernel

/-- the enum values the hand model parses are the values of `types.InputType` / `types.AverageType` -/
theorem C07_gen_wiring_enums :
    (∀ e ∈ inputTypeMembers, (InputType.ofValue? e.2).isSome) ∧
    (∀ e ∈ averageTypeMembers, (Average.ofValue? e.2).map Average.value = some e.2) ∧
    inputTypeMembers.length = 6 ∧ averageTypeMembers.length = 5 ∧
    (inputTypeMembers.map (·.2)).Nodup ∧ (averageTypeMembers.map (·.2)).Nodup := by
  decide +kernel

/-! ## `_calculate_confusion_matrix` -/

/-- `ConfusionMatrixAggFn._calculate_confusion_matrix` as translated = `batchCM` (indicator / binary input →
`_indicator_confusion_matrix` with `multiclass = (input is the indicator encoding)`, multiclass(-multioutput) →
`_multiclass_confusion_matrix` with the vocabulary and `multioutput`, anything else `NotImplementedError`) -/
theorem C07_gen_wiring_calc_cm (c : Cfg) (hk : c.kind = .cm) (b : Batch) :
    evalCalc c b calcConfusionMatrixAggFn = batchCM c b := by
  cases c with
  | mk kind metrics single posLabel input average vocab kList =>
    cases hk
    rcases input with _ | it
    · simp [calcConfusionMatrixAggFn, evalCalc, evalCond, evalSrc, cfgEnv, inputStr, batchCM, errOf]
    · cases it <;>
        simp [calcConfusionMatrixAggFn, evalCalc, evalCond, evalSrc, cfgEnv, inputStr, batchCM, errOf, dataOk,
          kwVal, kwAverage, dataEnv, avg_roundtrip, List.lookup, Option.bind]

/-- `SamplewiseClassification._calculate_confusion_matrix` as translated = `batchCM` -/
theorem C07_gen_wiring_calc_samplewise (c : Cfg) (hk : c.kind = .samplewise) (b : Batch) :
    evalCalc c b calcSamplewiseClassification = batchCM c b := by
  cases c with
  | mk kind metrics single posLabel input average vocab kList =>
    cases hk
    rcases input with _ | it
    · simp [calcSamplewiseClassification, evalCalc, evalCond, evalSrc, cfgEnv, inputStr, batchCM, errOf]
    · cases it <;>
        simp [calcSamplewiseClassification, evalCalc, evalCond, evalSrc, cfgEnv, inputStr, batchCM, errOf, dataOk,
          kwVal, kwAverage, dataEnv, avg_roundtrip, List.lookup, Option.bind]

/-- `TopKConfusionMatrixAggFn._calculate_confusion_matrix` as translated = `batchCM` on the input types its
constructor accepts (`constructTopK` refuses the others) -/
theorem C07_gen_wiring_calc_topk (c : Cfg) (hk : c.kind = .topk)
    (hi : c.input = some .multiclass ∨ c.input = some .multioutput) (b : Batch) :
    evalCalc c b calcTopKConfusionMatrixAggFn = batchCM c b := by
  cases c with
  | mk kind metrics single posLabel input average vocab kList =>
    cases hk
    rcases hi with hi | hi <;> cases hi <;>
      simp [calcTopKConfusionMatrixAggFn, evalCalc, evalSrc, cfgEnv, inputStr, batchCM, dataOk,
        kwVal, kwAverage, dataEnv, avg_roundtrip, List.lookup, Option.bind]

/-- the hypothesis of `C07_gen_wiring_calc_topk` is what `constructTopK` establishes -/
theorem C07_gen_wiring_topk_inputs (r : RawCfg) (c : Cfg) (h : constructTopK r = .ok c) :
    c.kind = .topk ∧ (c.input = some .multiclass ∨ c.input = some .multioutput) := by
  unfold constructTopK at h
  cases hc : constructCM r with
  | error e => simp [hc, bind, Except.bind] at h
  | ok c0 =>
    have hin := constructCM_input r c0 hc
    simp only [hc, bind, Except.bind, throw, throwThe, MonadExceptOf.throw, pure, Except.pure] at h
    split at h
    · cases h
    · rename_i hne
      cases h
      refine ⟨rfl, ?_⟩
      have hne' : r.inputType = "multiclass" ∨ r.inputType = "multiclass-multioutput" := by
        have h2 : ¬r.inputType = "multiclass" → r.inputType = "multiclass-multioutput" := by simpa using hne
        by_cases h3 : r.inputType = "multiclass"
        · exact Or.inl h3
        · exact Or.inr (h2 h3)
      rcases hne' with hne' | hne'
      · left; show c0.input = _; rw [hin, hne']; rfl
      · right; show c0.input = _; rw [hin, hne']; rfl
/-! ## `get_result` -/

/-- **`get_result` lists the configured metrics in their order**: the entries are produced by the translated
comprehension (`getResultEntries`: one `state.derive_metric(metric, average=self._average)` per element of
`self._metrics`), then `packResult` selects the bare value when `metrics` was a single name -/
theorem C07_gen_wiring_get_result (sqrt : Rat → Rat) (c : Cfg) (s : CMArr) :
    getResult sqrt c (some s)
      = (getResultEntries (fun m => deriveMetric sqrt s m (some c.average.value)) c.metrics >>= packResult c) ∧
    getResultShape = ("_metrics", "state", "derive_metric", ["metric", "average=self._average"], "metrics") := by
  exact ⟨rfl, by decide +kernel⟩

/-- the keys of the result dict are the configured metrics, in the configured order (for a multi-metric configuration
the dict itself is returned) -/
theorem C07_gen_wiring_get_result_order (sqrt : Rat → Rat) (c : Cfg) (s : CMArr) (hs : c.single = false)
    (res : Result) (h : getResult sqrt c (some s) = .ok res) :
    ∃ kv, res = .dict kv ∧ kv.map Prod.fst = c.metrics := by
  rw [(C07_gen_wiring_get_result sqrt c s).1] at h
  cases he : getResultEntries (fun m => deriveMetric sqrt s m (some c.average.value)) c.metrics with
  | error e => simp [he, bind, Except.bind] at h
  | ok kv =>
    simp only [he, bind, Except.bind, packResult, hs] at h
    refine ⟨kv, ?_, entries_keys _ _ _ he⟩
    simpa using h.symm

/-- `SamplewiseClassification.result` lists the configured metrics in their order: the translated comprehension
(one `self._state[metric].result()` per element of `self._metrics`), then the single-name selection -/
theorem C07_gen_wiring_samplewise_result (c : Cfg) (st : SwState) :
    swResult c st
      = (samplewiseResultEntries (fun m => (pure (RVal.val (.s (some (meanStateResult (st.get m))))) : Except ErrKind RVal))
          c.metrics >>= packResult c) ∧
    samplewiseResultShape = ("_metrics", "self._state[metric]", "result", [], "metrics") := by
  refine ⟨?_, by decide +kernel⟩
  rw [entries_pure]
  rfl

end MlModel.C07
