import MlModel.Lemmas.Rates
import MlModel.Lemmas.ConfusionTopK
import MlModel.Lemmas.ConfusionTopKShard
import MlModel.Lemmas.ConfusionSamplewise
/-!
# C07 (classification family) — metric values equal their textbook definitions

Part A is stated against the **generated** definitions `MlModel.Generated.Rates.*` /
`MlModel.Generated.derive` / `MlModel.Generated.avgAction`, i.e. against what
`ml_metrics/_src/aggregates/classification.py` says *now* (the translator
`translate/run.py` rewrites `MlModel/Generated/` on every run).  `K` is any linearly ordered
field (ℚ for the executable model, ℝ for square roots); `sqrt` is any function with the defining
property of the non-negative square root on non-negative arguments (`IsSqrt`).

Part B (`C07_classification_counts*`) is about the hand-written model of how raw labels become
counts (`MlModel.Agg.Confusion`), against the textbook counts of `MlModel.Spec.Classification`.
-/
set_option linter.unusedSectionVars false
namespace MlModel.C07
open MlModel.Generated MlModel.Lemmas.Rates
open MlModel.Spec (Classification.ratio)

variable {K : Type} [Field K] [LinearOrder K] [IsStrictOrderedRing K]

/-- non-negative counts (what every confusion matrix built from data satisfies:
`C07_classification_counts_nonneg`) -/
structure NonNeg (cm : CM K) : Prop where
  tp : 0 ≤ cm.tp
  tn : 0 ≤ cm.tn
  fp : 0 ≤ cm.fp
  fn : 0 ≤ cm.fn

/-- `sqrt` is the non-negative square root on non-negative arguments (`np.sqrt` on reals) -/
def IsSqrt (sqrt : K → K) : Prop := ∀ x, 0 ≤ x → 0 ≤ sqrt x ∧ sqrt x * sqrt x = x

/-- non-vacuity: counts 2,2,1,2 (the example of the repository's tests) are `NonNeg` -/
example : NonNeg (⟨2, 2, 1, 2⟩ : CM ℚ) := ⟨by norm_num, by norm_num, by norm_num, by norm_num⟩

/-! ## A1. every rate equals its textbook formula -/

section spec
open Spec.Classification
variable (cm : CM K)

theorem C07_classification_precision_spec : Rates.precision cm = precision cm.tp cm.fp := by
  simp [Rates.precision, CM.p, precision, safeDivide_eq_ratio]

theorem C07_classification_recall_spec : Rates.recall cm = recall cm.tp cm.fn := by
  simp [Rates.recall, CM.t, recall, safeDivide_eq_ratio]

theorem C07_classification_specificity_spec : Rates.specificity cm = specificity cm.tn cm.fp := by
  simp [Rates.specificity, specificity, safeDivide_eq_ratio]

theorem C07_classification_fall_out_spec : Rates.fall_out cm = fallOut cm.tn cm.fp := by
  simp [Rates.fall_out, fallOut, safeDivide_eq_ratio]

theorem C07_classification_miss_rate_spec : Rates.miss_rate cm = missRate cm.tp cm.fn := by
  simp [Rates.miss_rate, missRate, safeDivide_eq_ratio]

theorem C07_classification_npv_spec : Rates.negative_prediction_value cm = npv cm.tn cm.fn := by
  simp [Rates.negative_prediction_value, npv, safeDivide_eq_ratio]

theorem C07_classification_fdr_spec : Rates.false_discovery_rate cm = fdr cm.tp cm.fp := by
  simp [Rates.false_discovery_rate, CM.p, fdr, safeDivide_eq_ratio, add_comm]

theorem C07_classification_for_spec : Rates.false_omission_rate cm = falseOmission cm.tn cm.fn := by
  simp [Rates.false_omission_rate, falseOmission, safeDivide_eq_ratio]

theorem C07_classification_threat_score_spec :
    Rates.threat_score cm = threatScore cm.tp cm.fp cm.fn := by
  simp [Rates.threat_score, CM.t, threatScore, safeDivide_eq_ratio]

theorem C07_classification_binary_accuracy_spec :
    Rates.binary_accuracy cm = binaryAccuracy cm.tp cm.tn cm.fp cm.fn := by
  simp only [Rates.binary_accuracy, binaryAccuracy, safeDivide_eq_ratio]
  congr 1; ring

theorem C07_classification_prevalence_spec :
    Rates.prevalence cm = prevalence cm.tp cm.tn cm.fp cm.fn := by
  simp only [Rates.prevalence, prevalence, safeDivide_eq_ratio]
  congr 1; ring

theorem C07_classification_plr_spec :
    Rates.positive_likelihood_ratio cm = plr cm.tp cm.tn cm.fp cm.fn := by
  simp [Rates.positive_likelihood_ratio, Rates.tpr, Rates.fpr, Rates.recall, Rates.fall_out, CM.t, plr,
    recall, fallOut, safeDivide_eq_ratio]

theorem C07_classification_nlr_spec :
    Rates.negative_likelihood_ratio cm = nlr cm.tp cm.tn cm.fp cm.fn := by
  simp [Rates.negative_likelihood_ratio, Rates.fnr, Rates.tnr, Rates.miss_rate, Rates.specificity, nlr,
    missRate, specificity, safeDivide_eq_ratio]

theorem C07_classification_informedness_spec :
    Rates.informedness cm = informedness cm.tp cm.tn cm.fp cm.fn := by
  simp [Rates.informedness, Rates.tpr, Rates.tnr, Rates.recall, Rates.specificity, CM.t, informedness,
    recall, specificity, safeDivide_eq_ratio]

theorem C07_classification_markedness_spec :
    Rates.markedness cm = markedness cm.tp cm.tn cm.fp cm.fn := by
  simp [Rates.markedness, Rates.ppv, Rates.npv, Rates.precision, Rates.negative_prediction_value, CM.p,
    markedness, precision, npv, safeDivide_eq_ratio]

theorem C07_classification_balanced_accuracy_spec :
    Rates.balanced_accuracy cm = balancedAccuracy cm.tp cm.tn cm.fp cm.fn := by
  simp [Rates.balanced_accuracy, Rates.tpr, Rates.tnr, Rates.recall, Rates.specificity, CM.t,
    balancedAccuracy, recall, specificity, safeDivide_eq_ratio]

/-- `accuracy` is documented as the indicator of `tp > 0` ("only meaningful for samplewise") -/
theorem C07_classification_accuracy_spec : Rates.accuracy cm = if 0 < cm.tp then 1 else 0 := by
  simp [Rates.accuracy]

theorem C07_classification_mcc_spec (sqrt : K → K) :
    Rates.matthews_correlation_coefficient sqrt cm = mcc cm.tp cm.tn cm.fp cm.fn sqrt := by
  simp [Rates.matthews_correlation_coefficient, mcc, safeDivide_eq_ratio]

/-- F1 is computed as the harmonic mean of precision and recall; for non-negative counts that is
the textbook `2·TP / (2·TP + FP + FN)` — including every zero-denominator case. -/
theorem C07_classification_f1_spec (h : NonNeg cm) : Rates.f1 cm = f1 cm.tp cm.fp cm.fn := by
  obtain ⟨htp, -, hfp, hfn⟩ := h
  simp only [Rates.f1, Rates.precision, Rates.recall, CM.p, CM.t, f1, safeDivide_def, ratio_def,
    Nat.cast_ofNat]
  by_cases h0 : cm.tp = 0
  · simp [h0]
  · have htp' : 0 < cm.tp := lt_of_le_of_ne htp (Ne.symm h0)
    have h1 : cm.tp + cm.fp ≠ 0 := by positivity
    have h2 : cm.tp + cm.fn ≠ 0 := by positivity
    have h3 : (2 : K) * cm.tp + cm.fp + cm.fn ≠ 0 := by positivity
    have h4 : cm.tp / (cm.tp + cm.fp) + cm.tp / (cm.tp + cm.fn) ≠ 0 := by positivity
    rw [if_neg h1, if_neg h2, if_neg h3, if_neg h4]
    field_simp
    ring

/-- the diagnostic odds ratio is computed as LR+ / LR−; for non-negative counts that is the
textbook `(TP·TN)/(FP·FN)` — including every zero-denominator case. -/
theorem C07_classification_dor_spec (h : NonNeg cm) :
    Rates.diagnostic_odds_ratio cm = dor cm.tp cm.tn cm.fp cm.fn := by
  obtain ⟨htp, htn, hfp, hfn⟩ := h
  simp only [Rates.diagnostic_odds_ratio, Rates.positive_likelihood_ratio, Rates.negative_likelihood_ratio,
    Rates.tpr, Rates.fpr, Rates.fnr, Rates.tnr, Rates.recall, Rates.fall_out, Rates.miss_rate,
    Rates.specificity, CM.t, dor, safeDivide_def, ratio_def]
  by_cases a0 : cm.tp = 0
  · simp [a0]
  by_cases d0 : cm.tn = 0
  · simp [d0]
  by_cases b0 : cm.fp = 0
  · simp [b0]
  by_cases c0 : cm.fn = 0
  · simp [c0]
  have ha : 0 < cm.tp := lt_of_le_of_ne htp (Ne.symm a0)
  have hd : 0 < cm.tn := lt_of_le_of_ne htn (Ne.symm d0)
  have hb : 0 < cm.fp := lt_of_le_of_ne hfp (Ne.symm b0)
  have hc : 0 < cm.fn := lt_of_le_of_ne hfn (Ne.symm c0)
  have e1 : cm.tp + cm.fn ≠ 0 := by positivity
  have e2 : cm.fp + cm.tn ≠ 0 := by positivity
  have e3 : cm.fn + cm.tp ≠ 0 := by positivity
  have e4 : cm.tn + cm.fp ≠ 0 := by positivity
  have e5 : cm.fp / (cm.fp + cm.tn) ≠ 0 := by positivity
  have e6 : cm.tn / (cm.tn + cm.fp) ≠ 0 := by positivity
  have e7 : cm.fn / (cm.fn + cm.tp) / (cm.tn / (cm.tn + cm.fp)) ≠ 0 := by positivity
  have e8 : cm.fp * cm.fn ≠ 0 := by positivity
  rw [if_neg e1, if_neg e2, if_neg e3, if_neg e4, if_neg e5, if_neg e6, if_neg e7, if_neg e8]
  field_simp
  ring

/-- the prevalence threshold is computed with `1 − TNR` in place of `FPR`; whenever there is at
least one actual negative (`tn + fp ≠ 0`, i.e. the false-positive rate is defined) that is the
textbook `(√(TPR·FPR) − FPR)/(TPR − FPR)`. -/
theorem C07_classification_prevalence_threshold_spec (sqrt : K → K) (hn : cm.tn + cm.fp ≠ 0) :
    Rates.prevalence_threshold sqrt cm = prevalenceThreshold cm.tp cm.tn cm.fp cm.fn sqrt := by
  have key : (1 : K) - cm.tn / (cm.tn + cm.fp) = cm.fp / (cm.fp + cm.tn) := by
    rw [add_comm cm.fp cm.tn]; field_simp; ring
  have hn' : cm.fp + cm.tn ≠ 0 := by rwa [add_comm]
  simp only [Rates.prevalence_threshold, Rates.tnr, Rates.tpr, Rates.specificity, Rates.recall, CM.t,
    prevalenceThreshold, recall, fallOut, safeDivide_eq_ratio, Nat.cast_one]
  simp only [ratio_def (cm.tn) (cm.tn + cm.fp), ratio_def cm.fp (cm.fp + cm.tn), if_neg hn, if_neg hn']
  rw [← key]
  congr 1 <;> ring

end spec

/-! ## A2. documented aliases agree (as functions, hence for every averaging mode) -/

theorem C07_classification_alias_ppv (cm : CM K) : Rates.ppv cm = Rates.precision cm := rfl
theorem C07_classification_alias_positive_predictive_value (cm : CM K) :
    Rates.positive_predictive_value cm = Rates.precision cm := rfl
theorem C07_classification_alias_sensitivity (cm : CM K) : Rates.sensitivity cm = Rates.recall cm := rfl
theorem C07_classification_alias_tpr (cm : CM K) : Rates.tpr cm = Rates.recall cm := rfl
theorem C07_classification_alias_tnr (cm : CM K) : Rates.tnr cm = Rates.specificity cm := rfl
theorem C07_classification_alias_fpr (cm : CM K) : Rates.fpr cm = Rates.fall_out cm := rfl
theorem C07_classification_alias_fnr (cm : CM K) : Rates.fnr cm = Rates.miss_rate cm := rfl
theorem C07_classification_alias_npv (cm : CM K) :
    Rates.npv cm = Rates.negative_prediction_value cm := rfl
theorem C07_classification_alias_iou (cm : CM K) :
    Rates.intersection_over_union cm = Rates.threat_score cm := rfl

/-- the `derive_metric` dispatch sends every enum member to the rate of its own name
(`NVP` is the library's spelling of NPV); `CONFUSION_MATRIX` returns the accumulator and
`MEAN_AVERAGE_PRECISION` is not implemented -/
theorem C07_classification_dispatch (sqrt : K → K) :
    (derive sqrt .CONFUSION_MATRIX = .self ∧
     derive sqrt .MEAN_AVERAGE_PRECISION = .notImplemented) ∧
    (derive sqrt .PRECISION = .rate Rates.precision ∧ derive sqrt .PPV = .rate Rates.ppv ∧
     derive sqrt .POSITIVE_PREDICTIVE_VALUE = .rate Rates.positive_predictive_value ∧
     derive sqrt .RECALL = .rate Rates.recall ∧ derive sqrt .SENSITIVITY = .rate Rates.sensitivity ∧
     derive sqrt .TPR = .rate Rates.tpr ∧ derive sqrt .F1_SCORE = .rate Rates.f1 ∧
     derive sqrt .ACCURACY = .rate Rates.accuracy ∧
     derive sqrt .BINARY_ACCURACY = .rate Rates.binary_accuracy) ∧
    (derive sqrt .SPECIFICITY = .rate Rates.specificity ∧ derive sqrt .TNR = .rate Rates.tnr ∧
     derive sqrt .FALL_OUT = .rate Rates.fall_out ∧ derive sqrt .FPR = .rate Rates.fpr ∧
     derive sqrt .MISS_RATE = .rate Rates.miss_rate ∧ derive sqrt .FNR = .rate Rates.fnr ∧
     derive sqrt .NEGATIVE_PREDICTION_VALUE = .rate Rates.negative_prediction_value ∧
     derive sqrt .NVP = .rate Rates.npv ∧
     derive sqrt .FALSE_DISCOVERY_RATE = .rate Rates.false_discovery_rate ∧
     derive sqrt .FALSE_OMISSION_RATE = .rate Rates.false_omission_rate) ∧
    (derive sqrt .THREAT_SCORE = .rate Rates.threat_score ∧
     derive sqrt .INTERSECTION_OVER_UNION = .rate Rates.intersection_over_union ∧
     derive sqrt .POSITIVE_LIKELIHOOD_RATIO = .rate Rates.positive_likelihood_ratio ∧
     derive sqrt .NEGATIVE_LIKELIHOOD_RATIO = .rate Rates.negative_likelihood_ratio ∧
     derive sqrt .DIAGNOSTIC_ODDS_RATIO = .rate Rates.diagnostic_odds_ratio ∧
     derive sqrt .PREVALENCE = .rate Rates.prevalence ∧
     derive sqrt .PREVALENCE_THRESHOLD = .rate (Rates.prevalence_threshold sqrt) ∧
     derive sqrt .MATTHEWS_CORRELATION_COEFFICIENT = .rate (Rates.matthews_correlation_coefficient sqrt) ∧
     derive sqrt .INFORMEDNESS = .rate Rates.informedness ∧
     derive sqrt .MARKEDNESS = .rate Rates.markedness ∧
     derive sqrt .BALANCED_ACCURACY = .rate Rates.balanced_accuracy) := by
  refine ⟨⟨rfl, rfl⟩, ⟨rfl, rfl, rfl, rfl, rfl, rfl, rfl, rfl, rfl⟩,
    ⟨rfl, rfl, rfl, rfl, rfl, rfl, rfl, rfl, rfl, rfl⟩,
    ⟨rfl, rfl, rfl, rfl, rfl, rfl, rfl, rfl, rfl, rfl, rfl⟩⟩

/-- the enum values are the documented metric names, and a name resolves to its member -/
theorem C07_classification_enum_roundtrip : ∀ m ∈ Metric.all, Metric.ofValue? m.value = some m := by
  decide

theorem C07_classification_enum_names :
    Metric.PRECISION.value = "precision" ∧ Metric.RECALL.value = "recall" ∧
    Metric.F1_SCORE.value = "f1_score" ∧ Metric.NVP.value = "nvp" ∧
    Metric.MATTHEWS_CORRELATION_COEFFICIENT.value = "matthews_correlation_coefficient" ∧
    Metric.all.length = 32 := by decide

/-- averaging step of `derive_metric`: `micro` / `binary` / no average return the rate as is,
`macro` is the mean over the **last** (class) axis, `samples` is refused there -/
theorem C07_classification_average_rule :
    avgAction (some "micro") = .identity ∧ avgAction (some "binary") = .identity ∧
    avgAction none = .identity ∧ avgAction (some "macro") = .meanAxis (-1) ∧
    avgAction (some "samples") = .assertionError ∧ avgAction (some "weighted") = .notImplemented := by
  decide

/-! ## A3. ranges -/

section range
variable {cm : CM K}

theorem C07_classification_range_precision (h : NonNeg cm) :
    0 ≤ Rates.precision cm ∧ Rates.precision cm ≤ 1 := by
  obtain ⟨htp, htn, hfp, hfn⟩ := h
  unfold Rates.precision CM.p
  exact ⟨safeDivide_nonneg htp (by positivity), safeDivide_le_one (by linarith) (by positivity)⟩

theorem C07_classification_range_recall (h : NonNeg cm) :
    0 ≤ Rates.recall cm ∧ Rates.recall cm ≤ 1 := by
  obtain ⟨htp, htn, hfp, hfn⟩ := h
  unfold Rates.recall CM.t
  exact ⟨safeDivide_nonneg htp (by positivity), safeDivide_le_one (by linarith) (by positivity)⟩

theorem C07_classification_range_specificity (h : NonNeg cm) :
    0 ≤ Rates.specificity cm ∧ Rates.specificity cm ≤ 1 := by
  obtain ⟨htp, htn, hfp, hfn⟩ := h
  unfold Rates.specificity
  exact ⟨safeDivide_nonneg htn (by positivity), safeDivide_le_one (by linarith) (by positivity)⟩

theorem C07_classification_range_fall_out (h : NonNeg cm) :
    0 ≤ Rates.fall_out cm ∧ Rates.fall_out cm ≤ 1 := by
  obtain ⟨htp, htn, hfp, hfn⟩ := h
  unfold Rates.fall_out
  exact ⟨safeDivide_nonneg hfp (by positivity), safeDivide_le_one (by linarith) (by positivity)⟩

theorem C07_classification_range_miss_rate (h : NonNeg cm) :
    0 ≤ Rates.miss_rate cm ∧ Rates.miss_rate cm ≤ 1 := by
  obtain ⟨htp, htn, hfp, hfn⟩ := h
  unfold Rates.miss_rate
  exact ⟨safeDivide_nonneg hfn (by positivity), safeDivide_le_one (by linarith) (by positivity)⟩

theorem C07_classification_range_npv (h : NonNeg cm) :
    0 ≤ Rates.negative_prediction_value cm ∧ Rates.negative_prediction_value cm ≤ 1 := by
  obtain ⟨htp, htn, hfp, hfn⟩ := h
  unfold Rates.negative_prediction_value
  exact ⟨safeDivide_nonneg htn (by positivity), safeDivide_le_one (by linarith) (by positivity)⟩

theorem C07_classification_range_fdr (h : NonNeg cm) :
    0 ≤ Rates.false_discovery_rate cm ∧ Rates.false_discovery_rate cm ≤ 1 := by
  obtain ⟨htp, htn, hfp, hfn⟩ := h
  unfold Rates.false_discovery_rate CM.p
  exact ⟨safeDivide_nonneg hfp (by positivity), safeDivide_le_one (by linarith) (by positivity)⟩

theorem C07_classification_range_for (h : NonNeg cm) :
    0 ≤ Rates.false_omission_rate cm ∧ Rates.false_omission_rate cm ≤ 1 := by
  obtain ⟨htp, htn, hfp, hfn⟩ := h
  unfold Rates.false_omission_rate
  exact ⟨safeDivide_nonneg hfn (by positivity), safeDivide_le_one (by linarith) (by positivity)⟩

theorem C07_classification_range_threat_score (h : NonNeg cm) :
    0 ≤ Rates.threat_score cm ∧ Rates.threat_score cm ≤ 1 := by
  obtain ⟨htp, htn, hfp, hfn⟩ := h
  unfold Rates.threat_score CM.t
  exact ⟨safeDivide_nonneg htp (by positivity), safeDivide_le_one (by linarith) (by positivity)⟩

theorem C07_classification_range_binary_accuracy (h : NonNeg cm) :
    0 ≤ Rates.binary_accuracy cm ∧ Rates.binary_accuracy cm ≤ 1 := by
  obtain ⟨htp, htn, hfp, hfn⟩ := h
  unfold Rates.binary_accuracy
  exact ⟨safeDivide_nonneg (by positivity) (by positivity),
    safeDivide_le_one (by linarith) (by positivity)⟩

theorem C07_classification_range_prevalence (h : NonNeg cm) :
    0 ≤ Rates.prevalence cm ∧ Rates.prevalence cm ≤ 1 := by
  obtain ⟨htp, htn, hfp, hfn⟩ := h
  unfold Rates.prevalence
  exact ⟨safeDivide_nonneg (by positivity) (by positivity),
    safeDivide_le_one (by linarith) (by positivity)⟩

theorem C07_classification_range_accuracy : 0 ≤ Rates.accuracy cm ∧ Rates.accuracy cm ≤ 1 := by
  unfold Rates.accuracy
  split <;> simp

theorem C07_classification_range_f1 (h : NonNeg cm) : 0 ≤ Rates.f1 cm ∧ Rates.f1 cm ≤ 1 := by
  obtain ⟨hp0, hp1⟩ := C07_classification_range_precision h
  obtain ⟨hr0, hr1⟩ := C07_classification_range_recall h
  simp only [Rates.f1, Nat.cast_ofNat]
  refine ⟨safeDivide_nonneg (by positivity) (by positivity), safeDivide_le_one ?_ (by positivity)⟩
  nlinarith [mul_nonneg hp0 (sub_nonneg.mpr hr1), mul_nonneg hr0 (sub_nonneg.mpr hp1)]

theorem C07_classification_range_balanced_accuracy (h : NonNeg cm) :
    0 ≤ Rates.balanced_accuracy cm ∧ Rates.balanced_accuracy cm ≤ 1 := by
  obtain ⟨hr0, hr1⟩ := C07_classification_range_recall h
  obtain ⟨hs0, hs1⟩ := C07_classification_range_specificity h
  simp only [Rates.balanced_accuracy, Rates.tpr, Rates.tnr, Nat.cast_ofNat]
  constructor
  · positivity
  · rw [div_le_one (by norm_num)]; linarith

theorem C07_classification_range_informedness (h : NonNeg cm) :
    -1 ≤ Rates.informedness cm ∧ Rates.informedness cm ≤ 1 := by
  obtain ⟨hr0, hr1⟩ := C07_classification_range_recall h
  obtain ⟨hs0, hs1⟩ := C07_classification_range_specificity h
  simp only [Rates.informedness, Rates.tpr, Rates.tnr, Nat.cast_one]
  constructor <;> linarith

theorem C07_classification_range_markedness (h : NonNeg cm) :
    -1 ≤ Rates.markedness cm ∧ Rates.markedness cm ≤ 1 := by
  obtain ⟨hp0, hp1⟩ := C07_classification_range_precision h
  obtain ⟨hn0, hn1⟩ := C07_classification_range_npv h
  simp only [Rates.markedness, Rates.ppv, Rates.npv, Nat.cast_one]
  constructor <;> linarith

/-- the argument of `pos_sqrt` in MCC is never negative (so `pos_sqrt` cannot raise), and it
dominates the squared numerator (Cauchy–Schwarz for a 2×2 table) -/
theorem C07_classification_mcc_radicand (h : NonNeg cm) :
    0 ≤ Rates.matthews_correlation_coefficient_radicand cm ∧
    (cm.tp * cm.tn - cm.fp * cm.fn) ^ 2 ≤ Rates.matthews_correlation_coefficient_radicand cm := by
  obtain ⟨htp, htn, hfp, hfn⟩ := h
  simp only [Rates.matthews_correlation_coefficient_radicand]
  refine ⟨by positivity, ?_⟩
  have e : (cm.tp + cm.fp) * (cm.tp + cm.fn) * (cm.tn + cm.fp) * (cm.tn + cm.fn)
      - (cm.tp * cm.tn - cm.fp * cm.fn) ^ 2
      = 4 * (cm.tp * cm.tn * cm.fp * cm.fn)
        + (cm.tp * cm.tn + cm.fp * cm.fn) * (cm.tp * cm.fp + cm.fn * cm.tn + cm.tp * cm.fn + cm.fp * cm.tn)
        + (cm.tp * cm.fn + cm.fp * cm.tn) * (cm.tp * cm.fp + cm.fn * cm.tn) := by ring
  have : 0 ≤ (cm.tp + cm.fp) * (cm.tp + cm.fn) * (cm.tn + cm.fp) * (cm.tn + cm.fn)
      - (cm.tp * cm.tn - cm.fp * cm.fn) ^ 2 := by rw [e]; positivity
  linarith

theorem C07_classification_range_mcc {sqrt : K → K} (hs : IsSqrt sqrt) (h : NonNeg cm) :
    -1 ≤ Rates.matthews_correlation_coefficient sqrt cm ∧
    Rates.matthews_correlation_coefficient sqrt cm ≤ 1 := by
  obtain ⟨hD0, hle⟩ := C07_classification_mcc_radicand h
  simp only [Rates.matthews_correlation_coefficient_radicand] at hD0 hle
  simp only [Rates.matthews_correlation_coefficient, safeDivide_def]
  set D := (cm.tp + cm.fp) * (cm.tp + cm.fn) * (cm.tn + cm.fp) * (cm.tn + cm.fn) with hD
  set n := cm.tp * cm.tn - cm.fp * cm.fn with hn
  obtain ⟨hs0, hss⟩ := hs D hD0
  split
  · constructor <;> norm_num
  · rename_i hne
    have hpos : 0 < sqrt D := lt_of_le_of_ne hs0 (Ne.symm hne)
    have h2 : n ^ 2 ≤ sqrt D ^ 2 := by rw [sq, sq, hss]; simpa [sq] using hle
    have habs : |n| ≤ sqrt D := abs_le_of_sq_le_sq h2 hs0
    obtain ⟨h1, h2⟩ := abs_le.mp habs
    constructor
    · rw [le_div_iff₀ hpos]; linarith
    · rw [div_le_one hpos]; exact h2

/-- the argument of `pos_sqrt` in the prevalence threshold is never negative -/
theorem C07_classification_pt_radicand (h : NonNeg cm) :
    0 ≤ Rates.prevalence_threshold_radicand cm := by
  obtain ⟨hr0, hr1⟩ := C07_classification_range_recall h
  obtain ⟨hs0, hs1⟩ := C07_classification_range_specificity h
  simp only [Rates.prevalence_threshold_radicand, Rates.tpr, Rates.tnr, Nat.cast_one]
  exact mul_nonneg hr0 (by linarith)

theorem C07_classification_range_prevalence_threshold {sqrt : K → K} (hs : IsSqrt sqrt)
    (h : NonNeg cm) :
    0 ≤ Rates.prevalence_threshold sqrt cm ∧ Rates.prevalence_threshold sqrt cm ≤ 1 := by
  obtain ⟨ha0, ha1⟩ := C07_classification_range_recall h
  obtain ⟨hs0, hs1⟩ := C07_classification_range_specificity h
  simp only [Rates.prevalence_threshold, Rates.tpr, Rates.tnr, Nat.cast_one, safeDivide_def]
  set a := Rates.recall cm
  set t := Rates.specificity cm
  have hb0 : 0 ≤ 1 - t := by linarith
  obtain ⟨hr0, hrr⟩ := hs (a * (1 - t)) (mul_nonneg ha0 hb0)
  set s := sqrt (a * (1 - t))
  split
  · constructor <;> norm_num
  · rename_i hne
    rcases lt_or_gt_of_ne hne with hlt | hgt
    · -- a < 1 - t : numerator and denominator are both ≤ 0
      have h1 : s ≤ 1 - t := le_of_not_gt fun hc => by nlinarith
      have h2 : a ≤ s := le_of_not_gt fun hc => by nlinarith
      constructor
      · exact div_nonneg_of_nonpos (by linarith) (by linarith)
      · rw [div_le_one_of_neg hlt]; linarith
    · have h1 : 1 - t ≤ s := le_of_not_gt fun hc => by nlinarith
      have h2 : s ≤ a := le_of_not_gt fun hc => by nlinarith
      constructor
      · exact div_nonneg (by linarith) (by linarith)
      · rw [div_le_one hgt]; linarith

end range

/-! ## A4. complement laws -/

section complement
variable (cm : CM K)

theorem C07_classification_fdr_compl (hp : cm.tp + cm.fp ≠ 0) :
    Rates.false_discovery_rate cm = 1 - Rates.precision cm := by
  unfold Rates.false_discovery_rate Rates.precision CM.p
  have := safeDivide_compl (a := cm.fp) (b := cm.tp) (by rwa [add_comm])
  rw [add_comm cm.fp cm.tp] at this
  exact this

theorem C07_classification_fnr_compl (ht : cm.tp + cm.fn ≠ 0) :
    Rates.fnr cm = 1 - Rates.tpr cm := by
  unfold Rates.fnr Rates.tpr Rates.miss_rate Rates.recall CM.t
  have := safeDivide_compl (a := cm.fn) (b := cm.tp) (by rwa [add_comm])
  rw [this, add_comm cm.fn cm.tp]

theorem C07_classification_fpr_compl (hn : cm.tn + cm.fp ≠ 0) :
    Rates.fpr cm = 1 - Rates.tnr cm := by
  unfold Rates.fpr Rates.tnr Rates.fall_out Rates.specificity
  have := safeDivide_compl (a := cm.fp) (b := cm.tn) (by rwa [add_comm])
  rw [this, add_comm cm.fp cm.tn]

theorem C07_classification_for_compl (hn : cm.tn + cm.fn ≠ 0) :
    Rates.false_omission_rate cm = 1 - Rates.negative_prediction_value cm := by
  unfold Rates.false_omission_rate Rates.negative_prediction_value
  have := safeDivide_compl (a := cm.fn) (b := cm.tn) (by rwa [add_comm])
  rw [this, add_comm cm.fn cm.tn]

/-- non-vacuity of the hypotheses, and a concrete evaluation of the generated definitions -/
example : Rates.precision (⟨2, 2, 1, 2⟩ : CM ℚ) = 2 / 3 ∧ Rates.f1 (⟨2, 2, 1, 2⟩ : CM ℚ) = 4 / 7 := by
  constructor <;> norm_num [Rates.precision, Rates.f1, Rates.recall, CM.p, CM.t, safeDivide]

end complement

/-! ## B. the counts equal the textbook counts computed from the raw examples

`denseCM axis W xs` is what `_indicator_confusion_matrix` returns for a batch whose examples have
the dense rows `xs` (`Lemmas/ConfusionEncode`: every input encoding reduces to it example by
example).  A *cell* is one (example, class) pair with its two booleans (true?, predicted?). -/

section counts
open MlModel.Agg.Confusion MlModel.Spec.Classification

/-- **micro / binary**: `tp = |{cells : true ∧ predicted}|`, `fp = |{cells : ¬true ∧ predicted}|`, …
over all (example, class) cells pooled -/
theorem C07_classification_counts_micro (W : Nat) (xs : List DenseEx)
    (h : ∀ x ∈ xs, x.1.length = x.2.length) :
    denseCM none W xs =
      { tp := .s (tpOf (xs.flatMap fun x => rowCells x.1 x.2)),
        tn := .s (tnOf (xs.flatMap fun x => rowCells x.1 x.2)),
        fp := .s (fpOf (xs.flatMap fun x => rowCells x.1 x.2)),
        fn := .s (fnOf (xs.flatMap fun x => rowCells x.1 x.2)) } := by
  rw [denseCM, countsOf_pooled W _ _ (rowsAligned_of xs h), pooledCells, zip_fst_snd]

/-- **macro**: entry `c` of every array is the textbook count over the cells of class `c`
(one cell per example) — the derived rate is then computed per class and averaged
(`C07_classification_average_rule`) -/
theorem C07_classification_counts_macro (W : Nat) (xs : List DenseEx) (hw : ∀ x ∈ xs, x.2.length = W) :
    denseCM (some 0) W xs =
      { tp := .v ((List.range W).map fun c => (tpOf (classCellsOf (xs.map (·.1)) (xs.map (·.2)) c) : Int)),
        tn := .v ((List.range W).map fun c => (tnOf (classCellsOf (xs.map (·.1)) (xs.map (·.2)) c) : Int)),
        fp := .v ((List.range W).map fun c => (fpOf (classCellsOf (xs.map (·.1)) (xs.map (·.2)) c) : Int)),
        fn := .v ((List.range W).map fun c => (fnOf (classCellsOf (xs.map (·.1)) (xs.map (·.2)) c) : Int)) } := by
  rw [denseCM, countsOf_perClass W _ _ (by simp)]
  intro r hr
  obtain ⟨x, hx, rfl⟩ := List.mem_map.mp hr
  exact hw x hx

/-- the cells of class `c` are, example by example, (is `c` true for it?, is `c` predicted for it?) -/
theorem C07_classification_class_cells (xs : List DenseEx) (c : Nat) :
    classCellsOf (xs.map (·.1)) (xs.map (·.2)) c
      = xs.map fun x => (⟨x.1.getD c false, x.2.getD c false⟩ : Cell) := by
  induction xs with
  | nil => rfl
  | cons x xs ih => simp_all [classCellsOf, rowCells, col]

/-- **samples**: entry `i` of every array is the textbook count over the cells of example `i` -/
theorem C07_classification_counts_samples (W : Nat) (xs : List DenseEx)
    (h : ∀ x ∈ xs, x.1.length = x.2.length) :
    denseCM (some 1) W xs =
      { tp := .v (xs.map fun x => (tpOf (rowCells x.1 x.2) : Int)),
        tn := .v (xs.map fun x => (tnOf (rowCells x.1 x.2) : Int)),
        fp := .v (xs.map fun x => (fpOf (rowCells x.1 x.2) : Int)),
        fn := .v (xs.map fun x => (fnOf (rowCells x.1 x.2) : Int)) } :=
  denseCM_samples W xs h

/-- what the dense rows mean, per input encoding: class `i` of the vocabulary is marked for an
example iff it occurs among the example's labels (multiclass: the single label) -/
theorem C07_classification_encoding_vocab (keys elems : List Label) (i : Nat) (hi : i < keys.length) :
    (mark keys elems).getD i false = elems.contains keys[i] := by
  simp [mark, List.getD_eq_getElem?_getD, List.getElem?_map, List.getElem?_eq_getElem hi]

/-- indicator input: column `i` is marked iff the entry equals `pos_label` -/
theorem C07_classification_encoding_indicator (pos : Label) (x : List Label × List Label) (i : Nat)
    (hi : i < x.1.length) :
    (encIndicator pos x).1.getD i false = (x.1[i] == pos) := by
  simp [encIndicator, List.getD_eq_getElem?_getD, List.getElem?_map, List.getElem?_eq_getElem hi]

/-- **binary input, `average = binary`** end to end:
`tp = |{i | ŷ_i = pos ∧ y_i = pos}|`, `fp = |{i | ŷ_i = pos ∧ y_i ≠ pos}|`,
`fn = |{i | ŷ_i ≠ pos ∧ y_i = pos}|`, `tn = |{i | ŷ_i ≠ pos ∧ y_i ≠ pos}|` -/
theorem C07_classification_counts_binary (c : Cfg) (hk : c.kind = .cm) (hi : c.input = some .binary)
    (ha : c.average = .binary) (xs : List (Label × Label)) :
    batchCM c (binBatch xs) = .ok
      { tp := .s (xs.countP fun x => x.1 == c.posLabel && x.2 == c.posLabel),
        tn := .s (xs.countP fun x => !(x.1 == c.posLabel) && !(x.2 == c.posLabel)),
        fp := .s (xs.countP fun x => !(x.1 == c.posLabel) && x.2 == c.posLabel),
        fn := .s (xs.countP fun x => x.1 == c.posLabel && !(x.2 == c.posLabel)) } := by
  rw [batchCM_binary_binary c hk hi ha, C07_classification_counts_micro 1 _ (by
    intro x hx; obtain ⟨y, _, rfl⟩ := List.mem_map.mp hx; rfl)]
  have e : ((xs.map (encBinary c.posLabel)).flatMap fun x => rowCells x.1 x.2)
      = xs.map fun x => (⟨x.1 == c.posLabel, x.2 == c.posLabel⟩ : Cell) := by
    induction xs with
    | nil => rfl
    | cons x xs ih => simp_all [encBinary, rowCells]
  simp only [e, tpOf, tnOf, fpOf, fnOf, List.countP_map, Function.comp_def]

/-- **multiclass input with a vocabulary, `micro`** end to end: the cells are all
(example, class) pairs; a class is true / predicted for an example iff it is its label / its prediction -/
theorem C07_classification_counts_multiclass_micro (keys : List Label) (hn : keys.Nodup)
    (hne : keys ≠ []) (xs : List (Label × Label)) (hx : ∀ x ∈ xs, x.1 ∈ keys ∧ x.2 ∈ keys) :
    multiclassCM (some keys.zipIdx) false .micro (mcBatch xs) = .ok
      { tp := .s (tpOf (xs.flatMap fun x => keys.map fun k => ⟨k == x.1, k == x.2⟩)),
        tn := .s (tnOf (xs.flatMap fun x => keys.map fun k => ⟨k == x.1, k == x.2⟩)),
        fp := .s (fpOf (xs.flatMap fun x => keys.map fun k => ⟨k == x.1, k == x.2⟩)),
        fn := .s (fnOf (xs.flatMap fun x => keys.map fun k => ⟨k == x.1, k == x.2⟩)) } := by
  rw [multiclassCM_explicit keys hn hne .micro none rfl (by decide) xs hx,
    C07_classification_counts_micro _ _ (by
      intro x hx'; obtain ⟨y, _, rfl⟩ := List.mem_map.mp hx'; simp [encMulticlass, mark])]
  have e : ((xs.map (encMulticlass keys)).flatMap fun x => rowCells x.1 x.2)
      = xs.flatMap fun x => keys.map fun k => (⟨k == x.1, k == x.2⟩ : Cell) := by
    induction xs with
    | nil => rfl
    | cons x xs ih =>
      have := ih (fun y hy => hx y (by simp [hy]))
      simp only [List.map_cons, List.flatMap_cons, this]
      congr 1
      simp [encMulticlass, mark, rowCells, List.zipWith_map_left, List.zipWith_map_right,
        List.zipWith_self, eq_comm]
      intro a _
      constructor <;> simp [BEq.beq, eq_comm]
  rw [e]

/-- every count is a non-negative integer (it is the cast of a cardinality), so the range theorems
of part A apply to every cell of every result -/
theorem C07_classification_counts_nonneg (W : Nat) (xs : List DenseEx)
    (h : ∀ x ∈ xs, x.1.length = x.2.length) :
    ∃ tp tn fp fn : Nat, denseCM none W xs = { tp := .s tp, tn := .s tn, fp := .s fp, fn := .s fn } :=
  ⟨_, _, _, _, C07_classification_counts_micro W xs h⟩

/-- non-vacuity / test: the repository's own example (`tp=2, tn=2, fp=1, fn=2`) -/
example :
    let c : Cfg := { kind := .cm, metrics := [.PRECISION], single := true, posLabel := 1,
                     input := some .binary, average := .binary, vocab := none, kList := [] }
    batchCM c (binBatch [(1, 1), (1, 0), (0, 1), (0, 0), (1, 1), (0, 0), (1, 0)])
      = .ok { tp := .s 2, tn := .s 2, fp := .s 1, fn := .s 2 } := by
  rfl

end counts

/-! ## C. top-k -/

section topk
open MlModel.Agg.Confusion MlModel.Spec.Classification

/-- **top-k** (`_apply_vocab_at_k` + `_topk_confusion_matrix`, multi-output rankings, explicit
vocabulary): exactly one confusion matrix per `k ∈ k_list` with `1 ≤ k ≤ max k_list`, in increasing `k`,
and the one for `k` is the confusion matrix of the prediction prefixes `y_pred[i][:k]` — no off-by-one.
(That the positions follow increasing `k` rather than the order of `k_list` is finding FC4.) -/
theorem C07_classification_topk (keys : List Label) (hn : keys.Nodup) (avg : Average) (hb : avg ≠ .binary)
    (axis : Option Nat) (kList : List Int) (td : List (List Bool)) (rows : List (List Label))
    (hl : td.length = rows.length) (h : ∀ r ∈ rows, ∀ e ∈ r, e ∈ keys) (n : Nat) :
    topkLoop keys.zipIdx true avg axis kList td rows n 0
        (rows.map fun _ => List.replicate keys.zipIdx.length false)
      = .ok (((List.range' 1 n).filter (kMember kList)).map fun k =>
          (k, countsOf axis keys.length td (rows.map fun r => mark keys (r.take k)))) := by
  have h0 : (rows.map fun _ => List.replicate keys.zipIdx.length false)
      = rows.map fun r => mark keys (r.take 0) := by
    apply List.map_congr_left; intro r _; simp [mark, List.map_const']
  rw [h0]
  exact topkLoop_closed keys hn avg hb axis kList td rows hl h n 0

/-- test (`example`-grade, by evaluation): precision@1, precision@2 pooled over a 2-example batch -/
example :
    topkCM (some [(0, 0), (1, 1), (2, 2)]) true .micro [1, 2]
        { yTrue := .nested [[0], [1]], yPred := .nested [[1, 0], [1]] }
      = .ok { tp := .v [1, 2], tn := .v [3, 3], fp := .v [1, 1], fn := .v [1, 0] } := by
  rfl

/-! ### top-k end to end: the accumulator's per-`k` counts are the textbook counts of
"class ∈ the first `k` predictions" (any explicit vocabulary, ragged rankings, any `k_list`) -/

/-- which `k` are reported: exactly the positive members of `k_list` … -/
theorem C07_classification_topk_ks (kList : List Int) (k : Nat) :
    k ∈ ksOf kList ↔ 0 < k ∧ (k : Int) ∈ kList := mem_ksOf kList k

/-- … each once, in increasing order (so position `j` is `k_list[j]` only for a strictly increasing
positive `k_list`: finding FC4) -/
theorem C07_classification_topk_ks_sorted (kList : List Int) : (ksOf kList).Pairwise (· < ·) :=
  ksOf_sorted kList

/-- a cell of the prediction row at `k`: class id `i` is predicted iff one of the first `k`
predictions of the example (all of them if it has fewer) carries that class id -/
theorem C07_classification_topk_cell (v : Vocab) (r : List Label) (k i : Nat) (hi : i < v.length) :
    (markV v (r.take k)).getD i false = (r.take k).any fun e => v.idx e == some i :=
  markV_getD v _ i hi

/-- **micro**: entry `j` of `tp` / `tn` / `fp` / `fn` is the textbook count over all
(example, class) cells, with "predicted" read off the first `ks[j]` predictions -/
theorem C07_classification_topk_counts_micro (c : Cfg) (v : Vocab) (hne : v ≠ [])
    (hk : c.kind = .topk) (hi : c.input = some .multioutput) (hv : c.vocab = some v)
    (ha : c.average = .micro) (hks : ksOf c.kList ≠ []) (xs : List (List Label × List Label))
    (hx : ∀ x ∈ xs, (∀ e ∈ x.1, v.Has e) ∧ (∀ e ∈ x.2, v.Has e)) :
    let cells := fun (k : Nat) => xs.flatMap fun x => rowCells (markV v x.1) (markV v (x.2.take k))
    batchCM c (moBatch xs) = .ok
      { tp := .v ((ksOf c.kList).map fun k => (tpOf (cells k) : Int)),
        tn := .v ((ksOf c.kList).map fun k => (tnOf (cells k) : Int)),
        fp := .v ((ksOf c.kList).map fun k => (fpOf (cells k) : Int)),
        fn := .v ((ksOf c.kList).map fun k => (fnOf (cells k) : Int)) } := by
  intro cells
  have h := topkCM_closed_mo v hne .micro (by decide) none rfl (Or.inl rfl) c.kList hks [] xs hx
  simp only [batchCM, hk, hi, hv, ha]
  rw [← moBatchO_nil, h]
  have e : ∀ k, denseCM none v.length (xs.map (encTopKmo v k)) =
      { tp := .s (tpOf (cells k)), tn := .s (tnOf (cells k)), fp := .s (fpOf (cells k)),
        fn := .s (fnOf (cells k)) } := by
    intro k
    rw [C07_classification_counts_micro _ _ (by
      intro x hx'; obtain ⟨y, _, rfl⟩ := List.mem_map.mp hx'; simp [encTopKmo])]
    simp only [cells, List.flatMap_map, encTopKmo]
  simp only [topkD, stackK, List.map_map, Function.comp_def, e, Arr.toS]

/-- **macro**: entry `(j, i)` is the textbook count over the cells of class id `i` (one cell per
example), with "predicted" read off the first `ks[j]` predictions -/
theorem C07_classification_topk_counts_macro (c : Cfg) (v : Vocab) (hne : v ≠ [])
    (hk : c.kind = .topk) (hi : c.input = some .multioutput) (hv : c.vocab = some v)
    (ha : c.average = .macro) (hks : ksOf c.kList ≠ []) (xs : List (List Label × List Label))
    (hx : ∀ x ∈ xs, (∀ e ∈ x.1, v.Has e) ∧ (∀ e ∈ x.2, v.Has e)) :
    let cells := fun (k i : Nat) => xs.map fun x =>
      (⟨(markV v x.1).getD i false, (markV v (x.2.take k)).getD i false⟩ : Cell)
    batchCM c (moBatch xs) = .ok
      { tp := .m ((ksOf c.kList).map fun k => (List.range v.length).map fun i => (tpOf (cells k i) : Int)),
        tn := .m ((ksOf c.kList).map fun k => (List.range v.length).map fun i => (tnOf (cells k i) : Int)),
        fp := .m ((ksOf c.kList).map fun k => (List.range v.length).map fun i => (fpOf (cells k i) : Int)),
        fn := .m ((ksOf c.kList).map fun k => (List.range v.length).map fun i => (fnOf (cells k i) : Int)) } := by
  intro cells
  have h := topkCM_closed_mo v hne .macro (by decide) (some 0) rfl (Or.inr rfl) c.kList hks [] xs hx
  simp only [batchCM, hk, hi, hv, ha]
  rw [← moBatchO_nil, h]
  have e : ∀ k, denseCM (some 0) v.length (xs.map (encTopKmo v k)) =
      { tp := .v ((List.range v.length).map fun i => (tpOf (cells k i) : Int)),
        tn := .v ((List.range v.length).map fun i => (tnOf (cells k i) : Int)),
        fp := .v ((List.range v.length).map fun i => (fpOf (cells k i) : Int)),
        fn := .v ((List.range v.length).map fun i => (fnOf (cells k i) : Int)) } := by
    intro k
    rw [C07_classification_counts_macro _ _ (by
      intro x hx'; obtain ⟨y, _, rfl⟩ := List.mem_map.mp hx'; simp [encTopKmo])]
    simp only [C07_classification_class_cells]
    simp only [cells, List.map_map, Function.comp_def, encTopKmo]
  simp only [topkD, stackK, List.map_map, Function.comp_def, e, Arr.toV]

/-- non-vacuity of the hypotheses (permuted vocabulary, `k_list = [3, 1, 3, 0]`, a ranking shorter
than 3), and the value by evaluation -/
example :
    let c : Cfg := { kind := .topk, metrics := [.PRECISION], single := false, posLabel := 1,
                     input := some .multioutput, average := .micro,
                     vocab := some [(7, 2), (8, 0), (9, 1)], kList := [3, 1, 3, 0] }
    ksOf c.kList = [1, 3] ∧
    batchCM c (moBatch [([7], [8, 7]), ([9, 7], [9, 8, 7])])
      = .ok { tp := .v [1, 3], tn := .v [2, 1], fp := .v [1, 2], fn := .v [2, 0] } := by
  exact ⟨rfl, rfl⟩

end topk

/-! ## D. averaging: macro = mean over classes, samples = mean over examples -/

section averaging
open MlModel.Agg.Confusion

/-- **macro**: on per-class count arrays (one entry per class `x ∈ classes`) `derive_metric` returns
the arithmetic mean over the classes of the rate of each class's own confusion matrix
(`nan` for zero classes, as `np.mean` of an empty array) -/
theorem C07_classification_macro_mean {α : Type} (sqrt : Rat → Rat) (classes : List α)
    (tp tn fp fn : α → Int) (m : Metric) (f : CM Rat → Rat) (hf : derive sqrt m = .rate f) :
    deriveMetric sqrt { tp := .v (classes.map tp), tn := .v (classes.map tn), fp := .v (classes.map fp),
                        fn := .v (classes.map fn) } m (some "macro")
      = .ok (.val (.s (meanList (classes.map fun x =>
          f { tp := (tp x : Rat), tn := (tn x : Rat), fp := (fp x : Rat), fn := (fn x : Rat) })))) := by
  have hav : avgAction (some "macro") = .meanAxis (-1) := by decide
  simp [deriveMetric, hf, cells_map, bind, Except.bind, hav, Arr.map, meanAxis, Functor.map, Except.map,
    List.map_map, Function.comp_def]

/-- `meanList` is the arithmetic mean -/
theorem C07_classification_meanList (xs : List Rat) (h : xs ≠ []) :
    meanList xs = some (xs.sum / (xs.length : Rat)) := by
  simp [meanList, h]

/-- **samples**: the reported value is `Σ per-example scores / #examples` (0 for no example:
`safe_divide`) -/
theorem C07_classification_samples_mean (total : Rat) (count : Nat) :
    meanStateResult (total, count) = if count = 0 then 0 else total / (count : Rat) := rfl

end averaging

/-! ## E. the one-shot function API is the accumulator API -/

section function_api
open MlModel.Agg.Confusion

/-- `precision(y_true, y_pred, …)` and friends return exactly what the accumulator
(`create_state` → `update_state` → `get_result`) returns for the same configuration, whenever
`verify_input` lets the call through; otherwise they raise `ValueError` before anything is built
(binary input + binary average with a `pos_label` that is no label of the data / vocabulary) -/
theorem C07_classification_function_api (sqrt : Rat → Rat) (r : RawCfg) (b : Batch) :
    (verifyInput r b = .ok () →
      oneShot sqrt r b = (constructWrapper r >>= fun c => accumulate sqrt c b)) ∧
    (verifyInput r b ≠ .ok () → oneShot sqrt r b = .error .value) := by
  constructor
  · intro h; simp [oneShot, h, bind, Except.bind]
  · intro h
    have hcases : verifyInput r b = .ok () ∨ verifyInput r b = .error .value := by
      unfold verifyInput
      split
      · split <;> simp
      · exact Or.inl rfl
    rcases hcases with h' | h'
    · exact absurd h' h
    · simp [oneShot, h', bind, Except.bind]

end function_api

end MlModel.C07
