import MlModel.Lemmas.GenScalar
import MlModel.Lemmas.AggRollingSpec
/-!
# C07 — result formulas, stated against the GENERATED code

`Generated.Scalar.*` is written by `translate/scalar.py` from the Python source on every run.  Each theorem
says: the generated definition, applied to the embedding of a hand-model state, is the hand model's result —
the object the `C07_rolling_*` / `C07_retrieval_*` theorems relate to the textbook definitions.  `sqrt` is an
arbitrary function `F → F` (symbolic), as in the rate table.
-/
namespace MlModel.C07
open MlModel.Agg MlModel.Agg.Rolling MlModel.Gen MlModel.Generated

/-! ## `utils/math_utils.py` -/

/-- `math_utils.nanadd`, translated from its body, is the literal hand model -/
theorem C07_gen_nanadd (a b : F) : Scalar.nanadd a b = nanadd a b := nanadd_eq a b

/-- … i.e. NaN counts as 0 unless both operands are NaN -/
theorem C07_gen_nanadd_spec (a b : F) :
    Scalar.nanadd a b = match a, b with
      | some x, some y => some (x + y) | some x, none => some x | none, some y => some y
      | none, none => none := by
  rw [nanadd_eq]; cases a <;> cases b <;> simp

/-! ## `Mean` / `MeanAndVariance` properties -/

/-- `total` = `where(count > 0, mean * count, 0)` -/
theorem C07_gen_total (c : Col) :
    Scalar.MeanAndVariance_total (ofCol c) = Col.total c ∧ Scalar.Mean_total (ofColMean c) = Col.total c := by
  constructor <;>
    simp [Scalar.MeanAndVariance_total, Scalar.Mean_total, ofCol, ofColMean, Col.total, fwhere, Nat.pos_iff_ne_zero]

/-- `mean`, `count`, `var` read the fields; `stddev = sqrt(var)` with radicand `var` -/
theorem C07_gen_fields (sqrt : F → F) (c : Col) :
    Scalar.MeanAndVariance_mean (ofCol c) = c.mean ∧ Scalar.MeanAndVariance_count (ofCol c) = some (c.count : Rat) ∧
    Scalar.MeanAndVariance_var (ofCol c) = c.var ∧ Scalar.MeanAndVariance_stddev sqrt (ofCol c) = sqrt c.var ∧
    Scalar.MeanAndVariance_stddev_radicands (ofCol c) = [c.var] :=
  ⟨rfl, rfl, rfl, rfl, rfl⟩

/-- on the statistics of a column: the textbook count, mean, population variance and total -/
theorem C07_gen_meanvar_result (sqrt : F → F) (xs : List F) :
    let s := ofCol (Col.ofList xs)
    Scalar.MeanAndVariance_count s = some (Spec.count xs : Rat) ∧ Scalar.MeanAndVariance_mean s = Spec.mean xs ∧
    Scalar.MeanAndVariance_var s = Spec.var xs ∧ Scalar.MeanAndVariance_total s = some (Spec.total xs) ∧
    Scalar.MeanAndVariance_stddev sqrt s = sqrt (Spec.var xs) := by
  have h := Col.ofList_spec xs
  refine ⟨?_, ?_, ?_, ?_, ?_⟩
  · show some ((Col.ofList xs).count : Rat) = _; rw [h]
  · show (Col.ofList xs).mean = _; rw [h]
  · show (Col.ofList xs).var = _; rw [h]
  · rw [(C07_gen_total _).1, Col.total_ofList]
  · show sqrt (Col.ofList xs).var = _; rw [h]

/-! ## `MeanState` -/

theorem C07_gen_meanstate_result (s : MeanState) :
    Scalar.MeanState_result (ofMeanState s) = some (MeanState.result s) := by
  simp [Scalar.MeanState_result, ofMeanState, MeanState.result]

/-! ## Tjur's R² -/

theorem C07_gen_r2tjur (s : Tjur) : Scalar.R2Tjur_result (ofTjur s) = Tjur.result s := by
  simp only [Scalar.R2Tjur_result, ofTjur, Tjur.result, feq_some, flit_eq, Nat.cast_zero, fdiv_some]
  by_cases h1 : s.sumYTrue = 0 <;> by_cases h2 : s.sumNegYTrue = 0 <;> simp [h1, h2]

theorem C07_gen_r2tjur_relative (s : Tjur) : Scalar.R2TjurRelative_result (ofTjur s) = Tjur.resultRel s := by
  simp only [Scalar.R2TjurRelative_result, ofTjur, Tjur.resultRel, feq_some, flit_eq, Nat.cast_zero, fdiv_some,
    fmul_some_some]
  by_cases h1 : s.sumYTrue = 0 <;> by_cases h2 : s.sumNegYPred = 0 <;> simp [h1, h2]

/-! ## RRegression: the code's expression around the symbolic square roots -/

/-- for `num_samples ≠ 0`: centered = `numerator / (sqrt radX * sqrt radY)`, reflective =
`numerator / sqrt (radX * radY)`, with exactly the numerator / radicands of the hand model `RReg.result`
(which `C07_rolling_rregression_*` equate with Σ(x−x̄)(y−ȳ), Σ(x−x̄)², Σ(y−ȳ)²); the radicands met are those. -/
theorem C07_gen_rregression (sqrt : F → F) (center : Bool) (s : RReg) (hn : s.n ≠ 0) :
    ∃ r, RReg.result center s = some r ∧
      Scalar.RRegression_result sqrt (ofRReg center s)
        = (if center then fdiv (some r.numerator) (fmul (sqrt (some r.radX)) (sqrt (some r.radY)))
           else fdiv (some r.numerator) (sqrt (some (r.radX * r.radY)))) ∧
      Scalar.RRegression_result_radicands (ofRReg center s)
        = (if center then [some r.radX, some r.radY] else [some (r.radX * r.radY)]) := by
  have hq : ((s.n : Nat) : Rat) ≠ 0 := by exact_mod_cast hn
  cases center with
  | true =>
    refine ⟨⟨s.sumXY - s.sumX * s.sumY / s.n, s.sumXX - s.sumX * s.sumX / s.n, s.sumYY - s.sumY * s.sumY / s.n⟩,
      by simp [RReg.result, hn], ?_, ?_⟩ <;>
      simp [Scalar.RRegression_result, Scalar.RRegression_result_radicands, ofRReg, hq]
  | false =>
    refine ⟨⟨s.sumXY, s.sumXX, s.sumYY⟩, by simp [RReg.result, hn], ?_, ?_⟩ <;>
      simp [Scalar.RRegression_result, Scalar.RRegression_result_radicands, ofRReg]

/-- no sample, centered: the division by `num_samples = 0` leaves no value, whatever `sqrt` is -/
theorem C07_gen_rregression_empty (sqrt : F → F) (s : RReg) (hn : s.n = 0) :
    Scalar.RRegression_result sqrt (ofRReg true s) = none ∧ RReg.result true s = none := by
  simp [Scalar.RRegression_result, ofRReg, RReg.result, hn, fsub, fdiv]

/-- (non-vacuity) -/
example : (⟨2, 1, 2, 1, 4, 2⟩ : RReg).n ≠ 0 := by decide

/-! ## SymmetricPredictionDifference -/

theorem C07_gen_spd (s : SPD) : Scalar.SymmetricPredictionDifference_result (ofSPD s) = SPD.result s := by
  by_cases h : s.n = 0
  · simp [Scalar.SymmetricPredictionDifference_result, ofSPD, SPD.result, h]
  · have hq : ((s.n : Nat) : Rat) ≠ 0 := by exact_mod_cast h
    simp [Scalar.SymmetricPredictionDifference_result, ofSPD, SPD.result, h, hq]

/-! ## TopKRetrieval: the per-(row, k) formulas

`retrieval.py` applies these to whole (examples × k) arrays; the generated definitions are their element
functions (`_at_k(tp_at_topks, k_list)` ↦ true positives among the first `k`, `x[:, np.newaxis]` ↦ the row's
value).  `Ctx` (Model/Agg/Retrieval.lean) holds the per-row quantities of the hand model. -/
section retrieval
open MlModel.Agg.Retrieval

theorem C07_gen_retrieval_precision (c : Ctx) (k : Nat) :
    Scalar.retrieval_precision (flit (c.tpK k)) (flit k) (flit c.nPred) = c.precision k ∧
    Scalar.retrieval_ppv (flit (c.tpK k)) (flit k) (flit c.nPred) = c.precision k ∧
    Scalar.retrieval_positive_predictive_value (flit (c.tpK k)) (flit k) (flit c.nPred) = c.precision k := by
  simp only [Scalar.retrieval_precision, Scalar.retrieval_ppv, Scalar.retrieval_positive_predictive_value,
    Ctx.precision, qdiv_eq, fmin_nat, Q.ofNat, flit, and_self]

theorem C07_gen_retrieval_recall (c : Ctx) (k : Nat) :
    Scalar.retrieval_recall (flit (c.tpK k)) (flit k) (flit c.nTrue) = c.recall k ∧
    Scalar.retrieval_sensitivity (flit (c.tpK k)) (flit k) (flit c.nTrue) = c.recall k ∧
    Scalar.retrieval_tpr (flit (c.tpK k)) (flit k) (flit c.nTrue) = c.recall k := by
  simp only [Scalar.retrieval_recall, Scalar.retrieval_sensitivity, Scalar.retrieval_tpr,
    Ctx.recall, qdiv_eq, Q.ofNat, flit, and_self]

theorem C07_gen_retrieval_accuracy (c : Ctx) (k : Nat) :
    Scalar.retrieval_accuracy (flit (c.tpK k)) (flit k) = c.accuracy k := by
  simp only [Scalar.retrieval_accuracy, Ctx.accuracy, Q.ofNat, flit, fgt_some, Nat.cast_zero, Nat.cast_pos,
    decide_eq_true_eq]
  split <;> simp

theorem C07_gen_retrieval_iou (c : Ctx) (k : Nat) :
    Scalar.retrieval_intersection_over_union (flit (c.tpK k)) (flit k) (flit c.nTrue) (flit c.nPred) = c.iou k := by
  simp only [Scalar.retrieval_intersection_over_union, Ctx.iou, qdiv_eq, fmin_nat, Q.ofNat, Q.ofInt, flit,
    fadd_some_some, fsub_some]
  push_cast
  rfl

theorem C07_gen_retrieval_f1 (c : Ctx) (k : Nat) :
    Scalar.retrieval_f1_score (c.precision k) (c.recall k) = c.f1 k := by
  simp only [Scalar.retrieval_f1_score, Ctx.f1, qsafeDiv_eq, qmul_eq, qadd_eq, flit]
  norm_num

theorem C07_gen_retrieval_miss_rate (c : Ctx) (k : Nat) :
    Scalar.retrieval_miss_rate (flit (c.tpK k)) (flit k) (flit c.nTrue) = c.missRate k := by
  have h := (C07_gen_retrieval_recall c k).1
  simp only [Scalar.retrieval_miss_rate, Ctx.missRate, h, qsub_eq]
  norm_num

theorem C07_gen_retrieval_fdr (c : Ctx) (k : Nat) :
    Scalar.retrieval_false_discovery_rate (flit (c.tpK k)) (flit k) (flit c.nPred) = c.fdr k := by
  have h := (C07_gen_retrieval_precision c k).1
  simp only [Scalar.retrieval_false_discovery_rate, Ctx.fdr, h, qsub_eq]
  norm_num

theorem C07_gen_retrieval_threat (c : Ctx) (k : Nat) :
    Scalar.retrieval_threat_score (flit (c.tpK k)) (flit k) (flit c.nTrue) = c.threat k := by
  simp only [Scalar.retrieval_threat_score, Ctx.threat, qdiv_eq, Q.ofNat, Q.ofInt, flit, fadd_some_some, fsub_some]
  push_cast
  rfl

/-- Fowlkes–Mallows: `sqrt(precision · recall)`; the radicand met is the hand model's symbolic term -/
theorem C07_gen_retrieval_fmi (sqrt : F → F) (c : Ctx) (k : Nat) :
    Scalar.retrieval_fowlkes_mallows_index sqrt (flit (c.tpK k)) (flit k) (flit c.nTrue) (flit c.nPred)
      = sqrt (Q.mul (c.precision k) (c.recall k)) ∧
    Scalar.retrieval_fowlkes_mallows_index_radicands (flit (c.tpK k)) (flit k) (flit c.nTrue) (flit c.nPred)
      = [Q.mul (c.precision k) (c.recall k)] ∧
    c.fmi k = (match Q.mul (c.precision k) (c.recall k) with | some x => V.ofTerm (.sqrt x) | none => V.nan) := by
  have h1 := (C07_gen_retrieval_precision c k).1
  have h2 := (C07_gen_retrieval_recall c k).1
  refine ⟨?_, ?_, rfl⟩ <;>
    simp only [Scalar.retrieval_fowlkes_mallows_index, Scalar.retrieval_fowlkes_mallows_index_radicands, h1, h2,
      qmul_eq]

end retrieval

/-! ## ThresholdedRetrieval: `_ThresholdedConfusionMatrix.precision / recall / f1_score`, per threshold -/
section thresholded
open MlModel.Agg.Retrieval.Thr

theorem C07_gen_thresholded_precision (c : Counts) (x y : F) :
    c.precision.map some
      = List.zipWith (fun (a b : Nat) => Scalar.ThresholdedConfusionMatrix_precision ⟨x, flit a, y, flit b⟩)
          c.tpPreds c.pPreds := by
  simp only [Counts.precision, List.map_zipWith, Scalar.ThresholdedConfusionMatrix_precision, flit,
    fsafeDivide_some, safeDivide, Nat.cast_eq_zero]

theorem C07_gen_thresholded_recall (c : Counts) (x y : F) :
    c.recall.map some
      = c.tpTrues.map fun (a : Nat) => Scalar.ThresholdedConfusionMatrix_recall ⟨flit a, x, flit c.pTrues, y⟩ := by
  simp only [Counts.recall, List.map_map, Scalar.ThresholdedConfusionMatrix_recall, flit,
    fsafeDivide_some, safeDivide, Nat.cast_eq_zero, Function.comp_def]

theorem C07_gen_thresholded_f1 (c : Counts) :
    c.f1.map some = List.zipWith (fun p r => Scalar.retrieval_f1_score (some p) (some r)) c.precision c.recall := by
  simp only [Counts.f1, List.map_zipWith, Scalar.retrieval_f1_score, flit, fmul_some_some, fadd_some_some,
    fsafeDivide_some, safeDivide]
  norm_num

/-- the `f1_score` property composes the two: `_f1_score(self.precision, self.recall)` -/
theorem C07_gen_thresholded_f1_property (s : Scalar.ThresholdedConfusionMatrix) :
    Scalar.ThresholdedConfusionMatrix_f1_score s
      = Scalar.retrieval_f1_score (Scalar.ThresholdedConfusionMatrix_precision s)
          (Scalar.ThresholdedConfusionMatrix_recall s) := rfl

end thresholded

end MlModel.C07
