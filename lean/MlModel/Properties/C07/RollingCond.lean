import MlModel.Lemmas.AggRollingCond
/-!
# C07 — "up to floating-point rounding" for the rolling variance: the structural reason

C07 (and C01) are stated "up to floating-point rounding".  harness/agg/conditioning.py makes the
tolerance explicit and checks it on ill-conditioned inputs; here is the reason, stated over ℚ with
an abstract rounding operator `fl` (monotone, `fl 0 = 0` — every IEEE rounding mode without
overflow), why the SHIPPED pairwise update passes and a pooled-second-moments rewrite cannot:

* `C07_rolling_var_merge_nonneg_any_rounding` — the shipped expression
  `fl(fl(fl(fl(r₁v₁)+fl(r₂v₂)) + fl(r₁·fl(d₁²))) + fl(r₂·fl(d₂²)))` is a sum of non-negative terms:
  for non-negative weights and input variances it is ≥ 0 under ANY rounding; by induction over the
  history (`np.nanvar ≥ 0` for the first batch) a rolling variance is never negative and `stddev`
  is a number;
* `C07_rolling_var_merge_is_model` — with `fl = id` it is the hand model's variance line
  (`Col.mergeVar`, which `C01_gen_meanvar_merge_eq_col_merge` ties to the code GENERATED from
  rolling_stats.py), and `C07_rolling_second_moment_exact_eq` — with `fl = id` the second-moment form
  is the same number: the two differ ONLY by rounding;
* `C07_rolling_second_moment_negative_witness` — under the rounding `floor` the second-moment form
  returns −1 for the groups {3/4} and {5/4} (exact variance 1/16) while the shipped form returns 0:
  its last operation subtracts two rounded quantities of the size of mean².
What is NOT proved: a quantitative error bound for IEEE double (that is the measured, derived
tolerance of the conditioning check).
-/
namespace MlModel.C07
open MlModel.Agg.Rolling

/-- **The shipped variance update is a sum of non-negative terms** under any monotone,
zero-preserving rounding. -/
theorem C07_rolling_var_merge_nonneg_any_rounding {fl : Rat → Rat} (h : Rounding fl)
    {r1 r2 v1 v2 : Rat} (d1 d2 : Rat) (hr1 : 0 ≤ r1) (hr2 : 0 ≤ r2) (hv1 : 0 ≤ v1) (hv2 : 0 ≤ v2) :
    0 ≤ mergeVarR fl r1 r2 v1 v2 d1 d2 :=
  mergeVarR_nonneg h d1 d2 hr1 hr2 hv1 hv2

/-- the weights the code uses are non-negative: `safe_divide(count_i, count)` of counts -/
theorem C07_rolling_var_merge_weights_nonneg (a b : Nat) : 0 ≤ safeDivide (a : Rat) (b : Rat) := by
  unfold safeDivide
  split
  · exact le_refl _
  · exact div_nonneg (Nat.cast_nonneg a) (Nat.cast_nonneg b)

/-- with exact arithmetic the rounded expression IS the model's (= the generated) variance line -/
theorem C07_rolling_var_merge_is_model (prev s o : Col) (pm sm om pv ov : Rat)
    (h1 : prev.mean = some pm) (h2 : s.mean = some sm) (h3 : o.mean = some om)
    (h4 : prev.var = some pv) (h5 : o.var = some ov) :
    Col.mergeVar true prev s o
      = some (mergeVarR (fun x => x) (safeDivide prev.count s.count) (safeDivide o.count s.count) pv ov
          (sm - pm) (om - sm)) :=
  mergeVar_eq_mergeVarR prev s o pm sm om pv ov h1 h2 h3 h4 h5

/-- with exact arithmetic the pooled-second-moments form is the same number -/
theorem C07_rolling_second_moment_exact_eq (r1 r2 v1 v2 m1 m2 : Rat) (hr : r1 + r2 = 1) :
    secondMomentR (fun x => x) r1 r2 v1 v2 m1 m2 (r1 * m1 + r2 * m2)
      = mergeVarR (fun x => x) r1 r2 v1 v2 ((r1 * m1 + r2 * m2) - m1) (m2 - (r1 * m1 + r2 * m2)) :=
  secondMoment_eq_mergeVar r1 r2 v1 v2 m1 m2 hr

/-- **Witness**: a legal rounding under which the second-moment form is negative and the shipped
form is not (groups {3/4} and {5/4}: weights 1/2, variances 0, pooled mean 1, exact variance 1/16). -/
theorem C07_rolling_second_moment_negative_witness :
    Rounding flFloor ∧
    secondMomentR flFloor (1 / 2) (1 / 2) 0 0 (3 / 4) (5 / 4) 1 = -1 ∧
    mergeVarR flFloor (1 / 2) (1 / 2) 0 0 (1 - 3 / 4) (5 / 4 - 1) = 0 ∧
    mergeVarR (fun x => x) (1 / 2) (1 / 2) 0 0 (1 - 3 / 4) (5 / 4 - 1) = 1 / 16 :=
  ⟨flFloor_rounding, by decide +kernel, by decide +kernel, by decide +kernel⟩

/-- (non-vacuity) exact arithmetic and `floor` are roundings; a concrete non-trivial instance of the
hypotheses of `C07_rolling_var_merge_nonneg_any_rounding` -/
example : Rounding (fun x : Rat => x) ∧ Rounding flFloor ∧
    0 ≤ mergeVarR flFloor (2 / 5) (3 / 5) (7 / 3) (1 / 9) (-17 / 4) (5 / 2) :=
  ⟨Rounding.id, flFloor_rounding,
   C07_rolling_var_merge_nonneg_any_rounding flFloor_rounding _ _ (by decide +kernel) (by decide +kernel)
     (by decide +kernel) (by decide +kernel)⟩

end MlModel.C07
