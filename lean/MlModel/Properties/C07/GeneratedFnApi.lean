import MlModel.Generated.FnApi
import MlModel.Properties.C07.Retrieval
import MlModel.Properties.C07.Rolling
/-!
# C07 — "function API = accumulator API": WHICH metric each one-shot function requests, from the source

`Generated/FnApi.lean` (translate/scalar.py `fnapi_tables`, every run) lists for every public function of
`metrics/retrieval.py` the `RetrievalMetric` it passes as `metrics=` (with `k_list`, `input_type` passed through
and the aggregate applied to `(y_true, y_pred)` — shapes checked by the translator), and for every function of
`metrics/rolling_stats.py` the `(class, attribute)` of `rolling_stats.<Class>().add(batch).<attr>`.
The theorems tie that wiring to the hand model's metric table; with `C07_retrieval_function_api(_single)` and
`C07_rolling_function_api_*` they give "function `f` = accumulator API with metric `m`" where `m` is read off
the code, not assumed.  (The tables are finite: `decide` here is a proof over the whole generated table.)
-/
namespace MlModel.C07
open MlModel.Generated MlModel.Agg.Retrieval

/-- every single-metric one-shot function requests the metric that carries its own name
(`precision(..)` asks for `RetrievalMetric.PRECISION`, …); only `topk_retrieval_metrics` takes the caller's list -/
theorem C07_gen_fnapi_retrieval_own_metric :
    ∀ e ∈ FnApi.retrieval, (e.2.1 = "*" ∧ e.1 = "topk_retrieval_metrics") ∨ e.2.1 = e.1 := by
  decide +kernel

/-- the requested metrics are exactly the 17 metrics `TopKRetrieval.add` computes (the hand model's table
`Metric.all`): each is requested by some function, nothing else is requested, all are enum values -/
theorem C07_gen_fnapi_retrieval_covers :
    (∀ e ∈ FnApi.retrieval, e.2.1 = "*" ∨ e.2.1 ∈ Metric.all.map Metric.name) ∧
    (∀ m ∈ Metric.all, m.name ∈ FnApi.retrieval.map (·.2.1)) ∧
    (∀ m ∈ Metric.all, m.name ∈ FnApi.retrievalMetricValues) := by
  decide +kernel

/-- **function API = accumulator API with the metric read off the source**: a one-shot function whose table
entry requests metric `m = cfg.metrics[j]` is the function named `m`, and its value (an aggregate configured with
`metrics=[m]`, fed the whole batch) is the `m` entry of any multi-metric accumulator over the same data -/
theorem C07_gen_fnapi_retrieval {α : Type} [DecidableEq α] (cfg : Config) (h : cfg.KsPos) (rows : List (Row α))
    (j : Nat) (hj : j < cfg.metrics.length) (e : String × String × String) (he : e ∈ FnApi.retrieval)
    (hm : e.2.1 = (cfg.metrics[j]).name) :
    e.1 = (cfg.metrics[j]).name ∧
    resultState (ofBatch { cfg with metrics := [cfg.metrics[j]] } rows)
      = [(resultState (ofBatch cfg rows)).getD j .scalarZero] := by
  refine ⟨?_, C07_retrieval_function_api_single cfg h rows j hj⟩
  rcases C07_gen_fnapi_retrieval_own_metric e he with ⟨hs, _⟩ | hown
  · exfalso
    have hne : ∀ m : Metric, m.name ≠ "*" := by intro m; cases m <;> decide
    exact hne _ (hm.symm.trans hs)
  · rw [← hown, hm]

/-- `metrics/rolling_stats.py`: the five functions read the attribute of their own name off
`MeanAndVariance().add(batch)` — the fields of `FnApi.ofList` / `FnApi.ofRows` in `C07_rolling_function_api_*` -/
theorem C07_gen_fnapi_rolling :
    FnApi.rolling = [("var", "MeanAndVariance", "var"), ("stddev", "MeanAndVariance", "stddev"),
      ("mean", "MeanAndVariance", "mean"), ("count", "MeanAndVariance", "count"),
      ("total", "MeanAndVariance", "total")] := by
  decide +kernel

end MlModel.C07
