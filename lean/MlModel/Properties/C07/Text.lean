import MlModel.Lemmas.AggTextSpecPat
import MlModel.Lemmas.AggTextTree
/-!
# C07 (text family) — n-gram and pattern frequencies equal their textbook definitions

The definitions are in `Model/Spec/Text.lean` (one-pass tokeniser, counting by positions, insertion
sort by frequency-then-alphabet; written from the docstrings, not from the code).  The
implementation side is `Model/Agg/Text.lean` (regex substitution / `lower` / `split`, sliding
windows, `Counter` updates, `sorted`, `[:k]`), i.e. what the compiled driver runs and what is
compared with the real code.  All theorems hold for every list of texts over arbitrary code points
(empty texts, texts shorter than `n`, repeated n-grams, `k` larger than the number of distinct n-grams, …),
every `k`, `n`, flag combination and every pattern list the constructor accepts.

Ordering: the docstring promises alphabetical tie-breaking, so the order is fully specified and the
results are compared as *lists* (no tie classes needed).
-/
namespace MlModel.C07
open MlModel.Agg MlModel.Agg.Text

/-- `re.sub(r'[^a-zA-Z ]+', '', text).lower().split()` is the documented tokenisation -/
theorem C07_text_tokenisation (t : Str) : Agg.Text.words t = MlModel.Spec.Text.words t :=
  words_eq_spec t

/-- `TopKWordNGrams`: one accumulator fed one batch reports the specified top-k list -/
theorem C07_text_ngrams (cfg : NGramCfg) (texts : List Str) :
    (topK cfg).result ((topK cfg).ofBatch texts)
      = MlModel.Spec.Text.topKWordNGrams cfg.k cfg.n cfg.firstOnly cfg.countDup texts := by
  show ((ngramBatch cfg texts).result strLe).take cfg.k = _
  rw [ngram_result_eq_spec]; rfl

/-- … and so does every history of batches, shards and merges over the same texts -/
theorem C07_text_ngrams_any_history (cfg : NGramCfg) (shards : List (List (List Str))) :
    (topK cfg).result ((topK cfg).sharded shards)
      = MlModel.Spec.Text.topKWordNGrams cfg.k cfg.n cfg.firstOnly cfg.countDup
          (shards.map List.flatten).flatten := by
  have h := sharded_result_raw (.ngrams cfg) shards
  simp only [Metric.mergeable] at h
  rw [h]
  exact C07_text_ngrams cfg _

/-- the value `add(texts)` returns is the specified top-k list of that batch -/
theorem C07_text_ngrams_add_return (cfg : NGramCfg) (texts : List Str) :
    topKAddRet cfg texts
      = MlModel.Spec.Text.topKWordNGrams cfg.k cfg.n cfg.firstOnly cfg.countDup texts :=
  C07_text_ngrams cfg texts

/-- `PatternFrequency`, for every pattern list the constructor accepts -/
theorem C07_text_patterns (ps : List Str) (dup : Bool) (cfg : PatCfg)
    (h : PatCfg.make ps dup = .ok cfg) (texts : List Str) :
    (patFreq cfg).result ((patFreq cfg).ofBatch texts)
      = MlModel.Spec.Text.patternTable ps dup texts := by
  obtain ⟨h1, h2, h3, _⟩ := PatCfg.make_ok h
  show (patBatch cfg texts).result strLe = _
  rw [pattern_result_eq_spec cfg (h1 ▸ h3), h1, h2]

theorem C07_text_patterns_any_history (ps : List Str) (dup : Bool) (cfg : PatCfg)
    (h : PatCfg.make ps dup = .ok cfg) (shards : List (List (List Str))) :
    (patFreq cfg).result ((patFreq cfg).sharded shards)
      = MlModel.Spec.Text.patternTable ps dup (shards.map List.flatten).flatten := by
  have h' := sharded_result_raw (.patterns cfg) shards
  simp only [Metric.mergeable] at h'
  rw [h']
  exact C07_text_patterns ps dup cfg h _

/-- non-vacuity of the hypothesis above -/
example : PatCfg.make [['a'], ['a', 'b'], []] false
    = .ok { patterns := [['a'], ['a', 'b'], []], countDup := false } := by rfl

/-- the constructor rejects exactly the empty and the repetitive pattern lists -/
theorem C07_text_patterns_rejected (ps : List Str) (dup : Bool) :
    (PatCfg.make ps dup = .error .value) ↔ (ps = [] ∨ ¬ ps.Nodup) := by
  unfold PatCfg.make
  rw [← length_dedup_iff]
  split <;> simp_all

/-- the one-shot function `topk_word_ngrams` = `ValueError` for non-positive `k`/`n`, the specified
list otherwise (it is the accumulator API on a private accumulator) -/
theorem C07_text_function_api_ngrams (k n : Int) (f d : Bool) (texts : List Str) :
    topkWordNGramsFn k n f d texts
      = if k ≤ 0 ∨ n ≤ 0 then .error .value
        else .ok (MlModel.Spec.Text.topKWordNGrams k.toNat n.toNat f d texts) := by
  unfold topkWordNGramsFn NGramCfg.make
  by_cases h : k ≤ 0 ∨ n ≤ 0
  · simp [h]
  · simp only [h, if_false]
    have h' := call_result_raw (.ngrams { k := k.toNat, n := n.toNat, firstOnly := f, countDup := d }) texts
    simp only [Metric.mergeable] at h'
    rw [h']
    exact congrArg Except.ok (C07_text_ngrams _ texts)

/-- the one-shot function `pattern_frequency` -/
theorem C07_text_function_api_patterns (ps : List Str) (dup : Bool) (texts : List Str) :
    patternFrequencyFn ps dup texts
      = if ps = [] ∨ ¬ ps.Nodup then .error .value
        else .ok (MlModel.Spec.Text.patternTable ps dup texts) := by
  unfold patternFrequencyFn
  cases hm : PatCfg.make ps dup with
  | error e =>
    have : e = .value := by
      unfold PatCfg.make at hm
      split at hm
      · cases hm; rfl
      · cases hm
    subst this
    simp [(C07_text_patterns_rejected ps dup).mp hm]
  | ok cfg =>
    obtain ⟨_, _, h3, h4⟩ := PatCfg.make_ok hm
    have hc : ¬ (ps = [] ∨ ¬ ps.Nodup) := by simp [h3, h4]
    simp only [hc, if_false]
    have h' := call_result_raw (.patterns cfg) texts
    simp only [Metric.mergeable] at h'
    rw [h']
    exact congrArg Except.ok (C07_text_patterns ps dup cfg hm texts)

/-- `AggregateFn.__call__` (base.py:153) for both metrics: a private fresh accumulator, one `add`, `result` -/
theorem C07_text_aggfn_call (m : Metric) (texts : List Str) :
    m.mergeable.result (m.mergeable.add m.mergeable.empty texts)
      = m.mergeable.result (m.mergeable.ofBatch texts) := by
  rw [call_result_raw, result_mergeable, ofBatch_mergeable]

/-- `avg_alphabetical_char_count`: count, mean and population variance of the letter counts;
`ValueError` for no texts -/
theorem C07_text_avg_alpha (texts : List Str) :
    (texts = [] → avgAlphaCount texts = .error .value) ∧
    (texts ≠ [] → ∃ r, avgAlphaCount texts = .ok r ∧
      r.count = (MlModel.Spec.Text.letterStats texts).count ∧
      r.mean = (MlModel.Spec.Text.letterStats texts).mean ∧
      r.var = (MlModel.Spec.Text.letterStats texts).var) :=
  ⟨fun h => by simp [avgAlphaCount, h], avgAlpha_eq_spec texts⟩

/-! ## the specification's table is the textbook object -/

/-- membership: exactly the n-grams of positive count, each with `count / number of texts` -/
theorem C07_text_spec_table_mem (n : Nat) (f d : Bool) (texts : List Str) (g : Str) (q : Rat) :
    (g, q) ∈ MlModel.Spec.Text.ngramTable n f d texts ↔
      0 < MlModel.Spec.Text.ngramCount n f d g texts ∧
        q = MlModel.Spec.Text.freqOf (MlModel.Spec.Text.ngramCount n f d g texts) texts.length := by
  unfold MlModel.Spec.Text.ngramTable
  rw [(isort_perm _).mem_iff]
  simp only [List.mem_map, List.mem_filter, distinct_mem, decide_eq_true_eq, Prod.mk.injEq]
  constructor
  · rintro ⟨g', ⟨_, hpos⟩, rfl, rfl⟩
    exact ⟨hpos, rfl⟩
  · rintro ⟨hpos, rfl⟩
    exact ⟨g, ⟨mem_candidates_of_pos n f d g texts hpos, hpos⟩, rfl, rfl⟩

/-- order: most frequent first, equal frequencies alphabetically; no n-gram twice -/
theorem C07_text_spec_table_sorted (n : Nat) (f d : Bool) (texts : List Str) :
    (MlModel.Spec.Text.ngramTable n f d texts).Pairwise
        (fun a b => b.2 < a.2 ∨ (a.2 = b.2 ∧ MlModel.Spec.Text.alphaLe a.1 b.1 = true)) ∧
      ((MlModel.Spec.Text.ngramTable n f d texts).map Prod.fst).Nodup := by
  unfold MlModel.Spec.Text.ngramTable
  refine ⟨?_, ?_⟩
  · refine (isort_pairwise _).imp ?_
    intro a b h
    rw [rowLe_iff] at h
    simpa [alphaLe_eq_strLe] using h
  · have := (isort_perm (((MlModel.Spec.Text.distinct (MlModel.Spec.Text.candidates n texts)).filter
        fun g => 0 < MlModel.Spec.Text.ngramCount n f d g texts).map
        fun g => (g, MlModel.Spec.Text.freqOf (MlModel.Spec.Text.ngramCount n f d g texts) texts.length))).map Prod.fst
    rw [this.nodup_iff]
    simp only [List.map_map, Function.comp_def, List.map_id']
    exact (distinct_nodup _).filter _

/-- "either `k` or the number of distinct n-grams, whichever is less" -/
theorem C07_text_spec_topk_length (k n : Nat) (f d : Bool) (texts : List Str) :
    (MlModel.Spec.Text.topKWordNGrams k n f d texts).length
      = min k ((MlModel.Spec.Text.distinct (MlModel.Spec.Text.candidates n texts)).filter
          fun g => 0 < MlModel.Spec.Text.ngramCount n f d g texts).length := by
  unfold MlModel.Spec.Text.topKWordNGrams MlModel.Spec.Text.ngramTable
  rw [List.length_take, (isort_perm _).length_eq, List.length_map]

/-- `PatternFrequency` without reference to any row order (its docstring does not promise one): after at
least one text, exactly one row per pattern, carrying `count / number of texts` -/
theorem C07_text_patterns_mem (ps : List Str) (dup : Bool) (cfg : PatCfg)
    (h : PatCfg.make ps dup = .ok cfg) (texts : List Str) (p : Str) (q : Rat) :
    (p, q) ∈ (patFreq cfg).result ((patFreq cfg).ofBatch texts) ↔
      texts ≠ [] ∧ p ∈ ps ∧
        q = MlModel.Spec.Text.freqOf (MlModel.Spec.Text.patCount dup p texts) texts.length := by
  rw [C07_text_patterns ps dup cfg h]
  unfold MlModel.Spec.Text.patternTable
  by_cases ht : texts = []
  · simp [ht]
  · simp only [ht, if_false, (isort_perm _).mem_iff, List.mem_map, Prod.mk.injEq, ne_eq,
      not_false_eq_true, true_and]
    constructor
    · rintro ⟨p', hp, rfl, rfl⟩; exact ⟨hp, rfl⟩
    · rintro ⟨hp, rfl⟩; exact ⟨p, hp, rfl, rfl⟩

/-! ## any batching, any merge tree, any assignment of the rows (SC07c)

The state is never truncated while accumulating: `[:k]` is applied by `result()` to the table of the
**exact global counts**.  So an n-gram that is rare in every early batch and frequent overall (a "late
bloomer") is ranked by its total count, however large the accumulated vocabulary has become (there is no
`10 * k` — or any other — bound on the stored candidates; `Witness/C07Text.lean` shows what such a bound
would do). -/

/-- `TopKWordNGrams` after **any** batching: accumulators fed batch by batch (`leaf`), merged along any binary
tree (`merge` / `merge_states`), the rows `d` dealt to them in any order — the result is the top `k` of the
specified table over all of `d`. -/
theorem C07_text_topk_exact_any_batching (cfg : NGramCfg) (t : DTree) (d : List Str) (h : t.rows.Perm d) :
    (Metric.ngrams cfg).result (t.eval (.ngrams cfg))
      = MlModel.Spec.Text.topKWordNGrams cfg.k cfg.n cfg.firstOnly cfg.countDup d := by
  obtain ⟨hw, ho⟩ := t.eval_spec (.ngrams cfg)
  rw [(Metric.ngrams cfg).result_congr hw (wf_batch _ d) (ho.trans (batch_perm _ h))]
  exact C07_text_ngrams cfg d

/-- … spelled out per row: every reported n-gram carries exactly `(its count over ALL texts) / (number of ALL
texts)` — no count gathered in an earlier batch is ever lost -/
theorem C07_text_topk_rows_exact_any_batching (cfg : NGramCfg) (t : DTree) (d : List Str) (h : t.rows.Perm d)
    (g : Str) (q : Rat) (hm : (g, q) ∈ (Metric.ngrams cfg).result (t.eval (.ngrams cfg))) :
    0 < MlModel.Spec.Text.ngramCount cfg.n cfg.firstOnly cfg.countDup g d ∧
      q = MlModel.Spec.Text.freqOf (MlModel.Spec.Text.ngramCount cfg.n cfg.firstOnly cfg.countDup g d) d.length := by
  rw [C07_text_topk_exact_any_batching cfg t d h] at hm
  exact (C07_text_spec_table_mem cfg.n cfg.firstOnly cfg.countDup d g q).mp (List.mem_of_mem_take hm)

/-- … and the selection is the right one: an n-gram of the data that is **not** reported never beats a reported
one (strictly smaller frequency over all texts, or equal frequency and alphabetically later) -/
theorem C07_text_topk_optimal_any_batching (cfg : NGramCfg) (t : DTree) (d : List Str) (h : t.rows.Perm d)
    (g g' : Str) (q : Rat) (hm : (g, q) ∈ (Metric.ngrams cfg).result (t.eval (.ngrams cfg)))
    (hpos : 0 < MlModel.Spec.Text.ngramCount cfg.n cfg.firstOnly cfg.countDup g' d)
    (hout : ∀ q', (g', q') ∉ (Metric.ngrams cfg).result (t.eval (.ngrams cfg))) :
    let q' := MlModel.Spec.Text.freqOf (MlModel.Spec.Text.ngramCount cfg.n cfg.firstOnly cfg.countDup g' d) d.length
    q' < q ∨ (q = q' ∧ MlModel.Spec.Text.alphaLe g g' = true) := by
  intro q'
  rw [C07_text_topk_exact_any_batching cfg t d h] at hm hout
  unfold MlModel.Spec.Text.topKWordNGrams at hm hout
  have hin : (g', q') ∈ MlModel.Spec.Text.ngramTable cfg.n cfg.firstOnly cfg.countDup d :=
    (C07_text_spec_table_mem _ _ _ d g' q').mpr ⟨hpos, rfl⟩
  have hdrop : (g', q') ∈ (MlModel.Spec.Text.ngramTable cfg.n cfg.firstOnly cfg.countDup d).drop cfg.k := by
    rw [← List.take_append_drop cfg.k (MlModel.Spec.Text.ngramTable cfg.n cfg.firstOnly cfg.countDup d)] at hin
    rcases List.mem_append.mp hin with h1 | h2
    · exact absurd h1 (hout q')
    · exact h2
  have hs := (C07_text_spec_table_sorted cfg.n cfg.firstOnly cfg.countDup d).1
  rw [← List.take_append_drop cfg.k (MlModel.Spec.Text.ngramTable cfg.n cfg.firstOnly cfg.countDup d)] at hs
  exact (List.pairwise_append.mp hs).2.2 _ hm _ hdrop

/-- test (kernel): a three-leaf tree with the rows in another order -/
example : (DTree.node (.leaf [[['a']], []]) (.node (.leaf []) (.leaf [[['b'], ['a']]]))).rows.Perm
    [['a'], ['a'], ['b']] := by decide

/-! Tests (evaluated by the kernel): the specification on the docstring-sized example
`["a b a b", "A b!"]`, bigrams: `"a b"` starts at 3 positions, `"b a"` at 1. -/
example : MlModel.Spec.Text.ngramCount 2 false true ['a', ' ', 'b']
    [['a', ' ', 'b', ' ', 'a', ' ', 'b'], ['A', ' ', 'b', '!']] = 3 := by decide
example : MlModel.Spec.Text.ngramCount 2 false false ['a', ' ', 'b']
    [['a', ' ', 'b', ' ', 'a', ' ', 'b'], ['A', ' ', 'b', '!']] = 2 := by decide
example : MlModel.Spec.Text.words ['a', '\t', 'b', ' ', ' ', 'C', '1', '-', 'd'] = [['a', 'b'], ['c', 'd']] := by
  decide
example : MlModel.Spec.Text.patOccurrences ['a', 'a'] ['a', 'a', 'a'] = 2 := by decide
example : MlModel.Spec.Text.patOccurrences [] ['a', 'a', 'a'] = 4 := by decide

end MlModel.C07
