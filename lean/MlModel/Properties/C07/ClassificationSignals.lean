import MlModel.Lemmas.Signals
import Mathlib.Tactic.Linarith
import Mathlib.Tactic.Ring
import Mathlib.Algebra.Order.Field.Basic
import Mathlib.Algebra.Order.Ring.Rat
/-!
# C07 (classification family, signals) — flip masks, top-k accuracy, cross entropy
equal their definitions (`ml_metrics/_src/signals/{flip_masks,topk_accuracy,cross_entropy}.py`).
-/
namespace MlModel.C07
open MlModel.Signals

/-! ## flip masks -/

/-- `neg_to_pos` is 1 exactly when `base ≤ threshold < model` (docstring), `pos_to_neg` exactly when
`base > threshold ≥ model` -/
theorem C07_classification_signal_flip_defs (t b m : Rat) :
    (negToPos t b m = 1 ↔ b ≤ t ∧ t < m) ∧ (posToNeg t b m = 1 ↔ t < b ∧ m ≤ t) ∧
    (binaryFlip t b m = 1 ↔ (t < b ↔ ¬ t < m)) := by
  refine ⟨?_, ?_, ?_⟩
  · unfold negToPos; split <;> simp_all
  · unfold posToNeg; split <;> simp_all
  · unfold binaryFlip
    by_cases h1 : t < b <;> by_cases h2 : t < m <;> simp [h1, h2]

/-- the symmetric flip is the disjoint union of the two directed flips; all three are 0/1 -/
theorem C07_classification_signal_flip_partition (t b m : Rat) :
    binaryFlip t b m = negToPos t b m + posToNeg t b m ∧ binaryFlip t b m ≤ 1 := by
  unfold binaryFlip negToPos posToNeg
  by_cases h1 : t < b <;> by_cases h2 : t < m <;>
    simp [h1, h2, not_lt.mp, not_le.mpr, le_of_lt]

/-- without a threshold the masks are the boolean formulas of the docstrings -/
theorem C07_classification_signal_flip_bool (b m : Bool) :
    binaryFlipB b m = (if negToPosB b m then 1 else 0) + (if posToNegB b m then 1 else 0) ∧
    (negToPosB b m = true ↔ b = false ∧ m = true) ∧ (posToNegB b m = true ↔ b = true ∧ m = false) := by
  cases b <;> cases m <;> decide

/-! ## top-k accuracy -/

/-- **top-k accuracy**: for pairwise distinct (weighted) scores, `k ≥ 1` and a valid label, the signal
is true exactly when fewer than `k` classes score strictly higher than the label's class -/
theorem C07_classification_signal_topk (scores : List Rat) (hn : scores.Nodup) (label k : Nat)
    (hl : label < scores.length) (hk : 1 ≤ k) :
    topkAccurate scores label k = decide (scores.countP (scores[label] < ·) < k) := by
  have hone : scores.countP (· == scores[label]) = 1 := by
    have := hn.count (a := scores[label])
    simpa [List.count, List.getElem_mem hl] using this
  have hp := countP_partition scores scores[label]
  have hk0 : k ≠ 0 := by omega
  simp only [topkAccurate, List.getElem?_eq_getElem hl, hk0, ↓reduceIte]
  congr 1
  apply propext
  omega

/-- non-vacuity / test -/
example : topkAccurate [2, 1, 3] 0 2 = true ∧ topkAccurate [2, 1, 3] 1 2 = false := by decide

/-! ## cross entropy (`log` symbolic: any function `log`) -/

section ce

/-- categorical cross entropy of a one-hot label vector is `-log(p_true / Σp)`: every class that is
not the true one contributes a term with coefficient 0 -/
theorem C07_classification_signal_categorical_terms (ys ps : List Rat) (ts : LogTerms)
    (h : categoricalCrossEntropy ys ps = .ok ts) :
    ts = (ys.zip ps).map (fun yp => (-yp.1, yp.2 / ps.sum)) ∧ ys.length = ps.length ∧
      ∀ y ∈ ys, y = 0 ∨ y = 1 := by
  unfold categoricalCrossEntropy checkLabels at h
  by_cases hall : (ys.all fun y => y == 0 || y == 1) = true
  · by_cases hlen : ys.length = ps.length
    · simp only [hall, ↓reduceIte, hlen, ne_eq, not_true_eq_false, bind, Except.bind, pure,
        Except.pure, Except.ok.injEq] at h
      refine ⟨h.symm, hlen, ?_⟩
      intro y hy
      have := List.all_eq_true.mp hall y hy
      simpa using this
    · simp [hall, hlen, bind, Except.bind, throw, throwThe, MonadExceptOf.throw] at h
  · simp [hall, bind, Except.bind] at h

/-- binary cross entropy: labels outside {0, 1} are rejected with a `ValueError` -/
theorem C07_classification_signal_ce_rejects (ys ps : List Rat) (y : Rat) (hy : y ∈ ys)
    (hbad : y ≠ 0 ∧ y ≠ 1) :
    binaryCrossEntropy ys ps = .error .value ∧ categoricalCrossEntropy ys ps = .error .value := by
  have hall : (ys.all fun y => y == 0 || y == 1) = false := by
    rw [List.all_eq_false]
    exact ⟨y, hy, by simp [hbad.1, hbad.2]⟩
  simp [binaryCrossEntropy, categoricalCrossEntropy, checkLabels, hall, bind, Except.bind]

/-- binary cross entropy: example `i` contributes `-(1/n)·log p_i` when `y_i = 1` and
`-(1/n)·log(1 - p_i)` when `y_i = 0` (the other term has coefficient 0) -/
theorem C07_classification_signal_binary_terms (ys ps : List Rat) (ts : LogTerms)
    (h : binaryCrossEntropy ys ps = .ok ts) :
    ts = (ys.zip ps).flatMap (fun yp =>
      [(-(yp.1 / (ys.length : Rat)), yp.2), (-((1 - yp.1) / (ys.length : Rat)), 1 - yp.2)]) ∧
    ∀ y ∈ ys, y = 0 ∨ y = 1 := by
  unfold binaryCrossEntropy checkLabels at h
  by_cases hall : (ys.all fun y => y == 0 || y == 1) = true
  · by_cases hlen : ys.length = ps.length
    · simp only [hall, ↓reduceIte, hlen, ne_eq, not_true_eq_false, bind, Except.bind, pure,
        Except.pure, Except.ok.injEq] at h
      refine ⟨by rw [← h, hlen], ?_⟩
      intro y hy
      have := List.all_eq_true.mp hall y hy
      simpa using this
    · simp [hall, hlen, bind, Except.bind, throw, throwThe, MonadExceptOf.throw] at h
  · simp [hall, bind, Except.bind] at h

end ce
end MlModel.C07
