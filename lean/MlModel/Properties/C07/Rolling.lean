import MlModel.Lemmas.AggRollingSpec
import MlModel.Lemmas.AggRollingHist
import MlModel.Properties.C01.Rolling
/-!
# C07 — values equal their textbook definitions, "rolling" metric family

`Spec.*` (Lemmas/AggRollingSpec.lean) are the independent definitions from the raw examples.
Each theorem is stated for **every history** (any batching/sharding/merge bracketing, `Agg.Expr`),
so it covers the accumulator API after arbitrary `add`/`merge` calls; `e.data` is the whole dataset.
The one-shot function API of `metrics/rolling_stats.py` is `FnApi.*`.
-/
namespace MlModel.C07
open MlModel.Agg MlModel.Agg.Rolling

/-! ## MeanAndVariance / Var / Mean -/

/-- 1-D: count, mean, variance and total of the non-NaN entries (NaN mean/variance and total 0 when
there is none), whatever the history.  `stddev` is `sqrt` of the `var` field. -/
theorem C07_rolling_meanvar_1d (e : Expr F) :
    mv1.result (e.eval mv1)
      = ⟨false, [Spec.count e.data], [Spec.mean e.data], [Spec.var e.data], [some (Spec.total e.data)]⟩ := by
  rw [C01.C01_rolling_meanvar_1d]
  simp only [mv1, MV.ofList, MV.result, List.map_cons, List.map_nil, Col.total_ofList]
  rw [Col.ofList_spec]

/-- the two textbook forms of the population variance agree (mean squared deviation, as
`np.nanvar` computes it, and `E[x²] − E[x]²`) -/
theorem C07_rolling_var_forms (xs : List F) : Spec.varDev xs = Spec.var xs := Spec.varDev_eq_var xs

/-- 2-D, `k` columns: per-column statistics, whatever the history — provided the data has at least
one non-NaN entry.  (Otherwise the accumulator is still in its fresh *scalar* state: finding F26,
`C07_rolling_meanvar_2d_blank_witness`.) -/
theorem C07_rolling_meanvar_2d (k : Nat) (e : Expr (Row k))
    (h : blank k (e.data.map (·.val)) = false) :
    (mv2 k).result (e.eval (mv2 k))
      = ⟨true,
         (List.range k).map fun j => Spec.count (colOf (e.data.map (·.val)) j),
         (List.range k).map fun j => Spec.mean (colOf (e.data.map (·.val)) j),
         (List.range k).map fun j => Spec.var (colOf (e.data.map (·.val)) j),
         (List.range k).map fun j => some (Spec.total (colOf (e.data.map (·.val)) j))⟩ := by
  rw [C01.C01_rolling_meanvar_2d]
  have hb := mv2_ofBatch k e.data
  rw [h] at hb
  refine (MV.result_congr hb : (mv2 k).result _ = _).trans ?_
  simp only [MV.result, vcols, List.map_map, Bool.false_eq_true, if_false, MVResult.mk.injEq, true_and]
  refine ⟨?_, ?_, ?_, ?_⟩ <;> apply List.map_congr_left <;> intro j _ <;>
    simp only [Function.comp, Col.total_ofList] <;> rw [Col.ofList_spec]

/-- F26 (open finding, low severity): data with no non-NaN entry leaves the accumulator in the
fresh scalar state, whereas the documented per-column result is `k` NaNs with count 0. -/
theorem C07_rolling_meanvar_2d_blank_witness :
    let rows : List (Row 2) := [⟨[none, none], rfl⟩]
    (mv2 2).result ((mv2 2).add (mv2 2).empty rows) = ⟨false, [0], [none], [none], [some 0]⟩ ∧
    FnApi.ofRows 2 (rows.map (·.val)) = ⟨true, [0, 0], [none, none], [none, none], [some 0, some 0]⟩ := by
  decide +kernel

/-- the `Mean` class, 1-D -/
theorem C07_rolling_mean_1d (e : Expr F) :
    (mean1.result (e.eval mean1)).mean = [Spec.mean e.data] ∧
    (mean1.result (e.eval mean1)).count = [Spec.count e.data] := by
  rw [C01.C01_rolling_mean_1d]
  simp only [mean1, MV.ofList, MV.dropVar, MV.result, List.map_cons, List.map_nil]
  rw [Col.ofList_spec]
  exact ⟨rfl, rfl⟩

/-! ## one-shot function API (`metrics/rolling_stats.py`) -/

/-- `mean/var/count/total(batch)` (and `stddev = sqrt var`) of a 1-D batch are the textbook values… -/
theorem C07_rolling_function_api_1d (xs : List F) :
    FnApi.ofList xs = ⟨false, [Spec.count xs], [Spec.mean xs], [Spec.var xs], [some (Spec.total xs)]⟩ := by
  simp only [FnApi.ofList, MV.ofList, MV.result, List.map_cons, List.map_nil, Col.total_ofList]
  rw [Col.ofList_spec]

/-- …and equal the accumulator API (`acc = MeanAndVariance(); acc.add(batch); acc.result()`) -/
theorem C07_rolling_function_api_eq_accumulator_1d (xs : List F) :
    FnApi.ofList xs = mv1.result (mv1.add mv1.empty xs) := by
  have := C07_rolling_meanvar_1d (.merge .fresh (.batch xs))
  simp only [Expr.eval, Expr.data, List.nil_append] at this
  rw [C07_rolling_function_api_1d]
  exact this.symm

/-- 2-D: per-column textbook values -/
theorem C07_rolling_function_api_2d (k : Nat) (rows : List (List F)) :
    FnApi.ofRows k rows
      = ⟨true, (List.range k).map fun j => Spec.count (colOf rows j),
         (List.range k).map fun j => Spec.mean (colOf rows j),
         (List.range k).map fun j => Spec.var (colOf rows j),
         (List.range k).map fun j => some (Spec.total (colOf rows j))⟩ := by
  simp only [FnApi.ofRows, MV.ofRows, MV.result, List.map_map, MVResult.mk.injEq, true_and]
  refine ⟨?_, ?_, ?_, ?_⟩ <;> apply List.map_congr_left <;> intro j _ <;>
    simp only [Function.comp, Col.total_ofList] <;> rw [Col.ofList_spec]

/-- 2-D: function API = accumulator API as soon as the batch has a non-NaN entry -/
theorem C07_rolling_function_api_eq_accumulator_2d (k : Nat) (rows : List (Row k))
    (h : blank k (rows.map (·.val)) = false) :
    FnApi.ofRows k (rows.map (·.val)) = (mv2 k).result ((mv2 k).add (mv2 k).empty rows) := by
  have := C07_rolling_meanvar_2d k (.merge .fresh (.batch rows))
    (by simpa [Expr.data] using h)
  simp only [Expr.eval, Expr.data, List.nil_append] at this
  rw [C07_rolling_function_api_2d]
  exact this.symm

/-! ## MeanState, Counter -/

/-- `MeanState`: the arithmetic mean (0 for no data: the `safe_divide` convention) -/
theorem C07_rolling_meanstate (e : Expr Rat) :
    meanState.result (e.eval meanState) = Spec.avg e.data := by
  rw [C01.C01_rolling_meanstate]
  simp only [meanState, MeanState.result, MeanState.ofList, safeDivide, Spec.avg]
  by_cases h : e.data.length = 0
  · simp [h]
  · have : ((e.data.length : Nat) : Rat) ≠ 0 := by exact_mod_cast h
    simp [h, this]

/-- `Counter`: multiplicity of every key in the whole dataset -/
theorem C07_rolling_counter (e : Expr Int) (k : Int) :
    counter.result (e.eval counter) k = e.data.count k := by
  rw [C01.C01_rolling_counter]
  exact CounterS.get_ofList _ _

/-! ## Histogram -/

/-- whatever the history: bin `i` holds the total weight of the examples whose value lies in
`[e_i, e_{i+1})` (the right-most bin also takes `e_n`; NaN is in no bin), and the edges are returned -/
theorem C07_rolling_histogram (edges : List Rat) (e : Expr (F × Rat)) :
    (histogram edges).result (e.eval (histogram edges))
      = ((List.range (edges.length - 1)).map fun i =>
            rsum ((e.data.filter fun p =>
              inBin (edges.getD i 0) (edges.getD (i + 1) 0) (i + 1 == edges.length - 1) p.1).map (·.2)),
         edges) := by
  rw [C01.C01_rolling_histogram]
  rfl

/-- for strictly increasing edges the bins partition `[e₀, eₙ]`: a value inside the outer edges
lies in exactly one bin, a value outside in none -/
theorem C07_rolling_histogram_partition (edges : List Rat) (hinc : StrictInc edges)
    (hlen : 2 ≤ edges.length) (v : Rat) :
    (edges.getD 0 0 ≤ v ∧ v ≤ edges.getD (edges.length - 1) 0 →
      ∃ i, i + 1 < edges.length ∧ inBinAt edges i v = true ∧
        ∀ j, j + 1 < edges.length → inBinAt edges j v = true → j = i) ∧
    (v < edges.getD 0 0 ∨ edges.getD (edges.length - 1) 0 < v →
      ∀ i, i + 1 < edges.length → inBinAt edges i v = false) := by
  constructor
  · intro ⟨hlo, hhi⟩
    obtain ⟨i, hi, hb⟩ := inBinAt_exists hlen hlo hhi
    exact ⟨i, hi, hb, fun j hj hbj => inBinAt_unique hinc hj hi hbj hb⟩
  · intro hout i hi
    exact inBinAt_outside hinc hi hout

/-- (non-vacuity) edges `0 < 1 < 3` -/
example : StrictInc [0, 1, 3] ∧ inBinAt [0, 1, 3] 1 3 = true ∧ inBinAt [0, 1, 3] 0 1 = false := by
  refine ⟨⟨by norm_num, by norm_num, trivial⟩, by decide +kernel, by decide +kernel⟩

/-! ## MinMaxAndCount -/

/-- on its documented domain (numbers *of inputs*, i.e. non-negative) and non-empty data:
count, least and greatest element -/
theorem C07_rolling_minmax (e : Expr Rat) (hne : e.data ≠ []) (hpos : ∀ x ∈ e.data, 0 ≤ x) :
    let r := minMaxAndCount.result (e.eval minMaxAndCount)
    r.count = e.data.length ∧ (∃ m, r.min = some m ∧ Spec.IsMin m e.data) ∧ Spec.IsMax r.max e.data := by
  rw [C01.C01_rolling_minmax]
  simp only [minMaxAndCount, id]
  cases hd : e.data with
  | nil => exact absurd hd hne
  | cons x xs =>
    rw [hd] at hpos
    rw [mmc_ofList_cons]
    refine ⟨by simp, ⟨_, rfl, foldl_min_mem x xs, foldl_min_le x xs⟩, ?_⟩
    have hm := foldl_max_mem x xs
    have h0 : (0 : Rat) ≤ xs.foldl max x := hpos _ hm
    rw [max_eq_right h0]
    exact ⟨hm, foldl_max_ge x xs⟩

/-- the minimum and the count need no domain restriction -/
theorem C07_rolling_minmax_min (e : Expr Rat) (hne : e.data ≠ []) :
    let r := minMaxAndCount.result (e.eval minMaxAndCount)
    r.count = e.data.length ∧ ∃ m, r.min = some m ∧ Spec.IsMin m e.data := by
  rw [C01.C01_rolling_minmax]
  simp only [minMaxAndCount, id]
  cases hd : e.data with
  | nil => exact absurd hd hne
  | cons x xs =>
    rw [mmc_ofList_cons]
    exact ⟨by simp, _, rfl, foldl_min_mem x xs, foldl_min_le x xs⟩

/-- F15 (open, outside the documented domain): `_max` starts at 0, so the maximum of all-negative
data is reported as 0, which is not an element of the data -/
theorem C07_rolling_minmax_negative_witness :
    (MMC.ofList [-3, -1]).max = 0 ∧ (MMC.ofList [-3, -1]).max ∉ ([-3, -1] : List Rat) := by
  decide +kernel

/-! ## R2Tjur / R2TjurRelative on binary labels -/

/-- Tjur's R²: mean fitted probability of the positives minus that of the negatives; NaN when a
class is absent.  Examples are `(y_true, y_pred)` with `y_true ∈ {0, 1}`. -/
theorem C07_rolling_r2tjur (e : Expr (Rat × Rat)) (hb : ∀ p ∈ e.data, p.1 = 0 ∨ p.1 = 1) :
    let pos := (e.data.filter fun p => p.1 = 1).map (·.2)
    let neg := (e.data.filter fun p => p.1 = 0).map (·.2)
    r2Tjur.result (e.eval r2Tjur)
      = if pos.length = 0 ∨ neg.length = 0 then none
        else some (rsum pos / pos.length - rsum neg / neg.length) := by
  rw [C01.C01_rolling_r2tjur]
  obtain ⟨h1, h2, h3, h4⟩ := tjur_sums e.data hb
  simp only [r2Tjur, Tjur.result, Tjur.ofList, h1, h2, h3, h4, List.length_map, Bool.or_eq_true,
    decide_eq_true_eq, Nat.cast_eq_zero]

/-- the relative variant: ratio of the two means -/
theorem C07_rolling_r2tjur_relative (e : Expr (Rat × Rat)) (hb : ∀ p ∈ e.data, p.1 = 0 ∨ p.1 = 1) :
    let pos := (e.data.filter fun p => p.1 = 1).map (·.2)
    let neg := (e.data.filter fun p => p.1 = 0).map (·.2)
    r2TjurRelative.result (e.eval r2TjurRelative)
      = if pos.length = 0 ∨ rsum neg = 0 then none
        else some (rsum pos * neg.length / pos.length / rsum neg) := by
  rw [C01.C01_rolling_r2tjur_relative]
  obtain ⟨h1, h2, h3, h4⟩ := tjur_sums e.data hb
  simp only [r2TjurRelative, r2Tjur, Tjur.resultRel, Tjur.ofList, h1, h2, h3, h4, List.length_map,
    Bool.or_eq_true, decide_eq_true_eq, Nat.cast_eq_zero]

/-! ## RRegression: Pearson / reflective correlation with the square roots symbolic -/

/-- centered: `numerator / (sqrt radX * sqrt radY)` with numerator = Σ(x−x̄)(y−ȳ),
radX = Σ(x−x̄)², radY = Σ(y−ȳ)² -/
theorem C07_rolling_rregression_centered (e : Expr (Rat × Rat)) (hne : e.data ≠ []) :
    let n : Rat := e.data.length
    let xbar := rsum (e.data.map (·.1)) / n
    let ybar := rsum (e.data.map (·.2)) / n
    (rRegression true).result (e.eval (rRegression true))
      = some ⟨rsum (e.data.map fun p => (p.1 - xbar) * (p.2 - ybar)),
              rsum (e.data.map fun p => (p.1 - xbar) * (p.1 - xbar)),
              rsum (e.data.map fun p => (p.2 - ybar) * (p.2 - ybar))⟩ := by
  rw [C01.C01_rolling_rregression]
  have hn : e.data.length ≠ 0 := by simpa using hne
  have hq : ((e.data.length : Nat) : Rat) ≠ 0 := by exact_mod_cast hn
  simp only [rRegression, RReg.result, RReg.ofList, hn, if_false, if_true, Option.some.injEq,
    RRegResult.mk.injEq]
  refine ⟨?_, ?_, ?_⟩
  · rw [rsum_cross_dev e.data (·.1) (·.2)]; field_simp; ring
  · rw [rsum_cross_dev e.data (·.1) (·.1)]; field_simp; ring
  · rw [rsum_cross_dev e.data (·.2) (·.2)]; field_simp; ring

/-- reflective (not centered): Σxy / sqrt(Σx² · Σy²) -/
theorem C07_rolling_rregression_reflective (e : Expr (Rat × Rat)) (hne : e.data ≠ []) :
    (rRegression false).result (e.eval (rRegression false))
      = some ⟨rsum (e.data.map fun p => p.1 * p.2), rsum (e.data.map fun p => p.1 * p.1),
              rsum (e.data.map fun p => p.2 * p.2)⟩ := by
  rw [C01.C01_rolling_rregression]
  have hn : e.data.length ≠ 0 := by simpa using hne
  simp [rRegression, RReg.result, RReg.ofList, hn]

/-! ## SymmetricPredictionDifference -/

/-- mean over the examples of `2·|x−y| / |x+y|` (a term with `x + y = 0` counts 0); NaN without data -/
theorem C07_rolling_spd (e : Expr (Rat × Rat)) :
    symPredDiff.result (e.eval symPredDiff)
      = if e.data.length = 0 then none
        else some (rsum (e.data.map fun p =>
              if p.1 + p.2 = 0 then 0 else 2 * rabs (p.1 - p.2) / rabs (p.1 + p.2)) / e.data.length) := by
  rw [C01.C01_rolling_spd]
  simp only [symPredDiff, SPD.result, SPD.ofList]
  split
  · rfl
  · congr 1
    have key : ∀ l : List (Rat × Rat),
        rsum (l.map fun p => if p.1 + p.2 = 0 then 0 else 2 * rabs (p.1 - p.2) / rabs (p.1 + p.2))
          = 2 * rsum (l.map fun p => safeDivide (rabs (p.1 - p.2)) (rabs (p.1 + p.2))) := by
      intro l
      induction l with
      | nil => simp
      | cons p l ih =>
        simp only [List.map_cons, rsum_cons, ih, safeDivide]
        have habs : rabs (p.1 + p.2) = 0 ↔ p.1 + p.2 = 0 := by
          unfold rabs; split <;> constructor <;> intro h <;> linarith
        by_cases h0 : p.1 + p.2 = 0
        · rw [if_pos h0, if_pos (habs.mpr h0)]; ring
        · have : ¬ rabs (p.1 + p.2) = 0 := fun h => h0 (habs.mp h)
          rw [if_neg h0, if_neg this]; ring
    rw [key]

end MlModel.C07
