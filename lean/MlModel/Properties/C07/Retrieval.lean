import MlModel.Lemmas.RetrievalBatch
import MlModel.Lemmas.RetrievalThrSpec
/-!
# C07, metric family "retrieval": metric values equal their mathematical definitions

Implementation side: `MlModel.Agg.Retrieval` (the numpy-style computation of
`TopKRetrieval.add`/`result`: indicator rows padded to the batch width, running sums, gather
at `k-1`, `MeanState` sum/count).  Specification side: `MlModel.Spec.Retrieval` (textbook
definitions per example from the raw lists, then the mean over the examples).
Domain: every K of `k_list` is `≥ 1` (`Config.KsPos`); nothing else is assumed — ragged
rankings, empty rankings, empty label sets (NaN), unsorted / repeated Ks, `k_list=None`,
multiclass input are all covered.
-/
namespace MlModel.C07
open MlModel.Agg MlModel.Agg.Retrieval MlModel.Spec.Retrieval

variable {α : Type} [DecidableEq α]

/-- **Per example, per metric, per K**: the value computed from the padded arrays of a batch of
width `W` is the textbook value — for every one of the 17 metrics, every `1 ≤ k ≤ W`, every
ranking and label list (no size bound, duplicates allowed, empty lists allowed). -/
theorem C07_retrieval_metric_row (W : Nat) (r : Row α) (m : Metric) (k : Nat)
    (h1 : 1 ≤ k) (h2 : k ≤ W) :
    (mkCtx W r).metric m k = Spec.Retrieval.metric m r.yTrue r.yPred k :=
  metric_eq W r m k h1 h2

/-- **Dataset level**: `result()` after `add(batch)` is, for every configured metric, the mean
over the examples of the textbook per-example vector (and the scalar `0.0` for an empty batch). -/
theorem C07_retrieval_topk (cfg : Config) (h : cfg.KsPos) (rows : List (Row α)) :
    resultState (ofBatch cfg rows) = Spec.Retrieval.dataset cfg rows := by
  unfold resultState ofBatch dataset
  rw [batchVals_eq_spec cfg h, List.map_map, List.map_map]
  apply List.map_congr_left
  intro j _
  simp only [Function.comp, MeanCell.result, MeanCell.new, List.length_map, sumVecs]

/-- what `add()` returns for the batch (Examples × K per metric) is the textbook value of every
example — in particular independent of the other examples of the batch -/
theorem C07_retrieval_add_rows (cfg : Config) (h : cfg.KsPos) (rows : List (Row α)) :
    batchVals cfg rows =
      (List.range cfg.metrics.length).map fun j => rows.map fun r => (rowVec cfg r).getD j [] :=
  batchVals_eq_spec cfg h rows

/-- `input_type='multiclass'`: labels are one-item rankings and every K is the top-1 -/
theorem C07_retrieval_multiclass (cfg : Config) (h : cfg.KsPos) (_hm : cfg.multiclass = true)
    (labels : List (α × α)) :
    resultState (ofBatch cfg (wrapMulticlass labels)) =
      Spec.Retrieval.dataset cfg (labels.map fun (t, p) => ⟨[t], [p]⟩) :=
  C07_retrieval_topk cfg h _

/-- **One-shot function API = accumulator API**: `AggregateFn.__call__` is
`get_result(update_state(create_state(), batch))`, i.e. `result` of a fresh accumulator after one
`add` (`Mergeable.add empty`); it returns the textbook dataset value too. -/
theorem C07_retrieval_function_api (cfg : Config) (h : cfg.KsPos) (rows : List (Row α)) :
    (mergeable (α := α) cfg).result
        ((mergeable (α := α) cfg).add (mergeable (α := α) cfg).empty rows) =
      Spec.Retrieval.dataset cfg rows := by
  show resultState (mergeState (emptyState cfg) (ofBatch cfg rows)) = _
  have e : emptyState cfg = ofBatch cfg ([] : List (Row α)) := (ofBatch_nil cfg).symm
  rw [e, ofBatch_append cfg h, List.nil_append]
  exact C07_retrieval_topk cfg h rows

/-- the single-metric wrappers of `metrics/retrieval.py` (`precision(...)`, `ndcg_score(...)`, …
configure `metrics=[m]`): their value is the `m` entry of any multi-metric accumulator -/
theorem C07_retrieval_function_api_single (cfg : Config) (h : cfg.KsPos) (rows : List (Row α))
    (j : Nat) (hj : j < cfg.metrics.length) :
    resultState (ofBatch { cfg with metrics := [cfg.metrics[j]] } rows) =
      [(resultState (ofBatch cfg rows)).getD j .scalarZero] := by
  have h' : Config.KsPos { cfg with metrics := [cfg.metrics[j]] } := h
  rw [C07_retrieval_topk _ h', C07_retrieval_topk cfg h]
  simp only [dataset, List.length_singleton, List.range_one, List.map_cons, List.map_nil]
  rw [List.getD_eq_getElem?_getD, List.getElem?_map, List.getElem?_range hj]
  simp only [Option.map_some, Option.getD_some, rowVec, List.map_cons, List.map_nil, Config.nk,
    Config.ks?, Config.rowKs]
  have e : ∀ r : Row α, ∀ ks : List Nat,
      [List.map (fun k => metric cfg.metrics[j] r.yTrue r.yPred k) ks].getD 0 [] =
        (List.map (fun m => List.map (fun k => metric m r.yTrue r.yPred k) ks) cfg.metrics).getD j [] := by
    intro r ks
    rw [List.getD_eq_getElem?_getD, List.getD_eq_getElem?_getD, List.getElem?_map,
      List.getElem?_eq_getElem hj]
    simp
  simp only [e]

/-- documented aliases agree (`ppv = precision = positive_predictive_value`,
`sensitivity = tpr = recall`), in the implementation and in the specification -/
theorem C07_retrieval_aliases (c : Ctx) (k : Nat) :
    c.metric .ppv k = c.metric .precision k ∧
    c.metric .positivePredictiveValue k = c.metric .precision k ∧
    c.metric .sensitivity k = c.metric .recall k ∧
    c.metric .tpr k = c.metric .recall k := ⟨rfl, rfl, rfl, rfl⟩

/-- complement laws: `miss_rate = 1 - recall`, `false_discovery_rate = 1 - precision` (NaN when the
base rate is NaN), against the *textbook* precision/recall -/
theorem C07_retrieval_complements (W : Nat) (r : Row α) (k : Nat) (h1 : 1 ≤ k) (h2 : k ≤ W) :
    (mkCtx W r).missRate k = Q.sub (some 1) (Spec.Retrieval.recall r.yTrue r.yPred k) ∧
    (mkCtx W r).fdr k = Q.sub (some 1) (Spec.Retrieval.precision r.yTrue r.yPred k) := by
  rw [missRate_eq W r k h1 h2, fdr_eq W r k h1 h2]
  exact ⟨rfl, rfl⟩

/-- `|top_k ∩ true|` never exceeds the number of retrieved items: precision, accuracy and the
hit count are in range without any assumption -/
theorem C07_retrieval_hits_le (T P : List α) (k : Nat) : hits T P k ≤ retrieved P k := by
  unfold hits retrieved topK
  calc ((P.take k).filter (· ∈ T)).length ≤ (P.take k).length := List.length_filter_le _ _
    _ = min k P.length := List.length_take



/-- **zero denominators** (why `none` = NaN suffices in the model): for `k ≥ 1`, whenever the
denominator of precision / recall / intersection-over-union / threat score is 0 its numerator is 0
too, so numpy produces `0/0 = NaN` and never `±inf` -/
theorem C07_retrieval_zero_denominators (T P : List α) (k : Nat) (_hk : 1 ≤ k) :
    (retrieved P k = 0 → hits T P k = 0) ∧
    (T.length = 0 → hits T P k = 0) ∧
    ((retrieved P k : Int) + (T.length : Int) - (hits T P k : Int) = 0 → hits T P k = 0) ∧
    ((hits T P k : Int) + ((T.length : Int) - (hits T P k : Int)) + ((k : Int) - (hits T P k : Int)) = 0 →
      hits T P k = 0) := by
  have hle := C07_retrieval_hits_le T P k
  have hk' : retrieved P k ≤ k := by unfold retrieved; omega
  have hnil : T.length = 0 → hits T P k = 0 := by
    intro h
    have : T = [] := List.length_eq_zero_iff.mp h
    subst this
    simp [hits]
  refine ⟨by omega, hnil, ?_, ?_⟩
  · intro h
    have : T.length = 0 := by omega
    exact hnil this
  · intro h
    have : T.length = 0 := by omega
    exact hnil this

/-! ### ThresholdedRetrieval: pooled precision / recall / F1 per probability threshold -/

open MlModel.Spec.Retrieval.Thr in
/-- the counts one `add()` pools — matched predictions, matched labels, labels, predictions above
each threshold, computed through `retrieval_matcher` — are the textbook counts, for every batch of
documented inputs (one probability `≥ 0` per prediction, distinct predictions, distinct labels)
and all thresholds `≥ 0` -/
theorem C07_retrieval_thresholded_counts (ts : List Rat) (hts : ∀ t ∈ ts, 0 ≤ t)
    (rows : List (Thr.Row α)) (hrows : ∀ r ∈ rows, RowOk r) :
    Thr.batchCounts ts rows = .ok
      { tpTrues := ts.map fun t => sumOver rows (trueTP · t)
        tpPreds := ts.map fun t => sumOver rows (predTP · t)
        pTrues := sumOver rows (·.yTrue.length)
        pPreds := ts.map fun t => sumOver rows (predPos · t) } :=
  Thr.batchCounts_spec ts hts rows hrows

open MlModel.Spec.Retrieval.Thr in
/-- … hence `result()` reports, per threshold, the textbook pooled precision, recall and F1
(`safe_divide`: 0 for an empty denominator) -/
theorem C07_retrieval_thresholded_rates (ts : List Rat) (hts : ∀ t ∈ ts, 0 ≤ t)
    (rows : List (Thr.Row α)) (hrows : ∀ r ∈ rows, RowOk r) :
    (Thr.ofBatch ts rows).precision = ts.map (Spec.Retrieval.Thr.precision rows) ∧
    (Thr.ofBatch ts rows).recall = ts.map (Spec.Retrieval.Thr.recall rows) ∧
    (Thr.ofBatch ts rows).f1 = ts.map (Spec.Retrieval.Thr.f1 rows) := by
  have hp : (Thr.ofBatch ts rows).precision = ts.map (Spec.Retrieval.Thr.precision rows) := by
    simp only [Thr.ofBatch, Thr.batchCounts_spec ts hts rows hrows, Thr.Counts.precision,
      List.zipWith_map, List.zipWith_self]
    apply List.map_congr_left
    intro t _
    simp only [Spec.Retrieval.Thr.precision]
  have hr : (Thr.ofBatch ts rows).recall = ts.map (Spec.Retrieval.Thr.recall rows) := by
    simp only [Thr.ofBatch, Thr.batchCounts_spec ts hts rows hrows, Thr.Counts.recall, List.map_map]
    apply List.map_congr_left
    intro t _
    simp only [Function.comp, Spec.Retrieval.Thr.recall]
  refine ⟨hp, hr, ?_⟩
  simp only [Thr.Counts.f1, hp, hr, List.zipWith_map, List.zipWith_self]
  apply List.map_congr_left
  intro t _
  simp only [Spec.Retrieval.Thr.f1]


/-- `metric@t` entries (`np.interp` over the threshold grid): for a configured threshold `t = ts[j]`
of a strictly increasing grid the reported value is the textbook pooled metric at `t` -/
theorem C07_retrieval_thresholded_at (ts : List Rat) (hgrid : ts.Pairwise (· < ·))
    (hts : ∀ t ∈ ts, 0 ≤ t) (rows : List (Thr.Row α))
    (hrows : ∀ r ∈ rows, Spec.Retrieval.Thr.RowOk r) (j : Nat) (hj : j < ts.length) :
    Thr.interp ts[j] ts ((Thr.ofBatch ts rows).rates .precision) = Spec.Retrieval.Thr.precision rows ts[j] ∧
    Thr.interp ts[j] ts ((Thr.ofBatch ts rows).rates .recall) = Spec.Retrieval.Thr.recall rows ts[j] ∧
    Thr.interp ts[j] ts ((Thr.ofBatch ts rows).rates .f1) = Spec.Retrieval.Thr.f1 rows ts[j] := by
  obtain ⟨hp, hr, hf⟩ := C07_retrieval_thresholded_rates ts hts rows hrows
  simp only [Thr.Counts.rates, Thr.interp_grid ts _ hgrid j hj, hp, hr, hf,
    List.getD_eq_getElem?_getD, List.getElem?_map, List.getElem?_eq_getElem hj, Option.map_some,
    Option.getD_some, and_self]

/-! ### MeanState (aggregates/utils.py) -/

/-- the mean of finite numbers: `sum / count`, and `0.0` for no input (`safe_divide`) -/
theorem C07_retrieval_mean (ys : List Rat) :
    Mean.result (Mean.new (ys.map some)) =
      some (if ys.length = 0 then 0 else ys.foldl (· + ·) 0 / (ys.length : Rat)) := by
  simp only [Mean.result, Mean.new, foldl_qadd_some, List.length_map, Q.safeDiv, Q.ofNat, Q.div,
    Rat.natCast_eq_zero_iff]
  by_cases h : ys.length = 0 <;> simp [h]

/-- `MeanState.__call__` (one-shot) = accumulator (`add` on a fresh state, then `result`) -/
theorem C07_retrieval_mean_call (xs : List Q) :
    Mean.result (Mean.merge Mean.empty (Mean.new xs)) = Mean.result (Mean.new xs) := by
  rw [Mean.empty_merge]

/-- `TupleMeanState`: one independent mean per column -/
theorem C07_retrieval_tuplemean (cols : List (List Rat)) :
    TupleMean.result (TupleMean.new (cols.map fun ys => ys.map some)) =
      cols.map fun ys => some (if ys.length = 0 then 0 else ys.foldl (· + ·) 0 / (ys.length : Rat)) := by
  simp only [TupleMean.result, TupleMean.new, List.map_map]
  apply List.map_congr_left
  intro ys _
  exact C07_retrieval_mean ys

/-! ### non-vacuity / regression examples (tests, `decide`d on concrete data) -/

/-- the batch of DESIGN §7-F4: a one-item and a three-item ranking, `k_list=[1,2,3]` -/
def exCfg : Config := { kList := some [1, 2, 3], metrics := [.precision, .meanAveragePrecision, .threatScore], multiclass := false }
def exRows : List (Row Nat) := [⟨[1], [1]⟩, ⟨[1, 2, 3], [3, 4, 1]⟩]

example : exCfg.KsPos := by decide
/-- a documented thresholded input -/
example : Spec.Retrieval.Thr.RowOk (⟨[1, 2, 3], [1, 4, 2], some [3/4, 1/2, 3/8]⟩ : Thr.Row Nat) :=
  ⟨by decide, by decide +kernel, by decide, by decide⟩
example : resultState (ofBatch exCfg exRows) =
    [.mean [V.ofQ (some 2), V.ofQ (some (3/2)), V.ofQ (some (5/3))] 2,
     .mean [V.ofQ (some 2), V.ofQ (some (3/2)), V.ofQ (some (14/9))] 2,
     .mean [V.ofQ (some (4/3)), V.ofQ (some (3/4)), V.ofQ (some (5/6))] 2] := by decide +kernel

end MlModel.C07
