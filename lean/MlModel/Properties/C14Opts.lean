import MlModel.Lemmas.RemoteOpts
import MlModel.Properties.C14
/-!
# C14 — client options: the remote iterator for every `iterate_batch_size`

"remote iterators … yield exactly the underlying elements in order and signal exhaustion once" — for every
constructor option of the client the iterator was obtained through (`call_timeout`, `max_parallelism`,
`heartbeat_threshold_secs`, `iterate_batch_size`; `Model/RemoteOpts.lean`).

* the shipped `RemoteIterator.__next__` is one `get_result(trace(next)(..))` per element whatever the options
  (`C14_iter_any_batch_size`, `C14_iter_options_irrelevant`);
* what an implementation that honours `iterate_batch_size` must do: a **keep-partial** fetch (the pulled elements
  AND the end marker, the shape of `_next_batch`) is the plain iterator for every batch size
  (`C14_iter_batched_keep_partial`); the `list(islice(..))` fetch of the seeded change C14-m5 is not
  (`C14_iter_batch_islice_loses_partial_batch` universally, `C14_iter_batch_islice_witness` on the demo).
-/
namespace MlModel.C14
open MlModel MlModel.Lazy MlModel.Remote MlModel.RemoteOpts

/-- **Remote iterator, any client options.**  Whatever `iterate_batch_size` (and the other options) of the client
the `RemoteIterator` was obtained through: iterating it over elements `xs` that ends with `fin`
(`StopIteration`, possibly carrying the generator's return value, or a failure) shows exactly `xs` in order, then
the end signal ONCE (with that return value / that failure), then a bare `StopIteration` on each of the `m`
later calls.  (Hypotheses as in `C14_iter`: the server is not shutting down and `id` denotes the iterator.) -/
theorem C14_iter_any_batch_size (cfg : ClientCfg) (id : Nat) (m : Nat) (srv : Srv) (g : Gen)
    (hs : srv.shutdown = false) (hg : sGet srv.objs (resolve srv.objs id) = some (.iter g)) :
    (riterRun { id := id, cfg := cfg } (g.items.length + 1 + m) srv).1 =
      g.items.map (fun a => .ok (wrap (.plain a))) ++ [.error g.fin.exc] ++
        List.replicate m (.error (stopExc [])) := by
  rw [riterRun_eq]
  exact C14_iter id m srv g hs hg

/-- …and the server-side iterator is advanced exactly as by local `next` calls: nothing is pulled ahead of the
consumer, for any batch size (so elements are neither lost nor duplicated when another consumer takes over). -/
theorem C14_iter_any_batch_size_state (cfg : ClientCfg) (id : Nat) (k : Nat) (srv : Srv) (g : Gen)
    (hs : srv.shutdown = false) (hg : sGet srv.objs (resolve srv.objs id) = some (.iter g)) :
    sGet (riterRun { id := id, cfg := cfg } k srv).2.objs
        (resolve (riterRun { id := id, cfg := cfg } k srv).2.objs id) = some (.iter (genRun k g).2) := by
  rw [riterRun_eq]
  exact (C14_iter_run id k srv g hs hg).2

/-- the observations and the server state do not depend on the options at all (any server state, any `id`) -/
theorem C14_iter_options_irrelevant (cfg cfg' : ClientCfg) (id k : Nat) (srv : Srv) :
    riterRun { id := id, cfg := cfg } k srv = riterRun { id := id, cfg := cfg' } k srv := by
  rw [riterRun_eq, riterRun_eq]

/-- **A batched fetch that keeps partial batches is the plain iterator, for every batch size `b ≥ 1`**: a client
that asks for up to `b` elements per round trip and receives the elements pulled so far together with the end marker
hands out exactly the elements, then the end signal once (return value / failure intact), then bare
`StopIteration`s — for every iterator, every `b`, every number of calls. -/
theorem C14_iter_batched_keep_partial (b : Nat) (hb : 1 ≤ b) (g : Gen) (k : Nat) :
    (keepRun b k { g := g }).1 = genTrace g k := by
  rw [keepRun_eq b hb k { g := g } (fun f h => by simp at h), ← genRun_trace]
  simp [virt]

theorem C14_iter_batched_keep_partial_full (b : Nat) (hb : 1 ≤ b) (g : Gen) (m : Nat) :
    (keepRun b (g.items.length + 1 + m) { g := g }).1 =
      g.items.map Except.ok ++ [Except.error g.fin.exc] ++ List.replicate m (Except.error (stopExc [])) := by
  rw [C14_iter_batched_keep_partial b hb, genTrace_full]

/-- **The `list(islice(..))` fetch (seeded C14-m5) loses the partial batch**: for every batch size `b > 1` and every
iterator that fails after fewer than `b` (but at least one) elements, the FIRST thing the client sees is the failure —
the local iterator yields its first element. -/
theorem C14_iter_batch_islice_loses_partial_batch (b : Nat) (hb : 1 < b) (a : Val) (rest : List Val) (x : Exc)
    (hl : (a :: rest).length < b) :
    (isliceNext b { g := { items := a :: rest, fin := .fail x } }).1 = .error x ∧
    (genNext { items := a :: rest, fin := .fail x }).1 = .ok a := by
  refine ⟨?_, rfl⟩
  have hp := pull_short b { items := a :: rest, fin := .fail x } hl
  simp only [isliceNext, hb, if_true, hp]

/-! ## Non-vacuity and witnesses (tests, `decide`) -/

def boomX : Exc := { kind := .py .value, msg := "boom after 6" }
def six : List Val := [.int 0, .int 1, .int 2, .int 3, .int 4, .int 5]

example : sGet (getResult (.mkGen six (.fail boomX)) {} (Srv.init 4 4)).2.objs
    (resolve (getResult (.mkGen six (.fail boomX)) {} (Srv.init 4 4)).2.objs 0) = some (.iter ⟨six, .fail boomX⟩) := by
  decide

/-- the demo of `seeded/C14-m5-remote-iterator-batch-fetch`: `failing_gen(6)` with `iterate_batch_size = 4`
answers 0..3 and then the failure (4 and 5 are dropped); `returning_gen(6)` loses its return value -/
theorem C14_iter_batch_islice_witness :
    (isliceRun 4 8 { g := ⟨six, .fail boomX⟩ }).1 =
      [.ok (.int 0), .ok (.int 1), .ok (.int 2), .ok (.int 3), .error boomX, .error (stopExc []),
       .error (stopExc []), .error (stopExc [])] ∧
    (isliceRun 4 8 { g := ⟨six, .fail boomX⟩ }).1 ≠ genTrace ⟨six, .fail boomX⟩ 8 ∧
    (isliceRun 4 8 { g := ⟨six, .stop [.str "returned-6"]⟩ }).1 =
      six.map Except.ok ++ [.error (stopExc []), .error (stopExc [])] ∧
    (isliceRun 4 8 { g := ⟨six, .stop [.str "returned-6"]⟩ }).1 ≠ genTrace ⟨six, .stop [.str "returned-6"]⟩ 8 := by
  decide

example : (keepRun 4 8 { g := ⟨six, .fail boomX⟩ }).1 = genTrace ⟨six, .fail boomX⟩ 8 := by decide
example : (isliceRun 1 8 { g := ⟨six, .fail boomX⟩ }).1 = genTrace ⟨six, .fail boomX⟩ 8 := by decide

end MlModel.C14
