import MlModel.Lemmas.Pipe
import MlModel.Lemmas.PipeBatch
import MlModel.Lemmas.PipeBuild
import MlModel.Lemmas.PipeHeap
import MlModel.Lemmas.PipeAligned
import MlModel.Lemmas.PipeFnless
import MlModel.Properties.C19
/-!
# C08 — pipeline operators route data exactly as a reference interpreter

Vocabulary (all in `Model/Pipe.lean`, `Model/Iter.lean`):
* `Impl.run ignore ops src` — the implementation model of `list(pipeline.make().iterate(data,
  ignore_error=ignore))`: `ops` are the `TreeFn`s the builder produced, `src` the outcomes of the data
  source (per element: the element or the error reading it raised);
* `Ref.chainEvents ignore ops src` — the reference: `Ref.semCall`/`Ref.semWrite` (one record through
  one operator) lifted to streams, operator after operator; `observe` = what a caller sees;
* `OpOK op` — no batch sizes, `SELF` is not the first of several output keys, a predicate never
  returns a tuple; operators *with* batch sizes: see the section "operators with batch sizes";
* `Ref.CleanRun ignore ops src` — no skippable error is *passed on* between operators (vacuous
  with skipping off: `cleanRun_false`).
-/
set_option linter.unusedSimpArgs false
namespace MlModel.C08
open MlModel.Pipe MlModel.Iter

/-- **C08_refines_partial.**  For every chain of un-batched operators, every key shape, every user
function (with private state), every finite stream of source outcomes and both skipping modes: what
the caller of the real runner observes — outputs in order, then the first error if any — is what
the reference interpreter produces.

Full-strength statement: the same for *every* chain the builder accepts.  Missing here:
* operators with `fn_batch_size` / `batch_size` (`OpOK.unbatched`).  `apply` / `select` / `batch`
  with batch sizes are covered by `C08_refines_batched_partial` below (which extends this theorem:
  `C08_refines_batched_extends`); for `assign` with `batch_size` the statement holds on ALIGNED streams
  (`C08_assign_batched_aligned_partial`) and is **false** on the real code otherwise (finding
  F-C08-assign-rebatch = F-C19-assign, `Witness/C08.lean`);
* `SELF` as the first of several output keys of an `apply` (`OpOK.selfAlone`; the builder rejects
  it for `assign` only) and predicates that return tuples (`OpOK.pred`): what the real code does
  there depends on book-keeping keys and has no reference meaning;
* with skipping on, runs in which a skippable error is passed on between operators (`CleanRun`;
  finding F-C12-passed-on).  With skipping off there is no condition (`C08_refines_noskip_partial`). -/
theorem C08_refines_partial (ignore : Bool) (ops : List Op) (hops : ∀ op ∈ ops, OpOK op)
    (src : List (Ev Val)) (hc : Ref.CleanRun ignore ops src) :
    ((Impl.run ignore ops src).out, (Impl.run ignore ops src).err)
      = observe (Ref.chainEvents ignore ops src) := by
  simp only [Impl.run, topEvents_spec ignore ops hops src hc]

/-- with skipping off there is no side condition on the run -/
theorem C08_refines_noskip_partial (ops : List Op) (hops : ∀ op ∈ ops, OpOK op) (src : List (Ev Val)) :
    ((Impl.run false ops src).out, (Impl.run false ops src).err)
      = observe (Ref.chainEvents false ops src) :=
  C08_refines_partial false ops hops src (cleanRun_false ops src)

/-! ## operators with batch sizes (`apply` / `select` with `fn_batch_size` / `batch_size`, `.batch(n)`)

Vocabulary (`Model/Pipe.lean`, section "Reference semantics of apply / select with batch sizes"):
* a record of a batched operator carries **columns** (a `list` / `tuple` of rows under every key);
  `Ref.asBatch` reads a tuple of values as a `Rebatch.Batch`;
* `Ref.regroup t nc (values, error)` — the list-level regrouping into batches of `t` rows
  (`Rebatch.run`; `Rebatch.online` = only the complete batches if the stream broke off with `error`);
* `Ref.callGroups` — one call per group, a failing call leaves out its group (skipping on) or ends
  the stream (skipping off);
* `Ref.opEventsB` — read the input columns, regroup to `fn_batch_size`, call, regroup to `batch_size`,
  route every regrouped tuple of output columns into a new record (`Ref.write op .null (.tuple cols)`):
  **the value under an output key is a column of `batch_size` rows**;
* `BatchedOK ignore op s src` (`Lemmas/PipeBatch.lean`) — `apply` / `select`, `batch_size > 0`, at
  least one output key, the selected inputs (if `fn_batch_size`) and the results of the successful
  calls are equally long columns, and — only with `fn_batch_size` and skipping on — no skippable
  error reaches the first re-batching generator (the inputs of every record can be read —
  necessary: finding F-C12-fnbatch-lost; without `fn_batch_size` such a record is skipped,
  `Ref.skipNT`, and the theorem covers it);
* `RunOKG ignore ops src` — along the reference run every operator is `OpOK` on a clean stream
  (no batch sizes) or `BatchedOK` (batch sizes); `Ref.chainEventsG` the reference for such chains. -/

/-- **C08_batched_apply.**  The real iterator stack of an `apply` / `select` with batch sizes —
`map(_get_inputs)`, the `rebatched_args` *generator*, `map` / `map_ignore_error` of the call,
`map(_normalize_outputs)`, the second `rebatched_args` generator, `map(_get_outputs)`, with an error
passing through (and finalising) the generators — produces exactly the events of the list-level
reference `Ref.opEventsB`, for every `fn_batch_size ≥ 0`, `batch_size > 0`, every number of input and
output keys, every user function with private state, every incoming batching, every position of a
failing call or of a failing source element, both skipping modes. -/
theorem C08_batched_apply (ignore : Bool) (op : Op) (src : List (Ev Val))
    (h : BatchedOK ignore op op.s0 src) :
    (Impl.opIterate ignore op src).evs.map (·.ev) = Ref.opEventsB ignore op op.s0 src :=
  opIterate_batched_spec ignore op src h

/-- **C08_refines_batched_partial.**  `C08_refines_partial` for chains that may contain `apply` /
`select` / `batch` operators **with batch sizes** anywhere: what the caller of the real runner
observes is what the reference produces, operator after operator (`Ref.opEvents` record by record
for operators without batch sizes, `Ref.opEventsB` over the whole stream for those with).

Still missing from the full-strength statement: `assign` with batch sizes (aligned streams:
`C08_assign_batched_aligned_partial`; otherwise false on the real code: F-C08-assign-rebatch, F5); the well-formedness side conditions collected in `BatchedOK`
(ragged or non-column data makes `rebatched_args` raise; not stated); with skipping on, a record
with unreadable inputs in front of an operator with `fn_batch_size` (false on the real code:
F-C12-fnbatch-lost); and the conditions of `C08_refines_partial` for the un-batched operators. -/
theorem C08_refines_batched_partial (ignore : Bool) (ops : List Op) (src : List (Ev Val))
    (h : RunOKG ignore ops src) :
    ((Impl.run ignore ops src).out, (Impl.run ignore ops src).err)
      = observe (Ref.chainEventsG ignore ops src) := by
  simp only [Impl.run, topEventsG_spec ignore ops src h]

/-- the batched theorem extends the un-batched one: on chains without batch sizes its hypothesis
follows from the old ones and its reference is the old reference -/
theorem C08_refines_batched_extends (ignore : Bool) (ops : List Op) (hops : ∀ op ∈ ops, OpOK op)
    (src : List (Ev Val)) (hc : Ref.CleanRun ignore ops src) :
    RunOKG ignore ops src ∧ Ref.chainEventsG ignore ops src = Ref.chainEvents ignore ops src :=
  ⟨runOKG_of_cleanRun ignore ops hops src hc,
   chainEventsG_unbatched ignore ops (fun op ho => (hops op ho).unbatched) src⟩

/-! ### `assign` with `batch_size`: the aligned sub-case (finding F-C08-assign-rebatch pinned to the rest)

The reference for an `assign` does not depend on batch sizes: every record gets, under the assigned
keys, what the function computed from ITS OWN inputs (`Ref.opEvents`: `Ref.semCall` / `Ref.semWrite`
record by record) — for a record of columns: the columns computed from its own rows.  The real
`Assign.iterate` zips the `j`-th batch that leaves the `rebatched_args(…, batch_size)` generator with the
`j`-th incoming record (`Impl.pwi` over `Impl.rebatchGen`), which is that reference exactly when the
re-batcher does not move rows between batches.  Vocabulary (`Lemmas/PipeAligned.lean`):
* `Ref.callOuts op s src` — the normalised results of the calls, record by record, up to the first error;
* `AlignedCalls ignore b nc results` — every result is a batch of `nc` `list` / `tuple` columns of exactly
  `b` rows, the LAST of a stream that ends normally `1..b`; the error the stream breaks off with (if any)
  ends the run (with skipping on: it is not skippable — a skipped failing call is finding F5);
* `AssignAlignedOK ignore op src` — `assign`, `fn_batch_size = 0`, `batch_size > 0`, output keys,
  `SelfAlone`, and `AlignedCalls` of the calls over the source without its skippable failing reads. -/

/-- **C08_assign_batched_aligned_partial.**  For every `assign(..., batch_size = b)` (`b > 0`, any output
key shapes, any user function with private state), both skipping modes and every finite stream of source
outcomes on which the call results are ALIGNED — exactly `b` rows each, the last `1..b` —: the real
iterator stack of `Assign.iterate` (`map(_get_inputs)`, the call, `map(_normalize_outputs)`, the
`rebatched_args` *generator*, `processed_with_inputs` with its `_TeeIterator` FIFO and — skipping on —
`_SKIP` markers, `starmap(_get_outputs)`) produces exactly the events of the per-record reference: every
record with the columns computed from its own rows under the assigned keys, a failing read of the source
skipped (skipping on) or surfacing, the first failing call surfacing.  The proof follows the `used`
annotations of `Impl.rebatchGen` through `Impl.pwi`: a batch of exactly `b` rows leaves the re-batcher in
the iteration it entered (buffer empty again: `Rebatch.step_init_full`) while its own record is the one
entry of the FIFO; a shorter last batch leaves it when the source is exhausted (`used = endUsed`:
`Rebatch.finish_push_short`) and still finds its own record as the one entry left.

Partial — what is missing from "every `assign` with batch sizes": `fn_batch_size > 0`; and every stream
that is not aligned, where the statement is **false** on the real code: finding F-C08-assign-rebatch =
F-C19-assign (`Witness/C08.lean: C08_assign_rebatch_witness`, one record of 3 rows, `b = 2`), and — a
skipped failing call — F5 (`Witness/C12.lean`).  So the open finding is pinned to exactly the misaligned
(and `fn_batch_size`) case. -/
theorem C08_assign_batched_aligned_partial (ignore : Bool) (op : Op) (src : List (Ev Val))
    (h : AssignAlignedOK ignore op src) :
    (Impl.opIterate ignore op src).evs.map (·.ev) = Ref.opEvents ignore op op.s0 (Ref.skipNT ignore src) :=
  opIterate_assign_aligned ignore op src h

/-- **C08_refines_assign_aligned_partial.**  `C08_refines_partial` for chains of un-batched operators
(`OpOK`) and aligned `assign`s with `batch_size` (`AssignAlignedOK` on the stream they receive:
`RunOKA`), over ANY source and with no `CleanRun` condition: what the caller of the real runner observes
is the reference `Ref.chainEventsS` (every operator skips the skippable errors passed on to it and
processes the rest record by record). -/
theorem C08_refines_assign_aligned_partial (ignore : Bool) (ops : List Op) (src : List (Ev Val))
    (h : RunOKA ignore ops src) :
    ((Impl.run ignore ops src).out, (Impl.run ignore ops src).err)
      = observe (Ref.chainEventsS ignore ops src) := by
  simp only [Impl.run, topEventsA_spec ignore ops src h]

/-- rows of column `c` of a tuple of columns -/
def colRowsV (cols : List Val) (c : Nat) : List Val := (Ref.asCol (cols.getD c .none)).rows

/-- **C08_batched_rows** — what "the value under the output key" means, per ROW.  Each regrouping
step of the reference (input columns → groups of `fn_batch_size` rows; result columns → records of
`batch_size` rows), on well-formed column batches that end normally: raises nothing; column by column
the rows after the step are exactly the rows before it, in order (so row `i` of *every* column of the
`k`-th tuple is row `k·t + i` of the stream: the keys stay aligned); every tuple has all `nc` columns
with one common number of rows, `t` for all but the last, `1..t` for the last; `⌈rows / t⌉` tuples.
(C19's theorems read through `Ref.regroup`.) -/
theorem C08_batched_rows {t nc : Nat} (ht : 0 < t) (hnc : 0 < nc) (vs : List (List Val))
    (hwf : Rebatch.WF nc (vs.map Ref.asBatch)) :
    (Ref.regroup t nc (vs, none)).2 = none ∧
    (∀ c, c < nc → ((Ref.regroup t nc (vs, none)).1.map fun cols => colRowsV cols c).flatten
        = (vs.map fun cols => colRowsV cols c).flatten) ∧
    (∀ cols ∈ (Ref.regroup t nc (vs, none)).1, cols.length = nc ∧
        ∃ r, 1 ≤ r ∧ r ≤ t ∧ ∀ c, c < nc → (colRowsV cols c).length = r) ∧
    (∀ j cols, (Ref.regroup t nc (vs, none)).1[j]? = some cols →
        j + 1 < (Ref.regroup t nc (vs, none)).1.length → ∀ c, c < nc → (colRowsV cols c).length = t) ∧
    (Ref.regroup t nc (vs, none)).1.length = (Rebatch.totalRows (vs.map Ref.asBatch) + t - 1) / t := by
  have hA : ∀ (b : Rebatch.Batch Val) c, colRowsV (Ref.ofBatch b) c = Rebatch.colRows b c := by
    intro b c
    unfold colRowsV Ref.ofBatch Rebatch.colRows
    by_cases hc : c < b.length
    · have : (b.map Impl.ofCol).getD c .none = Impl.ofCol b[c] := by simp [List.getD, hc]
      have h2 : b.getD c default = b[c] := by simp [List.getD, hc]
      rw [this, h2]
      rcases b[c] with ⟨k, rows⟩
      cases k <;> rfl
    · have : (b.map Impl.ofCol).getD c .none = .none := by
        rw [List.getD_eq_getElem?_getD, List.getElem?_eq_none (by simp; omega)]; rfl
      have h2 : b.getD c default = default := by
        rw [List.getD_eq_getElem?_getD, List.getElem?_eq_none (by omega)]; rfl
      rw [this, h2]; rfl
  have hB : ∀ (cols : List Val) c, colRowsV cols c = Rebatch.colRows (Ref.asBatch cols) c := by
    intro cols c
    unfold colRowsV Ref.asBatch Rebatch.colRows
    by_cases hc : c < cols.length
    · simp [List.getD, hc]
    · have : cols.getD c .none = .none := by
        rw [List.getD_eq_getElem?_getD, List.getElem?_eq_none (by omega)]; rfl
      have h2 : (cols.map Ref.asCol).getD c default = default := by
        rw [List.getD_eq_getElem?_getD, List.getElem?_eq_none (by simp; omega)]; rfl
      rw [this, h2]; rfl
  rw [regroup_pos ht]
  simp only
  have hrect := MlModel.C19.C19_rect ht hnc (Or.inl rfl) (none : Option Val) hwf
  have hsizes := MlModel.C19.C19_sizes ht hnc (Or.inl rfl) (none : Option Val) hwf
  have hcount := MlModel.C19.C19_count ht hnc (Or.inl rfl) (none : Option Val) hwf
  have herr := MlModel.C19.C19_no_error ht hnc (Or.inl rfl) (none : Option Val) hwf
  have hcons := fun c hc => MlModel.C19.C19_conserve ht hnc (Or.inl rfl) (none : Option Val) hwf (c := c) hc
  generalize Rebatch.run t nc none (vs.map Ref.asBatch) = R at *
  refine ⟨by simp [herr], ?_, ?_, ?_, by simpa using hcount⟩
  · intro c hc
    have := hcons c hc
    simp only [Rebatch.padding, List.append_nil, Rebatch.colConcat] at this
    simp only [List.map_map, Function.comp_def, hA]
    simp only [hB]
    simpa [List.map_map, Function.comp_def] using this
  · intro cols hcols
    simp only [List.mem_map] at hcols
    obtain ⟨b, hb, rfl⟩ := hcols
    have hr := hrect b hb
    refine ⟨by simpa [Ref.ofBatch] using hr.1, Rebatch.nrows b, ?_, ?_, ?_⟩
    · obtain ⟨i, hi⟩ := List.getElem?_of_mem hb
      by_cases hlast : i + 1 < R.out.length
      · have := hsizes.1 i b hi hlast; omega
      · have hlen := (List.getElem?_eq_some_iff.mp hi).1
        have : R.out.getLast? = some b := by
          rw [List.getLast?_eq_getElem?]
          have : R.out.length - 1 = i := by omega
          rw [this]; exact hi
        exact (hsizes.2.1 b this).1
    · obtain ⟨i, hi⟩ := List.getElem?_of_mem hb
      by_cases hlast : i + 1 < R.out.length
      · have := hsizes.1 i b hi hlast; omega
      · have hlen := (List.getElem?_eq_some_iff.mp hi).1
        have : R.out.getLast? = some b := by
          rw [List.getLast?_eq_getElem?]
          have : R.out.length - 1 = i := by omega
          rw [this]; exact hi
        exact (hsizes.2.1 b this).2.1
    · intro c hc
      rw [hA]; exact hr.colRows_len hc
  · intro j cols hj hlt c hc
    simp only [List.getElem?_map, List.length_map] at hj hlt
    cases hb : R.out[j]? with
    | none => simp [hb] at hj
    | some b =>
      simp only [hb, Option.map_some, Option.some.injEq] at hj
      subst hj
      rw [hA, (hrect b (List.mem_of_getElem? hb)).colRows_len hc]
      exact hsizes.1 j b hb hlt

/-! ## `processed_with_inputs` -/

/-- **C08_tee_aligned.**  For every 1:1 `process_fn` (the `j`-th `next()` of its output pulls exactly
the `j`-th record through the `_TeeIterator`), `processed_with_inputs` pairs the `j`-th output with
the `j`-th input, for every stream length; the FIFO never holds more than the one record that is
re-read immediately (`used` of the pair = `j + 1` = number of records pulled). -/
theorem C08_tee_aligned (skip : Bool) (rs : List Val) (outs : List (List Val))
    (h : outs.length = rs.length) :
    Impl.pwi skip (rs.map .ok) 0 (tagFrom 0 outs) = tagFrom 0 (outs.zip rs) := by
  have := pwi_tagged skip [] rs outs h
  simpa [Impl.countOk] using this

/-- the same for the iterator stack of a real un-batched operator, including records whose
processing fails and — the repaired `processed_with_inputs`, finding F-C12-passed-on — skippable
failing reads of the source (`Impl.annotSkip`: the source behind the `iter_ignore_error` wrapper):
`paired` = every output next to the record it was computed from, for ANY source -/
theorem C08_tee_aligned_op (skip : Bool) (op : Op) (h : op.fnBatch = 0 ∧ op.batch = 0)
    (src : List (Ev Val)) :
    Impl.pwi skip src 0 (Impl.iterate false op ⟨Impl.annotSkip skip 0 src, src.length + 1⟩).evs
      = paired skip op op.s0 0 src := by
  rw [iterate_unbatchedT skip op h, pwi_aligned0]

/-! ## `apply` / `select` replace the record -/

/-- **C08_apply_replaces.**  The record an `apply` / `select` emits is built from nothing
(`NullMap`) out of the function's outputs: nothing of the incoming record survives except through
the selected inputs.  So two streams whose records agree on the selected inputs give the same
output stream — for the reference and (`C08_refines`) for the real runner. -/
theorem C08_apply_replaces (ignore : Bool) (op : Op) (hk : op.kind = .select ∨ op.kind = .apply)
    (s : Nat) (src src' : List (Ev Val)) (h : Pointwise (SameInputs op) src src') :
    Ref.opEvents ignore op s src = Ref.opEvents ignore op s src' := by
  induction h generalizing s with
  | nil => rfl
  | @cons a b l l' hab _ ih =>
    cases a with
    | error e =>
      cases b with
      | ok r' => exact absurd hab (by simp [SameInputs])
      | error e' =>
        have : e = e' := hab
        subst this
        simp [Ref.opEvents, ih]
    | ok r =>
      cases b with
      | error e' => exact absurd hab (by simp [SameInputs])
      | ok r' =>
        have hin : getInputs op r = getInputs op r' := hab
        have hcall : Ref.semCall op s r = Ref.semCall op s r' := by simp [Ref.semCall, hin]
        have hwrite : ∀ v, Ref.semWrite op r v = Ref.semWrite op r' v := by
          intro v; rcases hk with hk | hk <;> simp [Ref.semWrite, hk]
        simp only [Ref.opEvents, hcall, hwrite, ih]

/-! ## `assign` adds exactly the named keys -/

/-- **C08_assign_frame.**  `assign` with plain names on a dict record: the emitted record is a dict
in which every key that is not assigned reads exactly as in the incoming record, no key other than
the assigned ones is new, and every assigned name is present.  (That the *caller's* record object is
not written — `copy_and_set` copies the dict before it sets — is a statement about object identity:
it is `TreeMapView`'s contract, property C18, and is probed on the real objects by the check.) -/
theorem C08_assign_frame (op : Op) (hk : op.kind = .assign) (names : List String)
    (hkeys : op.outKeys = names.map fun n => OutKey.key (.name n))
    (kvs : List (String × Val)) (v x : Val)
    (h : Ref.semWrite op (.dict kvs) v = .ok (some x)) :
    ∃ kvs', x = .dict kvs' ∧
      (∀ m, m ∉ names → lookup m kvs' = lookup m kvs) ∧
      (∀ m, (lookup m kvs').isSome → m ∈ names ∨ (lookup m kvs).isSome) ∧
      (∀ m ∈ names, (lookup m kvs').isSome) := by
  have hflat : ∀ outs r, Ref.routeAll (.dict kvs) op.outKeys outs = .ok r →
      ∃ kvs', r = .dict kvs' ∧ (∀ m, m ∉ names → lookup m kvs' = lookup m kvs) ∧
        (∀ m, (lookup m kvs').isSome → m ∈ names ∨ (lookup m kvs).isSome) ∧
        (∀ m ∈ names, (lookup m kvs').isSome) := by
    intro outs r hr
    rw [hkeys, routeAll_flat] at hr
    cases hf : assignFlat kvs names outs with
    | none => simp [hf] at hr
    | some k =>
      simp only [hf, Except.ok.injEq] at hr
      obtain ⟨h1, h2, h3, _⟩ := assignFlat_frame kvs names outs k hf
      exact ⟨k, hr.symm, h1, h2, h3⟩
  simp only [Ref.semWrite, hk] at h
  cases hw : Ref.write op (.dict kvs) v with
  | error e => simp [hw, Except.map] at h
  | ok r =>
    simp only [hw, liftErr_ok, Except.map, Except.ok.injEq, Option.some.injEq] at h
    subst h
    unfold Ref.write at hw
    cases names with
    | nil =>
      simp only [hkeys, List.map_nil] at hw
      exact hflat _ _ (by simpa [hkeys] using hw)
    | cons n ns =>
      cases ns with
      | nil =>
        -- one name: either one output, or the whole tuple of outputs
        simp only [hkeys, List.map_cons, List.map_nil] at hw
        cases ho : outputsOf v with
        | nil => rw [ho] at hw; exact hflat _ _ (by simpa [hkeys] using hw)
        | cons a as =>
          cases as with
          | nil => rw [ho] at hw; exact hflat _ _ (by simpa [hkeys] using hw)
          | cons b bs =>
            rw [ho] at hw
            simp only [Ref.route, setKey, setPath_dict_name, Except.ok.injEq] at hw
            refine ⟨_, hw.symm, ?_, ?_, ?_⟩
            · intro m hm
              have : m ≠ n := by simpa using hm
              simp [lookup_upsert, this]
            · intro m hm
              by_cases hmn : m = n
              · exact Or.inl (by simp [hmn])
              · rw [lookup_upsert] at hm; simp [hmn] at hm; exact Or.inr hm
            · intro m hm
              have : m = n := by simpa using hm
              simp [lookup_upsert, this]
      | cons n' rest =>
        simp only [hkeys, List.map_cons] at hw
        exact hflat _ _ (by simpa [hkeys] using hw)

/-! ## the caller's objects are not written (heap-aware part, through the C18 model)

`Model/PipeHeap.lean` runs `_get_outputs` — the output routing of `Assign` (onto the incoming record)
and of `apply` (onto a `NullMap`) — on the cell heap of `Model/Tree.lean`: one `copy_and_set` per output
key (plain key, nested `Key` path, `SELF`, `SKIP`), for a dict-form key the reads of its sources, a new
tuple and one multi-key `copy_and_set` onto its record keys.  `Tree.Extends h h'`: `h'` is `h` plus
newly allocated cells, every cell of `h` literally unchanged. -/

/-- **C08_assign_no_write.**  For every heap (any sharing between records, cycles allowed), every
record `base`, every list of output keys of every form — one or several, flat or NESTED paths into
containers that already exist in the record, dict-form keys, `SELF`, `SKIP` — and every outputs of the
function: routing the outputs into the record writes **no pre-existing object**.  Every cell of the heap
before — the caller's record, its nested containers at every depth, the other records of the stream,
whatever an upstream sink still holds — is unchanged, whether the routing succeeds or raises; hence
(for a heap without dangling references) every read through any pre-existing object returns the very
same object as before. -/
theorem C08_assign_no_write (h : Tree.Heap) (base : Nat) (keys : List PipeHeap.HKey) (outs : List Nat) (t : Nat) :
    (∀ r, r < h.size → (PipeHeap.getOutputsH false h base keys outs t).1[r]? = h[r]?) ∧
    (Tree.Closed h → ∀ root, root < h.size → ∀ q,
      Tree.get (PipeHeap.getOutputsH false h base keys outs t).1 root q = Tree.get h root q) :=
  ⟨(PipeHeap.getOutputsH_extends h base keys outs t).2,
   fun hc _ hroot q => Tree.get_extends hc (PipeHeap.getOutputsH_extends h base keys outs t) q hroot⟩

/-- **C08_assign_stream_no_write.**  The same along a whole stream: after `Assign` has routed the
outputs of any number of records (each onto its own record; the same record object may occur several
times), no object that existed before the run has been written. -/
theorem C08_assign_stream_no_write (keys : List PipeHeap.HKey) (jobs : List PipeHeap.Job) (h : Tree.Heap) :
    (∀ r, r < h.size → (PipeHeap.assignAllH false keys h jobs).1[r]? = h[r]?) ∧
    (Tree.Closed h → ∀ root, root < h.size → ∀ q,
      Tree.get (PipeHeap.assignAllH false keys h jobs).1 root q = Tree.get h root q) :=
  ⟨(PipeHeap.assignAllH_extends keys jobs h).2,
   fun hc _ hroot q => Tree.get_extends hc (PipeHeap.assignAllH_extends keys jobs h) q hroot⟩

/-! ## `filter` -/

/-- **C08_filter** (order kept, nothing invented): whatever the predicate does — state, errors,
skipping on or off — the records a filter emits are a subsequence of the records it received. -/
theorem C08_filter (ignore : Bool) (op : Op) (hk : op.kind = .filter) (s : Nat) (src : List (Ev Val)) :
    (oks (Ref.opEvents ignore op s src)).Sublist (oks src) := by
  induction src generalizing s with
  | nil => simp [Ref.opEvents, oks]
  | cons ev rest ih =>
    cases ev with
    | error e =>
      by_cases ht : terminal ignore e = true
      · simp [Ref.opEvents, ht, oks]
      · simpa [Ref.opEvents, ht, oks] using ih s
    | ok r =>
      rcases hs : Ref.semCall op s r with ⟨res, s'⟩
      cases res with
      | error e =>
        by_cases ht : terminal ignore e = true
        · simp [Ref.opEvents, hs, ht, oks]
        · simpa [Ref.opEvents, hs, ht, oks] using (ih s').trans (List.sublist_cons_self _ _)
      | ok v =>
        by_cases hb : v.truthy = true
        · simpa [Ref.opEvents, hs, Ref.semWrite, hk, hb, oks] using (ih s')
        · simpa [Ref.opEvents, hs, Ref.semWrite, hk, hb, oks] using (ih s').trans (List.sublist_cons_self _ _)

/-- **C08_filter_exact** (exactly the rejected are dropped): for a predicate that keeps no state and
does not fail, the output is the input filtered by the predicate's truth value. -/
theorem C08_filter_exact (ignore : Bool) (op : Op) (hk : op.kind = .filter) (s : Nat) (p : Val → Bool)
    (rs : List Val) (hp : ∀ r ∈ rs, ∃ v, Ref.semCall op s r = (.ok v, s) ∧ v.truthy = p r) :
    Ref.opEvents ignore op s (rs.map .ok) = (rs.filter p).map .ok := by
  induction rs with
  | nil => simp [Ref.opEvents]
  | cons r rs ih =>
    have ih := ih fun x hx => hp x (List.mem_cons_of_mem _ hx)
    obtain ⟨v, hv, hvp⟩ := hp r (List.mem_cons_self ..)
    by_cases hb : p r = true
    · simp [Ref.opEvents, hv, Ref.semWrite, hk, hvp, hb, ih]
    · simp [Ref.opEvents, hv, Ref.semWrite, hk, hvp, hb, ih]

/-! ## `sink` -/

/-- **C08_sink** (written once, in order, forwarded unchanged): if every record's inputs can be read
(`ins r`) and every `write` succeeds, the sink operator emits exactly the records it received and the
sink has seen exactly one `write` per record, in stream order, with that record's inputs. -/
theorem C08_sink (ignore : Bool) (op : Op) (hk : op.kind = .sink) (ins : Val → List Val)
    (rs : List Val) (hins : ∀ r ∈ rs, getInputs op r = .ok (ins r))
    (hw : ∀ r ∈ rs, ∀ s, ∃ v s', callFn op s (ins r) = (.ok v, s')) (s : Nat) :
    Ref.opEvents ignore op s (rs.map .ok) = rs.map .ok ∧
    Impl.sinkLog op s (rs.map .ok) = rs.map fun r => writeArgs op (ins r) := by
  induction rs generalizing s with
  | nil => simp [Ref.opEvents, Impl.sinkLog]
  | cons r rs ih =>
    have hi := hins r (List.mem_cons_self ..)
    obtain ⟨v, s', hc⟩ := hw r (List.mem_cons_self ..) s
    have ih := ih (fun x hx => hins x (List.mem_cons_of_mem _ hx))
      (fun x hx => hw x (List.mem_cons_of_mem _ hx)) s'
    constructor
    · simp [Ref.opEvents, Ref.semCall, hi, hc, Ref.semWrite, hk, ih.1]
    · simp [Impl.sinkLog, hi, hc, writeArgs, ih.2]

/-- every sink's `close()` runs exactly once per run — when the stream ends, when an exception
passes through `Sink.iterate`, or when the abandoned generator is dropped.  This is the model's
reading of `try: ... finally: close()` in a generator (tied to the code by the correspondence, which
observes `closed` after the iterator has been dropped). -/
theorem C08_sink_closed (ignore : Bool) (ops : List Op) (src : List (Ev Val)) :
    (Impl.run ignore ops src).closed = (ops.filter fun op => op.kind = .sink).map fun _ => 1 := by
  simp [Impl.run]

/-! ## the builder -/

/-- **C08_build_rejects.**  Each invalid key / option combination is rejected when the operator is
added, whatever else the call contains and whatever has been built before:
`fn_batch_size` without `batch_size` (apply, assign); keyword input keys without a function (select,
apply); `assign` without keys; a sink object without `write`/`close`; any operator after an
aggregate, and a second aggregate.  (`C08_build_rejects_keys`: duplicate / SELF-mixed assign keys,
`Key.SKIP` inputs, `Key.Literal` outputs.) -/
theorem C08_build_rejects (st : Build.St) :
    (∀ fn s0 inp out fb, fb ≠ 0 → Rejected (Build.step st (.apply fn s0 inp out fb 0))) ∧
    (∀ keys fn s0 inp fb, fb ≠ 0 → Rejected (Build.step st (.assign keys fn s0 inp fb 0))) ∧
    (∀ items out b, items ≠ [] → Rejected (Build.step st (.select (.kwargs items) out b))) ∧
    (∀ items s0 out fb b, items ≠ [] → Rejected (Build.step st (.apply none s0 (.kwargs items) out fb b))) ∧
    (∀ fn s0 inp fb b, Rejected (Build.step st (.assign (.many []) fn s0 inp fb b))) ∧
    (∀ w s0 inp, Rejected (Build.step st (.sink false w s0 inp))) ∧
    (st.hasAgg = true → ∀ sp, Rejected (Build.step st sp)) := by
  refine ⟨?_, ?_, ?_, ?_, ?_, ?_, ?_⟩
  · intro fn s0 inp out fb hfb
    refine ⟨.value, ?_⟩
    simp [Build.step, Build.mkTreeFn, hfb, bind, Except.bind, throw, throwThe, MonadExceptOf.throw]
  · intro keys fn s0 inp fb hfb
    refine ⟨.value, ?_⟩
    simp [Build.step, Build.mkTreeFn, hfb, bind, Except.bind, throw, throwThe, MonadExceptOf.throw]
  · intro items out b hne
    refine ⟨.value, ?_⟩
    cases items with
    | nil => exact absurd rfl hne
    | cons it its =>
      simp [Build.step, Build.mkTreeFn, Build.InSpec.normalize, bind, Except.bind, throw, throwThe,
        MonadExceptOf.throw, pure, Except.pure]
  · intro items s0 out fb b hne
    cases items with
    | nil => exact absurd rfl hne
    | cons it its =>
      by_cases hfb : (fb != 0 && b == 0) = true
      · exact ⟨.value, by simp [Build.step, Build.mkTreeFn, hfb, bind, Except.bind, throw, throwThe, MonadExceptOf.throw]⟩
      · exact ⟨.value, by simp [Build.step, Build.mkTreeFn, hfb, Build.InSpec.normalize, bind, Except.bind, throw,
          throwThe, MonadExceptOf.throw, pure, Except.pure]⟩
  · intro fn s0 inp fb b
    simp only [Build.step, Build.OutSpec.isEmpty, if_true, Build.OutSpec.normalize]
    cases hm : Build.mkTreeFn .assign fn s0 inp [] fb b with
    | error e => exact ⟨e, by simp [bind, Except.bind]⟩
    | ok op =>
      have hout : op.outKeys = [] := (mkTreeFn_fields hm).2.1
      exact ⟨.value, by simp [bind, Except.bind, hout, throw, throwThe, MonadExceptOf.throw]⟩
  · intro w s0 inp
    cases hm : Build.mkTreeFn .sink (some w) s0 inp [.key .self] 0 0 with
    | error e => exact ⟨e, by simp [Build.step, hm, bind, Except.bind]⟩
    | ok op => exact ⟨.type, by simp [Build.step, hm, bind, Except.bind, throw, throwThe, MonadExceptOf.throw]⟩
  · intro hagg sp
    cases sp with
    | aggregate hasFn out => exact ⟨.value, by simp [Build.step, hagg, bind, Except.bind, throw, throwThe, MonadExceptOf.throw]⟩
    | select inp out b => unfold Build.step; exact rejected_bind_add st hagg _
    | apply fn s0 inp out fb b => unfold Build.step; exact rejected_bind_add st hagg _
    | filter fn s0 inp => unfold Build.step; exact rejected_bind_add st hagg _
    | batch n => unfold Build.step; exact rejected_bind_add st hagg _
    | assign keys fn s0 inp fb b =>
      simp only [Build.step]
      generalize (if keys.isEmpty then Build.OutSpec.many [] else keys) = ks
      cases hm : Build.mkTreeFn .assign fn s0 inp ks.normalize fb b with
      | error e => exact ⟨e, by simp [bind, Except.bind]⟩
      | ok op =>
        by_cases he : op.outKeys.isEmpty = true
        · exact ⟨.value, by simp [bind, Except.bind, he, throw, throwThe, MonadExceptOf.throw]⟩
        · cases hck : Build.checkAssignKeys op.outKeys (Build.outputKeys st.fns) with
          | error e => exact ⟨e, by simp [bind, Except.bind, he, hck, pure, Except.pure]⟩
          | ok u => exact ⟨.value, by simp [bind, Except.bind, he, hck, pure, Except.pure, Build.St.add, hagg]⟩
    | sink isSink w s0 inp =>
      cases hm : Build.mkTreeFn .sink (some w) s0 inp [.key .self] 0 0 with
      | error e => exact ⟨e, by simp [Build.step, hm, bind, Except.bind]⟩
      | ok op =>
        cases isSink with
        | false => exact ⟨.type, by simp [Build.step, hm, bind, Except.bind, throw, throwThe, MonadExceptOf.throw]⟩
        | true => exact ⟨.value, by simp [Build.step, hm, bind, Except.bind, Build.St.add, hagg, pure, Except.pure]⟩

/-- **C08_build_rejects_keys.**  Key combinations: a key an earlier operator of the pipeline has
produced cannot be assigned again; `SELF` cannot be mixed with other assign keys (either way round);
`Key.SKIP` cannot be read; `Key.Literal` cannot be written. -/
theorem C08_build_rejects_keys :
    (∀ k existing, existing.any (Build.keyEq k) = true →
        Build.checkAssignKeys [.key k] existing = .error .key) ∧
    (∀ k existing, existing.any (Build.keyEq .self) = true → existing.any (Build.keyEq k) = false →
        Build.checkAssignKeys [.key k] existing = .error .key) ∧
    (∀ existing, existing ≠ [] → Build.checkAssignKeys [.key .self] existing = .error .key) ∧
    (∀ kind fn s0 inp out fb b, Key.skip ∈ inp.normalize.2 →
        ∃ e, Build.mkTreeFn kind fn s0 inp out fb b = .error e) ∧
    (∀ kind fn s0 inp out fb b v, OutKey.key (.lit v) ∈ out →
        ∃ e, Build.mkTreeFn kind fn s0 inp out fb b = .error e) := by
  refine ⟨?_, ?_, ?_, ?_, ?_⟩
  · intro k existing h
    simp [checkAssignKeys_single, h]
  · intro k existing hs hdup
    have hlen : (existing ++ [k]).length > 1 := by
      cases existing with
      | nil => simp at hs
      | cons a as => simp
    have hself : (existing ++ [k]).any (Build.keyEq .self) = true := by simp [hs]
    rw [checkAssignKeys_single]
    simp only [hdup, Bool.false_eq_true, if_false, hself, Bool.true_and, decide_eq_true_eq]
    have hne : existing ≠ [] := by intro h; simp [h] at hs
    simp [hne]
  · intro existing hne
    have hlen : (existing ++ [Key.self]).length > 1 := by
      cases existing with
      | nil => exact absurd rfl hne
      | cons a as => simp
    have hself : (existing ++ [Key.self]).any (Build.keyEq .self) = true := by simp [Build.keyEq]
    rw [checkAssignKeys_single]
    by_cases hdup : existing.any (Build.keyEq .self) = true
    · simp [hdup]
    · simp only [hdup, if_false, hself, Bool.true_and, decide_eq_true_eq]
      simp [hne]
  · intro kind fn s0 inp out fb b hmem
    cases hm : Build.mkTreeFn kind fn s0 inp out fb b with
    | error e => exact ⟨e, rfl⟩
    | ok op =>
      exfalso
      unfold Build.mkTreeFn at hm
      simp only [bind, Except.bind, pure, Except.pure, throw, throwThe, MonadExceptOf.throw] at hm
      split at hm
      · cases hm
      · split at hm
        · cases hm
        · split at hm
          · cases hm
          · rename_i hskip
            apply hskip
            simp only [List.any_eq_true]
            exact ⟨Key.skip, hmem, rfl⟩
  · intro kind fn s0 inp out fb b v hmem
    cases hm : Build.mkTreeFn kind fn s0 inp out fb b with
    | error e => exact ⟨e, rfl⟩
    | ok op =>
      exfalso
      unfold Build.mkTreeFn at hm
      simp only [bind, Except.bind, pure, Except.pure, throw, throwThe, MonadExceptOf.throw] at hm
      split at hm
      · cases hm
      · split at hm
        · cases hm
        · split at hm
          · cases hm
          · split at hm
            · cases hm
            · rename_i hlit
              apply hlit
              simp only [List.any_eq_true]
              exact ⟨OutKey.key (.lit v), hmem, rfl⟩

/-! ## the builder's key-set rule for every key form (dict-form keys included)

An element of `assign_keys` is a key or a **dict-form key** `{record_key: source}`: `record_key` is the
place that is written in the record (any key: a bare string, a `Key` path, `SELF`), `source` the place
that is read in the function's output.  The two sides are unrelated; all of the builder's checks are
about the *record-key* side. -/

/-- **C08_build_rejects_dict.**  For every list of assign keys in every form — plain, several,
dict-form with any source side, `Key` paths, `SELF` — and every set of existing record keys:
1. if one of the record keys it writes (`Build.flatKeys`: for a dict-form key its *keys*) already
   exists, `_check_assign_keys` raises (`KeyError('Duplicate output_keys')`);
2. the written record keys of a dict-form key are exactly its keys, never its sources;
3. the verdict does not depend on the source sides at all: two key lists writing the same record
   keys get the same verdict;
4. `SELF` next to any other key — written or existing, either way round — raises;
5. a key list none of whose record keys exists, with `SELF` nowhere, is accepted — so a dict-form
   key whose *source* happens to be spelled like an existing record key is legal. -/
theorem C08_build_rejects_dict :
    (∀ (ks : List OutKey) (existing : List Key) (k : Key), k ∈ Build.flatKeys ks →
        existing.any (Build.keyEq k) = true → Build.checkAssignKeys ks existing = .error .key) ∧
    (∀ (items : List (Key × Key)) (rest : List OutKey),
        Build.flatKeys (.dict items :: rest) = items.map (·.1) ++ Build.flatKeys rest) ∧
    (∀ (ks ks' : List OutKey) (existing : List Key), Build.flatKeys ks = Build.flatKeys ks' →
        Build.checkAssignKeys ks existing = Build.checkAssignKeys ks' existing) ∧
    (∀ (ks : List OutKey) (existing : List Key) (k : Key),
        (Key.self ∈ Build.flatKeys ks ∨ Key.self ∈ existing) → (k ∈ Build.flatKeys ks ∨ k ∈ existing) →
        k ≠ .self → Build.checkAssignKeys ks existing = .error .key) ∧
    (∀ (ks : List OutKey) (existing : List Key),
        (∀ k ∈ Build.flatKeys ks, existing.any (Build.keyEq k) = false) →
        Key.self ∉ Build.flatKeys ks → Key.self ∉ existing → Build.checkAssignKeys ks existing = .ok ()) :=
  ⟨fun _ _ _ hk hd => checkAssignKeys_dup hk hd, fun _ _ => rfl,
   fun _ _ existing h => checkAssignKeys_congr h existing,
   fun _ _ _ hs hk hne => checkAssignKeys_self hs hk hne,
   fun _ _ hf hs hs' => checkAssignKeys_ok hf hs hs'⟩

/-- **C08_build_keyset** — the reference "set of record keys after each operator" is what the
builder tracks (`TreeTransform.output_keys`): unchanged behind a sink; exactly the operator's own
record keys behind an `apply` / `select` (they replace the record: keys dropped by a `select` are gone);
the old keys plus the operator's record keys behind an `assign` (a `filter` carries the old keys as
book-keeping).  `SKIP` is never a record key; a dict-form key contributes its *keys*
(`C08_build_rejects_dict`, item 2). -/
theorem C08_build_keyset (fns : List Op) (fn : Op) (x : Key) :
    x ∈ Build.outputKeys (fns ++ [fn]) ↔
      if fn.kind = .sink then x ∈ Build.outputKeys fns
      else if fn.kind = .apply ∨ fn.kind = .select then x ∈ Build.flatKeys fn.outKeys ∧ x ≠ .skip
      else (x ∈ Build.outputKeys fns ∨ (x ∈ Build.flatKeys fn.outKeys ∧ x ≠ .skip)) :=
  mem_outputKeys_snoc fns fn

/-- **C08_build_rejects_produced.**  End to end through `TreeTransform.assign`: whatever has been
built before (`st`), whatever the function, the input keys, the batch options and the *form* of the
assign keys: if one of the record keys the call writes is a record key of the pipeline so far
(`Build.outputKeys st.fns` — characterised operator by operator in `C08_build_keyset`), the call is
rejected when the pipeline is built.  (`Key.Literal` keys are rejected for another reason:
`C08_build_rejects_keys`.) -/
theorem C08_build_rejects_produced (st : Build.St) (keys : Build.OutSpec) (fn : Option UFn) (s0 : Nat)
    (inp : Build.InSpec) (fb b : Nat) (k : Key) (hk : k ∈ Build.flatKeys keys.normalize)
    (hex : k ∈ Build.outputKeys st.fns) (hlit : ∀ v, k ≠ .lit v) :
    Rejected (Build.step st (.assign keys fn s0 inp fb b)) := by
  by_cases he : keys.isEmpty = true
  · have := (C08_build_rejects st).2.2.2.2.1 fn s0 inp fb b
    simpa [Build.step, he] using this
  · simp only [Build.step, he, Bool.false_eq_true, if_false]
    cases hm : Build.mkTreeFn .assign fn s0 inp keys.normalize fb b with
    | error e => exact ⟨e, by simp [bind, Except.bind]⟩
    | ok op =>
      have hout : op.outKeys = keys.normalize := (mkTreeFn_fields hm).2.1
      by_cases hemp : op.outKeys.isEmpty = true
      · exact ⟨.value, by simp [bind, Except.bind, hemp, throw, throwThe, MonadExceptOf.throw]⟩
      · have hck : Build.checkAssignKeys op.outKeys (Build.outputKeys st.fns) = .error .key := by
          rw [hout]
          exact checkAssignKeys_dup hk ((any_keyEq_iff hlit).mpr hex)
        exact ⟨.key, by simp [bind, Except.bind, hemp, hck, pure, Except.pure]⟩

/-- **C08_build_accepts_fresh** (no over-rejection): an `assign` whose options are fine
(`mkTreeFn` succeeds), that names at least one key, none of whose record keys exists, with `SELF`
nowhere and no aggregate before it, is accepted, and the builder appends exactly that operator —
whatever the *source* sides of its dict-form keys are. -/
theorem C08_build_accepts_fresh (st : Build.St) (keys : Build.OutSpec) (fn : Option UFn) (s0 : Nat)
    (inp : Build.InSpec) (fb b : Nat) (op : Op) (he : keys.isEmpty = false)
    (hm : Build.mkTreeFn .assign fn s0 inp keys.normalize fb b = .ok op) (hne : keys.normalize ≠ [])
    (hfresh : ∀ k ∈ Build.flatKeys keys.normalize, (Build.outputKeys st.fns).any (Build.keyEq k) = false)
    (hself : Key.self ∉ Build.flatKeys keys.normalize) (hself' : Key.self ∉ Build.outputKeys st.fns)
    (hagg : st.hasAgg = false) :
    Build.step st (.assign keys fn s0 inp fb b) = .ok { st with fns := st.fns ++ [op] } := by
  have hout : op.outKeys = keys.normalize := (mkTreeFn_fields hm).2.1
  have hemp : op.outKeys.isEmpty = false := by
    rw [hout]; cases h : keys.normalize with
    | nil => exact absurd h hne
    | cons _ _ => rfl
  have hck : Build.checkAssignKeys op.outKeys (Build.outputKeys st.fns) = .ok () := by
    rw [hout]; exact checkAssignKeys_ok hfresh hself hself'
  simp [Build.step, he, hm, bind, Except.bind, hemp, hck, Build.St.add, hagg, pure, Except.pure]

/-- **C08_build_index0** (the repair of finding F-C08-index0): `Key.Index(i)` is a key for every `i`
— `Index(0)` included, which is the falsy int `0` — and `''` is a key: "no key given" is the empty
tuple / empty dict only.  So `assign(Key.Index(i), fn=f, input_keys=Key.Index(j))` on a fresh pipeline
is accepted for every `i`, with that one output key. -/
theorem C08_build_index0 (i j : Nat) (f : UFn) (s0 b : Nat) :
    (Build.OutSpec.single (.key (.index i))).isEmpty = false ∧
    (Build.OutSpec.single (.key (.name ""))).isEmpty = false ∧
    Build.step {} (.assign (.single (.key (.index i))) (some f) s0 (.single (.index j)) 0 b) =
      .ok { fns := [{ kind := .assign, inKeys := [.index j], outKeys := [.key (.index i)], fn := f,
                      s0 := s0, batch := b }] } := by
  have h0 : (Build.OutSpec.single (.key (.index i))).isEmpty = false := by
    cases i <;> rfl
  refine ⟨h0, rfl, ?_⟩
  have hck : Build.checkAssignKeys [.key (.index i)] (Build.outputKeys []) = .ok () := by
    rw [checkAssignKeys_single]
    simp [Build.outputKeys, Build.keyEq]
  simp [Build.step, h0, Build.mkTreeFn, Build.InSpec.normalize, Build.OutSpec.normalize, bind, Except.bind,
    pure, Except.pure, hck, Build.St.add]

/-- **C08_build_total_routing.**  For every operator whatsoever — so in particular for every chain the
builder accepts — normalising the function's outputs against the output keys cannot fail: after the
repair of F9 no key combination leads to a key-routing error (`IndexError` on `output_keys[0]`) at
run time.  What can still fail at run time depends on the data: a record without the input keys,
a function whose number of outputs does not match the keys. -/
theorem C08_build_total_routing (op : Op) (v : Val) : ∃ outs, normalizeOutputs op v = .ok outs :=
  ⟨normOuts op v, normalizeOutputs_eq op v⟩

/-! ## non-vacuity: concrete values satisfy the hypotheses, and the conclusions are not trivial -/

/-- `assign('x', fn=lambda a: a + 1, input_keys='a')` with a hand-written function -/
def exAssign : Op :=
  { kind := .assign, inKeys := [.name "a"], outKeys := [.key (.name "x")],
    fn := fun s args _ => (match args with | [.int i] => .ok (.int (i + 1)) | _ => .error .type, s) }

/-- `filter(lambda a: a > 0, input_keys='a')` -/
def exFilter : Op :=
  { kind := .filter, inKeys := [.name "a"], outKeys := [],
    fn := fun s args _ => (match args with | [.int i] => .ok (.bool (decide (i > 0))) | _ => .error .type, s) }

def exSrc : List (Ev Val) := [.ok (.dict [("a", .int 0)]), .ok (.dict [("a", .int 5)]), .ok (.dict [("a", .int 7)])]

example : OpOK exAssign :=
  ⟨⟨rfl, rfl⟩, fun k k' rest h => by simp [exAssign] at h, fun h => by simp [exAssign] at h⟩

example : OpOK exFilter := by
  refine ⟨⟨rfl, rfl⟩, fun k k' rest h => by simp [exFilter] at h, fun _ => ?_⟩
  intro s ins v s' h xs hv
  subst hv
  simp only [callFn, exFilter, List.isEmpty_nil, if_true] at h
  split at h
  · rename_i heq
    simp only [Prod.mk.injEq, Except.ok.injEq] at h
    obtain ⟨hv, _⟩ := h
    subst hv
    split at heq <;> simp at heq
  · simp at h

example : Ref.CleanRun true [exFilter, exAssign] exSrc :=
  cleanRunB_sound _ _ _ (by decide +kernel)

/-- the run is not trivial: two records survive the filter and get the new key -/
example : ((Impl.run true [exFilter, exAssign] exSrc).out.length = 2 ∧
    (Impl.run true [exFilter, exAssign] exSrc).err.isNone = true) := by decide +kernel

/-- `apply(fn=lambda v: [x + 1 for x in v], input_keys='v', output_keys='o', fn_batch_size=2, batch_size=3)` -/
def exBatched : Op :=
  { kind := .apply, inKeys := [.name "v"], outKeys := [.key (.name "o")], fnBatch := 2, batch := 3,
    fn := fun s args _ => (match args with
      | [.list xs] => .ok (.list (xs.map fun x => match x with | .int i => .int (i + 1) | y => y))
      | _ => .error .type, s) }

/-- three incoming column batches of 3, 1 and 2 rows -/
def exColSrc : List (Ev Val) :=
  [.ok (.dict [("v", .list [.int 0, .int 1, .int 2])]), .ok (.dict [("v", .list [.int 3])]),
   .ok (.dict [("v", .list [.int 4, .int 5])])]

/-- the integers of the one column of a record `{key: [..]}` (to read results in the examples) -/
def colInts : Val → List Int
  | .dict [(_, .list xs)] => xs.filterMap fun x => match x with | .int i => some i | _ => none
  | _ => []

/-- the hypothesis of `C08_batched_apply` / `C08_refines_batched_partial` holds for a concrete batched
operator (both skipping modes), also in a chain with an un-batched operator behind it -/
example : BatchedOK true exBatched exBatched.s0 exColSrc :=
  batchedOKB_sound _ _ _ _ (Or.inr rfl) (fun k k' rest h => by simp [exBatched] at h) (by decide +kernel)

example : RunOKG false [exBatched] exColSrc :=
  ⟨by unfold OpOKG
      simp only [exBatched]
      exact batchedOKB_sound _ _ _ _ (Or.inr rfl) (fun k k' rest h => by simp [exBatched] at h) (by decide +kernel), trivial⟩

/-- ... and the conclusion is not trivial: the 6 rows arrive as two records of 3 rows (the function
was called on groups of 2 rows: 3 calls) -/
example : (Impl.run false [exBatched] exColSrc).out.map colInts = [[1, 2, 3], [4, 5, 6]] ∧
    (Impl.run false [exBatched] exColSrc).err = none := by decide +kernel

example : Rebatch.WF 1 ([[Val.list [.int 0, .int 1, .int 2]], [Val.list [.int 3]]].map Ref.asBatch) := by
  decide

/-- `assign('o', fn=lambda v: [x + 1 for x in v], input_keys='v', batch_size=2)` -/
def exAssignB : Op :=
  { kind := .assign, inKeys := [.name "v"], outKeys := [.key (.name "o")], batch := 2,
    fn := fun s args _ => (match args with
      | [.list xs] => .ok (.list (xs.map fun x => match x with | .int i => .int (i + 1) | y => y))
      | _ => .error .type, s) }

/-- three incoming column batches of 2, 2 and 1 rows (aligned for `batch_size = 2`), a skippable failing
read of the source between them -/
def exAlignedSrc : List (Ev Val) :=
  [.ok (.dict [("v", .list [.int 0, .int 1])]), .error { kind := .value },
   .ok (.dict [("v", .list [.int 2, .int 3])]), .ok (.dict [("v", .list [.int 4])])]

/-- the integers of column `k` of a record -/
def intsAt (k : String) (r : Val) : List Int :=
  match getKey r (.name k) with
  | .ok (.list xs) => xs.filterMap fun x => match x with | .int i => some i | _ => none
  | _ => []

/-- the hypothesis of `C08_assign_batched_aligned_partial` holds on it (skipping on: the failing read is
skipped; the last batch is shorter) -/
example : AssignAlignedOK true exAssignB exAlignedSrc :=
  ⟨rfl, rfl, by decide, by decide, fun k k' rest h => by simp [exAssignB] at h,
   alignedCallsB_sound _ _ _ _ (by decide +kernel)⟩

example : RunOKA true [exAssignB] exAlignedSrc :=
  ⟨Or.inr ⟨rfl, rfl, by decide, by decide, fun k k' rest h => by simp [exAssignB] at h,
     alignedCallsB_sound _ _ _ _ (by decide +kernel)⟩, trivial⟩

/-- ... and the conclusion is not trivial: every record keeps its own rows and gets the column computed
from them, the short last one included -/
example :
    (Impl.run true [exAssignB] exAlignedSrc).out.map (fun r => (intsAt "v" r, intsAt "o" r))
      = [([0, 1], [1, 2]), ([2, 3], [3, 4]), ([4], [5])] ∧
    (Impl.run true [exAssignB] exAlignedSrc).err = none := by decide +kernel

/-- the hypothesis fails on the stream of the open finding (one batch of 3 rows, `batch_size = 2`) -/
example : Ref.alignedCallsB false 2 1 (Ref.callOuts exAssignB 0
    [.ok (.dict [("v", .list [.int 0, .int 10, .int 20])])]) = false := by decide +kernel

/-! ### the heap-aware theorem is not true by construction -/

/-- the record `{'x': 1, 'meta': {'id': 5}}` (cell 3; `meta` is cell 2) and the outputs `(10, 'even')`
(cell 6) of a function -/
def exHeap : Tree.Heap :=
  #[.leaf (.int 1), .leaf (.int 5), .dict [(.str "id", 1)], .dict [(.str "x", 0), (.str "meta", 2)],
    .leaf (.int 10), .leaf (.str "even"), .tuple [4, 5]]

/-- `assign(('score', Key().meta.bucket), ..)` -/
def exKeys : List PipeHeap.HKey := [.key [.str "score"], .key [.str "meta", .str "bucket"]]

/-- the code (`copy_and_set` per key): the caller's `meta` dict (cell 2) and record (cell 3) are
unchanged and the new record has a NEW `meta`; the variant "shallow-copy the record once, then set the
keys in place" leaves the record cell alone but WRITES the caller's nested `meta` dict. -/
example :
    (PipeHeap.getOutputsH false exHeap 3 exKeys [4, 5] 6).1[2]? = exHeap[2]? ∧
    (PipeHeap.getOutputsH false exHeap 3 exKeys [4, 5] 6).1[3]? = exHeap[3]? ∧
    (match (PipeHeap.getOutputsH false exHeap 3 exKeys [4, 5] 6) with
     | (h', .ok r) =>
       (match Tree.get h' r [.str "meta"] with | .ok m => m != 2 | _ => false) &&
       (match Tree.get h' r [.str "meta", .str "bucket"] with | .ok b => b == 5 | _ => false)
     | _ => false) = true ∧
    (let (h1, c) := Tree.shallowCopy exHeap 3
     (PipeHeap.getOutputsH true h1 c exKeys [4, 5] 6).1[3]? = exHeap[3]? ∧
     (PipeHeap.getOutputsH true h1 c exKeys [4, 5] 6).1[2]?
       = some (.dict [(.str "id", 1), (.str "bucket", 5)])) := by
  decide +kernel

example : Tree.Closed exHeap := by
  intro r n hn c hc
  have hr : r < 7 := by
    rcases Nat.lt_or_ge r 7 with h | h
    · exact h
    · rw [Array.getElem?_eq_none (by simpa [exHeap] using h)] at hn; cases hn
  have : ∀ r < 7, ∀ n, exHeap[r]? = some n → ∀ c ∈ n.refs, c < 7 := by decide
  exact this r hr n hn c hc

example : Rejected (Build.step {} (.apply none 0 (.single .self) (.single (.key .self)) 2 0)) :=
  (C08_build_rejects {}).1 none 0 _ _ 2 (by decide)

/-- the verdict of a sequence of builder calls as a Boolean (for the examples) -/
def verdict (r : Except ErrKind Build.St) : Option ErrKind × Nat :=
  match r with
  | .error k => (some k, 0)
  | .ok st => (none, st.fns.length)

/-- `assign('bound', ..)` then `assign({'bound': 'hi'}, ..)`: the dict-form key writes the record key
`bound`, which exists — rejected with `KeyError` (an instance of `C08_build_rejects_produced`); also
behind a filter, and with a `Key` path record key `{Key().c.z: 'hi'}` after `assign(Key().c.z)` -/
example :
    verdict (Build.build {} [.assign (.single (.key (.name "bound"))) (some exAssign.fn) 0 (.single (.name "a")) 0 0,
      .assign (.single (.dict [(.name "bound", .name "hi")])) (some exAssign.fn) 0 (.single (.name "a")) 0 0])
      = (some .key, 0) ∧
    verdict (Build.build {} [.assign (.single (.key (.name "bound"))) (some exAssign.fn) 0 (.single (.name "a")) 0 0,
      .filter exFilter.fn 0 (.single (.name "a")),
      .assign (.many [.key (.name "other"), .dict [(.name "bound", .name "hi")]]) (some exAssign.fn) 0 (.single (.name "a")) 0 0])
      = (some .key, 0) ∧
    verdict (Build.build {} [.assign (.single (.key (.path [.name "c", .name "z"]))) (some exAssign.fn) 0 (.single (.name "a")) 0 0,
      .assign (.single (.dict [(.path [.name "c", .name "z"], .name "hi")])) (some exAssign.fn) 0 (.single (.name "a")) 0 0])
      = (some .key, 0) := by
  decide +kernel

/-- `assign('hi', ..)` then `assign({'hi1': 'hi', 'lo1': 'lo'}, ..)`: only a *source* is spelled like an
existing key — legal, accepted (an instance of `C08_build_accepts_fresh`); a `SELF` source is legal too -/
example :
    verdict (Build.build {} [.assign (.single (.key (.name "hi"))) (some exAssign.fn) 0 (.single (.name "a")) 0 0,
      .assign (.single (.dict [(.name "hi1", .name "hi"), (.name "lo1", .name "lo")])) (some exAssign.fn) 0
        (.single (.name "a")) 0 0,
      .assign (.single (.dict [(.name "all", .self)])) (some exAssign.fn) 0 (.single (.name "a")) 0 0])
      = (none, 3) := by
  decide +kernel

/-! ## operators without a function route every value unchanged (round 9)

Vocabulary (`Model/PipeFnless.lean`):
* `op.Fnless` — `select`, `apply` / `assign` without `fn`: `__post_init__` installed `_identity_fn`, no keyword
  input keys;
* `Impl.callAndRoute op s base ins` — what the code does with the selected values `ins` of one record:
  `_maybe_call_fn` (→ `_identity_fn(*ins)`: the argument tuple as a tuple VALUE), `_normalize_outputs` (a tuple
  result is several outputs; re-wrapped for `SELF`), `_get_outputs` (one key for several outputs: the whole tuple;
  otherwise `zip(strict=True)`);
* `Ref.routeValues base keys vals` — the specification, written without any call or tuple packing: as many keys as
  values: value i, as it is, goes where key i says; ONE key for several values: the key receives their tuple;
* `Ref.fnlessEvents` / `Ref.fnlessChain` — `routeValues` behind `getInputs`, lifted to streams and chains.
The values are arbitrary `Val`s: tuples of length 0, 1, the number of keys, nested tuples, lists, `None`, dicts —
nothing in the statements looks at them. -/

/-- **C08_fnless_identity.**  For every operator without a function (`SELF` not the first of several output
keys), every list of output keys of every form, every record the values are routed onto and EVERY list of selected
values — tuples of every length included — calling `_identity_fn`, normalising its result and routing the outputs
is exactly routing the values directly: the value stored under output key i is the value read under input key i
(one key for several values: their tuple), and the function's state is untouched. -/
theorem C08_fnless_identity (op : Op) (hf : op.Fnless) (hs : SelfAlone op) (s : Nat) (base : Val)
    (ins : List Val) :
    Impl.callAndRoute op s base ins = (liftErr (Ref.routeValues base op.outKeys ins), s) :=
  callAndRoute_fnless op hf hs s base ins

/-- the three packing steps, one by one, on the result of `_identity_fn`: the call returns the ARGUMENT TUPLE
(whatever its elements are), `_normalize_outputs` takes exactly that tuple apart again (it never looks inside an
element: a selected 1-tuple stays a 1-tuple), `_get_outputs` stores element i under key i -/
theorem C08_fnless_packing (op : Op) (hf : op.Fnless) (hs : SelfAlone op) (s : Nat) (base : Val)
    (ins : List Val) :
    callFn op s ins = (.ok (.tuple ins), s) ∧
    outputsOf (.tuple ins) = ins ∧
    normalizeOutputs op (.tuple ins) = .ok (normOuts op (.tuple ins)) ∧
    getOutputs op base (normOuts op (.tuple ins)) = Ref.routeValues base op.outKeys ins :=
  ⟨callFn_fnless op hf s ins, rfl, normalizeOutputs_eq op _,
   by rw [getOutputs_normOuts op hs, write_tuple]⟩

/-- **C08_result_packing.**  The packing conventions for the result `v` of a USER function, written out (`SelfAlone`;
`base`: the record for `assign`, `NullMap()` otherwise; `k` a plain key, not dict-form, for the whole-tuple case):
1. a result that is not a tuple is ONE output: with one output key it is stored, as it is, under that key;
2. a tuple result of length ≥ 2 with ONE output key: the key receives the whole tuple;
3. a tuple result with as many output keys (≥ 2) as elements is unzipped: element i goes to key i;
4. a tuple result of length 1 with one output key is ONE output: the ELEMENT is stored (a function that wants to
   store a 1-tuple has to return it wrapped — which is exactly what `_identity_fn` does with the selected values);
5. an empty tuple result with at least one output key raises `ValueError` (`zip(strict=True)`). -/
theorem C08_result_packing (op : Op) (hs : SelfAlone op) (base : Val) :
    (∀ v k, (∀ xs, v ≠ .tuple xs) → op.outKeys = [k] →
      getOutputs op base (normOuts op v) = Ref.routeAll base [k] [v]) ∧
    (∀ a b rest k, op.outKeys = [.key k] →
      getOutputs op base (normOuts op (.tuple (a :: b :: rest))) = Ref.route base (.key k) (.tuple (a :: b :: rest))) ∧
    (∀ xs k k' ks, op.outKeys = k :: k' :: ks →
      getOutputs op base (normOuts op (.tuple xs)) = Ref.routeAll base (k :: k' :: ks) xs) ∧
    (∀ x k, op.outKeys = [k] →
      getOutputs op base (normOuts op (.tuple [x])) = Ref.routeAll base [k] [x]) ∧
    (∀ k ks, op.outKeys = k :: ks →
      getOutputs op base (normOuts op (.tuple [])) = .error .value) := by
  refine ⟨?_, ?_, ?_, ?_, ?_⟩
  · intro v k hv hk
    rw [getOutputs_normOuts op hs]
    have ho : outputsOf v = [v] := by
      unfold outputsOf; split
      · exact absurd rfl (hv _)
      · rfl
    simp [Ref.write, hk, ho]
  · intro a b rest k hk
    rw [getOutputs_normOuts op hs]
    simp [Ref.write, hk]
  · intro xs k k' ks hk
    rw [getOutputs_normOuts op hs]
    simp [Ref.write, hk]
  · intro x k hk
    rw [getOutputs_normOuts op hs]
    simp [Ref.write, hk]
  · intro k ks hk
    rw [getOutputs_normOuts op hs]
    cases ks <;> simp [Ref.write, hk, Ref.routeAll]

/-- **C08_fnless_readback.**  Read-back on dict records: routing the values `vals` to as many distinct plain
names (onto a dict record — `assign` — or into a new record — `select` / `apply`) succeeds and yields a dict in
which name i reads EXACTLY `vals[i]` (no hypothesis on the values: `vals[i]` may be a tuple of length 0 / 1 / n);
onto a dict record every other name reads as before. -/
theorem C08_fnless_readback (names : List String) (vals : List Val) (hn : names.Nodup)
    (hl : names.length = vals.length) :
    (∀ kvs, ∃ kvs', Ref.routeValues (.dict kvs) (names.map fun n => OutKey.key (.name n)) vals = .ok (.dict kvs') ∧
      (∀ i (h1 : i < names.length) (h2 : i < vals.length), lookup names[i] kvs' = some vals[i]) ∧
      (∀ m, m ∉ names → lookup m kvs' = lookup m kvs)) ∧
    (names ≠ [] → ∃ kvs', Ref.routeValues .null (names.map fun n => OutKey.key (.name n)) vals = .ok (.dict kvs') ∧
      (∀ i (h1 : i < names.length) (h2 : i < vals.length), lookup names[i] kvs' = some vals[i]) ∧
      (∀ m, m ∉ names → lookup m kvs' = none)) := by
  have hrv : ∀ base, Ref.routeValues base (names.map fun n => OutKey.key (.name n)) vals
      = Ref.routeAll base (names.map fun n => OutKey.key (.name n)) vals := by
    intro base
    unfold Ref.routeValues
    rcases names with _ | ⟨n, _ | ⟨n', ns⟩⟩
    · rfl
    · rcases vals with _ | ⟨v, _ | ⟨v', vs⟩⟩
      · rfl
      · rfl
      · simp at hl
    · rfl
  have hd : ∀ kvs, ∃ kvs', Ref.routeAll (.dict kvs) (names.map fun n => OutKey.key (.name n)) vals = .ok (.dict kvs') ∧
      (∀ i (h1 : i < names.length) (h2 : i < vals.length), lookup names[i] kvs' = some vals[i]) ∧
      (∀ m, m ∉ names → lookup m kvs' = lookup m kvs) := by
    intro kvs
    obtain ⟨k, hk⟩ := assignFlat_some kvs names vals hl
    refine ⟨k, by rw [routeAll_flat, hk], assignFlat_values kvs names vals hn k hk, ?_⟩
    exact (assignFlat_frame kvs names vals k hk).1
  refine ⟨fun kvs => by rw [hrv]; exact hd kvs, fun hne => ?_⟩
  rw [hrv, routeAll_null_names names vals hne]
  obtain ⟨k, h1, h2, h3⟩ := hd []
  exact ⟨k, h1, h2, fun m hm => by rw [h3 m hm]; rfl⟩

/-- one plain name for several values: the name reads the tuple of the values, every other name as before -/
theorem C08_fnless_readback_tuple (n : String) (a b : Val) (rest : List Val) (kvs : List (String × Val)) :
    ∃ kvs', Ref.routeValues (.dict kvs) [.key (.name n)] (a :: b :: rest) = .ok (.dict kvs') ∧
      lookup n kvs' = some (.tuple (a :: b :: rest)) ∧ (∀ m, m ≠ n → lookup m kvs' = lookup m kvs) := by
  refine ⟨upsert n (.tuple (a :: b :: rest)) kvs, ?_, ?_, ?_⟩
  · simp [Ref.routeValues, Ref.route, setKey, setPath_dict_name]
  · rw [lookup_upsert]; simp
  · intro m hm; rw [lookup_upsert]; simp [hm]

/-- `SELF` as the FIRST OF SEVERAL output keys of an operator without a function (the builder rejects it for
`assign` only): `_normalize_outputs` wraps the outputs into one, `zip(strict=True)` then raises — every record whose
values can be read ends in `ValueError`, whatever the values.  (The counterpart of the hypothesis `SelfAlone` of
`C08_fnless_identity`: together the two theorems cover every key list.) -/
theorem C08_fnless_self_mixed_raises (op : Op) (hf : op.Fnless) (hm : selfMixedB op = true) (s : Nat)
    (base : Val) (ins : List Val) :
    Impl.callAndRoute op s base ins = (.error { kind := .value }, s) :=
  callAndRoute_selfMixed op hf hm s base ins

/-- **C08_fnless_stream.**  The reference of the refinement theorems (`Ref.opEvents`: `semCall` / `semWrite`, i.e.
call + `outputsOf` + `Ref.write`), for an operator without a function, IS the direct specification
`Ref.fnlessEvents` (read the values, `routeValues`), for every stream, both skipping modes, every state. -/
theorem C08_fnless_stream (ignore : Bool) (op : Op) (hf : op.Fnless)
    (hk : op.kind = .select ∨ op.kind = .apply ∨ op.kind = .assign) (s : Nat) (src : List (Ev Val)) :
    Ref.opEvents ignore op s src = Ref.fnlessEvents ignore op src :=
  opEvents_fnless ignore op hf hk s src

/-- **C08_fnless_chain.**  What the caller of the real runner observes for a chain of un-batched `select`s and
`apply`s / `assign`s without `fn` is the direct specification: every record's values, read under the input keys,
stored unchanged under the output keys, operator after operator.  (Through `C08_refines_partial`; with skipping
off `CleanRun` is vacuous.) -/
theorem C08_fnless_chain (ignore : Bool) (ops : List Op) (hops : ∀ op ∈ ops, OpOK op)
    (hf : ∀ op ∈ ops, op.Fnless ∧ (op.kind = .select ∨ op.kind = .apply ∨ op.kind = .assign))
    (src : List (Ev Val)) (hc : Ref.CleanRun ignore ops src) :
    ((Impl.run ignore ops src).out, (Impl.run ignore ops src).err)
      = observe (Ref.fnlessChain ignore ops src) := by
  rw [C08_refines_partial ignore ops hops src hc, chainEvents_fnless ignore ops hf]

/-- **C08_fnless_chain_any_source.**  The same over ANY source and with NO `CleanRun` condition (through
`C08_refines_assign_aligned_partial`, i.e. the repaired `processed_with_inputs`): for every chain of un-batched
operators without functions in which `SELF` is never the first of several output keys, every finite stream of source
outcomes — failing reads at any position, of any kind — and both skipping modes, what the caller of the real runner
observes is `Ref.fnlessChainS`: every operator leaves out the skippable errors passed on to it and routes the values
of every remaining record unchanged.  The hypotheses are properties of the KEY LISTS only; nothing is assumed of the
values. -/
theorem C08_fnless_chain_any_source (ignore : Bool) (ops : List Op)
    (hf : ∀ op ∈ ops, op.Fnless ∧ (op.kind = .select ∨ op.kind = .apply ∨ op.kind = .assign))
    (hb : ∀ op ∈ ops, (op.fnBatch = 0 ∧ op.batch = 0) ∧ SelfAlone op) (src : List (Ev Val)) :
    ((Impl.run ignore ops src).out, (Impl.run ignore ops src).err)
      = observe (Ref.fnlessChainS ignore ops src) := by
  have hok : ∀ op ∈ ops, OpOK op := fun op hm => opOK_fnless op (hb op hm).1 (hb op hm).2 (hf op hm).2
  rw [C08_refines_assign_aligned_partial ignore ops src (runOKA_of_opOK ignore ops hok src),
    chainEventsS_fnless ignore ops hf]

/-- **C08_fnless_batched.**  With batch sizes an operator without a function (first output key not `SELF`) only
REGROUPS: the "calls" hand every group of columns on as it is (`callGroups` is the identity on the groups), so the
output columns are the selected input columns regrouped to `fn_batch_size` and then to `batch_size` rows —
whatever the rows are (a row that is a 1-tuple stays a 1-tuple). -/
theorem C08_fnless_batched (ignore : Bool) (op : Op) (hf : op.Fnless) (hns : FirstNotSelf op) (s : Nat)
    (src : List (Ev Val)) :
    (∀ tail gs, Ref.callGroups ignore op tail s gs = (gs, tail)) ∧
    Ref.batchedCols ignore op s src
      = Ref.regroup op.batch op.outKeys.length
          (Ref.regroup op.fnBatch op.inKeys.length
            (observe (Ref.skipNT ignore (mapEv (fun r => liftErr (getInputs op r)) src)))) := by
  refine ⟨fun tail gs => callGroups_fnless ignore op hf hns tail s gs, ?_⟩
  simp only [Ref.batchedCols, callGroups_fnless ignore op hf hns]

/-- non-vacuity + a test of the statement on the values of the seeded regression C08-m3: `select('a')`,
`select(('a','b'), output_keys='x')`, `assign('y', input_keys='a')` on records whose values are tuples of length 1,
0, 2 and a nested 1-tuple -/
def exSelect (ins : List Key) (outs : List OutKey) (kind : OpKind := .select) : Op :=
  { kind := kind, inKeys := ins, outKeys := outs, fn := identityFn }

example : (exSelect [.name "a"] [.key (.name "a")]).Fnless ∧ SelfAlone (exSelect [.name "a"] [.key (.name "a")]) :=
  ⟨⟨rfl, rfl⟩, fun k k' rest h => by simp [exSelect] at h⟩

example :
    (Impl.callAndRoute (exSelect [.name "a"] [.key (.name "a")]) 0 .null [.tuple [.int 5]]).1
      = .ok (.dict [("a", .tuple [.int 5])]) ∧
    (Impl.callAndRoute (exSelect [.name "a"] [.key (.name "a")]) 0 .null [.tuple []]).1
      = .ok (.dict [("a", .tuple [])]) ∧
    (Impl.callAndRoute (exSelect [.name "a"] [.key (.name "x")]) 0 .null [.tuple [.tuple [.int 7, .int 8]]]).1
      = .ok (.dict [("x", .tuple [.tuple [.int 7, .int 8]])]) ∧
    (Impl.callAndRoute (exSelect [.name "a", .name "b"] [.key (.name "x")]) 0 .null [.tuple [.int 5], .none]).1
      = .ok (.dict [("x", .tuple [.tuple [.int 5], .none])]) ∧
    (Impl.callAndRoute (exSelect [.name "a"] [.key (.name "y")] .assign) 0 (.dict [("a", .tuple [.int 5])])
        [.tuple [.int 5]]).1
      = .ok (.dict [("a", .tuple [.int 5]), ("y", .tuple [.int 5])]) ∧
    (Impl.callAndRoute (exSelect [.self] [.key .self] .apply) 0 .null [.tuple [.int 5]]).1
      = .ok (.tuple [.int 5]) :=
  ⟨rfl, rfl, rfl, rfl, rfl, rfl⟩

end MlModel.C08
