import MlModel.Lemmas.Pipe
/-!
# C08 — pipeline operators route data exactly as a reference interpreter

Vocabulary (all in `Model/Pipe.lean`, `Model/Iter.lean`):
* `Impl.run ignore ops src` — the implementation model of `list(pipeline.make().iterate(data,
  ignore_error=ignore))`: `ops` are the `TreeFn`s the builder produced, `src` the outcomes of the data
  source (per element: the element or the error reading it raised);
* `Ref.chainEvents ignore ops src` — the reference: `Ref.semCall`/`Ref.semWrite` (one record through
  one operator) lifted to streams, operator after operator; `observe` = what a caller sees;
* `OpOK op` — no batch sizes, `SELF` is not the first of several output keys, a predicate never
  returns a tuple;
* `Ref.CleanRun ignore ops src` — no skippable error is *passed on* between operators (vacuous
  with skipping off: `cleanRun_false`).
-/
namespace MlModel.C08
open MlModel.Pipe MlModel.Iter

/-- **C08_refines.**  For every chain of un-batched operators, every key shape, every user function
(with private state), every finite stream of source outcomes and both skipping modes: what the
caller of the real runner observes — outputs in order, then the first error if any — is what the
reference interpreter produces. -/
theorem C08_refines (ignore : Bool) (ops : List Op) (hops : ∀ op ∈ ops, OpOK op)
    (src : List (Ev Val)) (hc : Ref.CleanRun ignore ops src) :
    ((Impl.run ignore ops src).out, (Impl.run ignore ops src).err)
      = observe (Ref.chainEvents ignore ops src) := by
  simp only [Impl.run, topEvents_spec ignore ops hops src hc]

/-- with skipping off there is no side condition on the run -/
theorem C08_refines_noskip (ops : List Op) (hops : ∀ op ∈ ops, OpOK op) (src : List (Ev Val)) :
    ((Impl.run false ops src).out, (Impl.run false ops src).err)
      = observe (Ref.chainEvents false ops src) :=
  C08_refines false ops hops src (cleanRun_false ops src)

end MlModel.C08
