import MlModel.Model.Lazy
import MlModel.Model.Lru
namespace MlModel.C17
open MlModel.Lru

/-- placeholder while the harness is brought up (replaced by the real theorems) -/
theorem C17_lru_clear {κ ν : Type} (c : Cache κ ν) : c.clear.data = [] := rfl

end MlModel.C17
