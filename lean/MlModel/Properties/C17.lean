import MlModel.Lemmas.LazyProto
import MlModel.Lemmas.LazyPickle
import MlModel.Lemmas.LruHist
/-!
# C17 — lazy expressions evaluate to what the eager expression would

Models: `Model/Lazy.lean` (traced expressions, `maybe_make`, the two bounded caches, pickling),
`Model/Lru.lean` (`func_utils.LruCache` as coded + the textbook LRU it is compared with).

Vocabulary
* `e.Plain`  – `e` has an eager counterpart: no `lazy_result_` flag, no handle leaf, no `LazyFn`
               without a function.  (`lazy_result_` results are handles; their behaviour is the
               subject of `C17_missing*` / `C17_lazy_root`.)
* `e.Pure`   – no leaf is the stateful `counter` (nor a handle).
* `Sound c`  – every entry of the `LazyFn` cache holds the (world-independent) eager value of its key;
               true of the empty cache and preserved by every theorem below that returns it.
* `Good s`   – representation invariant of the evaluator state: both `LruCache`s satisfy
               `Lru.Inv` (counter = length, distinct keys, length ≤ maxsize) and every handle id in
               the object cache is below the id counter.
* values carry an object reference (`RVal = Val × Nat`): equal references = identical object (`is`).
-/
namespace MlModel.C17
open MlModel.Lazy MlModel.Lru
set_option linter.unusedSimpArgs false

/-! ## C17_eval — materialising = evaluating eagerly (pure callables, every flag combination) -/

/-- For every expression over pure callables, with any nesting and any `cache_result_` flags, from any
state whose cache is sound and against the eager evaluation started in **any** world: `maybe_make e`
returns the eager value or raises the same error — directly and after a pickle round trip — and
leaves the cache sound. -/
theorem C17_eval (e : Expr) (s : St) (hplain : e.Plain) (hpure : e.Pure) (hs : Sound s.fnc) (w : World) :
    (maybeMake e s).1.map (·.1) = (eager e w).1.map (·.1) ∧
    (maybeMakePickled e s).1.map (·.1) = (eager e w).1.map (·.1) ∧
    Sound (maybeMake e s).2.fnc ∧ Sound (maybeMakePickled e s).2.fnc := by
  have hb := noLazy_badFlags e hplain.2
  have h := eval_sound e s hpure hplain.2 hs
  simp only [maybeMake, maybeMakePickled, hb, Bool.false_eq_true, if_false, Expr.loads_dumps]
  exact ⟨h.1 w, h.1 w, h.2, h.2⟩

/-- The soundness invariant holds initially and survives `clear_cache`, so `C17_eval` applies to
every make of every history of makes and clears. -/
theorem C17_eval_invariant (fnMax objMax : Nat) (s : St) :
    Sound (St.init fnMax objMax).fnc ∧ (Sound s.fnc → Sound (clearCache s).2.fnc) ∧
    (Sound s.fnc → Sound (clearObject s).2.fnc) :=
  ⟨sound_empty _, fun _ => sound_clear _, fun h => h⟩

/-- Pickling is a faithful structural copy: `loads (dumps e) = e` (a handle travels as its id). -/
theorem C17_pickle_roundtrip (e : Expr) : e.dumps.loads = e := Expr.loads_dumps e

/-! ## C17_fresh — without caching every materialisation evaluates afresh -/

/-- Without any `cache_result_` flag, `maybe_make e` **is** the eager evaluation as a transformer of the
world: same value, same object identity, same call log, same stateful counter — also for stateful
callables — and it touches neither cache. -/
theorem C17_fresh (e : Expr) (s : St) (hplain : e.Plain) (hnc : e.noCache = true) :
    maybeMake e s = ((eager e s.w).1, s.withW (eager e s.w).2) ∧
    maybeMakePickled e s = ((eager e s.w).1, s.withW (eager e s.w).2) := by
  have hb := noLazy_badFlags e hplain.2
  simp only [maybeMake, maybeMakePickled, hb, Bool.false_eq_true, if_false, Expr.loads_dumps]
  exact ⟨eval_fresh e s hplain.1 hplain.2 hnc, eval_fresh e s hplain.1 hplain.2 hnc⟩

/-- Call counts: a successful uncached materialisation of a first-order expression enters exactly the
callables of its call nodes, one entry per call node, in evaluation order (arguments left to right,
then keyword arguments, then the call); so two materialisations call each callable twice per node. -/
theorem C17_fresh_calls (e : Expr) (s s' : St) (r : RVal) (hplain : e.Plain) (hnc : e.noCache = true)
    (hfo : e.firstOrder = true) (h : maybeMake e s = (.ok r, s')) :
    s'.w.log = s.w.log ++ e.callNames ∧
    ∀ n, s'.w.log.count n = s.w.log.count n + e.callNames.count n := by
  rw [(C17_fresh e s hplain hnc).1] at h
  injection h with h1 h2
  have hl := eager_log e s.w (eager e s.w).2 r hfo (by rw [← h1])
  subst h2
  refine ⟨hl, fun n => ?_⟩
  simp only [St.withW_w, hl, List.count_append]

/-! ## C17_cached — a cached call evaluates once and then returns the identical object -/

/-- Hit: whenever the key of a `cache_result_` call is in the cache, `maybe_make` returns exactly the
stored object (value *and* reference) and changes nothing but the cache's recency order and hit
counter: no callable runs, the call log and the counter are untouched. -/
theorem C17_cached_hit (f : Expr) (as : List Expr) (ks : List (String × Expr)) (l : Bool) (s : St) (rv : RVal)
    (h : find? s.fnc.data (Expr.call f as ks true l).key = some rv) :
    eval (.call f as ks true l) s =
      (.ok rv, { s with fnc := (s.fnc.getitem (Expr.call f as ks true l).key).2 }) :=
  eval_cached_hit h

/-- Store: a successful make of a cached call (capacity ≥ 1) leaves its result in the cache under
the call's key — whatever was evaluated in between. -/
theorem C17_cached_store (f : Expr) (as : List Expr) (ks : List (String × Expr)) (l : Bool) (s s' : St)
    (rv : RVal) (hg : Good s) (hm : 1 ≤ s.fnc.maxsize) (h : eval (.call f as ks true l) s = (.ok rv, s')) :
    find? s'.fnc.data (Expr.call f as ks true l).key = some rv :=
  eval_cached_store hg hm h

/-- Once, then identical: after a successful make of a cached call, making it again returns the
identical object and calls nothing (the world is unchanged) — and so does every later make as long
as the key is still present (`C17_cached_hit`), i.e. until `clear_cache` or LRU eviction. -/
theorem C17_cached (f : Expr) (as : List Expr) (ks : List (String × Expr)) (l : Bool) (s s' : St)
    (rv : RVal) (hg : Good s) (hm : 1 ≤ s.fnc.maxsize) (h : eval (.call f as ks true l) s = (.ok rv, s')) :
    (eval (.call f as ks true l) s').1 = .ok rv ∧ (eval (.call f as ks true l) s').2.w = s'.w := by
  rw [eval_cached_hit (eval_cached_store hg hm h)]
  exact ⟨rfl, rfl⟩

/-- After `clear_cache` (or an eviction: whenever the key is absent) the call is evaluated again: the
body runs from the state with the miss counted and its result is stored. -/
theorem C17_cached_miss (f : Expr) (as : List Expr) (ks : List (String × Expr)) (l : Bool) (s : St)
    (h : find? s.fnc.data (Expr.call f as ks true l).key = none) :
    eval (.call f as ks true l) s =
      (do let r ← callBody f as ks l
          fncSet (Expr.call f as ks true l).key r
          pure r : M RVal) { s with fnc := (s.fnc.getitem (Expr.call f as ks true l).key).2 } :=
  eval_cached_miss h

theorem C17_cached_cleared (k : Expr) (s : St) : find? (clearCache s).2.fnc.data k = none := rfl

/-! ## C17_lru — the bounded cache is a textbook LRU -/

/-- For **every** history of raw operations (`__getitem__`, `__setitem__`, `cache_clear`) the
representation invariant holds: `len` = number of entries ≤ `maxsize`, keys distinct. -/
theorem C17_lru_inv {κ ν : Type} [DecidableEq κ] (c : Cache κ ν) (h : Inv c) (ops : List (Op κ ν)) :
    (c.run ops).currsize = (c.run ops).data.length ∧ (keysOf (c.run ops).data).Nodup ∧
    (c.run ops).data.length ≤ c.maxsize := by
  have := inv_run h ops
  exact ⟨this.size, this.nodup, by rw [← run_maxsize c ops]; exact this.bound⟩

/-- Refinement: on every history that respects the protocol the wrappers follow (a key is inserted
only when it is absent: after a miss, or a fresh handle id) the entry list of `LruCache` equals, step
by step, the entry list of the textbook LRU of capacity `maxsize`. -/
theorem C17_lru {κ ν : Type} [DecidableEq κ] (c : Cache κ ν) (h : Inv c) (ops : List (Op κ ν))
    (hr : Respects c ops) : (c.run ops).data = Spec.run c.maxsize c.data ops :=
  run_refines h ops hr

/-- History form: after any sequence of accesses through the `_maybe_lru_cache` pattern (look up, on
a miss compute and insert) the keys held are exactly the `maxsize` most recently used distinct keys,
least recently used first — eviction is in least-recently-used order. -/
theorem C17_lru_history {κ ν : Type} [DecidableEq κ] (maxsize : Nat) (compute : κ → ν) (hist : List κ) :
    ((empty maxsize : Cache κ ν).accessAll compute hist).keys = Spec.lruKeys maxsize hist := by
  have h := accessAll_isLast (inv_empty maxsize) compute [] hist
    ⟨[], by simp [Spec.recency, empty], by simp [empty], Or.inl rfl⟩
  simp only [List.nil_append] at h
  exact isLast_eq_drop h.1

/-- The raw `__setitem__` on a key that is already present, as coded (reachable through
`lru_cache(..)(fn)(…, cache_insert_=True)`): the value is replaced, the entry keeps its place in the
eviction order (no refresh), nothing is evicted. -/
theorem C17_lru_overwrite_raw {κ ν : Type} [DecidableEq κ] (c : Cache κ ν) (h : Inv c) (k : κ) (v : ν)
    (hk : k ∈ keysOf c.data) :
    (c.setitem k v).data = c.data.map (fun p => if p.1 == k then (k, v) else p) ∧
    keysOf (c.setitem k v).data = keysOf c.data ∧ Inv (c.setitem k v) :=
  setitem_present h v hk

/-- …which is where the code is *not* the textbook LRU: overwrite `1`, then insert `3` with capacity 2 —
the code evicts the overwritten key `1`, the textbook cache would evict `2`. -/
theorem C17_lru_overwrite_witness :
    (((empty 2 : Cache Nat Nat).run [.set 1 10, .set 2 20, .set 1 11, .set 3 30]).keys = [2, 3]) ∧
    (Spec.run 2 ([] : List (Nat × Nat)) [.set 1 10, .set 2 20, .set 1 11, .set 3 30]).map (·.1) = [1, 3] := by
  decide

/-- Inside the evaluator both caches keep the invariant and their bounds, for every expression
(handles, nested `lazy_result_`, errors included). -/
theorem C17_lru_in_eval (e : Expr) (s : St) (hg : Good s) :
    Good (maybeMake e s).2 ∧ (maybeMake e s).2.fnc.data.length ≤ s.fnc.maxsize ∧
    (maybeMake e s).2.obj.data.length ≤ s.obj.maxsize := by
  unfold maybeMake
  split
  · exact ⟨hg, hg.fnc.bound, hg.obj.bound⟩
  · obtain ⟨g, x⟩ := pres_eval e s hg
    exact ⟨g, by rw [← x.fmax]; exact g.fnc.bound, by rw [← x.omax]; exact g.obj.bound⟩

/-- The protocol is not an assumption about the evaluator but a theorem: for every expression (any
nesting, flags, handles, errors) `maybe_make` drives **both** caches only through steps of the textbook
LRU of their capacity (`TB`: look-ups, and insertions of keys that are absent) — `LazyFn.result_`'s
cache inserts only after a miss of the same key that nested evaluations cannot have filled, the
object cache only fresh ids.  Hence the cache contents inside the evaluator are textbook-LRU contents
(`C17_lru` / `C17_lru_history` apply), not only bounded. -/
theorem C17_lru_protocol (e : Expr) (s : St) (hg : Good s) :
    TB s.fnc.maxsize s.fnc.data (maybeMake e s).2.fnc.data ∧
    TB s.obj.maxsize s.obj.data (maybeMake e s).2.obj.data := by
  unfold maybeMake
  split
  · exact ⟨TB.refl _, TB.refl _⟩
  · have := proto_eval e s hg
    exact ⟨this.fnc, this.obj⟩

/-! ## C17_missing — a handle that is no longer held raises the dedicated error, never a value -/

/-- Dereferencing a handle whose id is not in the object cache (evicted, cleared, other process)
raises `LazyObjectMissingError`; only the miss counter changes. -/
theorem C17_missing (id : Nat) (s : St) (h : id ∉ keysOf s.obj.data) :
    maybeMake (.const (.handle id)) s =
      (.error .missing, { s with obj := { s.obj with misses := s.obj.misses + 1 } }) := by
  simp only [maybeMake, Expr.badFlags, Bool.false_eq_true, if_false, eval_handle]
  exact objGet_missing h

theorem C17_missing_after_clear (id : Nat) (s : St) :
    (maybeMake (.const (.handle id)) (clearObject s).2).1 = .error .missing := by
  rw [C17_missing id _ (by simp [clearObject, Cache.clear])]

/-- Never a wrong value (1): if a dereference returns, it returns the object stored under that id. -/
theorem C17_missing_never_wrong (id : Nat) (s s' : St) (rv : RVal)
    (h : maybeMake (.const (.handle id)) s = (.ok rv, s')) : find? s.obj.data id = some rv := by
  simp only [maybeMake, Expr.badFlags, Bool.false_eq_true, if_false, eval_handle] at h
  exact objGet_ok h

/-- Never a stale value (2): whatever is evaluated, the object an existing handle id stands for never
changes — the id either still maps to the same object or is gone (ids are never reused). -/
theorem C17_handle_stable (e : Expr) (s : St) (hg : Good s) (id : Nat) (hid : id < s.nextId) (rv : RVal)
    (h : find? s.obj.data id = some rv) :
    find? (maybeMake e s).2.obj.data id = some rv ∨ find? (maybeMake e s).2.obj.data id = none := by
  unfold maybeMake
  split
  · exact Or.inl h
  · obtain ⟨_, x⟩ := pres_eval e s hg
    cases hf : find? (eval e s).2.obj.data id with
    | none => exact Or.inr rfl
    | some rv' =>
      have := x.old id hid rv' hf
      rw [h] at this
      injection this with this
      subst this
      exact Or.inl rfl

/-- `lazy_result_`: a new handle (object capacity ≥ 1) can be dereferenced and yields exactly the
object it was created for. -/
theorem C17_lazy_root (r : RVal) (s : St) (hg : Good s) (hm : 1 ≤ s.obj.maxsize) :
    (newHandle r s).1 = .ok (.handle s.nextId, s.w.alloc) ∧
    (maybeMake (.const (.handle s.nextId)) (newHandle r s).2).1 = .ok r := by
  have := newHandle_then_deref (r := r) hg hm
  simp only [maybeMake, Expr.badFlags, Bool.false_eq_true, if_false, eval_handle]
  exact this

/-! ## Non-vacuity: concrete instances of the hypotheses and of the behaviours -/

/-- `add(1, mul(2, b=3))` with the outer call cached -/
def ex1 : Expr :=
  .call (.traced (.fn "add") false)
    [.const (.int 1), .call (.traced (.fn "mul") false) [.const (.int 2)] [("b", .const (.int 3))] false false]
    [] true false

/-- `pair(counter(), 5)`, cached -/
def ex2 : Expr :=
  .call (.traced (.fn "pair") false) [.call (.traced (.fn "counter") false) [] [] false false, .const (.int 5)]
    [] true false

def s0 : St := St.init 2 2

example : ex1.Plain ∧ ex1.Pure := by decide
example : Good s0 ∧ Sound s0.fnc := ⟨good_init 2 2, sound_empty 2⟩
example : (maybeMake ex1 s0).1 = .ok (.int 7, 0) := by decide
example : (eager ex1 {}).1 = .ok (.int 7, 0) := by decide
-- stateful + cached: evaluated once (counter = 1 both times, same reference 1, one `counter` call)
example : (maybeMake ex2 s0).1 = .ok (.tup [.int 1, .int 5], 1) := by decide
example : (maybeMake ex2 (maybeMake ex2 s0).2).1 = .ok (.tup [.int 1, .int 5], 1) := by decide
example : (maybeMake ex2 (maybeMake ex2 s0).2).2.w.log = ["counter", "pair"] := by decide
-- after clear_cache it is evaluated again: a new object, the counter moved on
example : (maybeMake ex2 (clearCache (maybeMake ex2 s0).2).2).1 = .ok (.tup [.int 2, .int 5], 2) := by decide
-- uncached: every make calls
example : (match ex2 with | .call f a k _ l => Expr.call f a k false l | e => e).noCache = true := by decide
-- handle: lazy_result_, dereference, clear, missing
example : (maybeMake (.traced (.int 9) true) s0).1 = .ok (.handle 0, 1) := by decide
example : (maybeMake (.const (.handle 0)) (maybeMake (.traced (.int 9) true) s0).2).1 = .ok (.int 9, 0) := by decide
example : (maybeMake (.const (.handle 0)) s0).1 = .error .missing := by decide
-- both flags are refused at trace time
example : (maybeMake (.call (.traced (.fn "pair") false) [] [] true true) s0).1 = .error (.py .value) := by decide
-- a history that respects the protocol, and one that evicts
example : Respects (empty 2 : Cache Nat Nat) [.set 1 10, .get 1, .set 2 20, .get 3, .set 3 30] := by
  simp only [Respects]; decide
example : ((empty 2 : Cache Nat Nat).accessAll (fun k => k * 10) [1, 2, 1, 3]).keys = [1, 3] := by decide

end MlModel.C17
