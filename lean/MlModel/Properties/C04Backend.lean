import MlModel.Lemmas.QueueBackendRefine
import MlModel.Generated.QueueExc
import MlModel.Properties.C04Live
/-!
# C04 — the queue BACKEND is a constructor parameter: the LTS holds for every backend the constructors accept

`Model/QueueBackend.lean` states the contract the LTS of `Model/Queue.lean` assumes of the buffer (`Backend.Contract`:
an atomic FIFO with capacity that raises ITS OWN Full exactly on a full buffer, ITS OWN Empty exactly on an empty one,
and nothing else) with the three CPython backends as instances, and the three steps that look at exception classes
UN-FUSED (`pPutCode`, `nGetCode`, `afterRaiseCode`: backend call, clause dispatch by class over a `Handlers` table,
body of the clause; an exception no clause claims ESCAPES — the LTS has no such step).

Proved here
* for ANY backend meeting the contract and ANY handler table that routes its classes (`classified`): every step over
  the backend IS the LTS step (`C04_backend_step_refines`), the reachable configurations are the LTS's
  (`C04_backend_reachable_iff`), no exception of the backend ever escapes (`C04_backend_never_escapes`), and hence
  the C04 theorems hold over the backend (`C04_backend_exactly_once`, `C04_backend_no_deadlock`);
* the routing is NECESSARY: a Full that `put`'s clauses do not route to "park and retry" escapes `put` on a full
  buffer (`C04_backend_full_must_park`), an Empty that `get_nowait`'s clauses do not route to the exhaustion checks
  escapes on an empty buffer (`C04_backend_empty_must_be_checked`);
* for the table READ OFF THE SOURCE on every run (`Generated/QueueExc.lean`, written by `translate/queue_exc.py` from
  the `except` clauses of `put` / `get` / `get_batch` / `get_nowait` and from `_default_queue`): every Full of every
  CPython backend is handled as full, every Empty as empty, nothing else is (`C04_backend_*_parks`, `*_is_empty`,
  `C04_backend_nothing_else_is_empty`, by `decide`), so `C04_backend_python_refines`; and the backends the constructors
  build from an int are contract instances that accept that capacity (`C04_backend_defaults`).
A wrong class in one of the tuples (seeded regression C04-m5: `asyncio.QueueEmpty` where `asyncio.QueueFull` belongs)
breaks `C04_backend_asyncio_QueueFull_parks` by name; `Witness/C04Backend.lean` shows what then happens.
-/
namespace MlModel.C04
open MlModel.Queue MlModel.QueueBackend
open MlModel.Generated.QueueExc (handlers defaultSync defaultAsync)

variable {cap maxEnq : Nat} {to ig : Bool} {progs : List Prog} {c c0 : Cfg} {H : Handlers} {b : Backend}

/-! ## 1. The contract and its three CPython instances -/

/-- `queue.Queue`, `queue.SimpleQueue` and `asyncio.Queue` (operations written as CPython's) meet the contract the LTS
assumes: FIFO, capacity, their own Full / Empty, nothing else. -/
theorem C04_backend_contracts : ∀ b ∈ pythonBackends, b.Contract := by
  intro b hb
  simp only [pythonBackends, List.mem_cons, List.mem_nil_iff, or_false] at hb
  rcases hb with rfl | rfl | rfl
  · exact stdQueue_contract
  · exact simpleQueue_contract
  · exact asyncioQueue_contract

/-! ## 2. Refinement: over a lawful, routed backend the un-fused steps are the LTS steps -/

/-- `put`'s `try: self.put_nowait(v) … except …` over backend `b` is the LTS step `pPut` — for every buffer content,
capacity and element — as soon as the backend's Full is routed to "park and retry". -/
theorem C04_backend_put_refines (hc : b.Contract) {s : Shared} {t : Thread} {tid : Tid}
    (hcap : b.capOk s.cap = true) (hf : ∀ f, b.fullExc = some f → dispatch H.put f = some .parkFull)
    (hpc : t.pc = .pPut) :
    pPutCode H b s t tid = .ok (stepThread s t tid false) :=
  pPutCode_eq hc hcap hf hpc

/-- `get_nowait`'s `try: self._queue.get_nowait() … except …` over backend `b` is the LTS step `nGet`. -/
theorem C04_backend_get_nowait_refines (hc : b.Contract) {s : Shared} {t : Thread} {tid : Tid} {cl : Caller}
    (hn : dispatch H.getNowait b.emptyExc = some .exhaustCheck) (hpc : t.pc = .nGet cl) :
    nGetCode H b cl s t tid = .ok (stepThread s t tid false) :=
  nGetCode_eq hc hn hpc

/-- What `get` / `get_batch` do with ANY exception in flight out of `get_nowait` (the backend's Empty re-raised,
`StopIteration(*returned)`, the recorded failure, `TimeoutError`), decided by its CLASS over the clause table, is what
the LTS's `afterRaise` does by constructor. -/
theorem C04_backend_after_raise_refines (hcl : classified H b = true) (cl : Caller) (x : Raise) (s : Shared)
    (t : Thread) :
    afterRaiseCode H b cl x s t = .ok (afterRaise cl x s t) :=
  afterRaiseCode_eq (routed_of_classified hcl) cl x s t

/-- **Every scheduler choice over a lawful, routed backend is the LTS's**: same enabledness, same label, same
successor configuration; in particular no exception class of the backend escapes. -/
theorem C04_backend_step_refines (hc : b.Contract) (hcl : classified H b = true) (hcap : b.capOk c.sh.cap = true)
    (tid : Tid) (alt : Bool) :
    stepB H b c tid alt = .ok (step c tid alt) :=
  stepB_eq hc (routed_of_classified hcl) hcap tid alt

/-- The configurations reachable over the backend are exactly the LTS's reachable configurations. -/
theorem C04_backend_reachable_iff (hc : b.Contract) (hcl : classified H b = true) (hcap : b.capOk c0.sh.cap = true) :
    ReachableB H b c0 c ↔ Reachable c0 c :=
  reachableB_iff hc (routed_of_classified hcl) hcap c

/-- In no reachable configuration does any thread's next operation let a backend exception escape. -/
theorem C04_backend_never_escapes (hc : b.Contract) (hcl : classified H b = true) (hcap : b.capOk c0.sh.cap = true)
    (h : ReachableB H b c0 c) (tid : Tid) (alt : Bool) (e : ExcClass) :
    stepB H b c tid alt ≠ .error e := by
  have hr := (C04_backend_reachable_iff hc hcl hcap).mp h
  rw [C04_backend_step_refines hc hcl (by rw [cap_reachable hr]; exact hcap)]
  simp

/-! ## 3. The routing is necessary -/

/-- A backend Full that `put`'s clauses do not route to "park and retry" ESCAPES `put` whenever the buffer is full:
the producer fails where the LTS parks it (this is the seeded regression C04-m5). -/
theorem C04_backend_full_must_park (hc : b.Contract) {s : Shared} {t : Thread} {tid : Tid} {f : ExcClass}
    (hcap : b.capOk s.cap = true) (hfe : b.fullExc = some f) (hbad : dispatch H.put f ≠ some .parkFull)
    (hown : s.enqOwner = some tid) (hfull : s.full = true) :
    pPutCode H b s t tid = .error f := by
  obtain ⟨f', hf', hp⟩ := hc.put_full s.cap s.q t.v hcap hfull
  rw [hfe] at hf'; cases hf'
  unfold pPutCode
  -- the match on `dispatch H.put f` is reduced by its second equation, whose side condition is `hbad`
  simp only [hown, bne_self_eq_false, Bool.false_eq_true, ↓reduceIte, hp]

/-- A backend Empty that `get_nowait`'s clauses do not route to the exhaustion checks ESCAPES un-checked whenever the
buffer is empty (the consumer never learns that the stream has ended). -/
theorem C04_backend_empty_must_be_checked (hc : b.Contract) {s : Shared} {t : Thread} {tid : Tid} {cl : Caller}
    (hbad : dispatch H.getNowait b.emptyExc ≠ some .exhaustCheck)
    (hown : s.stOwner = some tid) (hq : s.q = []) :
    nGetCode H b cl s t tid = .error b.emptyExc := by
  unfold nGetCode
  simp only [hown, bne_self_eq_false, Bool.false_eq_true, ↓reduceIte, hq, hc.get_nil]

/-! ## 4. The table read off the source: named obligations, discharged by `decide` on every run -/

/-- `queue.Full` (bounded `queue.Queue`) is handled by `put` as "full: park on the enqueue condition and retry". -/
theorem C04_backend_queue_Full_parks : dispatch handlers.put .queueFull = some .parkFull := by decide

/-- `asyncio.QueueFull` (bounded `asyncio.Queue`: `AsyncIteratorQueue(n)`, `IteratorQueue(asyncio.Queue(n))`) is handled
by `put` as "full: park on the enqueue condition and retry". -/
theorem C04_backend_asyncio_QueueFull_parks : dispatch handlers.put .asyncioQueueFull = some .parkFull := by decide

/-- `queue.Empty` reaches `get_nowait`'s exhaustion checks and is "empty: park and retry" for `get` and `get_batch`. -/
theorem C04_backend_queue_Empty_is_empty :
    dispatch handlers.getNowait .queueEmpty = some .exhaustCheck ∧
    dispatch handlers.get .queueEmpty = some .parkEmpty ∧
    dispatch handlers.getBatch .queueEmpty = some .parkEmpty := by decide

/-- `asyncio.QueueEmpty` reaches `get_nowait`'s exhaustion checks and is "empty" for `get` and `get_batch`. -/
theorem C04_backend_asyncio_QueueEmpty_is_empty :
    dispatch handlers.getNowait .asyncioQueueEmpty = some .exhaustCheck ∧
    dispatch handlers.get .asyncioQueueEmpty = some .parkEmpty ∧
    dispatch handlers.getBatch .asyncioQueueEmpty = some .parkEmpty := by decide

/-- Nothing else is treated as "empty": `StopIteration`, `TimeoutError`, the recorded failure leave `get` un-handled
and reach `get_batch`'s stop / error clause. -/
theorem C04_backend_nothing_else_is_empty :
    ∀ e ∈ [ExcClass.stopIteration, .timeoutError, .valueError, .otherException],
      dispatch handlers.get e = none ∧ dispatch handlers.getBatch e = some .stopOrError := by decide

/-- All of the above at once, per backend. -/
theorem C04_backend_python_classified : ∀ b ∈ pythonBackends, classified handlers b = true := by decide

/-- **The LTS holds for every CPython backend**: over `queue.Queue`, `queue.SimpleQueue` and `asyncio.Queue`, with the
`except` clauses as they stand in the source, every step is the LTS step (for every capacity the backend accepts). -/
theorem C04_backend_python_refines {b : Backend} (hb : b ∈ pythonBackends) (hcap : b.capOk c.sh.cap = true)
    (tid : Tid) (alt : Bool) :
    stepB handlers b c tid alt = .ok (step c tid alt) :=
  C04_backend_step_refines (C04_backend_contracts b hb) (C04_backend_python_classified b hb) hcap tid alt

/-- The buffers the constructors build from an int (`IteratorQueue(n)`: `_default_queue`; `AsyncIteratorQueue(n)`) are
contract instances and accept that capacity. -/
theorem C04_backend_defaults (n : Nat) :
    (∃ b ∈ pythonBackends, (defaultSync n).backend = some b ∧ b.capOk n = true) ∧
    (∃ b ∈ pythonBackends, (defaultAsync n).backend = some b ∧ b.capOk n = true) := by
  by_cases h : n = 0 <;>
    simp [defaultSync, defaultAsync, h, Kind.backend, pythonBackends, QueueBackend.stdQueue,
      QueueBackend.simpleQueue, QueueBackend.asyncioQueue]

/-! ## 5. The C04 theorems over every CPython backend -/

/-- **Exactly once over every backend** (`C04_exactly_once` transferred). -/
theorem C04_backend_exactly_once {b : Backend} (hb : b ∈ pythonBackends) (hcap : b.capOk cap = true)
    (h : ReachableB handlers b (init cap maxEnq to ig progs) c) :
    c.sh.produced.Perm (c.sh.q ++ sumSeq c.ths ++ c.sh.lost) :=
  C04_exactly_once ((C04_backend_reachable_iff (C04_backend_contracts b hb) (C04_backend_python_classified b hb)
    (by simpa [init] using hcap)).mp h)

/-- **No deadlock over every backend** (`C04_no_deadlock` transferred; `enabled` is the LTS's enabled set, which by
`C04_backend_python_refines` is the enabled set over the backend). -/
theorem C04_backend_no_deadlock {b : Backend} (hb : b ∈ pythonBackends) (hcap : b.capOk cap = true)
    (hwf : WF_enq maxEnq progs)
    (hP : 0 < maxEnq ∨ (∃ p ∈ progs, p.isStopper = true) ∨ ¬ ∃ p ∈ progs, p.isCons = true)
    (hC : cap = 0 ∨ (∃ p ∈ progs, p.isCons = true) ∨ ∃ p ∈ progs, p.isStopper = true)
    (h : ReachableB handlers b (init cap maxEnq false ig progs) c) :
    c.allDone = true ∨ ∃ tid alt r, stepB handlers b c tid alt = .ok (some r) := by
  have hr := (C04_backend_reachable_iff (C04_backend_contracts b hb) (C04_backend_python_classified b hb)
    (by simpa [init] using hcap)).mp h
  rcases C04_no_deadlock hwf hP hC hr with h1 | h1
  · exact .inl h1
  · right
    obtain ⟨⟨tid, alt⟩, hm⟩ := List.exists_mem_of_ne_nil _ h1
    unfold enabled at hm
    simp only [List.mem_flatMap, List.mem_range, List.mem_map, List.mem_filter, List.mem_cons, List.mem_nil_iff,
      or_false, Prod.mk.injEq] at hm
    obtain ⟨tid', _, alt', ⟨_, hs⟩, rfl, rfl⟩ := hm
    obtain ⟨r, hr'⟩ := Option.isSome_iff_exists.mp hs
    refine ⟨tid', alt', r, ?_⟩
    rw [C04_backend_python_refines hb (by rw [cap_reachable hr]; simpa [init] using hcap), hr']

/-! ## Non-vacuity -/

/-- a bounded asyncio-backed queue whose producer finds the buffer full: the un-fused `put` parks (test) -/
example :
    let s : Shared := { cap := 1, q := [(0, 7)], enqOwner := some 1, maxEnq := 1, start := 1 }
    let t : Thread := { prog := .producer [] 0, pc := .pPut, v := (1, 8) }
    (match pPutCode handlers asyncioQueue s t 1 with
     | .ok (some (_, _, t')) => t'.pc == .pWait
     | _ => false) = true := by decide

/-- the hypotheses of `C04_backend_no_deadlock` are satisfiable (test) -/
example : simpleQueue ∈ pythonBackends ∧ simpleQueue.capOk 0 = true ∧ asyncioQueue.capOk 2 = true ∧
    WF_enq 1 [.producer [.val 1] 0, .getLoop] :=
  ⟨by simp [pythonBackends], by decide, by decide, by decide⟩

end MlModel.C04
