import MlModel.Lemmas.RemoteStatePin
/-!
# C17 — lazy expressions over MUTABLE objects: which expressions are cached is explicit

"each materialisation without caching evaluates the expression afresh, while a cached call evaluates once and
afterwards returns the identical object until the cache is cleared or the bounded cache evicts it".

Model: `Model/RemoteState.lean` — `evalC` is `LazyFn.result_` (lazy_fns.py:469-483) under
`_maybe_lru_cache.wrapped_fn` (63-83) over a heap of mutable objects; every link of an expression carries its
`cache_result` / `lazy_result` flag.
-/
namespace MlModel.C17
open MlModel MlModel.RemoteState

/-- **An un-cached expression over a mutable object always reads the current state.**  From every state
(any heap, any cache contents — also an entry for this very expression left by an earlier `cache_result_`
evaluation), materialising a flag-free chain `obj.<links>` is ordinary (eager) evaluation of the links on the
object as it is now; only the heap changes, and exactly as eager evaluation changes it. -/
theorem C17_state_uncached_reads_current (id : Nat) (ls : List SLink) (s : SSt) (v : PyVal)
    (h : s.hnd.lookup id = some v) :
    evalC (chainR (.root id) ls) s =
      ((pyChain v ls s.heap).1.map .val, { s with heap := (pyChain v ls s.heap).2 }) :=
  evalC_handle_chain id ls s v h

/-- Any cache-free expression (lazy-result links allowed, any root): the `LazyFn` cache is neither written nor
consulted — the evaluation from a state with a different cache gives the same result and the same state. -/
theorem C17_state_uncached_ignores_cache (e : CExpr) (s : SSt) (c : Lru.Cache CExpr RV) (hc : e.cacheFree = true) :
    (evalC e s).2.fnc = s.fnc ∧
    evalC e { s with fnc := c } = ((evalC e s).1, { (evalC e s).2 with fnc := c }) :=
  evalC_cacheFree e s c hc

/-- Each materialisation evaluates afresh: two successive materialisations of a flag-free chain are two
successive eager evaluations (the second sees the heap the first left). -/
theorem C17_state_uncached_twice (id : Nat) (ls : List SLink) (s : SSt) (v : PyVal)
    (h : s.hnd.lookup id = some v) :
    evalC (chainR (.root id) ls) (evalC (chainR (.root id) ls) s).2 =
      ((pyChain v ls (pyChain v ls s.heap).2).1.map .val,
       { s with heap := (pyChain v ls (pyChain v ls s.heap).2).2 }) := by
  rw [evalC_handle_chain id ls s v h]
  simp only [liftPy]
  rw [evalC_handle_chain id ls _ v (by simpa using h)]
  simp [liftPy]

/-- **A cached link that is in the cache returns the stored object** — the heap is not read and not changed,
whatever happened to the object since the entry was made (this is the pinning the property describes; it is
why the choice WHICH expressions are cached matters). -/
theorem C17_state_cached_hit (x : CExpr) (l : SLink) (z : Bool) (s : SSt) (r : RV)
    (h : Lru.find? s.fnc.data (CExpr.link x l true z).key = some r) :
    evalC (.link x l true z) s = (.ok r, { s with fnc := (s.fnc.getitem (CExpr.link x l true z).key).2 }) ∧
    (evalC (.link x l true z) s).2.heap = s.heap := by
  have : s.fnc.getitem (CExpr.link x l true z).key =
      (some r, (s.fnc.getitem (CExpr.link x l true z).key).2) := by
    simp [Lru.Cache.getitem, h]
  constructor
  · rw [evalC]; simp only [if_true]; rw [this]
  · rw [evalC]; simp only [if_true]; rw [this]

/-- A cached link that is NOT in the cache evaluates its body (once) and stores the result under the
flag-erased key. -/
theorem C17_state_cached_miss (x : CExpr) (l : SLink) (z : Bool) (s : SSt)
    (h : Lru.find? s.fnc.data (CExpr.link x l true z).key = none) :
    evalC (.link x l true z) s =
      (let r := linkBody (evalC x { s with fnc := { s.fnc with misses := s.fnc.misses + 1 } }) l z
       match r.1 with
       | .ok v => (.ok v, { r.2 with fnc := r.2.fnc.setitem (CExpr.link x l true z).key v })
       | .error e => (.error e, r.2)) := by
  have : s.fnc.getitem (CExpr.link x l true z).key = (none, { s.fnc with misses := s.fnc.misses + 1 }) := by
    simp [Lru.Cache.getitem, h]
  rw [evalC]; simp only [if_true]; rw [this]; rfl

/-- After `clear_cache()` a cached member access on a flag-free chain reads the current state again. -/
theorem C17_state_cached_after_clear (id : Nat) (ls : List SLink) (l : SLink) (s : SSt) (v : PyVal)
    (h : s.hnd.lookup id = some v) :
    (evalC (.link (chainR (.root id) ls) l true false) (RemoteState.clearCache s)).1 =
      (pyChain v (ls ++ [l]) s.heap).1.map .val := by
  have hm : Lru.find? (RemoteState.clearCache s).fnc.data (CExpr.link (chainR (.root id) ls) l true false).key = none := by
    simp [RemoteState.clearCache, Lru.Cache.clear, Lru.find?]
  rw [C17_state_cached_miss _ _ _ _ hm]
  simp only
  rw [evalC_handle_chain id ls _ v (by simpa [RemoteState.clearCache] using h)]
  rw [pyChain_append]
  simp only [RemoteState.clearCache, liftPy]
  cases hp : pyChain v ls s.heap with
  | mk res h' =>
    cases res with
    | error e => simp [linkBody, Except.map]
    | ok v' =>
      simp only [Except.map, linkBody, derefRV, pyChain_single]
      cases hk : pyLink v' l h' with
      | mk r2 h'' => cases r2 <;> simp

/-- **Evaluates once, afterwards the identical object — across every history that mutates the objects —
until the cache is cleared.**  Let a cached (non-lazy) member access / call on a flag-free chain be evaluated
for the first time (a miss) with value `w`, in a cache with room for at least one entry.  Then after ANY
history of flag-free operations (reads, calls that re-bind attributes or mutate containers, new objects,
iterators, lazy results — everything except `clear_cache`) evaluating the same expression again returns `w`
itself and touches no object: the value is pinned, whatever the objects have become.  (Eviction needs a second
cached expression; that part is `C17_lru` on the shared LRU model.) -/
theorem C17_state_cached_pinned (id : Nat) (ls : List SLink) (l : SLink) (s : SSt) (v w : PyVal) (h' : Heap)
    (ops : List Op) (hinv : Lru.Inv s.fnc) (hm : 1 ≤ s.fnc.maxsize) (h : s.hnd.lookup id = some v)
    (hmiss : Lru.find? s.fnc.data (CExpr.link (chainR (.root id) ls) l true false).key = none)
    (hfirst : pyChain v (ls ++ [l]) s.heap = (.ok w, h'))
    (hops : ∀ op ∈ ops, op.plain = true ∧ op ≠ .clear) :
    (evalC (.link (chainR (.root id) ls) l true false) s).1 = .ok (.val w) ∧
    (evalC (.link (chainR (.root id) ls) l true false)
      (remoteRun ops (evalC (.link (chainR (.root id) ls) l true false) s).2).2).1 = .ok (.val w) ∧
    (evalC (.link (chainR (.root id) ls) l true false)
      (remoteRun ops (evalC (.link (chainR (.root id) ls) l true false) s).2).2).2.heap =
      (remoteRun ops (evalC (.link (chainR (.root id) ls) l true false) s).2).2.heap := by
  have h1 := evalC_cached_first id ls l s v h hmiss
  rw [hfirst] at h1
  simp only at h1
  have hinv' : Lru.Inv (missed s.fnc) := ⟨hinv.size, hinv.nodup, hinv.bound⟩
  have hfind := Lru.setitem_find?_self hinv' (by simpa [missed] using hm)
    (CExpr.link (chainR (.root id) ls) l true false).key (RV.val w)
  have hf2 := remoteRun_fnc ops (evalC (.link (chainR (.root id) ls) l true false) s).2 hops
  have hfind2 : Lru.find? (remoteRun ops (evalC (.link (chainR (.root id) ls) l true false) s).2).2.fnc.data
      (CExpr.link (chainR (.root id) ls) l true false).key = some (.val w) := by
    rw [hf2, h1]; exact hfind
  obtain ⟨c1, c2⟩ := C17_state_cached_hit _ l false _ _ hfind2
  refine ⟨by rw [h1], by rw [c1], c2⟩

/-! ## Tests (`decide`) -/

/-- `c = Counter(1)`; `c.total` cached, `c.add(4)`, `c.total` cached again (pinned: 1), `c.total` un-cached
(current: 5), `clear_cache()`, `c.total` cached (current: 5). -/
def histCached : List Op :=
  [.mk .counter [.int 1], .getF 0 [⟨.attr "total", true, false⟩], .get 0 [.attr "add", .call [.int 4]] false,
   .getF 0 [⟨.attr "total", true, false⟩], .get 0 [.attr "total"] false, .clear,
   .getF 0 [⟨.attr "total", true, false⟩]]

example : (remoteRun histCached (SSt.init 128)).1 =
    [.remote 0, .val (.int 1), .val (.int 5), .val (.int 1), .val (.int 5), .val .none, .val (.int 5)] := by decide

/-- with a cache of capacity 0 nothing is ever pinned -/
example : (remoteRun histCached (SSt.init 0)).1 =
    [.remote 0, .val (.int 1), .val (.int 5), .val (.int 5), .val (.int 5), .val .none, .val (.int 5)] := by decide

/-- non-vacuity of `C17_state_cached_pinned`: a fresh counter, `c.total` cached, pinned across `c.add(4)` -/
example : Lru.Inv (remoteRun [.mk .counter [.int 1]] (SSt.init 128)).2.fnc ∧
    Lru.find? (remoteRun [.mk .counter [.int 1]] (SSt.init 128)).2.fnc.data
      (CExpr.link (chainR (.root 0) []) (.attr "total") true false).key = none ∧
    (pyChain (.obj 0) ([] ++ [.attr "total"]) (remoteRun [.mk .counter [.int 1]] (SSt.init 128)).2.heap).1.toOption
      = some (.plain (.int 1)) :=
  ⟨Lru.inv_empty 128, by decide, by decide⟩

end MlModel.C17
