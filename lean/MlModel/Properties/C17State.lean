import MlModel.Lemmas.RemoteStateHist
/-!
# C17 — lazy expressions over MUTABLE objects: which expressions are cached is explicit

"each materialisation without caching evaluates the expression afresh, while a cached call evaluates once and
afterwards returns the identical object until the cache is cleared or the bounded cache evicts it".

Model: `Model/RemoteState.lean` — `evalC` is `LazyFn.result_` (lazy_fns.py:469-483) under
`_maybe_lru_cache.wrapped_fn` (63-83) over a heap of mutable objects; every link of an expression carries its
`cache_result` / `lazy_result` flag.
-/
namespace MlModel.C17
open MlModel MlModel.RemoteState

/-- **An un-cached expression over a mutable object always reads the current state.**  From every state
(any heap, any cache contents — also an entry for this very expression left by an earlier `cache_result_`
evaluation), materialising a flag-free chain `obj.<links>` is ordinary (eager) evaluation of the links on the
object as it is now; only the heap changes, and exactly as eager evaluation changes it. -/
theorem C17_state_uncached_reads_current (id : Nat) (ls : List SLink) (s : SSt) (v : PyVal)
    (h : s.hnd.lookup id = some v) :
    evalC (chainR (.root id) ls) s =
      ((pyChain v ls s.heap).1.map .val, { s with heap := (pyChain v ls s.heap).2 }) :=
  evalC_handle_chain id ls s v h

/-- Any cache-free expression (lazy-result links allowed, any root): the `LazyFn` cache is neither written nor
consulted — the evaluation from a state with a different cache gives the same result and the same state. -/
theorem C17_state_uncached_ignores_cache (e : CExpr) (s : SSt) (c : Lru.Cache CExpr RV) (hc : e.cacheFree = true) :
    (evalC e s).2.fnc = s.fnc ∧
    evalC e { s with fnc := c } = ((evalC e s).1, { (evalC e s).2 with fnc := c }) :=
  evalC_cacheFree e s c hc

/-- Each materialisation evaluates afresh: two successive materialisations of a flag-free chain are two
successive eager evaluations (the second sees the heap the first left). -/
theorem C17_state_uncached_twice (id : Nat) (ls : List SLink) (s : SSt) (v : PyVal)
    (h : s.hnd.lookup id = some v) :
    evalC (chainR (.root id) ls) (evalC (chainR (.root id) ls) s).2 =
      ((pyChain v ls (pyChain v ls s.heap).2).1.map .val,
       { s with heap := (pyChain v ls (pyChain v ls s.heap).2).2 }) := by
  rw [evalC_handle_chain id ls s v h]
  simp only [liftPy]
  rw [evalC_handle_chain id ls _ v (by simpa using h)]
  simp [liftPy]

/-- **A cached link that is in the cache returns the stored object** — the heap is not read and not changed,
whatever happened to the object since the entry was made (this is the pinning the property describes; it is
why the choice WHICH expressions are cached matters). -/
theorem C17_state_cached_hit (x : CExpr) (l : SLink) (z : Bool) (s : SSt) (r : RV)
    (h : Lru.find? s.fnc.data (CExpr.link x l true z).key = some r) :
    evalC (.link x l true z) s = (.ok r, { s with fnc := (s.fnc.getitem (CExpr.link x l true z).key).2 }) ∧
    (evalC (.link x l true z) s).2.heap = s.heap := by
  have : s.fnc.getitem (CExpr.link x l true z).key =
      (some r, (s.fnc.getitem (CExpr.link x l true z).key).2) := by
    simp [Lru.Cache.getitem, h]
  constructor
  · rw [evalC]; simp only [if_true]; rw [this]
  · rw [evalC]; simp only [if_true]; rw [this]

/-- A cached link that is NOT in the cache evaluates its body (once) and stores the result under the
flag-erased key. -/
theorem C17_state_cached_miss (x : CExpr) (l : SLink) (z : Bool) (s : SSt)
    (h : Lru.find? s.fnc.data (CExpr.link x l true z).key = none) :
    evalC (.link x l true z) s =
      (let r := linkBody (evalC x { s with fnc := { s.fnc with misses := s.fnc.misses + 1 } }) l z
       match r.1 with
       | .ok v => (.ok v, { r.2 with fnc := r.2.fnc.setitem (CExpr.link x l true z).key v })
       | .error e => (.error e, r.2)) := by
  have : s.fnc.getitem (CExpr.link x l true z).key = (none, { s.fnc with misses := s.fnc.misses + 1 }) := by
    simp [Lru.Cache.getitem, h]
  rw [evalC]; simp only [if_true]; rw [this]; rfl

/-- After `clear_cache()` a cached member access on a flag-free chain reads the current state again. -/
theorem C17_state_cached_after_clear (id : Nat) (ls : List SLink) (l : SLink) (s : SSt) (v : PyVal)
    (h : s.hnd.lookup id = some v) :
    (evalC (.link (chainR (.root id) ls) l true false) (RemoteState.clearCache s)).1 =
      (pyChain v (ls ++ [l]) s.heap).1.map .val := by
  have hm : Lru.find? (RemoteState.clearCache s).fnc.data (CExpr.link (chainR (.root id) ls) l true false).key = none := by
    simp [RemoteState.clearCache, Lru.Cache.clear, Lru.find?]
  rw [C17_state_cached_miss _ _ _ _ hm]
  simp only
  rw [evalC_handle_chain id ls _ v (by simpa [RemoteState.clearCache] using h)]
  rw [pyChain_append]
  simp only [RemoteState.clearCache, liftPy]
  cases hp : pyChain v ls s.heap with
  | mk res h' =>
    cases res with
    | error e => simp [linkBody, Except.map]
    | ok v' =>
      simp only [Except.map, linkBody, derefRV, pyChain_single]
      cases hk : pyLink v' l h' with
      | mk r2 h'' => cases r2 <;> simp

/-! ## Tests (`decide`) -/

/-- `c = Counter(1)`; `c.total` cached, `c.add(4)`, `c.total` cached again (pinned: 1), `c.total` un-cached
(current: 5), `clear_cache()`, `c.total` cached (current: 5). -/
def histCached : List Op :=
  [.mk .counter [.int 1], .getF 0 [⟨.attr "total", true, false⟩], .get 0 [.attr "add", .call [.int 4]] false,
   .getF 0 [⟨.attr "total", true, false⟩], .get 0 [.attr "total"] false, .clear,
   .getF 0 [⟨.attr "total", true, false⟩]]

example : (remoteRun histCached (SSt.init 128)).1 =
    [.remote 0, .val (.int 1), .val (.int 5), .val (.int 1), .val (.int 5), .val .none, .val (.int 5)] := by decide

/-- with a cache of capacity 0 nothing is ever pinned -/
example : (remoteRun histCached (SSt.init 0)).1 =
    [.remote 0, .val (.int 1), .val (.int 5), .val (.int 5), .val (.int 5), .val .none, .val (.int 5)] := by decide

end MlModel.C17
