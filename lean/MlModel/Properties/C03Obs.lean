import MlModel.Properties.C03
import MlModel.Properties.C09
import MlModel.Lemmas.StrategyObs
/-!
# C03 (round 10) — data-source shapes under every strategy; every observable of the aggregate

Model: `Model/StrategyObs.lean`.

**Sources made of several sequences.**  `Strategy.shardParts` cuts a flat list; the code cuts
`MergedSequences.slice` (a chain of `_RangeIterator`s, one per underlying sequence a shard touches).
`mergedShardParts d k parts` is the per-shard element lists THROUGH that code path, for
`make(shard=ShardConfig(i, k))` and for the `k = num_threads` producers alike.
`C03_shards_merged_source`: sharding a merged source and concatenating = the merged source = the concatenation of
the sequences — for every number, length (empty ones included) and order of the sequences and every `k ≥ 1`, i.e.
wherever a shard boundary falls relative to a sequence start (`C09_partition` ∘ `C09_merged_slice`).
`C03_shards_merged_pipeline`, `C03_threads_merged_source`: hence the shard / thread theorems of `Properties/C03.lean`
hold verbatim over such a source.  (`Witness/C03Obs.lean`: the seeded variant of `slice` that also yields the whole next
sequence when a shard stops on a sequence start breaks exactly this, and only for `k > 1`.)

**Which object the aggregate is taken from.**  A caller can take the aggregate from `iterator.agg_result`, from the
`AggregateResult` returned through `StopIteration` (`.agg_result`, `.agg_state`), from `iterator.agg_state`, or from
`get_result(merge_states(returned states))`.  The chain's `agg_state` is the items of the per-stage dicts chained, a
later item winning.  `C03_chain_agg_state_own_keys`: every stage holds exactly its own keys, so under every key the
chain's state IS the owning stage's entry = the fold of `update_state` over that stage's feed;
`C03_chain_agg_state_given`: the same when a state is handed in (each stage filters it down to its keys);
`C03_chain_observables_agree`: `get_result` of the returned state = the iterator's `agg_result`, key by key;
`C03_chain_merge_states_own_keys`: `ChainedRunner.merge_states` over the returned states of any number of runs holds,
under every key, the left fold of the owning aggregate's `merge_states([acc, s])` over the runs' entries.
-/
namespace MlModel.C03
open MlModel.Strategy MlModel.Agg MlModel.Shard MlModel.Merged MlModel.StrategyObs

variable {E : Type}

/-! ## Sources made of several sequences -/

/-- **Sharding a merged source and concatenating = the merged source.**  For every list of sequences (any
number, any lengths, empty ones anywhere), every well-formed shard `d` of `from_sequences(parts)` (any nesting) and
every `k ≥ 1`: the `k` shards of `d`, each read through `MergedSequences.slice`, concatenate to what `d` yields, which
is the Python slice of the concatenated sequences; for the unsharded source it is the concatenation itself. -/
theorem C03_shards_merged_source (parts : List (List E)) (d : DS) (hwf : d.WF)
    (hlen : d.dataLen = parts.flatten.length) (k : Nat) (hk : 1 ≤ k) :
    (mergedShardParts d k parts).flatten = mergedElems d parts ∧
    mergedElems d parts = d.elems parts.flatten ∧
    mergedElems (mergedRoot parts) parts = parts.flatten := by
  refine ⟨?_, MlModel.C09.C09_merged_datasource parts d, mergedElems_root parts⟩
  rw [mergedShardParts_eq, mergedElems_eq]
  have h := MlModel.C09.C09_partition d hwf parts.flatten hlen.symm k hk
  rw [List.flatMap_def] at h
  exact h

/-- **Shards of a pipeline over a merged source**: `C03_shards_pipeline` with the shard runs reading their part
through `MergedSequences.slice`.  Stage `i`'s output over the shards, shard after shard, is its output in the whole
run, and `merge_states` over the `k` shard states of any lawful aggregate gives the whole run's `agg_result`. -/
theorem C03_shards_merged_pipeline (p : List (Stage E)) (hrow : ∀ s ∈ p, ∀ o ∈ s.ops, o.isRow = true)
    (parts : List (List E)) (k : Nat) (hk : 1 ≤ k)
    (i : Nat) (hi : i < p.length) (a : Agg E) {Eqv : a.S → a.S → Prop} (law : Lawful a.m Eqv) :
    ∃ sq, (stageOuts p parts.flatten)[i]? = some sq ∧
      ((mergedShardParts (mergedRoot parts) k parts).flatMap fun part => ((stageOuts p part)[i]?).getD []) = sq ∧
      a.m.result (a.m.mergeStates ((mergedShardParts (mergedRoot parts) k parts).map fun part =>
          a.state (((stageOuts p part)[i]?).getD []))) = a.result sq := by
  have h := C03_shards_pipeline p hrow (mergedRoot parts) (mergedRoot_wf parts) parts.flatten
    (mergedRoot_dataLen parts).symm k hk i hi a law
  rw [← mergedElems_eq, mergedElems_root, ← mergedShardParts_eq] at h
  exact h

/-- **Threads over a merged source.**  `num_threads = n ≥ 1` over `from_sequences(parts)`: producer `j` reads
`shard(j, n)` through `MergedSequences.slice` (`_actual_inputs`); whatever interleaving `ys` of the producers' outputs
the consumer receives is an execution of the stage over the whole source in the sense of `C03_threads` — so
every stage's output is a rearrangement of the sequential one and every lawful commutative aggregate agrees. -/
theorem C03_threads_merged_source (s : Stage E) (hn : s.threads ≠ 0) (parts : List (List E)) (n : Nat) (hn1 : 1 ≤ n)
    {ys : List E}
    (hout : Interleave ((mergedShardParts (mergedRoot parts) n parts).map (runOps s.ops)) ys) :
    s.Exec parts.flatten ys := by
  refine .par (mergedShardParts (mergedRoot parts) n parts) ys hn ?_ ?_
  · have h := (C03_shards_merged_source parts (mergedRoot parts) (mergedRoot_wf parts)
      (mergedRoot_dataLen parts) n hn1)
    rw [h.1, h.2.2]
  · have := hout.perm
    rwa [← List.flatMap_def] at this

/-! ## The aggregation state of a chain, observable by observable -/

section Chain
variable {K V X R : Type} [DecidableEq K]

/-- **The chain's `agg_state` is the union of the per-stage states, each restricted to its OWN keys.**
`make().iterate()` (no state handed in), any number of stages with or without aggregates, stage `i` having emitted
`feeds[i]`: the run never raises; the returned state lists exactly the keys of the stages, stage after stage; and
under every key `k` of stage `i` that no LATER stage also has, it holds stage `i`'s own entry — the fold of that
aggregate's `update_state` over stage `i`'s feed, from its `create_state()`.  (Keys of one runner are distinct: they are
the keys of the dict `agg_fns`.) -/
theorem C03_chain_agg_state_own_keys (stages : List (AStage K V X R)) (hnd : ∀ st ∈ stages, st.keys.Nodup)
    (feeds : List (List X)) :
    ∃ s, chainAggState stages none feeds = .ok s ∧
      s.map Prod.fst = stages.flatMap (·.keys) ∧
      ∀ (i : Nat) (st : AStage K V X R) (k : K), stages[i]? = some st → k ∈ st.keys →
        (∀ j st', i < j → stages[j]? = some st' → k ∉ st'.keys) →
        lookupLast k s = some (((feeds[i]?).getD []).foldl (st.upd k) (st.create k)) := by
  have hspec := chainStates_spec (none : Option (KV K V)) (fun st => st.keys) (fun st => st.create) stages feeds
    (fun st hst feed => run_none st (hnd st hst) feed)
  refine ⟨(chainFinal (fun st => st.keys) (fun st => st.create) stages feeds).flatten, ?_,
    chainFinal_keys _ _ stages feeds, ?_⟩
  · unfold chainAggState
    rw [hspec]; rfl
  · intro i st k hi hk hlater
    exact chainFinal_lookup _ _ stages feeds i st k hi hk hlater

/-- **… also when a state is handed in** (`iterate(state=s0)`, `ChainedRunner.update_state(state, inputs)`, a
restore): every aggregating stage receives the SAME full state `s0` and keeps the entries under its own keys, so
under every key the returned state is the owning stage's fold of `update_state` from `s0`'s entry — never another
stage's untouched copy of it. -/
theorem C03_chain_agg_state_given (stages : List (AStage K V X R)) (hnd : ∀ st ∈ stages, st.keys.Nodup)
    (gks : List K) (g0 : K → V) (hne : gks ≠ []) (hall : ∀ st ∈ stages, ∀ k ∈ st.keys, k ∈ gks)
    (feeds : List (List X)) :
    ∃ s, chainAggState stages (some (gks.map fun k => (k, g0 k))) feeds = .ok s ∧
      ∀ (i : Nat) (st : AStage K V X R) (k : K), stages[i]? = some st → k ∈ st.keys →
        (∀ j st', i < j → stages[j]? = some st' → k ∉ st'.keys) →
        lookupLast k s = some (((feeds[i]?).getD []).foldl (st.upd k) (g0 k)) := by
  have hspec := chainStates_spec (some (gks.map fun k => (k, g0 k)))
    (fun st => gks.filter fun k => decide (k ∈ st.keys)) (fun _ => g0) stages feeds
    (fun st hst feed => run_given st (hnd st hst) gks g0 hne (hall st hst) feed)
  refine ⟨(chainFinal (fun st => gks.filter fun k => decide (k ∈ st.keys)) (fun _ => g0) stages feeds).flatten, ?_, ?_⟩
  · unfold chainAggState
    rw [hspec]; rfl
  · intro i st k hi hk hlater
    have hmem : ∀ (s' : AStage K V X R), s' ∈ stages → ∀ k', (k' ∈ gks.filter fun k => decide (k ∈ s'.keys)) ↔ k' ∈ s'.keys := by
      intro s' hs' k'
      simp only [List.mem_filter, decide_eq_true_eq]
      exact ⟨fun h => h.2, fun h => ⟨hall s' hs' k' h, h⟩⟩
    have hst : st ∈ stages := List.mem_of_getElem? hi
    exact chainFinal_lookup _ _ stages feeds i st k hi ((hmem st hst k).mpr hk)
      (fun j st' hij hj hk' => hlater j st' hij hj ((hmem st' (List.mem_of_getElem? hj) k).mp hk'))

/-- **Whichever object the aggregate is taken from, it is the same aggregate.**  For the run of
`C03_chain_agg_state_own_keys`: under every key `k` of stage `i` (not re-used by a later stage) the iterator's
`agg_result` — also what `AggregateResult.agg_result` carries — and `get_result` of the chained `agg_state` — the
returned `AggregateResult.agg_state` or `iterator.agg_state`, read by `ChainedRunner.get_result` — both report
`get_result` of the owning aggregate's state after stage `i`'s feed. -/
theorem C03_chain_observables_agree (stages : List (AStage K V X R)) (hnd : ∀ st ∈ stages, st.keys.Nodup)
    (feeds : List (List X)) :
    ∃ sts, chainStates stages none feeds = .ok sts ∧
      ∀ (i : Nat) (st : AStage K V X R) (k : K), stages[i]? = some st → k ∈ st.keys →
        (∀ j st', i < j → stages[j]? = some st' → k ∉ st'.keys) →
        lookupLast k (chainAggResult stages sts)
          = some (st.result k (((feeds[i]?).getD []).foldl (st.upd k) (st.create k))) ∧
        lookupLast k (chainGetResult stages sts.flatten)
          = some (st.result k (((feeds[i]?).getD []).foldl (st.upd k) (st.create k))) := by
  have hspec := chainStates_spec (none : Option (KV K V)) (fun st => st.keys) (fun st => st.create) stages feeds
    (fun st hst feed => run_none st (hnd st hst) feed)
  refine ⟨chainFinal (fun st => st.keys) (fun st => st.create) stages feeds, hspec, ?_⟩
  intro i st k hi hk hlater
  have hlook := chainFinal_lookup (fun st : AStage K V X R => st.keys) (fun st => st.create) stages feeds i st k hi hk hlater
  constructor
  · -- per-stage `get_result` of the stage's own state, chained
    unfold chainAggResult
    rw [List.flatMap_def]
    refine lookupLast_flatten_at k _ _ i (st.getResult (stageFinal st st.keys st.create ((feeds[i]?).getD []))) ?_ ?_ ?_
    · have hz : (stages.zip (chainFinal (fun st => st.keys) (fun st => st.create) stages feeds))[i]?
          = some (st, stageFinal st st.keys st.create ((feeds[i]?).getD [])) :=
        List.getElem?_zip_eq_some.mpr ⟨hi, by rw [chainFinal_getElem?, hi]; rfl⟩
      rw [List.getElem?_map, hz]
      rfl
    · rw [lookupLast_getResult, if_pos hk, stageFinal_lookup _ _ _ _ _ hk]; rfl
    · intro j l' hij hj
      rw [List.getElem?_map] at hj
      cases hz : (stages.zip (chainFinal (fun st => st.keys) (fun st => st.create) stages feeds))[j]? with
      | none => rw [hz] at hj; simp at hj
      | some p =>
        rw [hz] at hj
        simp only [Option.map_some, Option.some.injEq] at hj
        subst hj
        obtain ⟨h1, _⟩ := List.getElem?_zip_eq_some.mp hz
        rw [lookupLast_getResult, if_neg (hlater j p.1 hij h1)]
  · -- every runner's `get_result` of the ONE chained state
    unfold chainGetResult
    rw [List.flatMap_def]
    refine lookupLast_flatten_at k _ _ i (st.getResult (chainFinal (fun st => st.keys) (fun st => st.create) stages feeds).flatten) ?_ ?_ ?_
    · rw [List.getElem?_map, hi]; rfl
    · rw [lookupLast_getResult, if_pos hk, hlook]; rfl
    · intro j l' hij hj
      rw [List.getElem?_map] at hj
      cases hs : stages[j]? with
      | none => rw [hs] at hj; simp at hj
      | some st' =>
        rw [hs] at hj
        simp only [Option.map_some, Option.some.injEq] at hj
        subst hj
        rw [lookupLast_getResult, if_neg (hlater j st' hij hs)]

/-- **`ChainedRunner.merge_states` keeps every stage's entries apart.**  For ANY list of states (the returned
`agg_state`s of any number of shard runs, in any form): under a key `k` of stage `i` that no later stage has, the
merged state holds the left fold of stage `i`'s `merge_states([acc, s])` over ALL the values the states carry under
`k`, in order — one entry per key, no other stage's values mixed in, none dropped. -/
theorem C03_chain_merge_states_own_keys (stages : List (AStage K V X R)) (states : List (KV K V))
    (i : Nat) (st : AStage K V X R) (k : K) (hi : stages[i]? = some st) (hk : k ∈ st.keys)
    (hlater : ∀ j st', i < j → stages[j]? = some st' → k ∉ st'.keys) (v : V)
    (hv : mergeVals (st.merge k) ((states.flatten.filter fun kv => decide (kv.1 = k)).map (·.2)) = some v) :
    lookupLast k (chainMergeStates stages states) = some v := by
  unfold chainMergeStates
  rw [List.flatMap_def]
  refine lookupLast_flatten_at k v _ i (st.mergeStates states) ?_ ?_ ?_
  · rw [List.getElem?_map, hi]; rfl
  · rw [mergeStates_lookup_own st k hk, hv]
  · intro j l' hij hj
    rw [List.getElem?_map] at hj
    cases hs : stages[j]? with
    | none => rw [hs] at hj; simp at hj
    | some st' =>
      rw [hs] at hj
      simp only [Option.map_some, Option.some.injEq] at hj
      subst hj
      exact mergeStates_lookup_foreign st' k (hlater j st' hij hs) states

/-- the stages of a chain whose aggregates are mergeable metrics: stage `i` has the keys `keyLists[i]` -/
def stagesOf {Y : Type} (keyLists : List (List K)) (m : K → Mergeable Y V R) (sel : K → X → List Y) :
    List (AStage K V X R) :=
  keyLists.map fun ks => AStage.ofMergeable ks m sel

/-- **Shards of a CHAIN, states merged by `ChainedRunner.merge_states`, read by `get_result` = the whole run.**
A chain of any number of named stages whose aggregates are lawful mergeable metrics, all output keys distinct.  Run
it over any number `≥ 1` of shards (stage `i` of shard `F` having emitted `F[i]`) and once over the whole data
(`wholeFeeds`), where stage `i`'s whole-run feed is the concatenation of its shard feeds (what `C03_shards_pipeline` /
`C03_shards_merged_pipeline` give for row-wise stages).  Then every shard run and the whole run return an `agg_state`;
`ChainedRunner.merge_states` over the RETURNED shard states has an entry under every key `k` of stage `i`, the whole
run's returned state has one, and `get_result` reports the same value for both — for EVERY aggregating stage of the
chain, whatever the other stages aggregate. -/
theorem C03_chain_shards_merged {Y : Type} (keyLists : List (List K)) (hnd : keyLists.flatten.Nodup)
    (m : K → Mergeable Y V R) (sel : K → X → List Y) (Eqv : K → V → V → Prop) (law : ∀ k, Lawful (m k) (Eqv k))
    (shardFeeds : List (List (List X))) (hne : shardFeeds ≠ []) (wholeFeeds : List (List X))
    (i : Nat) (ks : List K) (k : K) (hi : keyLists[i]? = some ks) (hk : k ∈ ks)
    (hcat : (shardFeeds.flatMap fun F => (F[i]?).getD []) = (wholeFeeds[i]?).getD []) :
    ∃ (states : List (KV K V)) (whole : KV K V) (v w : V),
      states.length = shardFeeds.length ∧
      (∀ (j : Nat) (F : List (List X)) (s : KV K V), shardFeeds[j]? = some F → states[j]? = some s →
        chainAggState (stagesOf keyLists m sel) none F = .ok s) ∧
      chainAggState (stagesOf keyLists m sel) none wholeFeeds = .ok whole ∧
      lookupLast k (chainMergeStates (stagesOf keyLists m sel) states) = some v ∧
      lookupLast k whole = some w ∧
      (m k).result v = (m k).result w := by
  let stages : List (AStage K V X R) := stagesOf keyLists m sel
  let st : AStage K V X R := AStage.ofMergeable ks m sel
  have hst : stages[i]? = some st := by
    simp only [stages, stagesOf, List.getElem?_map, hi]; rfl
  obtain ⟨hndl, hpw⟩ := List.pairwise_flatten.mp hnd
  have hstage_nd : ∀ s ∈ stages, s.keys.Nodup := by
    intro s hs
    obtain ⟨l, hl, rfl⟩ := List.mem_map.mp hs
    exact hndl l hl
  have hlater : ∀ j st', i < j → stages[j]? = some st' → k ∉ st'.keys := by
    intro j st' hij hj hk'
    simp only [stages, stagesOf, List.getElem?_map] at hj
    cases hkj : keyLists[j]? with
    | none => rw [hkj] at hj; simp at hj
    | some ks' =>
      rw [hkj] at hj
      simp only [Option.map_some, Option.some.injEq] at hj
      subst hj
      obtain ⟨hi1, hi2⟩ := List.getElem?_eq_some_iff.mp hi
      obtain ⟨hj1, hj2⟩ := List.getElem?_eq_some_iff.mp hkj
      have hd := List.pairwise_iff_getElem.mp hpw i j hi1 hj1 hij
      rw [hi2, hj2] at hd
      exact hd k hk k hk' rfl
  -- one run over per-stage feeds `F`
  let stateOf : List (List X) → KV K V := fun F =>
    (chainFinal (fun s : AStage K V X R => s.keys) (fun s => s.create) stages F).flatten
  let foldOf : List (List X) → V := fun F => (m k).feed (((F[i]?).getD []).map (sel k))
  have hrun : ∀ F, chainAggState stages none F = .ok (stateOf F) := by
    intro F
    have hspec := chainStates_spec (none : Option (KV K V)) (fun s => s.keys) (fun s => s.create) stages F
      (fun s hs feed => run_none s (hstage_nd s hs) feed)
    unfold chainAggState
    rw [hspec]; rfl
  have hlook : ∀ F, lookupLast k (stateOf F) = some (foldOf F) := by
    intro F
    have h := chainFinal_lookup (fun s : AStage K V X R => s.keys) (fun s => s.create) stages F i st k hst hk hlater
    rw [ofMergeable_fold] at h
    exact h
  have hkeys : ∀ F, ((stateOf F).map Prod.fst).Nodup := by
    intro F
    simp only [stateOf]
    rw [chainFinal_keys]
    simp only [stages, stagesOf, List.flatMap_map]
    have : (keyLists.flatMap fun ks => (AStage.ofMergeable ks m sel : AStage K V X R).keys) = keyLists.flatten := by
      rw [List.flatMap_def]; simp [AStage.ofMergeable]
    rw [this]; exact hnd
  -- the values the shard states carry under `k`
  have hvals : ∀ Fs : List (List (List X)),
      ((Fs.map stateOf).flatten.filter fun kv => decide (kv.1 = k)).map (·.2) = Fs.map foldOf := by
    intro Fs
    rw [filter_map_flatten]
    induction Fs with
    | nil => rfl
    | cons F Fs ih =>
      simp only [List.map_cons, List.flatMap_cons, filter_key_of_nodup k (stateOf F) (hkeys F), hlook F,
        Option.toList_some, List.singleton_append, ih]
  obtain ⟨F0, Fs, rfl⟩ := List.exists_cons_of_ne_nil hne
  -- merged entry = `merge_states` of the per-shard states of the metric = its sharded state
  have hmerged : lookupLast k (chainMergeStates stages ((F0 :: Fs).map stateOf))
      = some ((m k).sharded ((F0 :: Fs).map fun F => ((F[i]?).getD []).map (sel k))) := by
    apply C03_chain_merge_states_own_keys stages _ i st k hst hk hlater
    rw [hvals]
    simp only [List.map_cons, mergeVals, Mergeable.sharded, Mergeable.mergeStates, List.map_map, foldOf]
    rfl
  refine ⟨(F0 :: Fs).map stateOf, stateOf wholeFeeds, _, foldOf wholeFeeds, by simp, ?_, hrun wholeFeeds, hmerged,
    hlook wholeFeeds, ?_⟩
  · intro j F s hF hs
    rw [List.getElem?_map, hF] at hs
    simp only [Option.map_some, Option.some.injEq] at hs
    subst hs
    exact hrun F
  · rw [(law k).sharded_result]
    simp only [foldOf]
    rw [(law k).result_congr ((law k).feed_eq _), ← hcat]
    congr 1
    simp only [List.map_map, List.flatMap_def, List.map_flatten, List.flatten_flatten, Function.comp_def]

end Chain

/-! ## Non-vacuity (tests of the definitions, `decide`d) -/

/-- three sequences `[0,1,2] [] [3,4]`; 2 shards: the boundary falls inside the first sequence; 5 shards: boundaries ON
the start of the empty and of the last sequence -/
example : mergedShardParts (mergedRoot [[0, 1, 2], [], [3, 4]]) 2 [[0, 1, 2], [], [3, 4]] = [[0, 1, 2], [3, 4]] ∧
    mergedShardParts (mergedRoot [[0, 1, 2], [], [3, 4]]) 5 [[0, 1, 2], [], [3, 4]] = [[0], [1], [2], [3], [4]] ∧
    mergedShardParts (mergedRoot [[0, 1], [2, 3]]) 2 [[0, 1], [2, 3]] = [[0, 1], [2, 3]] := by decide

/-- two aggregating stages with a stage without aggregates between them; tuple and number states -/
def exStages : List (AStage (String × AKind) (List Int) Int (List Int)) :=
  [libStage [("A", .sumcount), ("B", .count)], libStage [], libStage [("C", .max)]]

example : (∀ st ∈ exStages, st.keys.Nodup) ∧
    (chainAggState exStages none [[1, 2, 3], [2, 4, 6], [4, 6]]).toOption
      = some [(("A", .sumcount), [6, 3]), (("B", .count), [3]), (("C", .max), [6])] := by
  refine ⟨?_, by decide⟩
  intro st hst
  simp only [exStages, List.mem_cons, List.not_mem_nil, or_false] at hst
  rcases hst with rfl | rfl | rfl <;> decide

/-- the hypotheses of `C03_chain_shards_merged` are met: distinct keys over two stages, a lawful metric, two shards whose
stage feeds concatenate to the whole run's -/
example : ([["first"], ["second", "third"]] : List (List String)).flatten.Nodup ∧
    Lawful momentsM (· = ·) ∧
    (([[[1, 2], [2, 4]], [[3], [6]]] : List (List (List Int))).flatMap fun F => (F[1]?).getD [])
      = (([[1, 2, 3], [2, 4, 6]] : List (List Int))[1]?).getD [] :=
  ⟨by decide, momentsM_lawfulComm.toLawful, by decide⟩

end MlModel.C03
