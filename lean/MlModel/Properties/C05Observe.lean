import MlModel.Lemmas.QueueObserve
import MlModel.Lemmas.QueueLiveProgs
import MlModel.Properties.C05
/-!
# C05 — observers after the fact (round 8)

"If any producer's iterator raises, **every consumer observes that exception** (never a clean
end-of-stream …)": the theorems of `Properties/C05.lean` are about one step (`C05_sticky`,
`C05_error_observed`).  Here is the history-level consequence the seeded regression
`C05-m3-clean-stop-erases-failure` violates: once a failure is on record, it is what every consumer that
finishes later ends with — a second / third consumer that only starts afterwards, a consumer that is in the
middle of a call — **whatever happens in between**: clean stop requests by other threads (`stopper none`:
`maybe_stop()`, a `DequeueIterator` reaching `num_steps`, `MultiplexIterator`'s handler), stop requests with
an exception, further failing producers, expired waits.  All of these are steps of the LTS of
`Model/Queue.lean`; `Reachable c c'` quantifies over all of them.

A second call of the same consumer after its first call raised is, in the LTS, a further consumer thread
that starts late (a thread leaves its loop at the first exception): `C05_late_consumer_observes_failure`.
-/
namespace MlModel.C05
open MlModel.Queue

variable {cap maxEnq : Nat} {to ig : Bool} {progs : List Prog} {c c' : Cfg}

/-- **A clean stop request never erases a recorded failure** (one step): the state update of `maybe_stop()`
without an exception (`stopper none` at `mAcq`; iter_utils.py `if not is_stop_iteration(exc): self._exception = exc`)
leaves `_exception` as it is. -/
theorem C05_clean_stop_keeps_exception {s s' : Shared} {t t' : Thread} {tid : Tid} {lbl : String}
    (hp : t.prog = .stopper none) (hk : TOK t) (h : stepThread s t tid false = some (lbl, s', t')) :
    s'.exc = s.exc := by
  have hk := hk.kind
  unfold stepThread at h
  cases hpc : t.pc <;> simp only [hpc] at h hk <;>
    (try (have := hk _ rfl; rw [hp] at this; exact absurd this (by decide))) <;>
    (try simp only [acquire, release, notify, waitPark, waitWake, goto, enqLoop, putLoop, batchLoop,
      afterRaise, afterValue] at h) <;>
    (repeat' split at h) <;>
    (try simp only [Option.some.injEq, Prod.mk.injEq, reduceCtorEq] at h) <;>
    (try (obtain ⟨-, rfl, rfl⟩ := h)) <;>
    simp_all [Shared.setOwner]

/-- **A recorded failure is what the queue answers for ever**: in every configuration reachable from one with
an exception on record, `self.exception or StopIteration(*self.returned)` is an exception — never a clean
end-of-stream — whatever stop requests, failures and timeouts happened in between. -/
theorem C05_failure_is_final (hexc : c.sh.exc.isSome = true) (h : Reachable c c') :
    ∃ e, c'.sh.exc = some e ∧ c'.sh.final = .err e := by
  obtain ⟨e, he⟩ := Option.isSome_iff_exists.mp (exc_sticky h hexc)
  exact ⟨e, he, by unfold Shared.final; rw [he]⟩

/-- **The failure survives every later stop request: every consumer that finishes after it observes it.**
`c`: any reachable configuration in which a failure is on record (a producer's source raised, a `put` timed
out, `maybe_stop(exc)` was called).  `c'`: any configuration reachable from `c` — any number of clean or
failing stop requests, further failures and timeouts in between.  A consumer (`get` loop or `get_batch` loop)
that at `c` has no `StopIteration` in flight (none armed at a raising program point, none recorded: in
particular a consumer that has not started, or one in the middle of a call) and that has left its loop at `c'`
ended with an exception `e` — never with `StopIteration`, never with the internal `Empty`. -/
theorem C05_failure_survives_clean_stop
    (h0 : Reachable (init cap maxEnq to ig progs) c) (hexc : c.sh.exc.isSome = true) (h : Reachable c c')
    {u : Tid} {t t' : Thread} (ht : c.ths[u]? = some t) (ht' : c'.ths[u]? = some t')
    (hcons : isCons t = true) (hn : stopInFlight t = false) (hdone : t'.pc = .done) :
    ∃ e, t'.outcome = some (.err e) := by
  have h1 := reachable_trans h0 h
  have hf := flight_reachable h hexc ht ht' hn
  have hprog : t'.prog = t.prog := by
    have p0 := progs_reachable h0
    have p1 := progs_reachable h1
    have a : (c.ths.map Thread.prog)[u]? = some t.prog := by simp [ht]
    have b : (c'.ths.map Thread.prog)[u]? = some t'.prog := by simp [ht']
    rw [p0] at a; rw [p1] at b
    rw [a] at b; exact (Option.some.inj b).symm
  have hc' : isCons t' = true := by unfold isCons at hcons ⊢; rw [hprog]; exact hcons
  obtain ⟨x, hx, hne⟩ := (obsEndOK_reachable h1 t' (List.mem_of_getElem? ht')).2 hdone hc'
  cases x with
  | empty => exact absurd rfl hne
  | err e => exact ⟨e, hx⟩
  | stop r =>
    exfalso
    unfold stopInFlight at hf
    rw [hx] at hf
    simp at hf

/-- **A consumer that arrives after the failure observes it** — the second / third consumer of a shared queue,
or the next call of a consumer whose previous call already raised: a thread that has not started at `c`
(where a failure is on record) and has left its loop at `c'` ended with an exception. -/
theorem C05_late_consumer_observes_failure
    (h0 : Reachable (init cap maxEnq to ig progs) c) (hexc : c.sh.exc.isSome = true) (h : Reachable c c')
    {u : Tid} {t t' : Thread} (ht : c.ths[u]? = some t) (ht' : c'.ths[u]? = some t')
    (hcons : isCons t = true) (hstart : t.pc = .start) (hdone : t'.pc = .done) :
    ∃ e, t'.outcome = some (.err e) := by
  obtain ⟨hx, ho⟩ := start_fresh h0 t (List.mem_of_getElem? ht) hstart
  exact C05_failure_survives_clean_stop h0 hexc h ht ht' hcons (stopInFlight_of_start hx ho) hdone

/-! ### Non-vacuity (tests): the event order "a producer fails, THEN a clean `maybe_stop()` by another thread,
THEN a consumer arrives" is reachable, and the late consumer ends with the failure. -/

/-- thread 0: producer whose source fails at once; thread 1: `maybe_stop()` (clean); thread 2: `get` loop that
starts when both are done.  After the producer: the failure is on record; after the stopper: it still is, and a
stop request is on record too; the late consumer ends with the failure. -/
example :
    let c0 := init 1 1 false false [.producer [.fail] 9, .stopper none, .getLoop]
    let s1 := ([0,0,0,0, 0,0,0,0,0,0, 0,0,0,0,0, 0]).map (·, false)
    let s2 := ([1,1,1,1,1,1,1,1,1]).map (·, false)
    let s3 := ([2,2,2,2,2,2,2]).map (·, false)
    let c1 := (replay c0 s1 []).2.1
    let c2 := (replay c1 s2 []).2.1
    let c3 := (replay c2 s3 []).2.1
    (replay c0 s1 []).2.2 = true ∧ (replay c1 s2 []).2.2 = true ∧ (replay c2 s3 []).2.2 = true ∧
    c1.sh.exc = some .value ∧ (c1.ths.map (·.pc)) = [.done, .start, .start] ∧
    c2.sh.exc = some .value ∧ c2.sh.stopRequested = true ∧ (c2.ths.map (·.pc)) = [.done, .done, .start] ∧
    c3.allDone = true ∧ c3.ths.map (·.outcome) = [some (.err .value), none, some (.err .value)] := by
  decide

/-- the hypotheses of `C05_late_consumer_observes_failure` are met by that run -/
example :
    let c0 := init 1 1 false false [.producer [.fail] 9, .stopper none, .getLoop]
    let s1 := ([0,0,0,0, 0,0,0,0,0,0, 0,0,0,0,0, 0]).map (·, false)
    let s2 := ([1,1,1,1,1,1,1,1,1] ++ [2,2,2,2,2,2,2]).map (·, false)
    let c := (replay c0 s1 []).2.1
    let c' := (replay c s2 []).2.1
    Reachable c0 c ∧ c.sh.exc.isSome = true ∧ Reachable c c' ∧
    c.ths[2]?.map (fun t => (isCons t, t.pc)) = some (true, .start) ∧
    c'.ths[2]?.map (fun t => (t.pc, t.outcome)) = some (.done, some (.err .value)) :=
  ⟨MlModel.C04.reachable_replay _ _ (by decide), by decide, MlModel.C04.reachable_replay _ _ (by decide),
    by decide, by decide⟩

end MlModel.C05
