import MlModel.Lemmas.Strategy
import MlModel.Lemmas.StrategyQueue
import MlModel.Lemmas.Shard
import MlModel.Lemmas.Rebatch
import MlModel.Properties.C04
import MlModel.Lemmas.DequeueCache
import MlModel.Lemmas.PipeAggShard
import MlModel.Lemmas.PipeAggInst
import MlModel.Properties.C02
/-!
# C03 — results do not depend on the execution strategy

Model: `Model/Strategy.lean` (pipeline = list of stages; stage = operator chain + aggregates fed the
stage's output; strategies: sequential `stageOuts`, fused/chained `Stage.fuse?`/`items`, threads
`Exec`, shards `shardParts`/`Agg.shardedState`, the in-process stage runner `staged`).
It composes models other properties own: the queue LTS (`Model/Queue.lean`, C04), contiguous sharding
(`Model/Shard.lean`, C09) and the mergeable-metric interface (`Model/Agg/Core.lean`, C01/C11).

Vocabulary.  `runOps ops xs` = what the operator chain emits for the input stream `xs`;
`stageOuts p xs` = the output stream of every stage of the sequential run; `aggFeeds p xs` = every
aggregate with the stream it is fed; an aggregate's result on a stream `out` is `a.result out`.
"row-wise chain" = every operator looks at one stream element at a time (`Op.isRow`; no re-batching).
`Lawful m Eqv` (Lemmas/AggCore.lean) = the metric is a monoid homomorphism up to the observational
equivalence `Eqv`; `LawfulComm` adds commutativity of the data (`ofBatch (xs ++ ys) ≈ ofBatch (ys ++ xs)`),
which is **needed** wherever the strategy may reorder elements (threads; shard states merged in another
order) and is not needed for shards merged in shard order or for the stage runner.

Theorems (all for every pipeline, dataset, thread count, shard count, partition and schedule):
`C03_fuse`, `C03_assemble`, `C03_fuse_ok`, `C03_fuse_rejected`, `C03_fuse_output` — fused = chained;
`C03_threads`, `C03_threads_agg`, `C03_threads_covers_interleavings`, `C03_threads_delivery` — threads = sequential (multisets);
`C03_shards`, `C03_shards_pipeline`, `C03_shards_any_order`            — merged shard states = whole run;
`C03_queue_identity`, `C03_stage_runner`                               — the stage runner = sequential (lists);
`C03_rebatch_partial`, `C03_rebatch_threads_partial`                   — with re-batching: rows and aggregates
                                                                         are preserved, batch boundaries are not
                                                                         (`Witness.C03_batch_boundaries`, finding F18).
Round 7 (size-dependent behaviour; sharded x sliced):
`C03_cache_exactly_once`, `C03_cache_num_steps`, `C03_cache_conservation`, `C03_cache_every_cap`, `C03_cache_policy`,
`C03_cache_bounded_cap`, `C03_stage_runner_cached`     — the consumer-local cache of `DequeueIterator`
                                                         (`Model/DequeueCache.lean`) delivers every `get_batch()`
                                                         refill exactly once, for every refill size / cap;
                                                         a bounded cache does so iff no refill exceeds it;
`C03_shards_sliced_keys`, `C03_shards_sliced_state`, `C03_shards_sliced`, `C03_shards_sliced_result`, `C03_shards_sliced_make`,
`C03_shards_sliced_groupby`, `C03_shards_sliced_whole_runs`, `C03_shards_strict_count`
                                                       — `merge_states` over shard states whose slice-key
                                                         sets differ (`Model/PipeAggShard.lean`) = the whole run.
Not modelled (sampled by the check with real OS threads): the `ThreadPoolExecutor`/GIL scheduling, and
the transport of the `AggregateResult` through `StopIteration`/`result_queue.returned` (final-state
part of C04/C13).
-/
namespace MlModel.C03
open MlModel.Strategy MlModel.Agg MlModel.Shard MlModel.Queue

variable {E : Type}

/-! ## Fused versus chained -/

/-- **Fusing/chaining.**  Two pipelines that are groupings of the same operator list (operators and
aggregates in the same program order, cut into stages at different places) yield the same output stream
and feed every aggregate the same stream — hence the same `agg_state` and `agg_result` for every
aggregate whatsoever (no law needed). -/
theorem C03_fuse (p q : List (Stage E)) (h : items p = items q) (xs : List E) :
    output p xs = output q xs ∧ aggFeeds p xs = aggFeeds q xs := by
  rw [output_eq_flat, output_eq_flat, aggFeeds_eq_flat, aggFeeds_eq_flat, h]; exact ⟨rfl, rfl⟩

/-- `a.chain(b)` with equal names (`_chain_and_fuse`), when accepted, is such a regrouping of
`a.chain(b)` with different names — anywhere inside a longer chain. -/
theorem C03_fuse_ok (pre post : List (Stage E)) (a b s : Stage E) (h : a.fuse? b = .ok s) (xs : List E) :
    output (pre ++ s :: post) xs = output (pre ++ a :: b :: post) xs ∧
    aggFeeds (pre ++ s :: post) xs = aggFeeds (pre ++ a :: b :: post) xs := by
  apply C03_fuse
  unfold Stage.fuse? at h
  split at h
  · rename_i hf
    cases h
    simp only [items, List.flatMap_append, List.flatMap_cons, items_fuse a b hf, List.append_assoc]
  · cases h

/-- Fusing functions behind an aggregation is refused (`ValueError`), as the builder refuses
`.aggregate(..).apply(..)`; see `Witness.C03_fuse_reorders` for what the unguarded code did. -/
theorem C03_fuse_rejected (a b : Stage E) (ha : a.aggs ≠ []) (hb : b.ops ≠ []) :
    a.fuse? b = .error .value := by
  unfold Stage.fuse? Stage.fusable
  cases ha' : a.aggs with
  | nil => exact absurd ha' ha
  | cons _ _ =>
    cases hb' : b.ops with
    | nil => exact absurd hb' hb
    | cons _ _ => simp

/-- **Every fusing/chaining through the public API.**  However the same operator list is cut into
transforms and however these are joined (`chain` under a new name, or under the previous name =
`_chain_and_fuse`): whenever both assemblies are accepted they give the same output stream and feed
every aggregate the same stream.  (An assembly is refused — `ValueError` — exactly when it would put a
function behind an aggregation inside one stage.) -/
theorem C03_assemble (ts ts' : List (Attach × List (Item E))) (p q : List (Stage E))
    (hsame : ts.flatMap (·.2) = ts'.flatMap (·.2))
    (hp : assemble ts = .ok p) (hq : assemble ts' = .ok q) (xs : List E) :
    output p xs = output q xs ∧ aggFeeds p xs = aggFeeds q xs := by
  apply C03_fuse
  have h1 := assemble_items_from ts [] p hp
  have h2 := assemble_items_from ts' [] q hq
  simp only [items, List.flatMap_nil, List.nil_append] at h1 h2
  simp only [items, h1, h2, hsame]

/-- The emitted *stream* does not depend on fusing at all (even the unguarded fuse), and in the
chained form an inner stage's aggregates are fed that stage's own output, whatever follows. -/
theorem C03_fuse_output (pre post : List (Stage E)) (a b : Stage E) (xs : List E) :
    output (pre ++ a.fuse b :: post) xs = output (pre ++ a :: b :: post) xs := by
  induction pre generalizing xs with
  | nil => simp [output, Stage.fuse, runOps_append]
  | cons s pre ih => simp only [List.cons_append, output, ih]

/-! ## Threads -/

/-- **Threads.**  For a pipeline of row-wise stages, for *every* execution in which each stage with
`num_threads ≠ 0` splits its input among any number of producers in any way and delivers the produced
elements in any order (in particular every schedule of `n` producers over `shard(i, n)` or over a shared
locked iterator): the output of every stage is a rearrangement of that stage's output in the
sequential run. -/
theorem C03_threads (p : List (Stage E)) (hrow : ∀ s ∈ p, ∀ o ∈ s.ops, o.isRow = true)
    {xs xs' : List E} (hx : xs'.Perm xs) {outs : List (List E)} (h : Exec p xs' outs) :
    outs.length = p.length ∧
    ∀ (i : Nat) (out sq : List E), outs[i]? = some out → (stageOuts p xs)[i]? = some sq →
      List.Perm out sq := by
  induction h generalizing xs with
  | nil => exact ⟨rfl, by intro i out sq h1; simp at h1⟩
  | @cons s rest xs1 ys outs1 hs _ ih =>
    have hrs := hrow s List.mem_cons_self
    have hys : ys.Perm (runOps s.ops xs) := by
      cases hs with
      | seq _ => exact runOps_perm s.ops hrs hx
      | par parts ys _ hparts hout =>
        rw [runOps_parts s.ops hrs] at hout
        exact hout.trans (runOps_perm s.ops hrs (hparts.trans hx))
    obtain ⟨hl, hi⟩ := ih (fun s' hs' => hrow s' (List.mem_cons_of_mem _ hs')) hys
    refine ⟨by simp [hl], ?_⟩
    intro i out sq h1 h2
    cases i with
    | zero =>
      simp only [List.getElem?_cons_zero, Option.some.injEq, stageOuts] at h1 h2
      subst h1 h2; exact hys
    | succ i =>
      simp only [List.getElem?_cons_succ, stageOuts] at h1 h2
      exact hi i out sq h1 h2

/-- … and every aggregate that is lawful and commutative (up to its equivalence `Eqv`) returns the same
`agg_result` as in the sequential run; in particular the final output is the same multiset (`i` = last). -/
theorem C03_threads_agg (p : List (Stage E)) (hrow : ∀ s ∈ p, ∀ o ∈ s.ops, o.isRow = true)
    {xs : List E} {outs : List (List E)} (h : Exec p xs outs)
    (i : Nat) {out sq : List E} (ho : outs[i]? = some out) (hs : (stageOuts p xs)[i]? = some sq)
    (a : Agg E) {Eqv : a.S → a.S → Prop} (law : LawfulComm a.m Eqv) :
    a.result out = a.result sq := by
  have hp := (C03_threads p hrow (List.Perm.refl xs) h).2 i out sq ho hs
  exact law.feed_perm ((hp.map a.sel).flatten)

/-- How the hypothesis of `Stage.Exec.par` is discharged by the queue LTS (C04_exactly_once): in every
reachable configuration of `piter_multiplex`'s queue — any number of producers, any capacity, any
schedule — in which the queue is empty, nothing was dropped and only the consumer `t` holds elements,
what the consumer received is a rearrangement of everything the producers put. -/
theorem C03_threads_delivery {cap maxEnq : Nat} {to ig : Bool} {progs : List Prog} {c : Cfg}
    (h : Reachable (init cap maxEnq to ig progs) c) (hq : c.sh.q = []) (hl : c.sh.lost = [])
    {t : Thread} (hsum : sumSeq c.ths = t.received) : t.received.Perm c.sh.produced := by
  have := MlModel.C04.C04_exactly_once h
  rw [hq, hl, hsum] at this
  simpa using this.symm

/-- The relation `Stage.Exec` contains every real interleaving: if the input is dealt to the producers
as an interleaving `xs` of `parts` (shared locked iterator; for shards `parts.flatten = xs`), and the
consumer receives an interleaving `ys` of what the producers emit, then `ys` is an execution. -/
theorem C03_threads_covers_interleavings (s : Stage E) (hn : s.threads ≠ 0) {xs ys : List E}
    {parts : List (List E)} (hin : Interleave parts xs) (hout : Interleave (parts.map (runOps s.ops)) ys) :
    s.Exec xs ys := by
  refine .par parts ys hn hin.perm.symm ?_
  have := hout.perm
  rwa [← List.flatMap_def] at this

/-! ## Shards -/

/-- **Shards** (one operator chain).  For every well-formed data source, every shard count `k ≥ 1`, a
row-wise chain and a lawful aggregate: running each `shard(i, k)` on its own emits, shard after shard,
exactly the list the whole run emits, and `merge_states` over the `k` shard states (in shard order)
gives the `agg_result` of the whole run.  No commutativity is needed. -/
theorem C03_shards (ops : List (Op E)) (hrow : ∀ o ∈ ops, o.isRow = true)
    (d : DS) (hwf : d.WF) (xs : List E) (hlen : xs.length = d.dataLen) (k : Nat) (hk : 1 ≤ k)
    (a : Agg E) {Eqv : a.S → a.S → Prop} (law : Lawful a.m Eqv) :
    (shardParts d k xs).flatMap (runOps ops) = runOps ops (d.elems xs) ∧
    a.m.result (a.shardedState ops (shardParts d k xs)) = a.result (runOps ops (d.elems xs)) := by
  have hpart : (shardParts d k xs).flatten = d.elems xs := by
    have := partition_elems d hwf xs hlen k hk
    rwa [List.flatMap_def] at this
  have hout : (shardParts d k xs).flatMap (runOps ops) = runOps ops (d.elems xs) := by
    rw [runOps_parts ops hrow, hpart]
  refine ⟨hout, ?_⟩
  have h1 := law.sharded_result ((shardParts d k xs).map fun part => (runOps ops part).map a.sel)
  have hst : a.shardedState ops (shardParts d k xs)
      = a.m.sharded ((shardParts d k xs).map fun part => (runOps ops part).map a.sel) := by
    simp [Agg.shardedState, Mergeable.sharded, Agg.state, List.map_map, Function.comp_def]
  rw [hst, h1, Agg.result, Agg.state, law.result_congr (law.feed_eq _), sel_parts, hout]

/-- **Shards** (pipeline form): for every stage `i` of a row-wise pipeline and every aggregate `a`,
merging the per-shard states of `a` — each shard run being the sequential chained run over that shard —
gives the result `a` has in the whole run; and the shard runs' final outputs concatenate to the whole
run's output. -/
theorem C03_shards_pipeline (p : List (Stage E)) (hrow : ∀ s ∈ p, ∀ o ∈ s.ops, o.isRow = true)
    (d : DS) (hwf : d.WF) (xs : List E) (hlen : xs.length = d.dataLen) (k : Nat) (hk : 1 ≤ k)
    (i : Nat) (hi : i < p.length) (a : Agg E) {Eqv : a.S → a.S → Prop} (law : Lawful a.m Eqv) :
    ∃ sq, (stageOuts p (d.elems xs))[i]? = some sq ∧
      ((shardParts d k xs).flatMap fun part => ((stageOuts p part)[i]?).getD []) = sq ∧
      a.m.result (a.m.mergeStates ((shardParts d k xs).map fun part =>
          a.state (((stageOuts p part)[i]?).getD []))) = a.result sq := by
  let ops := (p.take (i + 1)).flatMap Stage.ops
  have hops : ∀ o ∈ ops, o.isRow = true := by
    intro o ho
    obtain ⟨s, hs, hos⟩ := List.mem_flatMap.mp ho
    exact hrow s (List.mem_of_mem_take hs) o hos
  have hso : ∀ ys : List E, ((stageOuts p ys)[i]?).getD [] = runOps ops ys := by
    intro ys; rw [stageOuts_getElem? p ys i hi]; rfl
  refine ⟨runOps ops (d.elems xs), stageOuts_getElem? p _ i hi, ?_, ?_⟩
  · simp only [hso]; exact (C03_shards ops hops d hwf xs hlen k hk a law).1
  · simp only [hso]; exact (C03_shards ops hops d hwf xs hlen k hk a law).2

/-- **Shards, any partition, any merge order** — e.g. round-robin `ShardedIterable` shards
(C09_round_robin_partition), or states arriving in completion order: for a lawful *commutative* aggregate
every split of the data into parts whose concatenation is a rearrangement of the data gives the whole
run's result. -/
theorem C03_shards_any_order (ops : List (Op E)) (hrow : ∀ o ∈ ops, o.isRow = true)
    (xs : List E) (parts : List (List E)) (hparts : parts.flatten.Perm xs)
    (a : Agg E) {Eqv : a.S → a.S → Prop} (law : LawfulComm a.m Eqv) :
    (parts.flatMap (runOps ops)).Perm (runOps ops xs) ∧
    a.m.result (a.shardedState ops parts) = a.result (runOps ops xs) := by
  have hout : (parts.flatMap (runOps ops)).Perm (runOps ops xs) := by
    rw [runOps_parts ops hrow]; exact runOps_perm ops hrow hparts
  refine ⟨hout, ?_⟩
  have h1 := law.toLawful.sharded_result (parts.map fun part => (runOps ops part).map a.sel)
  have hst : a.shardedState ops parts
      = a.m.sharded (parts.map fun part => (runOps ops part).map a.sel) := by
    simp [Agg.shardedState, Mergeable.sharded, Agg.state, List.map_map, Function.comp_def]
  rw [hst, h1, Agg.result, Agg.state]
  refine (law.result_congr ?_).trans (law.result_congr (law.symm (law.toLawful.feed_eq _)))
  apply law.perm
  rw [sel_parts]
  exact (hout.map a.sel).flatten

/-! ## The in-process interleaved stage runner -/

/-- **One producer, one consumer: the queue is the identity on lists** (FIFO, C04). -/
theorem C03_queue_identity {ys zs : List E} (h : QueueDelivers ys zs) : zs = ys := by
  obtain ⟨cap, to, ig, r, cons, c, t, hc, hr, ht, hall, hdel, rfl⟩ := h
  have := single_consumer_delivery hc hr ht (by rw [vals_range]; simpa using hall) hdel
  rw [this, vals_range, List.range_eq_range']
  simpa using filterMap_range'_getElem? [] ys

/-- **Stage runner.**  If every inter-stage queue delivers as the LTS allows (`QueueDelivers`), the
interleaved in-process runner hands every stage the same *list* as the sequential chained run; every
stage's runner therefore emits the same list and computes the same `AggregateResult` (any aggregate, no
law needed). -/
theorem C03_stage_runner (deliver : List E → List E) (hq : ∀ ys, QueueDelivers ys (deliver ys))
    (p : List (Stage E)) (xs : List E) :
    staged deliver p xs = stageOuts p xs := by
  have hid : ∀ ys, deliver ys = ys := fun ys => C03_queue_identity (hq ys)
  induction p generalizing xs with
  | nil => rfl
  | cons s p ih => simp only [staged, stageOuts, hid, ih]

/-! ## Re-batching: rows and aggregates are preserved, batch boundaries are not -/

section Rebatch
variable {ρ : Type} (rows : E → List ρ)

/-- The full statement of the property for pipelines with a re-batching operator would be
`(parts.flatMap (runOps ops)).Perm (runOps ops xs)` (same multiset of emitted *batches*); that is false
(`Witness.C03_batch_boundaries`).  What holds: for a chain `pre ++ post` with `pre` row-wise on elements
(anything, e.g. filters on the incoming elements) and `post` made of row-respecting operators and
re-batchers, for every split of the input into consecutive parts (shards of any count), the emitted
*rows* — in order — and every lawful row-based aggregate's result are those of the whole run. -/
theorem C03_rebatch_partial (pre post : List (Op E)) (hpre : ∀ o ∈ pre, o.isRow = true)
    (hpost : ∀ o ∈ post, RowsOK rows o) (xs : List E) (parts : List (List E)) (hparts : parts.flatten = xs)
    (a : Agg E) {Eqv : a.S → a.S → Prop} (law : Lawful a.m Eqv)
    (sr : ρ → List a.X) (hsel : ∀ e, a.sel e = (rows e).flatMap sr) :
    (parts.flatMap (runOps (pre ++ post))).flatMap rows = (runOps (pre ++ post) xs).flatMap rows ∧
    a.m.result (a.shardedState (pre ++ post) parts) = a.result (runOps (pre ++ post) xs) := by
  obtain ⟨fr, hfr⟩ := runOps_rows rows post hpost
  have hrows : (parts.flatMap (runOps (pre ++ post))).flatMap rows
      = (runOps (pre ++ post) xs).flatMap rows := by
    rw [runOps_append, hfr, ← hparts, ← runOps_parts pre hpre]
    simp only [List.flatMap_assoc, runOps_append, hfr]
  refine ⟨hrows, ?_⟩
  have h1 := law.sharded_result (parts.map fun part => (runOps (pre ++ post) part).map a.sel)
  have hst : a.shardedState (pre ++ post) parts
      = a.m.sharded (parts.map fun part => (runOps (pre ++ post) part).map a.sel) := by
    simp [Agg.shardedState, Mergeable.sharded, Agg.state, List.map_map, Function.comp_def]
  have hs : a.sel = fun e => (rows e).flatMap sr := funext hsel
  have e1 : ∀ l : List E, (l.map a.sel).flatten = (l.flatMap rows).flatMap sr := by
    intro l; rw [hs, ← List.flatMap_def, List.flatMap_assoc]
  rw [hst, h1, Agg.result, Agg.state, law.result_congr (law.feed_eq _), sel_parts, e1, e1, hrows]

/-- The same under threads (any split, any arrival order), for commutative aggregates: the multiset of
emitted rows and the aggregate results are those of the sequential run. -/
theorem C03_rebatch_threads_partial (pre post : List (Op E)) (hpre : ∀ o ∈ pre, o.isRow = true)
    (hpost : ∀ o ∈ post, RowsOK rows o) (xs : List E) (parts : List (List E))
    (hparts : parts.flatten.Perm xs) (ys : List E) (hys : ys.Perm (parts.flatMap (runOps (pre ++ post))))
    (a : Agg E) {Eqv : a.S → a.S → Prop} (law : LawfulComm a.m Eqv)
    (sr : ρ → List a.X) (hsel : ∀ e, a.sel e = (rows e).flatMap sr) :
    (ys.flatMap rows).Perm ((runOps (pre ++ post) xs).flatMap rows) ∧
    a.result ys = a.result (runOps (pre ++ post) xs) := by
  obtain ⟨fr, hfr⟩ := runOps_rows rows post hpost
  have hrows : (ys.flatMap rows).Perm ((runOps (pre ++ post) xs).flatMap rows) := by
    refine (hys.flatMap_right rows).trans ?_
    rw [runOps_append, hfr]
    have : (parts.flatMap (runOps (pre ++ post))).flatMap rows
        = ((runOps pre parts.flatten).flatMap rows).flatMap fr := by
      rw [← runOps_parts pre hpre]
      simp only [List.flatMap_assoc, runOps_append, hfr]
    rw [this]
    exact ((runOps_perm pre hpre hparts).flatMap_right rows).flatMap_right fr
  refine ⟨hrows, ?_⟩
  have hs : a.sel = fun e => (rows e).flatMap sr := funext hsel
  have e1 : ∀ l : List E, (l.map a.sel).flatten = (l.flatMap rows).flatMap sr := by
    intro l; rw [hs, ← List.flatMap_def, List.flatMap_assoc]
  apply law.feed_perm
  rw [e1, e1]
  exact hrows.flatMap_right sr

end Rebatch

/-! ## Size-dependent behaviour: the `DequeueIterator` cache, for every `get_batch` cap -/

section Cache
open MlModel.DequeueCache

/-- **Exactly-once delivery through the consumer-local cache** (the code as it is: an unbounded deque).
Whatever the successive `get_batch()` calls return — any number of refills of any (non-zero) sizes — the
`__next__` calls of `iter(queue)` hand on exactly the concatenation of the refills, in order, nothing
lost, nothing twice, and then raise `StopIteration`. -/
theorem C03_cache_exactly_once {α : Type} (batches : List (List α)) (hne : ∀ b ∈ batches, b ≠ []) :
    delivered 0 none batches = batches.flatten ∧ (ending 0 none batches).1 = .stop := by
  refine ⟨?_, ending_stop 0 none batches hne⟩
  rw [delivered_eq 0 none batches hne]
  exact flatMap_kept_zero batches

/-- … and with `num_steps = k` exactly the first `k` of them. -/
theorem C03_cache_num_steps {α : Type} (batches : List (List α)) (hne : ∀ b ∈ batches, b ≠ []) (k : Nat) :
    delivered 0 (some k) batches = batches.flatten.take k := by
  rw [delivered_eq 0 (some k) batches hne]
  simp only [flatMap_kept_zero]

/-- **Conservation, also when the iteration is cut short by `num_steps`.**  Delivered elements, then what is
still in the cache, then the refills not yet fetched are exactly the refills, in order: the elements a
`DequeueIterator(num_steps = k)` drops (Model/Piter.lean: `lost`) are the rest of its cache, nothing else. -/
theorem C03_cache_conservation {α : Type} (batches : List (List α)) (hne : ∀ b ∈ batches, b ≠ [])
    (numSteps : Option Nat) :
    delivered 0 numSteps batches ++
      ((ending 0 numSteps batches).2.cache ++ (ending 0 numSteps batches).2.pending.flatten) = batches.flatten := by
  have h := delivered_rest 0 numSteps batches hne
  rwa [flatMap_kept_zero, St.rest, flatMap_kept_zero] at h

/-- **Every cap of one `get_batch`.**  A producer that ran completely ahead left `xs` in an unbounded queue;
`get_batch()` then returns slices of `bm = max_batch_size` elements.  For EVERY `bm > 0` (4096 today) and
every stream — shorter than, equal to, or many times `bm` — the iterator delivers `xs`; so do `k` stage
queues in a row. -/
theorem C03_cache_every_cap {α : Type} (bm : Nat) (hbm : 0 < bm) (xs : List α) :
    throughQueue 0 bm none xs = xs ∧ (∀ k, throughQueue 0 bm (some k) xs = xs.take k) ∧
    ∀ q, throughQueues 0 bm q xs = xs := by
  have hne : ∀ b ∈ refills bm xs, b ≠ [] := fun b hb => (refills_mem xs b hb).1
  have h1 : ∀ ys : List α, throughQueue 0 bm none ys = ys := by
    intro ys
    unfold throughQueue
    rw [(C03_cache_exactly_once _ (fun b hb => (refills_mem ys b hb).1)).1, refills_flatten hbm]
  refine ⟨h1 xs, ?_, ?_⟩
  · intro k
    unfold throughQueue
    rw [C03_cache_num_steps _ hne, refills_flatten hbm]
  · intro q
    induction q generalizing xs with
    | zero => rfl
    | succ q ih =>
      simp only [throughQueues, h1]
      exact ih xs (fun b hb => (refills_mem xs b hb).1)

/-- **Every cache policy of the model** (`collections.deque(maxlen)`, `0` = unbounded): what is delivered is
the part of every refill the deque keeps (`kept`: its last `maxlen` elements); a bounded cache delivers
everything **iff** no refill is longer than the cache. -/
theorem C03_cache_policy {α : Type} (maxlen : Nat) (batches : List (List α)) (hne : ∀ b ∈ batches, b ≠ []) :
    delivered maxlen none batches = batches.flatMap (kept maxlen) ∧
    (0 < maxlen → (delivered maxlen none batches = batches.flatten ↔ ∀ b ∈ batches, b.length ≤ maxlen)) := by
  have h := delivered_eq maxlen none batches hne
  simp only [] at h
  refine ⟨h, fun h0 => ?_⟩
  rw [h]
  constructor
  · intro heq b hb
    rcases Nat.lt_or_ge maxlen b.length with hlt | hge
    · have := flatMap_kept_length_lt h0 ⟨b, hb, hlt⟩
      rw [heq] at this
      exact absurd this (Nat.lt_irrefl _)
    · exact hge
  · exact flatMap_kept_of_le

/-- The two constants together: a cache of `maxlen ≥ bm` loses nothing, whatever the stream; a cache
SMALLER than the cap of one `get_batch` loses elements as soon as the backlog exceeds it. -/
theorem C03_cache_bounded_cap {α : Type} (maxlen bm : Nat) (h0 : 0 < maxlen) (hbm : 0 < bm) (xs : List α) :
    (bm ≤ maxlen → throughQueue maxlen bm none xs = xs) ∧
    (maxlen < bm → maxlen < xs.length → (throughQueue maxlen bm none xs).length < xs.length) := by
  have hne : ∀ b ∈ refills bm xs, b ≠ [] := fun b hb => (refills_mem xs b hb).1
  have hp := C03_cache_policy maxlen (refills bm xs) hne
  constructor
  · intro hle
    unfold throughQueue
    rw [(hp.2 h0).mpr (fun b hb => Nat.le_trans (refills_mem xs b hb).2 hle), refills_flatten hbm]
  · intro hlt hlen
    unfold throughQueue
    rw [hp.1]
    have hx : xs ≠ [] := by intro e; rw [e] at hlen; exact absurd hlen (Nat.not_lt_zero _)
    have hfirst : xs.take bm ∈ refills bm xs := by
      unfold refills
      rw [Rebatch.sliced_cons_eq hbm hx]
      exact List.mem_cons_self
    have hlong : maxlen < (xs.take bm).length := by
      rw [List.length_take]; omega
    have := flatMap_kept_length_lt h0 ⟨_, hfirst, hlong⟩
    rwa [refills_flatten hbm] at this

/-- **Stage runner through the cache.**  `C03_stage_runner` identifies what the queue LTS hands to the
consumer (`received`, the concatenation of the `get_batch` results) with what the next stage reads.  In
the code a `DequeueIterator` sits between the two; whatever the boundaries of the `get_batch` results
(`split`: any cut of the received list into non-empty refills), the stages see the sequential lists. -/
theorem C03_stage_runner_cached (deliver : List E → List E) (hq : ∀ ys, QueueDelivers ys (deliver ys))
    (split : List E → List (List E)) (hsplit : ∀ zs, (split zs).flatten = zs ∧ ∀ b ∈ split zs, b ≠ [])
    (p : List (Stage E)) (xs : List E) :
    staged (fun ys => delivered 0 none (split (deliver ys))) p xs = stageOuts p xs := by
  have hid : ∀ ys, delivered 0 none (split (deliver ys)) = ys := by
    intro ys
    rw [(C03_cache_exactly_once _ (hsplit _).2).1, (hsplit _).1]
    exact C03_queue_identity (hq ys)
  have hfun : (fun ys => delivered 0 none (split (deliver ys))) = fun ys => ys := funext hid
  rw [hfun]
  induction p generalizing xs with
  | nil => rfl
  | cons s p ih => simp only [staged, stageOuts, ih]

end Cache

/-! ## Sharded × sliced: `merge_states` over shard states whose slice-key sets differ -/

section Sliced
open MlModel.PipeAgg

variable {X S Rv : Type}

/-- If every shard run succeeds, so does the run over the whole stream (the runs fail batch by batch). -/
theorem C03_shards_sliced_whole_runs {P : Pipeline X S Rv} {parts : List (List Batch)} {sts : List (State S)}
    (hruns : mapE (run P) parts = .ok sts) : ∃ st, run P parts.flatten = .ok st :=
  whole_run_of_shards hruns

/-- **No slice key dropped, none invented** (no law needed).  For every pipeline the builder accepts and
EVERY partition of the stream into at least one shard — a slice value absent from the first, a middle or
the last shard, disjoint key sets, empty shards — the merged state has an entry under a key iff the state of
the whole run has one. -/
theorem C03_shards_sliced_keys {P : Pipeline X S Rv} (hWF : P.WF) {parts : List (List Batch)} (hne : parts ≠ [])
    {sts : List (State S)} (hruns : mapE (run P) parts = .ok sts)
    {st : State S} (hwhole : run P parts.flatten = .ok st) (mk : MetricKey) :
    mk ∈ AList.keys (mergeStates P sts) ↔ mk ∈ AList.keys st := by
  rw [AList.mem_keys_iff, AList.mem_keys_iff, mergeStates_isSome hWF hne hruns hwhole mk]

/-- **Sharded + merged = whole, entry by entry.**  … and under every key `(a.out, k)` of a lawful aggregate
`a` (the unsliced key and every slice key) the merged entry is equivalent to the whole run's entry. -/
theorem C03_shards_sliced_state {P : Pipeline X S Rv} (hWF : P.WF) {parts : List (List Batch)} (hne : parts ≠ [])
    {sts : List (State S)} (hruns : mapE (run P) parts = .ok sts)
    {st : State S} (hwhole : run P parts.flatten = .ok st)
    {a : Agg X S Rv} (ha : a ∈ P.aggs) {Eqv : S → S → Prop} (hL : Lawful a.m Eqv) (k : SliceKey) :
    OptEqv Eqv (AList.get? (mergeStates P sts) ⟨a.out, k⟩) (AList.get? st ⟨a.out, k⟩) :=
  mergeStates_get? hWF hne hruns hwhole ha hL k

/-- **The reported results agree.**  `get_result(merge_states(shard states))` and the whole run's
`agg_result` report the same value (or both nothing) under every output key of every lawful aggregate and
every slice key — hence, with C02_slices, the brute-force group-by over the whole data. -/
theorem C03_shards_sliced {P : Pipeline X S Rv} (hWF : P.WF) {parts : List (List Batch)} (hne : parts ≠ [])
    {sts : List (State S)} (hruns : mapE (run P) parts = .ok sts)
    {st : State S} (hwhole : run P parts.flatten = .ok st)
    {res res' : Result Rv} (hres : getResult P st = .ok res) (hres' : getResult P (mergeStates P sts) = .ok res')
    {a : Agg X S Rv} (ha : a ∈ P.aggs) {Eqv : S → S → Prop} (hL : Lawful a.m Eqv) (k : SliceKey)
    {i : Nat} (hi : i < a.out.length) :
    AList.get? res' ⟨a.out[i], k⟩ = AList.get? res ⟨a.out[i], k⟩ := by
  rw [getResult_get? hWF (nodup_keys_mergeStates P sts) hres' ha k hi,
    getResult_get? hWF (nodup_keys_run hwhole) hres ha k hi]
  have h := mergeStates_get? hWF hne hruns hwhole ha hL k
  cases hm : AList.get? (mergeStates P sts) ⟨a.out, k⟩ with
  | none =>
    cases hw : AList.get? st ⟨a.out, k⟩ with
    | none => rfl
    | some t => rw [hm, hw] at h; exact absurd h id
  | some s =>
    cases hw : AList.get? st ⟨a.out, k⟩ with
    | none => rw [hm, hw] at h; exact absurd h id
    | some t =>
      rw [hm, hw] at h
      simp only [Option.bind_some]
      exact Agg.outputAt_congr (hL.result_congr h) i

/-- **The sharded execution as a whole** (no hypothesis on the merged side): if the run over the whole
stream reports `res` and the shard runs succeed, then `get_result(merge_states(shard states))` — with or
without the right `strict_states_cnt` — exists and agrees with `res` under every output key of every
aggregate and every slice key (all aggregates lawful). -/
theorem C03_shards_sliced_result {P : Pipeline X S Rv} (hWF : P.WF) {parts : List (List Batch)} (hne : parts ≠ [])
    {sts : List (State S)} (hruns : mapE (run P) parts = .ok sts)
    {res : Result Rv} (hrun : aggResult P parts.flatten = .ok res)
    {Eqv : S → S → Prop} (hL : ∀ a ∈ P.aggs, Lawful a.m Eqv) :
    ∃ res', shardedResult P parts = .ok res' ∧ shardedResult P parts parts.length = .ok res' ∧
      ∀ a ∈ P.aggs, ∀ (k : SliceKey) (i : Nat) (hi : i < a.out.length),
        AList.get? res' ⟨a.out[i], k⟩ = AList.get? res ⟨a.out[i], k⟩ := by
  obtain ⟨st, hst, hres⟩ := aggResult_ok hrun
  obtain ⟨res', hres'⟩ := getResult_mergeStates_ok hWF hne hruns hst hL hres
  have hv : P.validate = .ok () := by
    unfold aggResult at hrun
    cases hv : P.validate with
    | error e => simp [hv] at hrun
    | ok u => rfl
  have hlen : sts.length = parts.length := mapE_ok_length hruns
  refine ⟨res', ?_, ?_, ?_⟩
  · simp [shardedResult, hv, hruns, mergeStatesStrict, hres']
  · simp [shardedResult, hv, hruns, mergeStatesStrict, hlen, hres']
  · intro a ha k i hi
    exact C03_shards_sliced hWF hne hruns hst hres hres' ha (hL a ha) k hi

/-- **`make(shard=ShardConfig(i, k))` for `i = 0..k-1`** over a `SequenceDataSource` of the batches (the
partition `SequenceDataSource.shard` cuts, Model/Shard.lean, C09) is such a partition: for every `k ≥ 1` the
`k` shard runs + `merge_states` report the whole run's result.  (`k` larger than the number of batches gives
empty shards; their states hold the unsliced entries only.) -/
theorem C03_shards_sliced_make {P : Pipeline X S Rv} (hWF : P.WF) (bs : List Batch) (k : Nat) (hk : 1 ≤ k)
    {sts : List (State S)} (hruns : mapE (run P) (shardParts (DS.root bs.length) k bs) = .ok sts)
    {res : Result Rv} (hrun : aggResult P bs = .ok res)
    {Eqv : S → S → Prop} (hL : ∀ a ∈ P.aggs, Lawful a.m Eqv) :
    ∃ res', shardedResult P (shardParts (DS.root bs.length) k bs) k = .ok res' ∧
      ∀ a ∈ P.aggs, ∀ (sk : SliceKey) (i : Nat) (hi : i < a.out.length),
        AList.get? res' ⟨a.out[i], sk⟩ = AList.get? res ⟨a.out[i], sk⟩ := by
  have hwf : (DS.root bs.length).WF := by
    simp only [DS.WF, DS.root, DS.end, Option.getD_none]
    omega
  have hflat : (shardParts (DS.root bs.length) k bs).flatten = bs := by
    have h := partition_elems (DS.root bs.length) hwf bs rfl k hk
    rw [List.flatMap_def] at h
    unfold shardParts
    rw [h]
    simp only [DS.elems, DS.root, DS.end, Option.getD_none]
    rw [pySlice_nat bs 0 (bs.length : Int) (Int.le_refl 0) (by omega) (Int.le_refl _)]
    simp
  have hlen : (shardParts (DS.root bs.length) k bs).length = k := by simp [shardParts]
  have hne : shardParts (DS.root bs.length) k bs ≠ [] := by
    intro e; rw [e] at hlen; simp at hlen; omega
  rw [← hflat] at hrun
  obtain ⟨res', _, h2, h3⟩ := C03_shards_sliced_result hWF hne hruns hrun hL
  rw [hlen] at h2
  exact ⟨res', h2, h3⟩

/-- **`strict_states_cnt`**: the merge raises `ValueError` exactly when a count was requested and a
different number of states arrived — never a partial aggregate. -/
theorem C03_shards_strict_count (P : Pipeline X S Rv) (sts : List (State S)) (n : Nat) :
    (mergeStatesStrict P sts n = .error .value ↔ (n ≠ 0 ∧ sts.length ≠ n)) ∧
    (¬ (n ≠ 0 ∧ sts.length ≠ n) → mergeStatesStrict P sts n = .ok (mergeStates P sts)) := by
  unfold mergeStatesStrict
  by_cases h : n ≠ 0 ∧ sts.length ≠ n
  · simp [h]
  · simp [h]

/-- **Sharded + merged = brute-force group-by over the WHOLE data** (C03_shards_sliced composed with
C02_slices).  For a row-level slicer in filter mode (single feature, cross, `within_values`, fan-out
`slice_fn`) and every partition of the stream into shards: what `get_result(merge_states(shard states))`
reports for slice `(sl.name, v)` is the aggregate applied once to exactly the rows of the whole stream that
belong to the slice — wherever the shard boundaries fall, whichever shards have seen the value — and nothing
if no row of the stream is in the slice. -/
theorem C03_shards_sliced_groupby {P : Pipeline X S Rv} (hWF : P.WF) {parts : List (List Batch)} (hne : parts ≠ [])
    {sts : List (State S)} (hruns : mapE (run P) parts = .ok sts)
    {res res' : Result Rv} (hrun : aggResult P parts.flatten = .ok res)
    (hres' : getResult P (mergeStates P sts) = .ok res')
    {a : Agg X S Rv} (ha : a ∈ P.aggs) (hns : a.noSlice = false)
    {Eqv : S → S → Prop} (hL : Lawful a.m Eqv) (hdec : RowWise a.dec)
    {sl : Slicer} (hsl : sl ∈ P.slicers) {f : List Val → Except ErrKind (List (List Int))}
    (hfn : sl.fn = .rows f) (hrep : sl.replace = none) (v : List Int) :
    ∃ rowss, mapE a.rowsOf parts.flatten = .ok rowss ∧
      ∀ i (hi : i < a.out.length),
        AList.get? res' ⟨a.out[i], ⟨sl.name, v⟩⟩ =
          if ∃ b ∈ parts.flatten, ∃ row ∈ sl.featRows b, inSlice f v row = true then
            a.outputAt (a.m.ofBatch
              (((parts.flatten.zip rowss).map fun p => groupRows f v (sl.featRows p.1) p.2).flatten)) i
          else none := by
  obtain ⟨st, hst, hres⟩ := aggResult_ok hrun
  obtain ⟨rowss, hrows, hval⟩ := MlModel.C02.C02_slices hWF hrun ha hns hL hdec hsl hfn hrep v
  refine ⟨rowss, hrows, fun i hi => ?_⟩
  rw [C03_shards_sliced hWF hne hruns hst hres hres' ha hL ⟨sl.name, v⟩ hi]
  exact hval i hi

end Sliced

/-! ## Non-vacuity (tests of the definitions, `decide`d) -/

/-- a row-wise two-stage pipeline with aggregates: `x ↦ 2x` per row, then drop batches whose first
row is `[4]` -/
def exPipe : List (Stage Bat) :=
  [{ ops := [.row fun b => [b.map fun r => r.map (2 * ·)]], aggs := [momentsAgg] },
   { ops := [.row fun b => if b.head? = some [4] then [] else [b]], aggs := [collectAgg], threads := 2 }]

example : ∀ s ∈ exPipe, ∀ o ∈ s.ops, o.isRow = true := by
  intro s hs o ho
  simp only [exPipe, List.mem_cons, List.not_mem_nil, or_false] at hs
  rcases hs with rfl | rfl <;> simp at ho <;> subst ho <;> rfl

/-- a threaded execution that really reorders: stage 2 splits `[[0],[2,4],[6]]`-ish input in two parts
and delivers the second part first -/
example : Exec exPipe [[[0]], [[1], [2]], [[2]], [[3]]]
    [[[[0]], [[2], [4]], [[4]], [[6]]], [[[6]], [[0]], [[2], [4]]]] := by
  refine .cons (.seq rfl) (.cons (.par [[[[0]], [[2], [4]]], [[[4]], [[6]]]] _ (by decide) ?_ ?_) .nil)
  · decide
  · decide

/-- `C03_rebatch_partial` applies to the driver's pipelines: vectorised functions and `batch(t)` -/
example : ∀ o ∈ ([.row fun b => [b.map fun r => r.map (2 * ·)], .rebatch (rebatchRows 2)] : List (Op Bat)),
    RowsOK (fun b : Bat => b) o := by
  intro o ho
  simp only [List.mem_cons, List.not_mem_nil, or_false] at ho
  rcases ho with rfl | rfl
  · exact mapRows_rowsOK _
  · exact rebatchRows_rowsOK 2

example : (shardParts (DS.root 5) 2 [10, 11, 12, 13, 14]) = [[10, 11, 12], [13, 14]] := by decide

/-- a delivering run: producer `[0]`, `get` loop, capacity 1; 27 producer steps then 13 consumer steps -/
def exCfg : Cfg :=
  (replay (init 1 1 false false [.producer ((List.range 1).map .val) 9, .getLoop])
    ((List.replicate 27 0 ++ List.replicate 13 1).map (·, false)) []).2.1

/-- `QueueDelivers` is inhabited: a one-element stream through a capacity-1 queue with a `get` loop -/
example : QueueDelivers [7] [7] :=
  ⟨1, false, false, 9, .getLoop, exCfg, exCfg.ths[1]'(by decide +kernel), by decide,
    MlModel.C04.reachable_replay _ _ (by decide +kernel), List.getElem?_eq_getElem _, by decide +kernel,
    by decide +kernel, by decide +kernel⟩

/-- the cache hypotheses are met by real refills: `get_batch` slices of a backlog of 5 with cap 2 -/
example : DequeueCache.refills 2 [10, 11, 12, 13, 14] = [[10, 11], [12, 13], [14]] ∧
    DequeueCache.delivered 0 none (DequeueCache.refills 2 [10, 11, 12, 13, 14]) = [10, 11, 12, 13, 14] ∧
    DequeueCache.delivered 0 (some 3) (DequeueCache.refills 2 [10, 11, 12, 13, 14]) = [10, 11, 12] := by decide +kernel

/-- sharded x sliced on C02's example pipeline: slice `a = 2` occurs only in the LAST batch, the second batch
is empty; shards `[b0] [b1] [b2]`: the shard runs succeed and `get_result` of the merged state exists -/
example : (PipeAgg.shardedResult PipeAgg.exPipeline (PipeAgg.exStream.map ([·]))).toOption.isSome = true ∧
    (PipeAgg.shardedResult PipeAgg.exPipeline (PipeAgg.exStream.map ([·]))).toOption.bind
        (PipeAgg.AList.get? · ⟨"o", ⟨["a"], [2]⟩⟩)
      = (PipeAgg.aggResult PipeAgg.exPipeline PipeAgg.exStream).toOption.bind
        (PipeAgg.AList.get? · ⟨"o", ⟨["a"], [2]⟩⟩) := by decide

end MlModel.C03
