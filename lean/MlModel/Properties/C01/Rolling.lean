import MlModel.Lemmas.AggRollingSimple
import MlModel.Lemmas.AggRollingMeanVar
import MlModel.Lemmas.AggRollingReservoir
/-!
# C01 — batching / sharding invariance, "rolling" metric family

For every metric below and **every** history of accumulators — any number of shards, any number
of batches per shard (empty ones included), merged in any bracketing with fresh accumulators
anywhere (`Agg.Expr`; `merge_states` over per-shard accumulators is the instance
`Mergeable.sharded`) — the result equals the result of one accumulator fed the whole dataset, in
merge order, as one batch.  Models: `Model/Agg/Rolling*.lean` (the repaired code, see
known_findings.d/rolling.json F2, F3, F25).

Statistics are exact rationals with NaN = `none`; float rounding is outside the model.
-/
namespace MlModel.C01
open MlModel.Agg MlModel.Agg.Rolling

/-- the whole dataset of a sharded run, in shard order -/
abbrev allData {X : Type} (shards : List (List (List X))) : List X := (shards.map List.flatten).flatten

/-- every history of a lawful metric = one batch -/
theorem history_eq_one_batch {X S R : Type} {m : Mergeable X S R} {Eqv : S → S → Prop}
    (h : Lawful m Eqv) (e : Expr X) : m.result (e.eval m) = m.result (m.ofBatch e.data) := by
  rw [h.toLawfulU.eval_result e, Expr.canon]
  by_cases hf : e.fed = true
  · simp only [hf, if_true]
  · simp only [hf, if_false]
    rw [Expr.data_of_not_fed (by simpa using hf)]
    exact h.result_congr h.empty_eq

/-! ## MeanAndVariance / Var / Mean -/

/-- `MeanAndVariance` / `Var`, 1-D input with NaN entries: every history = one batch
(count, mean, variance, total; `stddev = sqrt(var)`). -/
theorem C01_rolling_meanvar_1d (e : Expr F) :
    mv1.result (e.eval mv1) = mv1.result (mv1.ofBatch e.data) := 
  history_eq_one_batch mv1_lawful e

theorem C01_rolling_meanvar_1d_sharded (shards : List (List (List F))) :
    mv1.result (mv1.sharded shards) = mv1.result (mv1.ofBatch (allData shards)) :=
  mv1_lawful.sharded_result shards

/-- `MeanAndVariance` / `Var`, 2-D input of `k` columns (per-column statistics, columns that are
all-NaN in some batches or shards, empty batches): every history = one accumulator fed everything
in one batch (`(mv2 k).ofBatch rows` *is* `fresh.merge(new(rows))`). -/
theorem C01_rolling_meanvar_2d (k : Nat) (e : Expr (Row k)) :
    (mv2 k).result (e.eval (mv2 k)) = (mv2 k).result ((mv2 k).ofBatch e.data) := 
  history_eq_one_batch (mv2_lawful k) e

theorem C01_rolling_meanvar_2d_sharded (k : Nat) (shards : List (List (List (Row k)))) :
    (mv2 k).result ((mv2 k).sharded shards) = (mv2 k).result ((mv2 k).ofBatch (allData shards)) :=
  (mv2_lawful k).sharded_result shards

/-- the model's `add` (merge of `fresh.merge(new(b))`) and the code's `add` (merge of `new(b)`)
leave every receiver with the same statistics -/
theorem C01_rolling_meanvar_2d_add_faithful (k : Nat) (s : MV) (rows : List (Row k)) :
    ((mv2 k).add s rows).result = (MV.mergeCore true s (MV.ofRows k (rows.map (·.val)))).result :=
  MV.result_congr (mv2_add_faithful k s rows)

/-- the instances above use the non-raising core of `merge`; this is the real `merge` (with its
shape check, rolling_stats.py:348–353, and numpy broadcasting): on `k`-column data **no history
raises `ValueError`** and the real evaluation is exactly the instance's -/
theorem C01_rolling_meanvar_2d_never_raises (k : Nat) (e : Expr (Row k)) :
    MV.evalReal (fun rows => MV.ofRows k (rows.map (·.val))) e = .ok (e.eval (mv2 k)) :=
  mv2_evalReal k e

/-- the same for 1-D data -/
theorem C01_rolling_meanvar_1d_never_raises (e : Expr F) :
    ∃ s, MV.evalReal MV.ofList e = .ok s :=
  (MV.evalReal_wf none MV.ofList MVWf.ofList e).imp fun _ h => h.1

/-- the `Mean` class, 1-D -/
theorem C01_rolling_mean_1d (e : Expr F) :
    mean1.result (e.eval mean1) = mean1.result (mean1.ofBatch e.data) := 
  history_eq_one_batch mean1_lawful e

/-- the `Mean` class, 2-D -/
theorem C01_rolling_mean_2d (k : Nat) (e : Expr (Row k)) :
    (mean2 k).result (e.eval (mean2 k)) = (mean2 k).result ((mean2 k).ofBatch e.data) := 
  history_eq_one_batch (mean2_lawful k) e

/-! ## sum-like metrics: one generic statement, instantiated -/

theorem C01_rolling_meanstate (e : Expr Rat) :
    meanState.result (e.eval meanState) = meanState.result (meanState.ofBatch e.data) :=
  history_eq_one_batch meanState_lawful e

theorem C01_rolling_counter (e : Expr Int) :
    counter.result (e.eval counter) = counter.result (counter.ofBatch e.data) :=
  history_eq_one_batch counter_lawful e

/-- `Histogram` with fixed bin edges (`bins=int, range=(lo,hi)` or explicit edges), weights,
NaN and out-of-range values -/
theorem C01_rolling_histogram (edges : List Rat) (e : Expr (F × Rat)) :
    (histogram edges).result (e.eval (histogram edges))
      = (histogram edges).result ((histogram edges).ofBatch e.data) :=
  history_eq_one_batch (histogram_lawful edges) e

theorem C01_rolling_minmax (e : Expr Rat) :
    minMaxAndCount.result (e.eval minMaxAndCount) = minMaxAndCount.result (minMaxAndCount.ofBatch e.data) :=
  history_eq_one_batch minMaxAndCount_lawful e

theorem C01_rolling_r2tjur (e : Expr (Rat × Rat)) :
    r2Tjur.result (e.eval r2Tjur) = r2Tjur.result (r2Tjur.ofBatch e.data) :=
  history_eq_one_batch r2Tjur_lawful e

theorem C01_rolling_r2tjur_relative (e : Expr (Rat × Rat)) :
    r2TjurRelative.result (e.eval r2TjurRelative) = r2TjurRelative.result (r2TjurRelative.ofBatch e.data) :=
  history_eq_one_batch r2TjurRelative_lawful e

theorem C01_rolling_rregression (center : Bool) (e : Expr (Rat × Rat)) :
    (rRegression center).result (e.eval (rRegression center))
      = (rRegression center).result ((rRegression center).ofBatch e.data) :=
  history_eq_one_batch (rRegression_lawful center) e

theorem C01_rolling_spd (e : Expr (Rat × Rat)) :
    symPredDiff.result (e.eval symPredDiff) = symPredDiff.result (symPredDiff.ofBatch e.data) :=
  history_eq_one_batch symPredDiff_lawful e

/-- all of the above also in the literal "shards × batches, `merge_states`" form -/
theorem C01_rolling_sharded_forms :
    (∀ sh, meanState.result (meanState.sharded sh) = meanState.result (meanState.ofBatch (allData sh))) ∧
    (∀ sh, counter.result (counter.sharded sh) = counter.result (counter.ofBatch (allData sh))) ∧
    (∀ edges sh, (histogram edges).result ((histogram edges).sharded sh)
        = (histogram edges).result ((histogram edges).ofBatch (allData sh))) ∧
    (∀ sh, minMaxAndCount.result (minMaxAndCount.sharded sh)
        = minMaxAndCount.result (minMaxAndCount.ofBatch (allData sh))) ∧
    (∀ sh, r2Tjur.result (r2Tjur.sharded sh) = r2Tjur.result (r2Tjur.ofBatch (allData sh))) ∧
    (∀ sh, r2TjurRelative.result (r2TjurRelative.sharded sh)
        = r2TjurRelative.result (r2TjurRelative.ofBatch (allData sh))) ∧
    (∀ c sh, (rRegression c).result ((rRegression c).sharded sh)
        = (rRegression c).result ((rRegression c).ofBatch (allData sh))) ∧
    (∀ sh, symPredDiff.result (symPredDiff.sharded sh) = symPredDiff.result (symPredDiff.ofBatch (allData sh))) :=
  ⟨meanState_lawful.sharded_result, counter_lawful.sharded_result,
   fun e => (histogram_lawful e).sharded_result, minMaxAndCount_lawful.sharded_result,
   r2Tjur_lawful.sharded_result, r2TjurRelative_lawful.sharded_result,
   fun c => (rRegression_lawful c).sharded_result, symPredDiff_lawful.sharded_result⟩

/-! ## metrics whose fresh state is distinguishable from "fed one empty batch"

`TupleMeanState`, `UnboundedSampler`, `ValueAccumulator` keep `()` until the first batch fixes
the number of columns.  Every history in which at least one batch (possibly empty) was fed equals
one batch; a history of fresh accumulators only is a fresh accumulator. -/

theorem history_eq_one_batch_or_fresh {X S R : Type} {m : Mergeable X S R} {Eqv : S → S → Prop}
    (h : LawfulU m Eqv) (e : Expr X) :
    m.result (e.eval m) = if e.fed then m.result (m.ofBatch e.data) else m.result m.empty := by
  rw [h.eval_result e, Expr.canon]
  split <;> rfl

theorem C01_rolling_tuplemeanstate (k : Nat) (e : Expr (RowOf Rat k)) :
    (tupleMeanState k).result (e.eval (tupleMeanState k))
      = if e.fed then (tupleMeanState k).result ((tupleMeanState k).ofBatch e.data)
        else (tupleMeanState k).result (tupleMeanState k).empty :=
  history_eq_one_batch_or_fresh (tupleMeanState_lawfulU k) e

/-- order-carrying: the result is the concatenation, per column, in merge order -/
theorem C01_rolling_sampler (α : Type) [Inhabited α] (k : Nat) (e : Expr (RowOf α k)) :
    (unboundedSampler α k).result (e.eval (unboundedSampler α k))
      = if e.fed then (unboundedSampler α k).result ((unboundedSampler α k).ofBatch e.data)
        else (unboundedSampler α k).result (unboundedSampler α k).empty :=
  history_eq_one_batch_or_fresh (unboundedSampler_lawfulU α k) e

/-- order-carrying: the result is the concatenation, per column, in merge order
(items = rows with a concatenating `concat_fn`, = the batch objects without one) -/
theorem C01_rolling_value_accumulator (α : Type) [Inhabited α] (k : Nat) (e : Expr (RowOf α k)) :
    (valueAccumulator α k).result (e.eval (valueAccumulator α k))
      = if e.fed then (valueAccumulator α k).result ((valueAccumulator α k).ofBatch e.data)
        else (valueAccumulator α k).result (valueAccumulator α k).empty :=
  history_eq_one_batch_or_fresh (valueAccumulator_lawfulU α k) e

/-- …and in the "shards × batches, `merge_states`" form: as soon as some shard received a batch -/
theorem C01_rolling_sampler_sharded (α : Type) [Inhabited α] (k : Nat)
    (shards : List (List (List (RowOf α k)))) (h : shards.any (fun sh => !sh.isEmpty) = true) :
    (unboundedSampler α k).result ((unboundedSampler α k).sharded shards)
      = (unboundedSampler α k).result ((unboundedSampler α k).ofBatch (allData shards)) := by
  have := (unboundedSampler_lawfulU α k).sharded_eqv shards
  rw [h] at this
  exact (unboundedSampler_lawfulU α k).result_congr this

/-! ## FixedSizeSample (reservoir sampling, Algorithm L)

The random generator is an arbitrary stream of draws (`Rng`).  For **every** history of
`add`/`merge` (`FSSHist`), every `max_size` and every stream: no operation raises, the reservoir
holds `min(max_size, n)` elements, they form a sub-multiset of the inputs, and
`num_samples_reviewed = n`. -/
theorem C01_rolling_reservoir {α : Type} [DecidableEq α] (maxSize : Nat) (h : FSSHist α) (rng : Rng) :
    ∃ s rng', h.eval maxSize rng = .ok (s, rng') ∧
      s.reservoir.length = min maxSize h.data.length ∧
      (∀ x, s.reservoir.count x ≤ h.data.count x) ∧
      s.reviewed = h.data.length := by
  obtain ⟨s, g, he, hi⟩ := FSSHist.eval_spec maxSize h rng
  exact ⟨s, g, he, hi.size, hi.members, hi.reviewed⟩

/-! ## non-vacuity / sanity (tests, `decide`d) -/

/-- the F2 input: a column that is all-NaN in the first batch only -/
example :
    let b1 : List (Row 2) := [⟨[some 1, none], rfl⟩, ⟨[some 2, none], rfl⟩]
    let b2 : List (Row 2) := [⟨[some 3, some 4], rfl⟩, ⟨[some 5, some 6], rfl⟩]
    ((mv2 2).result ((mv2 2).sharded [[b1, b2]])).var = [some (35 / 16), some 1] := by decide +kernel

example : (unboundedSampler Nat 1).result
    ((unboundedSampler Nat 1).sharded [[[⟨[1], rfl⟩]], [], [[⟨[2], rfl⟩, ⟨[3], rfl⟩]]])
      = .single [1, 2, 3] := by decide

example : (FSSHist.eval 2 (.merge (.add .fresh [1, 2, 3]) (.add .fresh [4, 5])) [0, 1, 1, 0, 3, 2]).toOption.map
    (fun p => (p.1.reservoir.length, p.1.reviewed)) = some (2, 5) := by decide

end MlModel.C01
