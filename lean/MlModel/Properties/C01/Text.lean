import MlModel.Lemmas.AggTextTree
import MlModel.Lemmas.AggTextHeap
/-!
# C01 (text family) — `TopKWordNGrams` and `PatternFrequency` are invariant to batching and sharding

All statements are about the raw functions the compiled driver runs (`Metric.mergeable`, i.e.
`topK cfg` / `patFreq cfg` of `Model/Agg/Text.lean`), for **every** configuration (`k`, `n`, flags /
pattern list), every list of texts (arbitrary Unicode, empty strings, texts shorter than `n`), every
composition into shards and batches (empty ones included).  Frequencies are exact rationals.

`m.result s = m.view (s.result strLe)` where `view = take k` for the n-gram metric: truncation to the
top `k` happens when reading the result, never when merging (`C01_text_full_table` is the invariance of
the *untruncated* table, which a truncation at `add`/`merge` time would break).
-/
namespace MlModel.C01
open MlModel.Agg MlModel.Agg.Text

/-- Any number of shards, each fed in any number of batches, merged by `merge_states`
(base.py:195), reports what one accumulator fed everything in one batch reports. -/
theorem C01_text_sharding (m : Metric) (shards : List (List (List Str))) :
    m.mergeable.result (m.mergeable.sharded shards)
      = m.mergeable.result (m.mergeable.ofBatch (shards.map List.flatten).flatten) := by
  have h := (lawful m).sharded_result shards
  simp only [Metric.mergeableW] at h
  rw [result_mergeable, result_mergeable, ofBatch_mergeable, ← val_sharded]
  exact h

/-- The same for the *whole* frequency table (before any `[:k]`): nothing is dropped at `add` or
`merge` time. -/
theorem C01_text_full_table (m : Metric) (shards : List (List (List Str))) :
    (m.mergeable.sharded shards).result strLe
      = (m.batch (shards.map List.flatten).flatten).result strLe := by
  have h := (lawful m).sharded_eq shards
  rw [← val_sharded]
  exact FreqState.result_congr strLe_keyOrder (m.mergeableW.sharded shards).2 (wf_batch m _) h

/-- Any binary merge tree over accumulators that were fed batch by batch, and any assignment of the
rows to those accumulators (`d` is any permutation of the rows under the tree): same result as one
batch of `d`. -/
theorem C01_text_any_tree_any_order (m : Metric) (t : DTree) (d : List Str) (h : t.rows.Perm d) :
    m.result (t.eval m) = m.result (m.batch d) := by
  obtain ⟨hw, ho⟩ := t.eval_spec m
  exact m.result_congr hw (wf_batch m d) (ho.trans (batch_perm m h))

/-- … and the *whole* table (before any `[:k]`) of any merge tree over any assignment of the rows is the table of
one batch: no entry is dropped and no count is lost at `add` / `merge` time, however many distinct n-grams the
accumulated states hold (there is no bound such as `10 * k` on the stored candidates; `Witness/C01Text.lean`
shows a bounded state is not batching-invariant). -/
theorem C01_text_full_table_any_tree (m : Metric) (t : DTree) (d : List Str) (h : t.rows.Perm d) :
    (t.eval m).result strLe = (m.batch d).result strLe := by
  obtain ⟨hw, ho⟩ := t.eval_spec m
  exact FreqState.result_congr strLe_keyOrder hw (wf_batch m d) (ho.trans (batch_perm m h))

/-- the stored counts themselves: after any tree the counter holds, for every key, exactly the count of one batch
over all rows (SC07c: the count of a "late bloomer" gathered while it was rare is still there) -/
theorem C01_text_counts_any_tree (m : Metric) (t : DTree) (d : List Str) (h : t.rows.Perm d) (g : Str) :
    get (t.eval m).counter g = get (m.batch d).counter g ∧ (t.eval m).count = (m.batch d).count := by
  obtain ⟨_, ho⟩ := t.eval_spec m
  have := ho.trans (batch_perm m h)
  exact ⟨this.2.2 g, this.1⟩

/-- One accumulator, any batching. -/
theorem C01_text_batching (m : Metric) (batches : List (List Str)) :
    m.result (m.mergeable.feed batches) = m.result (m.batch batches.flatten) :=
  C01_text_any_tree_any_order m (.leaf batches) _ (List.Perm.refl _)

/-- What `add(texts)` returns is a function of that batch alone: it does not depend on the accumulator
it was added to, nor on anything else on the heap. -/
theorem C01_text_add_return (m : Metric) (w : World) (i : Nat) (texts : List Str) :
    (step m w (.add i texts)).2 = some (m.result (m.batch texts)) := rfl

/-! Non-vacuity / sanity of the vocabulary (tests, evaluated by the kernel). -/

/-- test: two shards `[["a b a b"], ["A b"]]` and `[[], ["b"]]`, bigrams: the merged counter has `"a b" ↦ 3` -/
example :
    get ((Metric.ngrams { k := 1, n := 2 }).mergeable.sharded
      [[[['a', ' ', 'b', ' ', 'a', ' ', 'b']], [['A', ' ', 'b']]], [[], [['b']]]]).counter
      ['a', ' ', 'b'] = 3 := by decide

/-- test: a tree with three leaves, rows in another order -/
example : (DTree.node (.leaf [[['a']], []]) (.node (.leaf []) (.leaf [[['b'], ['c']]]))).rows.Perm
    [['c'], ['a'], ['b']] := by decide

end MlModel.C01
