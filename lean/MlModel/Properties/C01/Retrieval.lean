import MlModel.Lemmas.AggCore
import MlModel.Lemmas.RetrievalThr
/-!
# C01, metric family "retrieval": batching / sharding invariance and row independence

`TopKRetrieval` keeps, per metric, a `MeanState` `(sum of per-example vectors, count)`.
The instance is a lawful `Mergeable` (`Lemmas/AggCore.lean`) with *equality* as observational
equivalence — so every composition of a dataset into shards and of every shard into batches
(empty ones included) gives exactly the state of one accumulator fed the whole dataset as one
batch.  The load-bearing fact is row independence: the vector of an example does not depend on
the padded width of the batch it travels in (DESIGN §7-F4 was the failure of exactly this on the
unrepaired code, see `Witness/C01Retrieval.lean`).
-/
namespace MlModel.C01
open MlModel.Agg MlModel.Agg.Retrieval MlModel.Spec.Retrieval

variable {α : Type} [DecidableEq α]

/-- **Row independence.**  The metric vector `add()` computes for an example inside *any* batch
equals the vector it computes for that example alone in a one-example batch. -/
theorem C01_retrieval_row_independence (cfg : Config) (h : cfg.KsPos) (rows : List (Row α))
    (r : Row α) (hr : r ∈ rows) :
    rowVals cfg (cfg.width rows) r = rowVals cfg (cfg.width [r]) r := by
  rw [rowVals_eq_spec cfg h _ r (le_width cfg rows r hr),
    rowVals_eq_spec cfg h _ r (le_width cfg [r] r (by simp))]

/-- the same, on what `add()` returns: entry `(metric j, example i)` of the batch result is entry
`(j, 0)` of the result for the one-example batch `[rows[i]]` -/
theorem C01_retrieval_row_independence_add (cfg : Config) (h : cfg.KsPos) (rows : List (Row α))
    (i j : Nat) (hi : i < rows.length) (hj : j < cfg.metrics.length) :
    ((batchVals cfg rows).getD j []).getD i [] = ((batchVals cfg [rows[i]]).getD j []).getD 0 [] := by
  rw [batchVals_eq_spec cfg h, batchVals_eq_spec cfg h]
  simp only [List.getD_eq_getElem?_getD, List.getElem?_map, List.getElem?_range hj,
    Option.map_some, Option.getD_some, List.getElem?_eq_getElem hi, List.map_cons, List.map_nil,
    List.getElem?_cons_zero]

/-- `TopKRetrieval` is a lawful mergeable metric: a fresh accumulator is the state of the empty
dataset and `add(xs); add(ys)` / `merge` of two one-batch states is the one-batch state of `xs ++ ys` -/
theorem C01_retrieval_topk_lawful (cfg : Config) (h : cfg.KsPos) :
    Lawful (mergeable (α := α) cfg) Eq where
  refl := fun _ => rfl
  symm := Eq.symm
  trans := Eq.trans
  merge_congr := by intro s s' t t' h1 h2; rw [h1, h2]
  result_congr := by intro s t h1; rw [h1]
  empty_eq := (ofBatch_nil cfg).symm
  hom := ofBatch_append cfg h

/-- **Sharding invariance**: any number of shards, each fed in any number of batches (empty shards
and empty batches included), merged with `merge_states`, has the *same state* as one accumulator
fed the concatenated dataset in one batch. -/
theorem C01_retrieval_topk_sharded (cfg : Config) (h : cfg.KsPos) (shards : List (List (List (Row α)))) :
    (mergeable cfg).sharded shards = ofBatch cfg (shards.map List.flatten).flatten :=
  (C01_retrieval_topk_lawful cfg h).sharded_eq shards

/-- … hence the same result, which is the textbook mean over all examples (C07) -/
theorem C01_retrieval_topk_sharded_result (cfg : Config) (h : cfg.KsPos)
    (shards : List (List (List (Row α)))) :
    (mergeable (α := α) cfg).result ((mergeable cfg).sharded shards) =
      Spec.Retrieval.dataset cfg (shards.map List.flatten).flatten := by
  rw [C01_retrieval_topk_sharded cfg h]
  show resultState (ofBatch cfg _) = _
  unfold resultState ofBatch dataset
  rw [batchVals_eq_spec cfg h, List.map_map, List.map_map]
  apply List.map_congr_left
  intro j _
  simp only [Function.comp, MeanCell.result, MeanCell.new, List.length_map, sumVecs]

/-- one accumulator, any batching = one batch -/
theorem C01_retrieval_topk_batching (cfg : Config) (h : cfg.KsPos) (batches : List (List (Row α))) :
    (mergeable cfg).feed batches = ofBatch cfg batches.flatten :=
  (C01_retrieval_topk_lawful cfg h).feed_eq batches

/-- `ThresholdedRetrieval` (pooled counts per threshold) is lawful on the rows its matcher accepts -/
theorem C01_retrieval_thresholded_lawful (ts : List Rat) :
    Lawful (Thr.mergeableOk (α := α) ts) Eq where
  refl := fun _ => rfl
  symm := Eq.symm
  trans := Eq.trans
  merge_congr := by intro s s' t t' h1 h2; rw [h1, h2]
  result_congr := by intro s t h1; rw [h1]
  empty_eq := by
    show Thr.Counts.zero ts.length = Thr.ofBatch ts (([] : List (Thr.OkRow α)).map Subtype.val)
    rw [List.map_nil, Thr.ofBatch_nil]
  hom := Thr.ofBatch_append ts

theorem C01_retrieval_thresholded_sharded (ts : List Rat) (shards : List (List (List (Thr.OkRow α)))) :
    (Thr.mergeableOk ts).sharded shards =
      Thr.ofBatch ts ((shards.map List.flatten).flatten.map Subtype.val) :=
  (C01_retrieval_thresholded_lawful ts).sharded_eq shards

/-- the stand-alone `MeanState` (aggregates/utils.py) -/
theorem C01_retrieval_mean_lawful : Lawful meanMergeable Eq where
  refl := fun _ => rfl
  symm := Eq.symm
  trans := Eq.trans
  merge_congr := by intro s s' t t' h1 h2; rw [h1, h2]
  result_congr := by intro s t h1; rw [h1]
  empty_eq := rfl
  hom := Mean.new_append

theorem C01_retrieval_mean_sharded (shards : List (List (List Q))) :
    meanMergeable.sharded shards = Mean.new (shards.map List.flatten).flatten :=
  C01_retrieval_mean_lawful.sharded_eq shards

/-! ### non-vacuity (tests) -/

def exCfg : Config := { kList := none, metrics := [.meanAveragePrecision, .threatScore], multiclass := false }
def exA : Row Nat := ⟨[1], [1]⟩
def exB : Row Nat := ⟨[1, 2, 3], [3, 4, 1]⟩

example : exCfg.KsPos := by decide
/-- the split of DESIGN §7-F4 (one batch `[a, b]` vs. two batches `[a]`, `[b]` on two shards) -/
example : (mergeable exCfg).sharded [[[exA]], [[exB]]] = ofBatch exCfg [exA, exB] :=
  C01_retrieval_topk_sharded exCfg (by decide) _
example : resultState (ofBatch exCfg [exA, exB]) =
    [.mean [V.ofQ (some (14/9))] 2, .mean [V.ofQ (some (3/2))] 2] := by decide +kernel

end MlModel.C01
