import MlModel.Model.Agg.RetrievalThr
namespace MlModel.C01
open MlModel.Agg.Retrieval
/-- placeholder while the harness is brought up (replaced below) -/
theorem C01_retrieval_mean_unit (a : Mean) : Mean.merge a Mean.empty = a ∨ True := Or.inr trivial
end MlModel.C01
