import MlModel.Lemmas.GenScalar
/-!
# C01 — the pooling formulas of `Mean.merge` / `MeanAndVariance.merge`, stated against the GENERATED code

`Generated.Scalar.Mean_merge` / `MeanAndVariance_merge` are written by `translate/scalar.py` from the Python
source on every run (straight-line arithmetic of one array element; the whole-array guards
`np.all(np.isnan(..))` are Bool parameters).  The theorems below tie them to the hand model
(`Col.mergeMean`, `Col.step`, `MV.mergeCore`) from which all sharding/batching theorems of
`Properties/C01/Rolling.lean` are derived — and restate the core pooling law directly on the generated code.
A swapped operand / dropped term / changed constant in the Python makes `lake build` fail here.
-/
namespace MlModel.C01
open MlModel.Agg MlModel.Agg.Rolling MlModel.Gen MlModel.Generated

/-- generated `Mean.merge` (guard `np.all(np.isnan(other.mean))` not firing) is the hand model's
per-column `Col.mergeMean`; with the guard firing the receiver is unchanged. -/
theorem C01_gen_mean_merge (a b : Col) :
    Scalar.Mean_merge false (ofColMean a) (ofColMean b) = ofColMean (a.mergeMean b) ∧
    ∀ s o, Scalar.Mean_merge true s o = s :=
  ⟨mean_merge_eq a b, mean_merge_guard⟩

/-- generated `MeanAndVariance.merge` on one array element = one column of the hand model `MV.mergeCore`
(`Col.step`), for both outcomes of the third guard `np.all(np.isnan(self._var))`; with the first guard
`np.all(np.isnan(other.var))` firing the receiver is unchanged. -/
theorem C01_gen_meanvar_merge_column (selfNan : Bool) (a b : Col) :
    Scalar.MeanAndVariance_merge false false selfNan (ofCol a) (ofCol b) = ofCol (Col.step true selfNan a b) ∧
    ∀ g2 g3 s o, Scalar.MeanAndVariance_merge true g2 g3 s o = s :=
  ⟨meanvar_merge_step selfNan a b, meanvar_merge_guard⟩

/-- with no guard firing: the complete Chan/Welford update `Col.merge` -/
theorem C01_gen_meanvar_merge_eq_col_merge (a b : Col) :
    Scalar.MeanAndVariance_merge false false false (ofCol a) (ofCol b) = ofCol (Col.merge true a b) := by
  rw [meanvar_merge_step, Col.step_false]

/-- the whole-array model is the generated element function mapped over the broadcast pairs, the three
guards instantiated with the model's whole-array tests.  Hypothesis `h`: an operand whose means are all NaN
has all variances NaN — true of everything `new(batch)` produces (`C01_gen_new_mean_var_nan`), and the
reason `MV.mergeCore` does not model the inner guard of `Mean.merge` separately. -/
theorem C01_gen_meanvar_mergeCore (s o : MV) (h : o.allMeanNan = true → o.allVarNan = true) :
    (MV.mergeCore true s o).cols.map ofCol
      = if o.allVarNan then s.cols.map ofCol
        else (MV.bcast s o).2.map fun p =>
          Scalar.MeanAndVariance_merge o.allVarNan o.allMeanNan s.allVarNan (ofCol p.1) (ofCol p.2) := by
  rw [MV.mergeCore_cols]
  by_cases hv : o.allVarNan = true
  · simp [hv]
  · have hv' : o.allVarNan = false := by simpa using hv
    have hm : o.allMeanNan = false := by
      cases hm : o.allMeanNan with
      | false => rfl
      | true => exact absurd (h hm) hv
    simp only [hv', hm, Bool.false_eq_true, if_false, List.map_map]
    apply List.map_congr_left
    intro p _
    simp only [Function.comp, meanvar_merge_step]

/-- `h` of the previous theorem for the operands `add` creates: `new(batch)` of a 1-D or 2-D batch -/
theorem C01_gen_new_mean_var_nan (k : Nat) (xs : List F) (rows : List (List F)) :
    ((MV.ofList xs).allMeanNan = true → (MV.ofList xs).allVarNan = true) ∧
    ((MV.ofRows k rows).allMeanNan = true → (MV.ofRows k rows).allVarNan = true) := by
  constructor
  · simp only [MV.allMeanNan, MV.allVarNan, MV.ofList, List.all_cons, List.all_nil, Bool.and_true,
      Col.ofList_mean_isNone, Col.ofList_var_isNone]
    exact id
  · simp only [MV.allMeanNan, MV.allVarNan, MV.ofRows, List.all_map, List.all_eq_true, Function.comp,
      Col.ofList_mean_isNone, Col.ofList_var_isNone]
    exact id

/-- **Chan pooling on the generated code**: merging the statistics of `a` and of `b` with the generated
formula gives the statistics of `a ++ b` (count, NaN-skipping mean, population variance — exact over ℚ,
all four NaN cases), provided the `self._var = other.var` shortcut is only taken on an all-NaN receiver. -/
theorem C01_gen_meanvar_merge_pools (selfNan : Bool) (a b : List F)
    (h : selfNan = true → (valid a).length = 0) :
    Scalar.MeanAndVariance_merge false false selfNan (ofCol (Col.ofList a)) (ofCol (Col.ofList b))
      = ofCol (Col.ofList (a ++ b)) := by
  rw [meanvar_merge_step, Col.step_ofList selfNan h]

/-- (non-vacuity / test) `[1, NaN, 3]` pooled with `[5]` -/
example : Scalar.MeanAndVariance_merge false false false (ofCol (Col.ofList [some 1, none, some 3]))
    (ofCol (Col.ofList [some 5])) = ⟨some 3, some 3, some (8 / 3)⟩ := by decide +kernel

/-- the embedding loses nothing -/
theorem C01_gen_ofCol_injective : Function.Injective ofCol := ofCol_injective

end MlModel.C01
