import MlModel.Lemmas.AggHistory
import MlModel.Lemmas.AggRollingSimple
import MlModel.Lemmas.AggRollingMeanVar
import MlModel.Lemmas.ConfusionAgg
import MlModel.Lemmas.AggText
import MlModel.Properties.C01.Retrieval
/-!
# C01 — histories WITH READS: every read returns the one-shot value of the data so far

The other C01 files state the invariance for the value read at the END of a history
(`Agg.Expr`: fresh / batch / merge).  `properties.jsonl` observes at "`metric.result()` /
`AggregateFn.get_result(state)` after arbitrary add/merge histories" — and in real use results are
read in between (per-shard report, then merged in place, then global report), by a method of a
mutable object that is free to write into that object.  Here the operation alphabet of the
history contains the read (`Agg.Hist.Op.read`, `RMergeable.read : S → S × R`):

* generic: for every metric obeying the merge laws `LawfulU` whose read obeys the two local laws
  `ReadLaws` (returns `result` of the state; leaves an equivalent state), EVERY read of EVERY history
  over any number of accumulators returns `result` of ONE accumulator fed, as one batch, all the
  data that reached the read accumulator so far, in merge order (`Hist.obsP` / `Expr.canon`);
* instances: the models of all four metric families (their read is the pure `result`:
  `Mergeable.pureRead`), so that the harness' histories-with-reads check
  (harness/agg/histories.py, oracle "read-value") compares the real code with a theorem, not with
  a convention of the model.
-/
namespace MlModel.C01
open MlModel.Agg MlModel.Agg.Hist

variable {X S R : Type}

/-- **Every read of every history = the one-shot value** (list of all observations). -/
theorem C01_history_reads_eq_one_shot {m : RMergeable X S R} {Eqv : S → S → Prop}
    (hl : LawfulU m.toMergeable Eqv) (hr : ReadLaws m Eqv) (ops : List (Op X)) :
    (run m ops).obs = obsP m.toMergeable (fun _ => Expr.fresh) ops :=
  run_obs hl hr ops

/-- the same for a read issued after the history: the data of accumulator `i`, in merge order, as
one batch (or a fresh accumulator if no batch ever reached it) -/
theorem C01_history_read_after {m : RMergeable X S R} {Eqv : S → S → Prop}
    (hl : LawfulU m.toMergeable Eqv) (hr : ReadLaws m Eqv) (ops : List (Op X)) (i : Nat) :
    m.result ((run m ops).accs i) =
      m.result (if (prov ops i).fed then m.ofBatch (prov ops i).data else m.empty) :=
  result_after hl hr ops i

/-- for a metric whose fresh state IS the state of one empty batch (`Lawful`) the side condition
"some batch was fed" disappears -/
theorem C01_history_read_after_lawful {m : RMergeable X S R} {Eqv : S → S → Prop}
    (h : Lawful m.toMergeable Eqv) (hr : ReadLaws m Eqv) (ops : List (Op X)) (i : Nat) :
    m.result ((run m ops).accs i) = m.result (m.ofBatch (prov ops i).data) := by
  rw [result_after h.toLawfulU hr ops i, Expr.canon]
  by_cases hf : (prov ops i).fed = true
  · simp only [hf, if_true]
  · simp only [hf]
    rw [Expr.data_of_not_fed (by simpa using hf)]
    exact h.result_congr h.empty_eq

/-- the pure-read model of a lawful metric: all reads of all histories -/
theorem C01_history_pure_reads {m : Mergeable X S R} {Eqv : S → S → Prop} (hl : LawfulU m Eqv)
    (ops : List (Op X)) : (run m.pureRead ops).obs = obsP m (fun _ => Expr.fresh) ops :=
  run_obs (m := m.pureRead) hl (m.pureRead_laws Eqv hl.refl) ops

/-! ## the four families -/

open MlModel.Agg.Rolling in
/-- `MeanAndVariance` / `Var` (1-D and per-column), `Mean` -/
theorem C01_history_rolling_meanvar (k : Nat) :
    (∀ ops, (run mv1.pureRead ops).obs = obsP mv1 (fun _ => Expr.fresh) ops) ∧
    (∀ ops, (run (mv2 k).pureRead ops).obs = obsP (mv2 k) (fun _ => Expr.fresh) ops) ∧
    (∀ ops, (run mean1.pureRead ops).obs = obsP mean1 (fun _ => Expr.fresh) ops) ∧
    (∀ ops, (run (mean2 k).pureRead ops).obs = obsP (mean2 k) (fun _ => Expr.fresh) ops) :=
  ⟨C01_history_pure_reads mv1_lawful.toLawfulU, C01_history_pure_reads (mv2_lawful k).toLawfulU,
   C01_history_pure_reads mean1_lawful.toLawfulU, C01_history_pure_reads (mean2_lawful k).toLawfulU⟩

open MlModel.Agg.Rolling in
/-- the sum-like rolling metrics -/
theorem C01_history_rolling_simple (edges : List Rat) (center : Bool) (k : Nat) :
    (∀ ops, (run meanState.pureRead ops).obs = obsP meanState (fun _ => Expr.fresh) ops) ∧
    (∀ ops, (run counter.pureRead ops).obs = obsP counter (fun _ => Expr.fresh) ops) ∧
    (∀ ops, (run (histogram edges).pureRead ops).obs = obsP (histogram edges) (fun _ => Expr.fresh) ops) ∧
    (∀ ops, (run minMaxAndCount.pureRead ops).obs = obsP minMaxAndCount (fun _ => Expr.fresh) ops) ∧
    (∀ ops, (run r2Tjur.pureRead ops).obs = obsP r2Tjur (fun _ => Expr.fresh) ops) ∧
    (∀ ops, (run r2TjurRelative.pureRead ops).obs = obsP r2TjurRelative (fun _ => Expr.fresh) ops) ∧
    (∀ ops, (run (rRegression center).pureRead ops).obs = obsP (rRegression center) (fun _ => Expr.fresh) ops) ∧
    (∀ ops, (run symPredDiff.pureRead ops).obs = obsP symPredDiff (fun _ => Expr.fresh) ops) ∧
    (∀ ops, (run (tupleMeanState k).pureRead ops).obs = obsP (tupleMeanState k) (fun _ => Expr.fresh) ops) :=
  ⟨C01_history_pure_reads meanState_lawful.toLawfulU, C01_history_pure_reads counter_lawful.toLawfulU,
   C01_history_pure_reads (histogram_lawful edges).toLawfulU, C01_history_pure_reads minMaxAndCount_lawful.toLawfulU,
   C01_history_pure_reads r2Tjur_lawful.toLawfulU, C01_history_pure_reads r2TjurRelative_lawful.toLawfulU,
   C01_history_pure_reads (rRegression_lawful center).toLawfulU, C01_history_pure_reads symPredDiff_lawful.toLawfulU,
   C01_history_pure_reads (tupleMeanState_lawfulU k)⟩

open MlModel.Agg.Rolling in
/-- the order-carrying accumulators: every read returns the concatenation in merge order so far -/
theorem C01_history_rolling_ordered (α : Type) [Inhabited α] (k : Nat) :
    (∀ ops, (run (unboundedSampler α k).pureRead ops).obs
        = obsP (unboundedSampler α k) (fun _ => Expr.fresh) ops) ∧
    (∀ ops, (run (valueAccumulator α k).pureRead ops).obs
        = obsP (valueAccumulator α k) (fun _ => Expr.fresh) ops) :=
  ⟨C01_history_pure_reads (unboundedSampler_lawfulU α k), C01_history_pure_reads (valueAccumulator_lawfulU α k)⟩

open MlModel.Agg.Confusion in
/-- classification: the confusion-matrix accumulator over the encoded (dense) examples, micro and
macro layout -/
theorem C01_history_classification_dense (axis : Option Nat) (W : Nat)
    (h : axis = none ∨ axis = some 0) (ops : List (Op DenseEx)) :
    (run (denseAgg axis W).pureRead ops).obs = obsP (denseAgg axis W) (fun _ => Expr.fresh) ops :=
  C01_history_pure_reads (denseAgg_lawful axis W h).toLawfulU ops

section retrieval
open MlModel.Agg.Retrieval
variable {α : Type} [DecidableEq α]

/-- retrieval: `TopKRetrieval`, `ThresholdedRetrieval`, `MeanState` -/
theorem C01_history_retrieval (cfg : Config) (h : cfg.KsPos) (ts : List Rat) :
    (∀ ops, (run (mergeable (α := α) cfg).pureRead ops).obs
        = obsP (mergeable (α := α) cfg) (fun _ => Expr.fresh) ops) ∧
    (∀ ops, (run (Thr.mergeableOk (α := α) ts).pureRead ops).obs
        = obsP (Thr.mergeableOk (α := α) ts) (fun _ => Expr.fresh) ops) ∧
    (∀ ops, (run meanMergeable.pureRead ops).obs = obsP meanMergeable (fun _ => Expr.fresh) ops) :=
  ⟨C01_history_pure_reads (C01_retrieval_topk_lawful cfg h).toLawfulU,
   C01_history_pure_reads (C01_retrieval_thresholded_lawful ts).toLawfulU,
   C01_history_pure_reads C01_retrieval_mean_lawful.toLawfulU⟩
end retrieval

open MlModel.Agg.Text in
/-- text: `TopKWordNGrams` / `PatternFrequency` (on the well-formed states the code produces) -/
theorem C01_history_text (m : Metric) (ops : List (Op Str)) :
    (run m.mergeableW.pureRead ops).obs = obsP m.mergeableW (fun _ => Expr.fresh) ops :=
  C01_history_pure_reads (lawful m).toLawfulU ops

/-! ## non-vacuity: a concrete report-then-merge history of `MeanState` (test) -/

open MlModel.Agg.Rolling in
example :
    (run meanState.pureRead
      [.new 0, .new 1, .add 0 [1, 2], .read 0, .add 1 [6], .read 1, .mergeStates 0 [1], .read 0,
       .add 0 [3], .read 0, .read 1]).obs = [3 / 2, 6, 3, 3, 6] := by
  decide +kernel

end MlModel.C01
